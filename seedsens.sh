#!/bin/sh
# seedsens.sh <patch.diff> <ID> [tier]  - development helper: run a check against a scratch worktree of
# /repo with the patch applied (VERIF_DEV_REPO), so that several experiments can run side by side and
# /repo is never touched. Replay/evidence files go to /tmp/verif-devout/<name>/. The official way to run
# a check against a change (apply to /repo, run, revert) is sens.sh.
patch="$(readlink -f "$1")"; id="$2"; tier="${3:-quick}"
name=$(echo "$patch $id" | md5sum | cut -c1-10)
WT=/tmp/senswt/$name
mkdir -p /tmp/senswt; [ -d $WT ] && git -C /repo worktree remove --force $WT
git -C /repo worktree add -q --detach $WT HEAD || exit 2
git -C $WT apply "$patch" || { echo "seedsens: patch does not apply"; git -C /repo worktree remove --force $WT; exit 2; }
VERIF_DEV_REPO=$WT VERIF_DEV_OUT=/tmp/verif-devout/$name /verif/check "$id" "$tier"; rc=$?
git -C /repo worktree remove --force $WT
echo "seedsens: $patch $id exit=$rc out=/tmp/verif-devout/$name"
exit $rc
