// Command instrument inserts yield points into a SCRATCH COPY of the
// repository (never /repo itself) and drops the verif-tagged helper files in.
//
//	instrument -repo <scratch copy> -hooks /verif/hooks [-sites /verif/hooks/sites.txt]
//
// A site whose anchor is not found is skipped and reported; the tool never
// fails because of it (DESIGN 2.6).
package main

import (
	"bufio"
	"encoding/json"
	"flag"
	"fmt"
	"go/ast"
	"go/parser"
	"go/token"
	"io"
	"os"
	"path/filepath"
	"regexp"
	"sort"
	"strconv"
	"strings"
)

type site struct {
	Name   string
	File   string
	Func   string // regex matched against the "func ..." line
	Anchor string // regex matched against lines of the function body
	Occ    int    // 1-based occurrence
	After  bool
}

func parseSites(path string) ([]site, error) {
	f, err := os.Open(path)
	if err != nil {
		return nil, err
	}
	defer f.Close()
	var out []site
	sc := bufio.NewScanner(f)
	ln := 0
	for sc.Scan() {
		ln++
		line := strings.TrimSpace(sc.Text())
		if line == "" || strings.HasPrefix(line, "#") {
			continue
		}
		// name | file | func regex | anchor regex | occ | before/after
		parts := strings.Split(line, " | ")
		if len(parts) != 6 {
			return nil, fmt.Errorf("%s:%d: want 6 fields separated by ' | '", path, ln)
		}
		occ, err := strconv.Atoi(strings.TrimSpace(parts[4]))
		if err != nil {
			return nil, fmt.Errorf("%s:%d: occ: %v", path, ln, err)
		}
		out = append(out, site{
			Name: strings.TrimSpace(parts[0]), File: strings.TrimSpace(parts[1]),
			Func: strings.TrimSpace(parts[2]), Anchor: strings.TrimSpace(parts[3]),
			Occ: occ, After: strings.TrimSpace(parts[5]) == "after",
		})
	}
	return out, sc.Err()
}

const hookImport = "\tverifhook \"github.com/bluenviron/gortsplib/v5/pkg/verifhook\"\n"

func addImport(src string) (string, bool) {
	if strings.Contains(src, "pkg/verifhook\"") {
		return src, true
	}
	if i := strings.Index(src, "\nimport (\n"); i >= 0 {
		j := i + len("\nimport (\n")
		return src[:j] + hookImport + src[j:], true
	}
	re := regexp.MustCompile(`(?m)^import "[^"]+"\n`)
	if loc := re.FindStringIndex(src); loc != nil {
		return src[:loc[1]] + "import (\n" + hookImport + ")\n" + src[loc[1]:], true
	}
	re = regexp.MustCompile(`(?m)^package \w+\n`)
	if loc := re.FindStringIndex(src); loc != nil {
		return src[:loc[1]] + "\nimport (\n" + hookImport + ")\n" + src[loc[1]:], true
	}
	return src, false
}

func applySite(lines []string, s site) ([]string, bool) {
	fre, err := regexp.Compile(s.Func)
	if err != nil {
		return lines, false
	}
	are, err := regexp.Compile(s.Anchor)
	if err != nil {
		return lines, false
	}
	for i := 0; i < len(lines); i++ {
		if !strings.HasPrefix(lines[i], "func ") || !fre.MatchString(lines[i]) {
			continue
		}
		occ := 0
		for j := i + 1; j < len(lines); j++ {
			if lines[j] == "}" {
				break
			}
			if strings.Contains(lines[j], "verifhook.Point(") {
				continue
			}
			if are.MatchString(lines[j]) {
				occ++
				if occ == s.Occ {
					indent := lines[j][:len(lines[j])-len(strings.TrimLeft(lines[j], "\t "))]
					ins := indent + "verifhook.Point(" + strconv.Quote(s.Name) + ")"
					at := j
					if s.After {
						at = j + 1
					}
					out := append([]string{}, lines[:at]...)
					out = append(out, ins)
					out = append(out, lines[at:]...)
					return out, true
				}
			}
		}
		return lines, false
	}
	return lines, false
}

func copyFile(dst, src string) error {
	in, err := os.Open(src)
	if err != nil {
		return err
	}
	defer in.Close()
	if err := os.MkdirAll(filepath.Dir(dst), 0o755); err != nil {
		return err
	}
	out, err := os.Create(dst)
	if err != nil {
		return err
	}
	defer out.Close()
	_, err = io.Copy(out, in)
	return err
}

func main() {
	repo := flag.String("repo", "", "scratch copy of the repository")
	hooks := flag.String("hooks", "/verif/hooks", "directory with files to drop in and sites.txt")
	report := flag.String("report", "", "write a JSON report here")
	flag.Parse()
	if *repo == "" {
		fmt.Fprintln(os.Stderr, "instrument: -repo required")
		os.Exit(2)
	}
	abs, _ := filepath.Abs(*repo)
	if abs == "/repo" || strings.HasPrefix(abs, "/repo/") {
		fmt.Fprintln(os.Stderr, "instrument: refusing to touch /repo; use a scratch copy")
		os.Exit(2)
	}
	sites, err := parseSites(filepath.Join(*hooks, "sites.txt"))
	if err != nil {
		fmt.Fprintln(os.Stderr, "instrument:", err)
		os.Exit(2)
	}
	byFile := map[string][]site{}
	var order []string
	for _, s := range sites {
		if _, ok := byFile[s.File]; !ok {
			order = append(order, s.File)
		}
		byFile[s.File] = append(byFile[s.File], s)
	}
	var inserted, skipped []string
	for _, file := range order {
		path := filepath.Join(abs, file)
		b, err := os.ReadFile(path)
		if err != nil {
			for _, s := range byFile[file] {
				skipped = append(skipped, s.Name)
			}
			continue
		}
		orig := string(b)
		lines := strings.Split(orig, "\n")
		n := 0
		for _, s := range byFile[file] {
			var ok bool
			lines, ok = applySite(lines, s)
			if ok {
				inserted = append(inserted, s.Name)
				n++
			} else {
				skipped = append(skipped, s.Name)
			}
		}
		if n == 0 {
			continue
		}
		src, ok := addImport(strings.Join(lines, "\n"))
		if ok {
			if _, perr := parser.ParseFile(token.NewFileSet(), path, src, 0); perr != nil {
				ok = false
			}
		}
		if !ok {
			// leave the file as it was; all its sites count as skipped
			for _, s := range byFile[file] {
				for i, nm := range inserted {
					if nm == s.Name {
						inserted = append(inserted[:i], inserted[i+1:]...)
						skipped = append(skipped, nm)
						break
					}
				}
			}
			continue
		}
		if err := os.WriteFile(path, []byte(src), 0o644); err != nil {
			fmt.Fprintln(os.Stderr, "instrument:", err)
			os.Exit(2)
		}
	}
	// drop-in files
	// ---- automatic yield points (one before every statement of the files listed in
	// autoyield.txt) and simulation-aware locks (sync.Mutex / sync.RWMutex declarations of the
	// library rewritten to the verifhook types, which behave like the runtime's unless
	// verifhook.SimLocks is set by a run). Both are applied to the scratch copy only; a file that
	// does not parse afterwards is left as it was and reported.
	nAuto, autoSkipped := autoYield(abs, filepath.Join(*hooks, "autoyield.txt"))
	nLocks, lockSkipped := rewriteLocks(abs)
	skipped = append(skipped, autoSkipped...)
	skipped = append(skipped, lockSkipped...)
	nOrd := 0
	if os.Getenv("INSTRUMENT_NO_ORDER") == "" {
		var ordSkipped []string
		nOrd, ordSkipped = orderMapRanges(abs)
		skipped = append(skipped, ordSkipped...)
	}
	fmt.Printf("instrument: %d automatic yield points, %d lock declarations rewritten, %d map ranges ordered\n", nAuto, nLocks, nOrd)
	drops := []string{"pkg/verifhook/hook.go", "pkg/verifhook/locks.go", "export_verif.go", "pkg/multicast/sim_verif.go"}
	for _, d := range drops {
		if err := copyFile(filepath.Join(abs, d), filepath.Join(*hooks, d)); err != nil {
			fmt.Fprintln(os.Stderr, "instrument:", err)
			os.Exit(2)
		}
	}
	// The OS-facing multicast sockets (raw syscalls, no seam) are replaced in the scratch copy by
	// sim_verif.go, which goes through the ListenPacket seam: the platform files are removed so
	// that the two constructors are defined once. Only the scratch copy is touched.
	for _, d := range []string{"pkg/multicast/multi_conn_linux.go", "pkg/multicast/single_conn_linux.go"} {
		if err := os.Remove(filepath.Join(abs, d)); err != nil && !os.IsNotExist(err) {
			fmt.Fprintln(os.Stderr, "instrument:", err)
			os.Exit(2)
		}
	}
	// The one call that asks the operating system for its interfaces (net.Interfaces has no seam):
	// in the scratch copy it goes through verifInterfaceOfConn (export_verif.go), which answers for
	// simulated node addresses and leaves loopback addresses to the real function. If the call is
	// not found as written the copy is left alone (multicast readers then need a loopback address).
	if b, err := os.ReadFile(filepath.Join(abs, "client.go")); err == nil {
		const from, to = "intf, err = interfaceOfConn(c.nconn)", "intf, err = verifInterfaceOfConn(c.nconn)"
		if strings.Count(string(b), from) == 1 {
			os.WriteFile(filepath.Join(abs, "client.go"), []byte(strings.Replace(string(b), from, to, 1)), 0o644)
			fmt.Println("instrument: interface lookup of the multicast client goes through verifInterfaceOfConn")
		} else {
			fmt.Println("instrument: interface lookup left alone (call not found as written)")
		}
	}
	rep := map[string]any{"inserted": inserted, "skipped": skipped}
	if *report != "" {
		b, _ := json.MarshalIndent(rep, "", " ")
		os.WriteFile(*report, b, 0o644)
	}
	fmt.Printf("instrument: %d sites inserted, %d skipped %v\n", len(inserted), len(skipped), skipped)
}

// autoYield inserts verifhook.Point("auto:<file>:<func>:<n>") before every statement of every
// function body (nested blocks and case bodies included) of the listed files. n counts the
// statements of one function in source order, so that the names do not depend on line numbers.
func autoYield(root, list string) (int, []string) {
	b, err := os.ReadFile(list)
	if err != nil {
		return 0, nil
	}
	total := 0
	var skipped []string
	for _, line := range strings.Split(string(b), "\n") {
		file := strings.TrimSpace(line)
		if file == "" || strings.HasPrefix(file, "#") {
			continue
		}
		path := filepath.Join(root, file)
		src, err := os.ReadFile(path)
		if err != nil {
			skipped = append(skipped, "auto:"+file)
			continue
		}
		fset := token.NewFileSet()
		f, err := parser.ParseFile(fset, path, src, parser.ParseComments)
		if err != nil {
			skipped = append(skipped, "auto:"+file)
			continue
		}
		type ins struct {
			off  int
			text string
		}
		var inss []ins
		base := strings.TrimSuffix(filepath.Base(file), ".go")
		for _, d := range f.Decls {
			fd, ok := d.(*ast.FuncDecl)
			if !ok || fd.Body == nil {
				continue
			}
			name := fd.Name.Name
			if fd.Recv != nil && len(fd.Recv.List) == 1 {
				t := fd.Recv.List[0].Type
				if st, ok := t.(*ast.StarExpr); ok {
					t = st.X
				}
				if id, ok := t.(*ast.Ident); ok {
					name = id.Name + "." + name
				}
			}
			n := 0
			var visit func(list []ast.Stmt)
			visit = func(list []ast.Stmt) {
				for _, st := range list {
					switch st.(type) {
					case *ast.CaseClause, *ast.CommClause:
						// the "statements" of a switch / select body are its clauses
					default:
						n++
						inss = append(inss, ins{fset.Position(st.Pos()).Offset, fmt.Sprintf("verifhook.Point(%q); ", fmt.Sprintf("auto:%s:%s:%d", base, name, n))})
					}
					ast.Inspect(st, func(x ast.Node) bool {
						switch y := x.(type) {
						case *ast.BlockStmt:
							if y != nil {
								visit(y.List)
							}
							return false
						case *ast.CaseClause:
							visit(y.Body)
							return false
						case *ast.CommClause:
							visit(y.Body)
							return false
						case *ast.FuncLit:
							if y.Body != nil {
								visit(y.Body.List)
							}
							return false
						}
						return true
					})
				}
			}
			visit(fd.Body.List)
		}
		sort.Slice(inss, func(i, j int) bool { return inss[i].off > inss[j].off })
		out := string(src)
		for _, i := range inss {
			out = out[:i.off] + i.text + out[i.off:]
		}
		out2, ok := addImport(out)
		if ok {
			if _, perr := parser.ParseFile(token.NewFileSet(), path, out2, 0); perr != nil {
				ok = false
				if os.Getenv("INSTRUMENT_DEBUG") != "" {
					fmt.Fprintln(os.Stderr, "auto:", file, perr)
				}
			}
		}
		if !ok {
			skipped = append(skipped, "auto:"+file)
			continue
		}
		if err := os.WriteFile(path, []byte(out2), 0o644); err != nil {
			skipped = append(skipped, "auto:"+file)
			continue
		}
		total += len(inss)
	}
	return total, skipped
}

var lockDecl = regexp.MustCompile(`(\s)sync\.(RW)?Mutex\b`)

// rewriteLocks replaces the sync.Mutex / sync.RWMutex declarations of the library (root package,
// pkg/, internal/; not tests, not examples) by verifhook.Mutex / verifhook.RWMutex.
func rewriteLocks(root string) (int, []string) {
	total := 0
	var skipped []string
	filepath.WalkDir(root, func(path string, d os.DirEntry, err error) error {
		if err != nil {
			return nil
		}
		rel, _ := filepath.Rel(root, path)
		if d.IsDir() {
			if rel == "examples" || rel == "pkg/verifhook" || strings.HasPrefix(d.Name(), ".") && rel != "." {
				return filepath.SkipDir
			}
			return nil
		}
		if !strings.HasSuffix(path, ".go") || strings.HasSuffix(path, "_test.go") {
			return nil
		}
		b, err := os.ReadFile(path)
		if err != nil || !lockDecl.Match(b) {
			return nil
		}
		n := len(lockDecl.FindAll(b, -1))
		out := lockDecl.ReplaceAllString(string(b), "${1}verifhook.${2}Mutex")
		if !strings.Contains(strings.ReplaceAll(out, "\"sync\"", ""), "sync.") {
			out = strings.Replace(out, "\t\"sync\"\n", "", 1)
		}
		out2, ok := addImport(out)
		if ok {
			if _, perr := parser.ParseFile(token.NewFileSet(), path, out2, 0); perr != nil {
				ok = false
			}
		}
		if !ok {
			skipped = append(skipped, "locks:"+rel)
			return nil
		}
		if os.WriteFile(path, []byte(out2), 0o644) == nil {
			total += n
		}
		return nil
	})
	return total, skipped
}

var orderedMaps = regexp.MustCompile(`^(setuppedMedias|prevMedias)$|\.(setuppedMedias|medias|formats|sessions|localSSRCs)$`)

// orderMapRanges makes the iteration order of the library's maps of medias / formats / sessions a
// function of the run (root package, non-test files): `for k, v := range m {` becomes
// `for _, k := range verifOrder(m) { v, ok := m[k]; if !ok { continue }` where verifOrder
// (export_verif.go) returns the keys sorted by what identifies them (control attribute, payload
// type, id) and rotated by the run's seed. Go randomises map iteration per process; with this a
// replay sees the order of the run it replays. Any order is one the unchanged code can produce.
func orderMapRanges(root string) (int, []string) {
	total := 0
	var skipped []string
	ents, _ := os.ReadDir(root)
	for _, d := range ents {
		name := d.Name()
		if d.IsDir() || !strings.HasSuffix(name, ".go") || strings.HasSuffix(name, "_test.go") || name == "export_verif.go" {
			continue
		}
		path := filepath.Join(root, name)
		src, err := os.ReadFile(path)
		if err != nil {
			continue
		}
		fset := token.NewFileSet()
		f, err := parser.ParseFile(fset, path, src, parser.ParseComments)
		if err != nil {
			continue
		}
		type rep struct {
			from, to int
			text     string
		}
		var reps []rep
		n := 0
		ast.Inspect(f, func(x ast.Node) bool {
			rs, ok := x.(*ast.RangeStmt)
			if !ok || rs.Tok != token.DEFINE || rs.Key == nil || rs.Body == nil {
				return true
			}
			xs := string(src[fset.Position(rs.X.Pos()).Offset:fset.Position(rs.X.End()).Offset])
			if strings.ContainsAny(xs, "(\n") || !orderedMaps.MatchString(xs) {
				return true
			}
			key := "_"
			if id, ok := rs.Key.(*ast.Ident); ok {
				key = id.Name
			} else {
				return true
			}
			val := ""
			if rs.Value != nil {
				id, ok := rs.Value.(*ast.Ident)
				if !ok {
					return true
				}
				val = id.Name
			}
			n++
			if key == "_" {
				if val == "" || val == "_" {
					return true // only counts the entries
				}
				key = fmt.Sprintf("verifK%d", n)
			}
			text := fmt.Sprintf("for _, %s := range verifOrder(%s) {", key, xs)
			if val != "" && val != "_" {
				text += fmt.Sprintf(" %s, verifOK := %s[%s]; if !verifOK { continue };", val, xs, key)
			}
			reps = append(reps, rep{fset.Position(rs.For).Offset, fset.Position(rs.Body.Lbrace).Offset + 1, text})
			return true
		})
		if len(reps) == 0 {
			continue
		}
		sort.Slice(reps, func(i, j int) bool { return reps[i].from > reps[j].from })
		out := string(src)
		for _, r := range reps {
			out = out[:r.from] + r.text + out[r.to:]
		}
		if _, perr := parser.ParseFile(token.NewFileSet(), path, out, 0); perr != nil {
			skipped = append(skipped, "order:"+name)
			continue
		}
		if os.WriteFile(path, []byte(out), 0o644) == nil {
			total += len(reps)
		}
	}
	return total, skipped
}
