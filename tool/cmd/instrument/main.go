// Command instrument inserts yield points into a SCRATCH COPY of the
// repository (never /repo itself) and drops the verif-tagged helper files in.
//
//	instrument -repo <scratch copy> -hooks /verif/hooks [-sites /verif/hooks/sites.txt]
//
// A site whose anchor is not found is skipped and reported; the tool never
// fails because of it (DESIGN 2.6).
package main

import (
	"bufio"
	"encoding/json"
	"flag"
	"fmt"
	"go/parser"
	"go/token"
	"io"
	"os"
	"path/filepath"
	"regexp"
	"strconv"
	"strings"
)

type site struct {
	Name   string
	File   string
	Func   string // regex matched against the "func ..." line
	Anchor string // regex matched against lines of the function body
	Occ    int    // 1-based occurrence
	After  bool
}

func parseSites(path string) ([]site, error) {
	f, err := os.Open(path)
	if err != nil {
		return nil, err
	}
	defer f.Close()
	var out []site
	sc := bufio.NewScanner(f)
	ln := 0
	for sc.Scan() {
		ln++
		line := strings.TrimSpace(sc.Text())
		if line == "" || strings.HasPrefix(line, "#") {
			continue
		}
		// name | file | func regex | anchor regex | occ | before/after
		parts := strings.Split(line, " | ")
		if len(parts) != 6 {
			return nil, fmt.Errorf("%s:%d: want 6 fields separated by ' | '", path, ln)
		}
		occ, err := strconv.Atoi(strings.TrimSpace(parts[4]))
		if err != nil {
			return nil, fmt.Errorf("%s:%d: occ: %v", path, ln, err)
		}
		out = append(out, site{
			Name: strings.TrimSpace(parts[0]), File: strings.TrimSpace(parts[1]),
			Func: strings.TrimSpace(parts[2]), Anchor: strings.TrimSpace(parts[3]),
			Occ: occ, After: strings.TrimSpace(parts[5]) == "after",
		})
	}
	return out, sc.Err()
}

const hookImport = "\tverifhook \"github.com/bluenviron/gortsplib/v5/pkg/verifhook\"\n"

func addImport(src string) (string, bool) {
	if strings.Contains(src, "pkg/verifhook\"") {
		return src, true
	}
	if i := strings.Index(src, "\nimport (\n"); i >= 0 {
		j := i + len("\nimport (\n")
		return src[:j] + hookImport + src[j:], true
	}
	re := regexp.MustCompile(`(?m)^import "[^"]+"\n`)
	if loc := re.FindStringIndex(src); loc != nil {
		return src[:loc[1]] + "import (\n" + hookImport + ")\n" + src[loc[1]:], true
	}
	re = regexp.MustCompile(`(?m)^package \w+\n`)
	if loc := re.FindStringIndex(src); loc != nil {
		return src[:loc[1]] + "\nimport (\n" + hookImport + ")\n" + src[loc[1]:], true
	}
	return src, false
}

func applySite(lines []string, s site) ([]string, bool) {
	fre, err := regexp.Compile(s.Func)
	if err != nil {
		return lines, false
	}
	are, err := regexp.Compile(s.Anchor)
	if err != nil {
		return lines, false
	}
	for i := 0; i < len(lines); i++ {
		if !strings.HasPrefix(lines[i], "func ") || !fre.MatchString(lines[i]) {
			continue
		}
		occ := 0
		for j := i + 1; j < len(lines); j++ {
			if lines[j] == "}" {
				break
			}
			if strings.Contains(lines[j], "verifhook.Point(") {
				continue
			}
			if are.MatchString(lines[j]) {
				occ++
				if occ == s.Occ {
					indent := lines[j][:len(lines[j])-len(strings.TrimLeft(lines[j], "\t "))]
					ins := indent + "verifhook.Point(" + strconv.Quote(s.Name) + ")"
					at := j
					if s.After {
						at = j + 1
					}
					out := append([]string{}, lines[:at]...)
					out = append(out, ins)
					out = append(out, lines[at:]...)
					return out, true
				}
			}
		}
		return lines, false
	}
	return lines, false
}

func copyFile(dst, src string) error {
	in, err := os.Open(src)
	if err != nil {
		return err
	}
	defer in.Close()
	if err := os.MkdirAll(filepath.Dir(dst), 0o755); err != nil {
		return err
	}
	out, err := os.Create(dst)
	if err != nil {
		return err
	}
	defer out.Close()
	_, err = io.Copy(out, in)
	return err
}

func main() {
	repo := flag.String("repo", "", "scratch copy of the repository")
	hooks := flag.String("hooks", "/verif/hooks", "directory with files to drop in and sites.txt")
	report := flag.String("report", "", "write a JSON report here")
	flag.Parse()
	if *repo == "" {
		fmt.Fprintln(os.Stderr, "instrument: -repo required")
		os.Exit(2)
	}
	abs, _ := filepath.Abs(*repo)
	if abs == "/repo" || strings.HasPrefix(abs, "/repo/") {
		fmt.Fprintln(os.Stderr, "instrument: refusing to touch /repo; use a scratch copy")
		os.Exit(2)
	}
	sites, err := parseSites(filepath.Join(*hooks, "sites.txt"))
	if err != nil {
		fmt.Fprintln(os.Stderr, "instrument:", err)
		os.Exit(2)
	}
	byFile := map[string][]site{}
	var order []string
	for _, s := range sites {
		if _, ok := byFile[s.File]; !ok {
			order = append(order, s.File)
		}
		byFile[s.File] = append(byFile[s.File], s)
	}
	var inserted, skipped []string
	for _, file := range order {
		path := filepath.Join(abs, file)
		b, err := os.ReadFile(path)
		if err != nil {
			for _, s := range byFile[file] {
				skipped = append(skipped, s.Name)
			}
			continue
		}
		orig := string(b)
		lines := strings.Split(orig, "\n")
		n := 0
		for _, s := range byFile[file] {
			var ok bool
			lines, ok = applySite(lines, s)
			if ok {
				inserted = append(inserted, s.Name)
				n++
			} else {
				skipped = append(skipped, s.Name)
			}
		}
		if n == 0 {
			continue
		}
		src, ok := addImport(strings.Join(lines, "\n"))
		if ok {
			if _, perr := parser.ParseFile(token.NewFileSet(), path, src, 0); perr != nil {
				ok = false
			}
		}
		if !ok {
			// leave the file as it was; all its sites count as skipped
			for _, s := range byFile[file] {
				for i, nm := range inserted {
					if nm == s.Name {
						inserted = append(inserted[:i], inserted[i+1:]...)
						skipped = append(skipped, nm)
						break
					}
				}
			}
			continue
		}
		if err := os.WriteFile(path, []byte(src), 0o644); err != nil {
			fmt.Fprintln(os.Stderr, "instrument:", err)
			os.Exit(2)
		}
	}
	// drop-in files
	drops := []string{"pkg/verifhook/hook.go", "export_verif.go", "pkg/multicast/sim_verif.go"}
	for _, d := range drops {
		if err := copyFile(filepath.Join(abs, d), filepath.Join(*hooks, d)); err != nil {
			fmt.Fprintln(os.Stderr, "instrument:", err)
			os.Exit(2)
		}
	}
	// The OS-facing multicast sockets (raw syscalls, no seam) are replaced in the scratch copy by
	// sim_verif.go, which goes through the ListenPacket seam: the platform files are removed so
	// that the two constructors are defined once. Only the scratch copy is touched.
	for _, d := range []string{"pkg/multicast/multi_conn_linux.go", "pkg/multicast/single_conn_linux.go"} {
		if err := os.Remove(filepath.Join(abs, d)); err != nil && !os.IsNotExist(err) {
			fmt.Fprintln(os.Stderr, "instrument:", err)
			os.Exit(2)
		}
	}
	rep := map[string]any{"inserted": inserted, "skipped": skipped}
	if *report != "" {
		b, _ := json.MarshalIndent(rep, "", " ")
		os.WriteFile(*report, b, 0o644)
	}
	fmt.Printf("instrument: %d sites inserted, %d skipped %v\n", len(inserted), len(skipped), skipped)
}
