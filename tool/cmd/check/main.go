// Command check is the parent side of the simulator: it copies /repo's
// working tree to a scratch directory, instruments the copy, builds the
// harness test binary against it, fans out worker processes over disjoint
// seed ranges, aggregates, minimises and replay-verifies violations, matches
// them against known_findings.txt and writes the evidence file.
//
//	check <ID> quick|thorough
//	check <ID> --replay <file>
//	check selftest-determinism [<ID>...]
//
// Exit codes: 0 held, 1 VIOLATION, 2 build / tool / watchdog trouble.
package main

import (
	"crypto/sha256"
	"encoding/hex"
	"encoding/json"
	"fmt"
	"io/fs"
	"os"
	"os/exec"
	"path/filepath"
	"runtime"
	"sort"
	"strconv"
	"strings"
	"sync"
	"time"
)

const (
	verifDir = "/verif"
	goBin    = "go1.26.8"
)

// repoDir is /repo. VERIF_DEV_REPO (development only: sensitivity experiments on several
// patched scratch worktrees at once, never used by a registered command) points the check
// at another copy of the library; its replay and evidence files then go to outDir
// (VERIF_DEV_OUT, default /tmp/verif-devout) instead of /verif.
var (
	repoDir = "/repo"
	outDir  = verifDir
)

func init() {
	if v := os.Getenv("VERIF_DEV_REPO"); v != "" {
		repoDir = v
		outDir = "/tmp/verif-devout"
		if o := os.Getenv("VERIF_DEV_OUT"); o != "" {
			outDir = o
		}
	}
}

type foundViolation struct {
	Property string          `json:"property"`
	Seed     uint64          `json:"seed"`
	Scenario json.RawMessage `json:"scenario"`
	Class    string          `json:"class"`
	Detail   string          `json:"detail"`
	Tail     []string        `json:"tail,omitempty"`
}

type summary struct {
	Property     string            `json:"property"`
	Worker       int               `json:"worker"`
	Runs         int               `json:"runs"`
	Nontrivial   int               `json:"nontrivial"`
	Sigs         []uint64          `json:"sigs"`
	Faults       map[string]int    `json:"faults"`
	Probes       map[string]int    `json:"probes"`
	YieldHits    map[string]int    `json:"yield_hits"`
	SimNS        int64             `json:"sim_ns"`
	SimS         float64           `json:"sim_s"`
	Steps        int64             `json:"steps"`
	Inconclusive int               `json:"inconclusive"`
	Samples      []any             `json:"samples"`
	FirstSeed    uint64            `json:"first_seed"`
	LastSeed     uint64            `json:"last_seed"`
	WallS        float64           `json:"wall_s"`
	Violation    *foundViolation   `json:"violation,omitempty"`
	Known        []*foundViolation `json:"known,omitempty"`
}

type replayFile struct {
	Property  string          `json:"property"`
	Seed      uint64          `json:"seed"`
	Scenario  json.RawMessage `json:"scenario"`
	Class     string          `json:"class"`
	Detail    string          `json:"detail"`
	Tail      []string        `json:"tail,omitempty"`
	Tree      string          `json:"tree,omitempty"`
	Minimised bool            `json:"minimised"`
	// Repro: "k/n" when the violation reproduced in k of n replays only (choices of the Go runtime
	// that no seed controls, e.g. which ready case a select takes, decide the rest).
	Repro string `json:"reproduced,omitempty"`
}

type runResult struct {
	Violation *struct {
		Class  string `json:"class"`
		Detail string `json:"detail"`
	} `json:"violation,omitempty"`
	Tail    []string `json:"tail,omitempty"`
	FullLog []string `json:"full_log,omitempty"`
	Sig     uint64   `json:"sig"`
}

type env struct {
	scratch string
	bin     string
	instr   map[string]any
	tree    string
}

func die(code int, format string, args ...any) {
	fmt.Fprintf(os.Stderr, "check: "+format+"\n", args...)
	os.Exit(code)
}

func goEnv() []string {
	e := os.Environ()
	e = append(e, "GOFLAGS=-mod=mod", "GOPROXY=off", "GOSUMDB=off", "GOTOOLCHAIN=local", "GONOSUMDB=*", "GONOSUMCHECK=1", "GOFLAGS=-mod=mod")
	return e
}

func run(dir string, envv []string, name string, args ...string) (string, error) {
	cmd := exec.Command(name, args...)
	cmd.Dir = dir
	cmd.Env = envv
	out, err := cmd.CombinedOutput()
	return string(out), err
}

// treeFingerprint hashes the .go files, go.mod and go.sum of the working tree.
func treeFingerprint(root string) string {
	h := sha256.New()
	var files []string
	filepath.WalkDir(root, func(p string, d fs.DirEntry, err error) error {
		if err != nil {
			return nil
		}
		if d.IsDir() {
			if d.Name() == ".git" {
				return filepath.SkipDir
			}
			return nil
		}
		if strings.HasSuffix(p, ".go") || strings.HasSuffix(p, "go.mod") || strings.HasSuffix(p, "go.sum") {
			files = append(files, p)
		}
		return nil
	})
	sort.Strings(files)
	for _, f := range files {
		b, _ := os.ReadFile(f)
		h.Write([]byte(f))
		h.Write(b)
	}
	return hex.EncodeToString(h.Sum(nil))[:16]
}

func copyTree(dst, src string, skip func(rel string, d fs.DirEntry) bool) error {
	return filepath.WalkDir(src, func(p string, d fs.DirEntry, err error) error {
		if err != nil {
			return err
		}
		rel, _ := filepath.Rel(src, p)
		if rel != "." && skip != nil && skip(rel, d) {
			if d.IsDir() {
				return filepath.SkipDir
			}
			return nil
		}
		target := filepath.Join(dst, rel)
		if d.IsDir() {
			return os.MkdirAll(target, 0o755)
		}
		if !d.Type().IsRegular() {
			return nil
		}
		b, err := os.ReadFile(p)
		if err != nil {
			return err
		}
		return os.WriteFile(target, b, 0o644)
	})
}

// build prepares the scratch copy and the worker binary.
func build() *env {
	scratch, err := os.MkdirTemp("", "verifsim.")
	if err != nil {
		die(2, "mktemp: %v", err)
	}
	e := &env{scratch: scratch}
	e.tree = treeFingerprint(repoDir)
	// prepare copies the working tree and instruments the copy (noOrder: without the ordered-map-range
	// pass, the fallback when that pass meets code it cannot rewrite soundly).
	prepare := func(noOrder bool) {
		os.RemoveAll(filepath.Join(scratch, "repo"))
		if err := copyTree(filepath.Join(scratch, "repo"), repoDir, func(rel string, d fs.DirEntry) bool {
			if d.IsDir() && (rel == ".git" || rel == "examples" || rel == ".github" || rel == "scripts") {
				return true
			}
			return !d.IsDir() && strings.HasSuffix(rel, "_test.go")
		}); err != nil {
			cleanup(e)
			die(2, "copy repo: %v", err)
		}
		envv := os.Environ()
		if noOrder {
			envv = append(envv, "INSTRUMENT_NO_ORDER=1")
		}
		rep := filepath.Join(scratch, "instrument.json")
		out, err := run(scratch, envv, filepath.Join(verifDir, "bin", "instrument"),
			"-repo", filepath.Join(scratch, "repo"), "-hooks", filepath.Join(verifDir, "hooks"), "-report", rep)
		if err != nil {
			cleanup(e)
			die(2, "instrument failed: %v\n%s", err, out)
		}
		if b, err := os.ReadFile(rep); err == nil {
			json.Unmarshal(b, &e.instr)
		}
	}
	prepare(false)
	if err := copyTree(filepath.Join(scratch, "sim"), filepath.Join(verifDir, "sim"), nil); err != nil {
		cleanup(e)
		die(2, "copy sim: %v", err)
	}
	// go.mod / go.sum for the harness copy
	gomod, err := os.ReadFile(filepath.Join(verifDir, "sim", "go.mod.tmpl"))
	if err != nil {
		cleanup(e)
		die(2, "read go.mod.tmpl: %v", err)
	}
	// take the repository's own requirements so that dependency versions are
	// exactly the ones the repository pins
	os.WriteFile(filepath.Join(scratch, "sim", "go.mod"), gomod, 0o644)
	sumA, _ := os.ReadFile(filepath.Join(repoDir, "go.sum"))
	sumB, _ := os.ReadFile(filepath.Join(verifDir, "sim", "go.sum.extra"))
	os.WriteFile(filepath.Join(scratch, "sim", "go.sum"), append(sumA, sumB...), 0o644)

	e.bin = filepath.Join(scratch, "sim.test")
	t0 := time.Now()
	// A scenario family that does not compile (e.g. against an edited /repo whose
	// API it uses changed) must not take the other properties' checks down with
	// it: build the families first and link only those that compile.
	simDir := filepath.Join(scratch, "sim")
	var fams []string
	if ents, rerr := os.ReadDir(filepath.Join(simDir, "scen")); rerr == nil {
		for _, en := range ents {
			if en.IsDir() {
				fams = append(fams, en.Name())
			}
		}
	}
	bout, berr := run(simDir, goEnv(), goBin, "build", "-tags", "verif", "-trimpath", "./scen/...")
	if berr != nil && strings.Contains(bout, "verifOrder") {
		// the ordered-map-range pass rewrote a loop over something that is not a map (any more)
		fmt.Fprintf(os.Stderr, "check: ordered map ranges do not compile against this tree, building without them\n")
		prepare(true)
		bout, berr = run(simDir, goEnv(), goBin, "build", "-tags", "verif", "-trimpath", "./scen/...")
	}
	broken := map[string]bool{}
	if berr != nil {
		for _, line := range strings.Split(bout, "\n") {
			if strings.HasPrefix(line, "# verifsim/scen/") {
				broken[strings.TrimSpace(strings.TrimPrefix(line, "# verifsim/scen/"))] = true
			}
		}
		if len(broken) == 0 {
			cleanup(e)
			die(2, "build of the harness against the working tree failed (%v):\n%s", berr, bout)
		}
		fmt.Fprintf(os.Stderr, "check: families that do not compile are left out: %v\n%s\n", broken, head(bout, 3000))
	}
	var wt strings.Builder
	wt.WriteString("package run\n\nimport (\n\t\"testing\"\n\n\t\"verifsim/core\"\n")
	for _, f := range fams {
		if !broken[f] {
			fmt.Fprintf(&wt, "\t_ \"verifsim/scen/%s\"\n", f)
		}
	}
	wt.WriteString(")\n\n// TestWorker is the worker entry point; it does nothing unless VSIM_MODE is set.\nfunc TestWorker(t *testing.T) { core.WorkerMain(t) }\n")
	os.WriteFile(filepath.Join(simDir, "run", "worker_test.go"), []byte(wt.String()), 0o644)
	out, err := run(simDir, goEnv(), goBin, "test", "-c", "-tags", "verif", "-trimpath",
		"-o", e.bin, "./run")
	if err != nil {
		cleanup(e)
		die(2, "build of the harness against the working tree failed (%v):\n%s", err, out)
	}
	fmt.Fprintf(os.Stderr, "check: built harness in %.1fs (%v)\n", time.Since(t0).Seconds(), e.instr["skipped"])
	return e
}

func cleanup(e *env) {
	if e != nil && e.scratch != "" && os.Getenv("VERIF_KEEP") == "" {
		os.RemoveAll(e.scratch)
	}
}

type workerOut struct {
	code   int
	stderr string
	err    error
}

func runWorker(e *env, extra []string, timeout time.Duration, gomaxprocs int) workerOut {
	cmd := exec.Command(e.bin, "-test.run", "^TestWorker$", "-test.timeout", "0", "-test.count", "1")
	cmd.Dir = e.scratch
	envv := append(os.Environ(), extra...)
	envv = append(envv, "GOMAXPROCS="+strconv.Itoa(gomaxprocs), "GODEBUG=asyncpreemptoff=1")
	cmd.Env = envv
	var errb strings.Builder
	cmd.Stderr = &errb
	cmd.Stdout = &errb
	if err := cmd.Start(); err != nil {
		return workerOut{code: -1, err: err}
	}
	done := make(chan error, 1)
	go func() { done <- cmd.Wait() }()
	var err error
	select {
	case err = <-done:
	case <-time.After(timeout):
		cmd.Process.Kill()
		<-done
		return workerOut{code: -2, stderr: errb.String(), err: fmt.Errorf("worker timed out after %v", timeout)}
	}
	code := 0
	if err != nil {
		if ee, ok := err.(*exec.ExitError); ok {
			code = ee.ExitCode()
		} else {
			code = -1
		}
	}
	s := errb.String()
	if len(s) > 200000 {
		s = s[:100000] + "\n...\n" + s[len(s)-100000:]
	}
	return workerOut{code: code, stderr: s}
}

// replayOnce runs one scenario in a fresh process. It returns the violation
// class ("" = none), detail, tail and the worker's exit condition.
func replayOnce(e *env, prop string, rf *replayFile, tag string, fullLog bool) (class, detail string, res *runResult, wo workerOut) {
	scen := filepath.Join(e.scratch, "scen-"+tag+".json")
	out := filepath.Join(e.scratch, "out-"+tag+".json")
	b, _ := json.Marshal(rf)
	os.WriteFile(scen, b, 0o644)
	os.Remove(out)
	extra := []string{"VSIM_MODE=replay", "VSIM_PROP=" + prop, "VSIM_SCEN=" + scen, "VSIM_OUT=" + out, "VSIM_WATCHDOG_S=30"}
	if fullLog {
		extra = append(extra, "VSIM_FULLLOG=1")
	}
	wo = runWorker(e, extra, 45*time.Second, 1)
	defer os.Remove(scen)
	defer os.Remove(out)
	if wo.code == 0 || wo.code == 10 {
		rb, err := os.ReadFile(out)
		if err != nil {
			return "", "", nil, workerOut{code: -1, stderr: wo.stderr, err: err}
		}
		var r runResult
		if err := json.Unmarshal(rb, &r); err != nil {
			return "", "", nil, workerOut{code: -1, stderr: wo.stderr, err: err}
		}
		if r.Violation != nil {
			return r.Violation.Class, r.Violation.Detail, &r, wo
		}
		return "", "", &r, wo
	}
	if wo.code == 3 {
		pend := "?"
		if i := strings.Index(wo.stderr, "pending_events="); i >= 0 {
			pend = strings.Fields(wo.stderr[i+len("pending_events="):])[0]
		}
		if pend == "0" {
			return "hang", "watchdog: no progress with nothing left to deliver or resume\n" + head(wo.stderr, 6000), nil, wo
		}
		return "", "", nil, wo
	}
	if strings.Contains(wo.stderr, "panic:") || strings.Contains(wo.stderr, "fatal error:") {
		return "panic", panicSummary(wo.stderr), nil, wo
	}
	if wo.code == -2 {
		// The replay of a scenario that the batch had flagged neither finished nor failed within 45 s
		// of wall time (runs take milliseconds to a second): e.g. unbounded recursion that was still
		// growing the stack. Reported as what it is; only seeds that already violated get here.
		return "crash", "the replay did not finish within 45 s of wall time (the batch run of this scenario ended the worker process); last output:\n" + head(wo.stderr, 3000), nil, wo
	}
	return "", "", nil, wo
}

func head(s string, n int) string {
	if len(s) > n {
		return s[:n]
	}
	return s
}

func panicSummary(stderr string) string {
	i := strings.Index(stderr, "panic:")
	if i < 0 {
		i = strings.Index(stderr, "fatal error:")
	}
	if i < 0 {
		return head(stderr, 2000)
	}
	return head(stderr[i:], 4000)
}

func shrinkCandidates(e *env, prop string, rf *replayFile) []json.RawMessage {
	scen := filepath.Join(e.scratch, "scen-shrink.json")
	out := filepath.Join(e.scratch, "out-shrink.json")
	b, _ := json.Marshal(rf)
	os.WriteFile(scen, b, 0o644)
	os.Remove(out)
	wo := runWorker(e, []string{"VSIM_MODE=shrink", "VSIM_PROP=" + prop, "VSIM_SCEN=" + scen, "VSIM_OUT=" + out}, 60*time.Second, 1)
	if wo.code != 0 {
		return nil
	}
	rb, err := os.ReadFile(out)
	if err != nil {
		return nil
	}
	var c []json.RawMessage
	json.Unmarshal(rb, &c)
	return c
}

// classKey is what must be preserved by replay and minimisation: the oracle
// and entity kind, i.e. the class up to the first space.
func classKey(c string) string {
	if i := strings.IndexByte(c, ' '); i >= 0 {
		return c[:i]
	}
	return c
}

func minimise(e *env, prop string, rf *replayFile, budget time.Duration) *replayFile {
	deadline := time.Now().Add(budget)
	cur := rf
	par := runtime.NumCPU()
	round := 0
	for time.Now().Before(deadline) {
		cands := shrinkCandidates(e, prop, cur)
		if len(cands) == 0 {
			break
		}
		round++
		type hit struct {
			idx    int
			detail string
			tail   []string
			class  string
		}
		var mu sync.Mutex
		best := -1
		var bestHit hit
		sem := make(chan struct{}, par)
		var wg sync.WaitGroup
		for i, c := range cands {
			mu.Lock()
			stop := best >= 0 && i > best
			mu.Unlock()
			if stop || time.Now().After(deadline) {
				break
			}
			wg.Add(1)
			sem <- struct{}{}
			go func(i int, c json.RawMessage) {
				defer wg.Done()
				defer func() { <-sem }()
				cand := &replayFile{Property: prop, Seed: cur.Seed, Scenario: c}
				cl, det, res, _ := replayOnce(e, prop, cand, fmt.Sprintf("m%d-%d", round, i), false)
				if cl != "" && classKey(cl) == classKey(cur.Class) {
					mu.Lock()
					if best < 0 || i < best {
						best = i
						bestHit = hit{idx: i, detail: det, class: cl}
						if res != nil {
							bestHit.tail = res.Tail
						}
					}
					mu.Unlock()
				}
			}(i, c)
		}
		wg.Wait()
		if best < 0 {
			break
		}
		cur = &replayFile{Property: prop, Seed: cur.Seed, Scenario: cands[best], Class: bestHit.class,
			Detail: bestHit.detail, Tail: bestHit.tail, Tree: cur.Tree, Minimised: true}
	}
	return cur
}

type knownFinding struct {
	property, signature, text string
}

func loadKnownFindings() []knownFinding {
	b, err := os.ReadFile(filepath.Join(verifDir, "known_findings.txt"))
	if err != nil {
		return nil
	}
	var out []knownFinding
	for _, line := range strings.Split(string(b), "\n") {
		line = strings.TrimSpace(line)
		if !strings.HasPrefix(line, "finding:") {
			continue
		}
		var kf knownFinding
		rest := strings.TrimSpace(strings.TrimPrefix(line, "finding:"))
		for _, f := range strings.Fields(rest) {
			if strings.HasPrefix(f, "property=") && kf.property == "" {
				kf.property = strings.TrimPrefix(f, "property=")
			}
		}
		// signature="class text with spaces" or signature=word
		if i := strings.Index(rest, "signature=\""); i >= 0 {
			tail := rest[i+len("signature=\""):]
			if j := strings.IndexByte(tail, '"'); j >= 0 {
				kf.signature = tail[:j]
				kf.text = strings.TrimSpace(tail[j+1:])
			}
		} else if i := strings.Index(rest, "signature="); i >= 0 {
			tail := rest[i+len("signature="):]
			fs := strings.Fields(tail)
			if len(fs) > 0 {
				kf.signature = fs[0]
				kf.text = strings.TrimSpace(strings.TrimPrefix(tail, fs[0]))
			}
		}
		if kf.property != "" && kf.signature != "" {
			out = append(out, kf)
		}
	}
	return out
}

func matchKnown(kfs []knownFinding, prop, class string) *knownFinding {
	for i := range kfs {
		if kfs[i].property == prop && (kfs[i].signature == class || strings.HasPrefix(class, kfs[i].signature)) {
			return &kfs[i]
		}
	}
	return nil
}

func tierBudget(tier string) (budget time.Duration) {
	if v := os.Getenv("VERIF_BUDGET_S"); v != "" {
		if n, err := strconv.Atoi(v); err == nil {
			return time.Duration(n) * time.Second
		}
	}
	if tier == "thorough" {
		return 600 * time.Second
	}
	return 45 * time.Second
}

func seedBase() uint64 {
	if v := os.Getenv("VERIF_SEED"); v != "" {
		if n, err := strconv.ParseUint(v, 10, 64); err == nil {
			return n
		}
		if n, err := strconv.ParseInt(v, 10, 64); err == nil {
			return uint64(n)
		}
	}
	return 1
}

func familyInfo(e *env, prop string) map[string]any {
	out := filepath.Join(e.scratch, "info.json")
	wo := runWorker(e, []string{"VSIM_MODE=info", "VSIM_PROP=" + prop, "VSIM_OUT=" + out}, 60*time.Second, 1)
	if wo.code != 0 {
		die2(e, "worker info failed (%d):\n%s", wo.code, wo.stderr)
	}
	var m map[string]any
	b, _ := os.ReadFile(out)
	json.Unmarshal(b, &m)
	return m
}

func die2(e *env, format string, args ...any) {
	cleanup(e)
	die(2, format, args...)
}

func checkProperty(prop, tier string) int {
	t0 := time.Now()
	e := build()
	defer cleanup(e)
	info := familyInfo(e, prop)
	budget := tierBudget(tier)
	base := seedBase()
	nw := runtime.NumCPU()
	if v := os.Getenv("VERIF_WORKERS"); v != "" {
		if n, err := strconv.Atoi(v); err == nil && n > 0 {
			nw = n
		}
	}
	// Seeds: worker w runs base*1000003 + w + k*nw, so different VERIF_SEED
	// values give disjoint ranges.
	seed0 := base * 1000003
	kfsAll := loadKnownFindings()
	var knownSigs []string
	for _, kf := range kfsAll {
		if kf.property == prop {
			knownSigs = append(knownSigs, kf.signature)
		}
	}
	type wres struct {
		sum *summary
		wo  workerOut
		inf string
	}
	results := make([]wres, nw)
	var wg sync.WaitGroup
	for w := 0; w < nw; w++ {
		wg.Add(1)
		go func(w int) {
			defer wg.Done()
			out := filepath.Join(e.scratch, fmt.Sprintf("sum-%d.json", w))
			inf := filepath.Join(e.scratch, fmt.Sprintf("inflight-%d.json", w))
			extra := []string{
				"VSIM_MODE=batch", "VSIM_PROP=" + prop, "VSIM_TIER=" + tier,
				"VSIM_SEED_BASE=" + strconv.FormatUint(seed0, 10),
				"VSIM_WORKER=" + strconv.Itoa(w), "VSIM_NWORKERS=" + strconv.Itoa(nw),
				"VSIM_BUDGET_S=" + strconv.Itoa(int(budget.Seconds())),
				"VSIM_OUT=" + out, "VSIM_INFLIGHT=" + inf,
			}
			if v := os.Getenv("VERIF_MAXRUNS"); v != "" {
				extra = append(extra, "VSIM_MAXRUNS="+v)
			}
			if len(knownSigs) > 0 {
				extra = append(extra, "VSIM_KNOWN="+strings.Join(knownSigs, "|"))
			}
			wo := runWorker(e, extra, budget+180*time.Second, 1)
			r := wres{wo: wo, inf: inf}
			if b, err := os.ReadFile(out); err == nil {
				var s summary
				if json.Unmarshal(b, &s) == nil {
					r.sum = &s
				}
			}
			results[w] = r
		}(w)
	}
	wg.Wait()

	// aggregate
	agg := &summary{Property: prop, Faults: map[string]int{}, Probes: map[string]int{}, YieldHits: map[string]int{}}
	sigs := map[uint64]struct{}{}
	var violations []*replayFile
	knownHit := map[string]*foundViolation{}
	trouble := ""
	for w, r := range results {
		if r.sum != nil {
			s := r.sum
			agg.Runs += s.Runs
			for k, v := range s.Faults {
				agg.Faults[k] += v
			}
			for k, v := range s.Probes {
				agg.Probes[k] += v
			}
			for k, v := range s.YieldHits {
				agg.YieldHits[k] += v
			}
			agg.SimNS += s.SimNS
			agg.SimS += s.SimS
			agg.Steps += s.Steps
			agg.Inconclusive += s.Inconclusive
			for _, sg := range s.Sigs {
				sigs[sg] = struct{}{}
			}
			if len(agg.Samples) < 3 && len(s.Samples) > 0 {
				agg.Samples = append(agg.Samples, s.Samples[0])
			}
			for _, kv := range s.Known {
				for _, sg := range knownSigs {
					if strings.HasPrefix(kv.Class, sg) {
						if old, ok := knownHit[sg]; !ok || kv.Seed < old.Seed {
							knownHit[sg] = kv
						}
					}
				}
			}
			if s.Violation != nil {
				v := s.Violation
				violations = append(violations, &replayFile{Property: prop, Seed: v.Seed, Scenario: v.Scenario,
					Class: v.Class, Detail: v.Detail, Tail: v.Tail, Tree: e.tree})
			}
			continue
		}
		// the worker died without a summary: crash or watchdog
		b, err := os.ReadFile(r.inf)
		if err != nil {
			trouble += fmt.Sprintf("worker %d exited %d without summary and without in-flight scenario:\n%s\n", w, r.wo.code, head(r.wo.stderr, 4000))
			continue
		}
		var rf replayFile
		if json.Unmarshal(b, &rf) != nil {
			trouble += fmt.Sprintf("worker %d: unreadable in-flight file\n", w)
			continue
		}
		rf.Tree = e.tree
		rf.Class = "crash"
		rf.Detail = head(r.wo.stderr, 4000)
		violations = append(violations, &rf)
	}
	agg.Nontrivial = len(sigs)

	kfs := kfsAll
	exit := 0
	var reported []string
	var known []string
	for _, kf := range kfs {
		if kf.property != prop {
			continue
		}
		if hit, ok := knownHit[kf.signature]; ok {
			known = append(known, fmt.Sprintf("KNOWN-FINDING: property=%s %s (met again at seed %d)", prop, kf.text, hit.Seed))
		}
	}
	nViol := 0
	seenClass := map[string]bool{}
	sort.Slice(violations, func(i, j int) bool { return violations[i].Seed < violations[j].Seed })
	attempts := 0
	for _, v := range violations {
		// one report per class: a violation whose class (as the batch saw it) has been reported
		// already is not replayed again, and at most six violations are worked through (each costs
		// two to eight replays plus the minimiser; a change that makes every run hang would
		// otherwise keep the check busy for hours)
		if seenClass[classKey(v.Class)] {
			continue
		}
		attempts++
		if attempts > 6 || (attempts > 3 && len(reported) > 0) {
			break
		}
		// reproduce twice in fresh processes
		c1, d1, r1, wo1 := replayOnce(e, prop, v, fmt.Sprintf("v%d-a", v.Seed), false)
		c2, _, _, _ := replayOnce(e, prop, v, fmt.Sprintf("v%d-b", v.Seed), false)
		flaky := false
		if c1 == "" || c2 == "" || classKey(c1) != classKey(c2) {
			// not twice in a row: the outcome may hinge on a choice of the Go runtime that no seed
			// controls (which ready case a select takes). Six more replays; a class that shows up
			// at least twice in the eight is reported, with its reproduction rate.
			count := map[string]int{}
			type rr struct {
				d string
				r *runResult
			}
			first := map[string]rr{}
			add := func(c, d string, r *runResult) {
				if c != "" {
					k := classKey(c)
					count[k]++
					if _, ok := first[k]; !ok {
						first[k] = rr{d, r}
					}
				}
			}
			add(c1, d1, r1)
			add(c2, "", nil)
			for x := 0; x < 6; x++ {
				cx, dx, rx, _ := replayOnce(e, prop, v, fmt.Sprintf("v%d-x%d", v.Seed, x), false)
				add(cx, dx, rx)
			}
			best, bn := "", 0
			for k, n := range count {
				if n > bn || (n == bn && k < best) {
					best, bn = k, n
				}
			}
			if bn < 2 {
				trouble += fmt.Sprintf("violation at seed %d (%s) did not reproduce (got %q, %q, then %v in 6 more replays): nondeterminism or tool trouble\n%s\n%s\n",
					v.Seed, v.Class, c1, c2, count, v.Detail, head(wo1.stderr, 3000))
				continue
			}
			flaky = true
			c1, d1, r1 = best, first[best].d, first[best].r
			if d1 == "" {
				d1 = v.Detail
			}
			v.Repro = fmt.Sprintf("%d/8", bn)
		}
		v.Class, v.Detail = c1, d1
		if r1 != nil {
			v.Tail = r1.Tail
		}
		if seenClass[classKey(v.Class)] {
			continue
		}
		seenClass[classKey(v.Class)] = true
		mb := 60 * time.Second
		if tier == "thorough" {
			mb = 180 * time.Second
		}
		m := v
		if !flaky { // a minimiser needs every candidate's verdict to be repeatable
			m = minimise(e, prop, v, mb)
		}
		m.Tree = e.tree
		if kf := matchKnown(kfs, prop, m.Class); kf != nil {
			known = append(known, fmt.Sprintf("KNOWN-FINDING: property=%s %s", prop, kf.text))
			continue
		}
		os.MkdirAll(filepath.Join(outDir, "replays"), 0o755)
		path := filepath.Join(outDir, "replays", fmt.Sprintf("%s-seed%d.json", prop, m.Seed))
		b, _ := json.MarshalIndent(m, "", " ")
		os.WriteFile(path, b, 0o644)
		reported = append(reported, fmt.Sprintf("VIOLATION property=%s replay=%s", prop, path))
		fmt.Fprintf(os.Stderr, "check: %s seed=%d class=%s\n  %s\n", prop, m.Seed, m.Class, head(m.Detail, 3000))
		nViol++
		exit = 1
	}

	wall := time.Since(t0).Seconds()
	writeEvidence(prop, tier, base, agg, info, e, wall, nViol, known, budget, nw, trouble)

	for _, k := range known {
		fmt.Println(k)
	}
	for _, r := range reported {
		fmt.Println(r)
	}
	if exit == 0 && trouble != "" {
		fmt.Fprintf(os.Stderr, "check: tool trouble:\n%s", trouble)
		return 2
	}
	if exit == 0 && agg.Runs == 0 {
		fmt.Fprintln(os.Stderr, "check: no run completed")
		return 2
	}
	if exit == 0 {
		fmt.Printf("OK property=%s tier=%s runs=%d distinct_nontrivial=%d wall=%.0fs\n", prop, tier, agg.Runs, agg.Nontrivial, wall)
	}
	return exit
}

func writeEvidence(prop, tier string, seed uint64, agg *summary, info map[string]any, e *env, wall float64,
	nViol int, known []string, budget time.Duration, nw int, trouble string,
) {
	dn := agg.Nontrivial
	samples := agg.Samples
	if len(samples) == 0 {
		samples = []any{"no sample recorded"}
	}
	var zeroProbes []string
	for k, v := range agg.Probes {
		if v == 0 {
			zeroProbes = append(zeroProbes, k)
		}
	}
	sort.Strings(zeroProbes)
	runsPerHour := 0.0
	if wall > 0 {
		runsPerHour = float64(agg.Runs) / wall * 3600
	}
	rule, _ := info["rule"].(string)
	cov := map[string]any{
		"evaluations":         agg.Runs,
		"distinct_nontrivial": dn,
		"rule":                rule,
		"samples":             samples,
		"runs_per_hour":       int64(runsPerHour),
		"seeds":               fmt.Sprintf("VERIF_SEED=%d: worker w of %d runs seeds %d+w+k*%d", seed, nw, seed*1000003, nw),
		"sim_seconds_covered": agg.SimS,
		"scheduler_steps":     agg.Steps,
		"faults_fired":        agg.Faults,
		"yield_hits":          agg.YieldHits,
		"probes":              agg.Probes,
		"probes_at_zero":      zeroProbes,
		"sites_not_instrumented": func() any {
			if e.instr != nil {
				return e.instr["skipped"]
			}
			return nil
		}(),
		"components": map[string]any{
			"real": info["real"], "simulated": info["simulated"], "excluded": info["excluded"],
		},
		"inconclusive":     agg.Inconclusive,
		"known_findings":   known,
		"tree_fingerprint": e.tree,
		"budget_s":         budget.Seconds(),
		"workers":          nw,
	}
	if trouble != "" {
		cov["tool_trouble"] = head(trouble, 4000)
	}
	var assumptions []string
	if a, ok := info["assumptions"].([]any); ok {
		for _, x := range a {
			if s, ok := x.(string); ok {
				assumptions = append(assumptions, s)
			}
		}
	}
	ev := map[string]any{
		"property_id": prop,
		"tier":        tier,
		"seed":        seed,
		"level":       "exploration",
		"coverage":    cov,
		"assumptions": assumptions,
		"wall_s":      wall,
		"violations":  nViol,
	}
	os.MkdirAll(filepath.Join(outDir, "evidence"), 0o755)
	b, _ := json.MarshalIndent(ev, "", " ")
	os.WriteFile(filepath.Join(outDir, "evidence", prop+".json"), b, 0o644)
}

func replayCmd(prop, path string) int {
	b, err := os.ReadFile(path)
	if err != nil {
		die(2, "read replay: %v", err)
	}
	var rf replayFile
	if err := json.Unmarshal(b, &rf); err != nil {
		die(2, "parse replay: %v", err)
	}
	if prop == "" {
		prop = rf.Property
	}
	e := build()
	defer cleanup(e)
	cl, det, res, wo := replayOnce(e, prop, &rf, "replay", false)
	for x := 0; cl == "" && rf.Repro != "" && x < 11; x++ {
		// recorded as reproducing in a fraction of the replays only
		cl, det, res, wo = replayOnce(e, prop, &rf, fmt.Sprintf("replay%d", x), false)
	}
	if cl == "" {
		if wo.code != 0 && wo.code != 10 {
			fmt.Fprintf(os.Stderr, "check: replay worker exit %d:\n%s\n", wo.code, head(wo.stderr, 4000))
			return 2
		}
		fmt.Printf("REPLAY property=%s no violation (recorded class %q)\n", prop, rf.Class)
		return 0
	}
	fmt.Fprintf(os.Stderr, "check: replay class=%s\n  %s\n", cl, head(det, 4000))
	if res != nil {
		for _, l := range res.Tail {
			fmt.Fprintln(os.Stderr, "   ", l)
		}
	}
	fmt.Printf("VIOLATION property=%s replay=%s\n", prop, path)
	return 1
}

// selftestDeterminism runs seeds of each family several times in fresh
// processes at GOMAXPROCS 1, 4 and 16 and diffs the canonical logs.
func selftestDeterminism(props []string) int {
	e := build()
	defer cleanup(e)
	if len(props) == 0 {
		out := filepath.Join(e.scratch, "list.json")
		wo := runWorker(e, []string{"VSIM_MODE=list", "VSIM_OUT=" + out}, 60*time.Second, 1)
		if wo.code != 0 {
			die2(e, "list failed: %s", wo.stderr)
		}
		b, _ := os.ReadFile(out)
		json.Unmarshal(b, &props)
	}
	nSeeds := 30
	if v := os.Getenv("VERIF_SELFTEST_SEEDS"); v != "" {
		if n, err := strconv.Atoi(v); err == nil {
			nSeeds = n
		}
	}
	base := seedBase() * 1000003
	procs := []int{1, 1, 4, 16}
	if v := os.Getenv("VERIF_SELFTEST_PROCS"); v != "" {
		procs = nil
		for _, f := range strings.Split(v, ",") {
			if n, err := strconv.Atoi(strings.TrimSpace(f)); err == nil && n > 0 {
				procs = append(procs, n)
			}
		}
	}
	total, diverged := 0, 0
	report := map[string]any{}
	for _, prop := range props {
		var mu sync.Mutex
		pd := 0
		var firstDiff string
		var wg sync.WaitGroup
		sem := make(chan struct{}, runtime.NumCPU())
		for s := 0; s < nSeeds; s++ {
			wg.Add(1)
			sem <- struct{}{}
			go func(s int) {
				defer wg.Done()
				defer func() { <-sem }()
				seed := base + uint64(s)
				gen := filepath.Join(e.scratch, fmt.Sprintf("gen-%s-%d.json", prop, s))
				wo := runWorker(e, []string{"VSIM_MODE=gen", "VSIM_PROP=" + prop, "VSIM_TIER=quick", "VSIM_SEED=" + strconv.FormatUint(seed, 10), "VSIM_OUT=" + gen}, 60*time.Second, 1)
				if wo.code != 0 {
					mu.Lock()
					pd++
					firstDiff = "gen failed: " + head(wo.stderr, 500)
					mu.Unlock()
					return
				}
				scb, _ := os.ReadFile(gen)
				os.Remove(gen)
				rf := &replayFile{Property: prop, Seed: seed, Scenario: scb}
				var ref []string
				for i, p := range procs {
					scen := filepath.Join(e.scratch, fmt.Sprintf("dscen-%s-%d-%d.json", prop, s, i))
					out := filepath.Join(e.scratch, fmt.Sprintf("dout-%s-%d-%d.json", prop, s, i))
					b, _ := json.Marshal(rf)
					os.WriteFile(scen, b, 0o644)
					wo := runWorker(e, []string{"VSIM_MODE=replay", "VSIM_PROP=" + prop, "VSIM_SCEN=" + scen, "VSIM_OUT=" + out, "VSIM_FULLLOG=1"}, 120*time.Second, p)
					os.Remove(scen)
					var r runResult
					rb, err := os.ReadFile(out)
					os.Remove(out)
					if err != nil || json.Unmarshal(rb, &r) != nil {
						mu.Lock()
						pd++
						if firstDiff == "" {
							firstDiff = fmt.Sprintf("seed %d GOMAXPROCS=%d: worker exit %d: %s", seed, p, wo.code, head(wo.stderr, 1500))
						}
						mu.Unlock()
						return
					}
					if i == 0 {
						ref = r.FullLog
						continue
					}
					if d := diffLogs(ref, r.FullLog); d != "" {
						mu.Lock()
						pd++
						if firstDiff == "" {
							firstDiff = fmt.Sprintf("seed %d GOMAXPROCS=%d vs 1: %s", seed, p, d)
						}
						mu.Unlock()
						return
					}
				}
			}(s)
		}
		wg.Wait()
		total += nSeeds
		diverged += pd
		report[prop] = map[string]any{"seeds": nSeeds, "processes_per_seed": len(procs), "gomaxprocs": procs, "diverged": pd, "first_divergence": firstDiff}
		fmt.Printf("determinism %s: %d seeds x %d processes, %d diverged %s\n", prop, nSeeds, len(procs), pd, firstDiff)
	}
	report["nondeterminism_rate"] = float64(diverged) / float64(max(total, 1))
	b, _ := json.MarshalIndent(report, "", " ")
	os.MkdirAll(filepath.Join(verifDir, "selftest"), 0o755)
	os.WriteFile(filepath.Join(verifDir, "selftest", "determinism.json"), b, 0o644)
	if diverged > 0 {
		return 2
	}
	return 0
}

func diffLogs(a, b []string) string {
	n := len(a)
	if len(b) < n {
		n = len(b)
	}
	for i := 0; i < n; i++ {
		if a[i] != b[i] {
			return fmt.Sprintf("line %d: %q vs %q", i, a[i], b[i])
		}
	}
	if len(a) != len(b) {
		return fmt.Sprintf("length %d vs %d", len(a), len(b))
	}
	return ""
}

// seedCmd generates the scenario of one exact seed, runs it, and minimises it
// when it violates (debugging aid; writes the replay file, no evidence).
func seedCmd(prop string, seed uint64) int {
	e := build()
	defer cleanup(e)
	gen := filepath.Join(e.scratch, "gen.json")
	wo := runWorker(e, []string{"VSIM_MODE=gen", "VSIM_PROP=" + prop, "VSIM_TIER=quick", "VSIM_SEED=" + strconv.FormatUint(seed, 10), "VSIM_OUT=" + gen}, 60*time.Second, 1)
	if wo.code != 0 {
		fmt.Fprintln(os.Stderr, wo.stderr)
		return 2
	}
	scb, _ := os.ReadFile(gen)
	rf := &replayFile{Property: prop, Seed: seed, Scenario: scb, Tree: e.tree}
	cl, det, res, wo := replayOnce(e, prop, rf, "seed", false)
	if cl == "" {
		fmt.Printf("seed %d: no violation (worker exit %d)\n%s\n", seed, wo.code, head(wo.stderr, 2000))
		return 0
	}
	rf.Class, rf.Detail = cl, det
	if res != nil {
		rf.Tail = res.Tail
	}
	m := minimise(e, prop, rf, 90*time.Second)
	path := filepath.Join(outDir, "replays", fmt.Sprintf("%s-seed%d.json", prop, seed))
	b, _ := json.MarshalIndent(m, "", " ")
	os.MkdirAll(filepath.Join(outDir, "replays"), 0o755)
	os.WriteFile(path, b, 0o644)
	fmt.Printf("seed %d: class=%s\n%s\nscenario: %s\nreplay: %s\n", seed, m.Class, head(m.Detail, 3000), string(m.Scenario), path)
	for _, l := range m.Tail {
		fmt.Println("   ", l)
	}
	return 1
}

func main() {
	args := os.Args[1:]
	if len(args) == 0 {
		die(2, "usage: check <ID> quick|thorough | check <ID> --replay <file> | check selftest-determinism [ID...]")
	}
	if args[0] == "selftest-determinism" {
		os.Exit(selftestDeterminism(args[1:]))
	}
	if args[0] == "--replay" && len(args) == 2 {
		os.Exit(replayCmd("", args[1]))
	}
	prop := args[0]
	if len(args) >= 3 && args[1] == "--seed" {
		n, err := strconv.ParseUint(args[2], 10, 64)
		if err != nil {
			die(2, "bad seed")
		}
		os.Exit(seedCmd(prop, n))
	}
	if len(args) >= 3 && args[1] == "--replay" {
		os.Exit(replayCmd(prop, args[2]))
	}
	tier := "quick"
	if len(args) >= 2 {
		tier = args[1]
	}
	if v := os.Getenv("VERIF_TIER"); v != "" && len(args) < 2 {
		tier = v
	}
	if tier != "quick" && tier != "thorough" {
		die(2, "tier must be quick or thorough")
	}
	os.Exit(checkProperty(prop, tier))
}
