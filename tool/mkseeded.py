#!/usr/bin/env python3
"""Copies the confirmed seeded changes from the sub-agents' output directories into
/verif/seeded/<ID>-<k>/ (patch.diff, the demonstration, meta.json) and writes seeded/INDEX.md.
The 'caught_by' / 'note' columns come from the table below (results of running the checks with
seedsens.sh / sens.sh); 'confirmed' comes from seedfull.sh's summary log."""
import json, os, shutil, glob, re, sys

SRC = "/tmp/seedout"
DST = "/verif/seeded"
# id -> (caught by (check ids, quick tier unless stated), note)
RESULTS = {
 "C01-1": ("C01", ""), "C01-2": ("C01", "after the SSRC clause was extended to multi-format medias"),
 "C01-3": ("C01", "after payloads at the MaxPacketSize limit were added"),
 "C01-4": ("C01", "after the heavy-duplication profile was added (also C14)"), "C01-5": ("C01", ""),
 "C02-1": ("C02", ""), "C02-2": ("C02", "after the 'connection kept after a successful TEARDOWN' oracle was added"),
 "C02-3": ("C02", ""), "C02-4": ("C02", "server panic"),
 "C04-1": ("C04", ""), "C04-2": ("C04", "after TCP write coalescing (tcp.coalesce) was added to the simulated network"),
 "C04-3": ("C04", ""), "C04-4": ("C04", ""),
 "C07-1": ("C07", ""), "C07-2": ("C07", ""), "C07-3": ("C07", ""), "C07-4": ("C07", ""),
 "C10-1": ("C10", ""), "C10-2": ("C10", "after pre-emptive Basic credentials were added to workload C"),
 "C10-3": ("C10", "after empty-path URLs were added to workloads A/B"), "C10-4": ("C10", ""),
 "C11-1": ("C11, C17", "C11 after the secure profile with a valid KeyMgmt header on plain servers was added; C17's downgrade case caught it unchanged"),
 "C11-2": ("C11", ""),
 "C11-3": ("C02", "same change as C02-4; C11's own quick tier does not reach 'handler without OnPause + PAUSE with a valid session id' often enough"),
 "C11-4": ("C11", "after the hostile peer that stops reading was added (C01's stalled reader that pauses also showed it as a hang, 3400 runs into its quick tier at the time; with C01's later, more expensive runs the quick tier no longer gets there)"),
 "C12-1": ("C12", "after the flood behaviour was added"), "C12-2": ("C12", "client panic"), "C12-3": ("C12", ""), "C12-4": ("C12", "after holds at the client's shutdown yield sites were added"),
 "C13-1": ("C13", "after Close landing inside a packet callback was added"),
 "C13-2": ("C13", "after UDP-multicast was brought into the simulation"),
 "C13-3": ("C12", "same change as C12-4: needs a server that sends requests to the client, which only C12's scripted server does"),
 "C13-4": ("C13", ""),
 "C14-1": ("C14", ""), "C14-2": ("C14", ""), "C14-3": ("C14", ""), "C14-4": ("C14", ""),
 "C15-1": ("C15", ""), "C15-2": ("C15", ""),
 "C15-3": ("C15", "after simulation-aware locks, automatic per-statement yield points in receiver.go and the concurrent-callers mode were added (DESIGN 8.6)"),
 "C15-4": ("C15", ""),
 "C16-1": ("C16", ""), "C16-2": ("C16", "after the OnError-vs-Close oracle was added"),
 "C16-3": ("C16", "after the capacity workload behind the media entry points was added"),
 "C16-4": ("C16", "after the sequential reference-model mode was added"),
 "C17-1": ("C17", "after the multicast downgrade case was added"), "C17-2": ("C17", "after the per-session writer mode was added"),
 "C17-3": ("", "MISSED: RLock instead of Lock around a call into pion/srtp: the corruption needs two goroutines interleaving inside the dependency's code, where no yield point can be placed (DESIGN 8.6)"),
 "C17-4": ("C17", ""),
 "C18-1": ("C18", "after Start() validation was run across forced protocols"), "C18-2": ("C18", ""), "C18-3": ("C18", ""), "C18-4": ("C18", ""),
 "C19-1": ("", "NOT A VIOLATION of the statement as written: with AnyPortEnable the port is 'explicitly relaxed'; the oracle asserts only the IP there (DESIGN 8.6)"),
 "C19-2": ("C19", ""), "C19-3": ("C19", ""), "C19-4": ("C19", "after forged IPv6 sources built from the negotiated IPv4 bytes were added"),
 "C20-1": ("C20", ""), "C20-2": ("C20", ""), "C20-3": ("C20", ""), "C20-4": ("C20", "after back channels in the stream description were added"),
}
# round 2: fresh sub-agents, told which changes round 1 had produced and asked for different ones
RESULTS2 = {
 "C01-r2-1": ("C01", "after the 'lossless UDP / multicast reader must receive something of every format' oracle was added"),
 "C01-r2-2": ("C01", ""), "C01-r2-3": ("C01", "after back channels in stream descriptions were added"),
 "C01-r2-4": ("", "MISSED: RLock instead of Lock around pion/srtp's encrypt (same change as C17-3): needs two goroutines interleaving inside the dependency"),
 "C02-r2-1": ("C02", "after SETUPs for a media index that does not exist were added; server panic"),
 "C02-r2-2": ("C02", "after the tunnelled live peer was added to the expiry workload"),
 "C02-r2-3": ("C11", "same change as C11-4; caught by C11 (peer that stops reading) and C01, not by C02's own workloads"),
 "C04-r2-1": ("C04", "thanks to tcp.coalesce (added for C04-2)"), "C04-r2-2": ("C04", ""), "C04-r2-3": ("C04", ""), "C04-r2-4": ("C04", ""),
 "C07-r2-1": ("C07", "after frames with many units (up to the decoders' per-frame limits) were added"), "C07-r2-2": ("C07", ""), "C07-r2-3": ("C07", ""),
 "C10-r2-1": ("C10", ""), "C10-r2-2": ("C10", ""),
 "C10-r2-3": ("C10", "after requests with an Authorization header that carries no usable credentials were added"),
 "C10-r2-4": ("C10", "after blank passwords were added"),
 "C11-r2-1": ("C11", "after the tunnel race scenario (one GET half, several POST halves with its cookie from one address a few ms apart, holds on the connection shutdown path) was added"),
 "C11-r2-2": ("C11", ""),
 "C11-r2-3": ("C11", "after application-initiated ServerConn.Close from inside a method callback with pipelined requests behind it was added"),
 "C11-r2-4": ("C11", "after requests on '*' inside a session were added; server panic"),
 "C12-r2-1": ("C12", "after the HTTP-tunnelled client and the server that answers and then stops reading were added"),
 "C12-r2-2": ("C12", "after the sticky 401 behaviour was added"),
 "C12-r2-3": ("C12", "after the UDP-multicast client and the multicast-specific hostile SETUP answers were added"),
 "C12-r2-4": ("C12", "client panic"),
 "C13-r2-1": ("C13", "after ServerConn.Close from inside callbacks and coalesced deliveries were added; server crash"),
 "C13-r2-2": ("C13", ""), "C13-r2-3": ("C13", "hang"),
 "C13-r2-4": ("C13", "after back-channel talkers were added; server crash"),
 "C14-r2-1": ("C14", "after the concurrent report mode (simulation-aware locks, yields in receiver.go) was added"),
 "C14-r2-2": ("C14", "after the whole-system mode (real Client against a scripted server with / without server ports, real Server with a scripted publisher, datagrams lost / duplicated / displaced by the simulated network) was added"),
 "C14-r2-3": ("C14", ""), "C14-r2-4": ("C14", ""),
 "C15-r2-1": ("", "OUTSIDE THE QUANTIFIER: the overflow needs more than 2^63/(1e9*rate) s between a time anchor and a report, i.e. a timestamp step beyond 2^31 ticks before the next packet can observe it"),
 "C15-r2-2": ("C15", "after corrections of the writer's absolute time in the middle of a track were added"),
 "C15-r2-3": ("", "SILENT BY DESIGN: the statement does not say which packet anchors a late track when the leading track's last packet has PTS != DTS; the oracle accepts both readings (assumption listed in the evidence)"),
 "C15-r2-4": ("C15", ""),
 "C16-r2-1": ("C16", ""), "C16-r2-2": ("C11", "same change as C11-4"),
 "C16-r2-3": ("C16", "after the executed-after-refused-PAUSE case was added to the capacity workload"),
 "C17-r2-1": ("C17", "after the plain-profile reader inside TLS was added"),
 "C17-r2-2": ("C17", "after the automatic-protocol reader behind a UDP blackhole was added"),
 "C17-r2-3": ("C17", "server panic"),
 "C17-r2-4": ("C17", "after the multicast reader with flowing sender reports and the 'everything must decrypt' oracle were added"),
 "C18-r2-1": ("C18", ""), "C18-r2-2": ("C18", ""), "C18-r2-3": ("C18", ""), "C18-r2-4": ("C18", ""),
 "C19-r2-1": ("C19", "after the quiet-source scenario (client-side timeout under forged traffic) was added"),
 "C19-r2-2": ("C02", "after raw UDP peers with a non-consecutive client_port pair were added to C02's expiry workload; C19 drives a library client, which always asks for consecutive ports"),
 "C19-r2-3": ("C19", ""),
 "C20-r2-1": ("C20", ""), "C20-r2-2": ("C20", ""), "C20-r2-3": ("C20", ""),
}
# round 3: fresh sub-agents again, told the titles of both earlier rounds
RESULTS3 = {
 "C01-r3-1": ("C01", "after a yield point before every statement of pkg/conn and internal/bytecounter, simulation-aware locks and keep-alives during play were added (a response lands between the two writes of a frame)"),
 "C01-r3-2": ("C01", "after readers that set up only part of the medias were added"),
 "C01-r3-3": ("C02", "C02 after the refused re-PLAY scenario was added (the application refuses a PLAY that arrives while the session plays over TCP; the interleaved frames must keep coming); the library's own client cannot send such a PLAY"),
 "C02-r3-1": ("C02", ""),
 "C02-r3-2": ("C02", "after SETUP requests without a unicast / multicast token were added; server panic"),
 "C02-r3-3": ("C01", "same slip as C01-r3-1 (frame header and payload in two writes); caught by C01, C02's raw peers do not keep media flowing while they send requests"),
 "C02-r3-4": ("C02", ""),
 "C04-r3-1": ("C04", "after long end-to-end conversations (more than the 30000 bytes the tunnel's POST request announces) were added"),
 "C04-r3-2": ("C04", ""),
 "C04-r3-3": ("C04", "after 'the query of a URL without user-info survives base.ParseURL verbatim' and URLs with no path and a query containing '@', an escape and a '/' were added"),
 "C04-r3-4": ("C04", "panic"),
 "C07-r3-1": ("C07", ""), "C07-r3-2": ("C07", ""), "C07-r3-3": ("C07", ""),
 "C10-r3-1": ("C10", ""),
 "C10-r3-2": ("C10", "after user names with a backslash were added"),
 "C10-r3-3": ("C10", "after authentication failures reported wrapped (%w) were added"),
 "C10-r3-4": ("C20", "C20 after its scripted camera got late authentication (DESCRIBE open, the first challenge comes with SETUP) next to a session-level control attribute that names another host; C10's servers are the library's own"),
 "C11-r3-1": ("C01", "C01 (holds inside the WebSocket writer's underlying writes, keep-alives during play): gorilla's concurrent-write panic; C11's hostile peers do not play through the WebSocket tunnel"),
 "C11-r3-2": ("C13", "C13 (UDP publisher closed while its packets arrive, holds in the UDP listener): server crash"),
 "C11-r3-3": ("C11", "after the tunnel race scenario was run in 10% of the runs with resets of the POST half"),
 "C11-r3-4": ("C11", "after a short write queue in runs with a peer that stopped reading was added"),
 "C12-r3-1": ("C12", "after hostile media (RTP header fields pointing beyond the packet) was added; client panic"),
 "C12-r3-2": ("C12", "hang"),
 "C12-r3-3": ("C12", "after TLS underneath the scripted server and resets of the GET half only were added"),
 "C12-r3-4": ("C12", "after media on every set-up channel, back channels included, was added; client panic"),
 "C13-r3-1": ("C12", "C12 after busy odd (RTCP) ports were added; C13 has no busy ports"),
 "C13-r3-2": ("C13", "caught since C13 runs a second multicast reader and sends the readers' receiver reports to the group after they have left; missed at first"),
 "C13-r3-3": ("C12", "C12 (tunnelled publisher whose server stops reading): same slip as C12-r2-1 on the other half"),
 "C13-r3-4": ("C16", "C16 after the slow-site schedules were added (a caller held between the closed check and Wait while Close runs to its end)"),
 "C14-r3-1": ("C14", ""), "C14-r3-2": ("C14", ""), "C14-r3-3": ("C14", ""),
 "C14-r3-4": ("C14", "after 'the delivered payload is the one sent under that sequence number' was added to the whole-system mode"),
 "C15-r3-1": ("C15", ""),
 "C15-r3-2": ("C15", "after the whole-system mode (several formats in one media, Client.PacketNTP) was added"),
 "C15-r3-3": ("C15", ""),
 "C16-r3-1": ("C16", "after seeded subsets of the yield sites were added (Start directly followed by Close)"),
 "C16-r3-2": ("C16", ""),
 "C16-r3-3": ("C16", "after RTCP bursts towards a UDP-multicast reader were added to the capacity workload"),
 "C16-r3-4": ("C16", "after simulation-aware locks with yield points inside ringbuffer.go were added"),
 "C17-r3-1": ("C17", ""),
 "C17-r3-2": ("C17", "after redirect Locations with other spellings of the scheme were added"),
 "C17-r3-3": ("C17", "after the secure SETUP without KeyMgmt on a TLS server was added"),
 "C18-r3-1": ("C18", ""), "C18-r3-2": ("C18", ""),
 "C18-r3-3": ("C18", "after a UDP-multicast reader was added"),
 "C18-r3-4": ("C18", ""),
 "C19-r3-1": ("C19", "after 'the refused connection does not stay attached to the session' was added"),
 "C19-r3-2": ("C19", "caught since the workload mcsrc (scripted multicast camera naming source=) was added to C19; missed at first"),
 "C19-r3-3": ("C19", "caught since the UDP-multicast reader was added to C19; missed at first"),
 "C20-r3-1": ("C20", ""), "C20-r3-2": ("C20", ""),
 "C20-r3-3": ("C20", "after user-info with an empty user name and a password was added"),
}
confirmed = {}
for line in open("/tmp/confirm-summary.log") if os.path.exists("/tmp/confirm-summary.log") else []:
    m = re.match(r"(C\d+)/(\d+) apply=(\S+) build=(\S+) tests=(\S+) demo_with=(\S+) demo_without=(\S+)", line)
    if m:
        confirmed[f"{m.group(1)}-{m.group(2)}"] = dict(applies=m.group(3), builds=m.group(4), unedited_tests=m.group(5),
                                                        demo_with_patch=m.group(6), demo_without_patch=m.group(7))
for extra in ["/tmp/confirm-summary-early.log"]:
    if os.path.exists(extra):
        for line in open(extra):
            m = re.match(r"(C\d+)/(\d+) apply=(\S+) build=(\S+) tests=(\S+) demo_with=(\S+) demo_without=(\S+)", line)
            if m:
                confirmed.setdefault(f"{m.group(1)}-{m.group(2)}", dict(applies=m.group(3), builds=m.group(4), unedited_tests=m.group(5),
                                                        demo_with_patch=m.group(6), demo_without_patch=m.group(7)))
if os.path.exists("/tmp/confirm2-summary.log"):
    for line in open("/tmp/confirm2-summary.log"):
        m = re.match(r"(C\d+)/r2-(\d+) apply=(\S+) build=(\S+) tests=(\S+) demo_with=(\S+) demo_without=(\S+)", line)
        if m:
            confirmed[f"{m.group(1)}-r2-{m.group(2)}"] = dict(applies=m.group(3), builds=m.group(4), unedited_tests=m.group(5),
                                                               demo_with_patch=m.group(6), demo_without_patch=m.group(7))
if os.path.exists("/tmp/confirm3-summary.log"):
    for line in open("/tmp/confirm3-summary.log"):
        m = re.match(r"(C\d+)/r3-(\d+) apply=(\S+) build=(\S+) tests=(\S+) demo_with=(\S+) demo_without=(\S+)", line)
        if m:
            confirmed[f"{m.group(1)}-r3-{m.group(2)}"] = dict(applies=m.group(3), builds=m.group(4), unedited_tests=m.group(5),
                                                               demo_with_patch=m.group(6), demo_without_patch=m.group(7))
ALL = dict(RESULTS)
ALL.update(RESULTS2)
ALL.update(RESULTS3)
# The sub-agents' output directories lived under /tmp and were removed at the end of the campaign:
# /verif/seeded/ is the record. Without them this script must not touch it.
if not all(os.path.isdir(d) for d in ("/tmp/seedout", "/tmp/seedout2", "/tmp/seedout3")):
    print("mkseeded: the source directories /tmp/seedout{,2,3} are gone; /verif/seeded is left as it is")
    sys.exit(0)
rows = []
for sid in sorted(ALL):
    if "-r3-" in sid:
        pid, k = sid.split("-r3-")
        src = f"/tmp/seedout3/{pid}/{k}"
    elif "-r2-" in sid:
        pid, k = sid.split("-r2-")
        src = f"/tmp/seedout2/{pid}/{k}"
    else:
        pid, k = sid.split("-")
        src = f"{SRC}/{pid}/{k}"
    if not os.path.isdir(src):
        print("missing", src); continue
    dst = f"{DST}/{sid}"
    os.makedirs(dst, exist_ok=True)
    for f in os.listdir(src):
        p = os.path.join(src, f)
        if os.path.isfile(p) and os.path.getsize(p) < 60000 and (f.endswith((".diff", ".go", ".md", ".sh")) or f == "meta.json"):
            if f != "meta.json":
                shutil.copy(p, os.path.join(dst, f))
    meta = {}
    try:
        meta = json.load(open(f"{src}/meta.json"))
    except Exception as e:
        meta = {"title": "(meta.json of the author unreadable)"}
    caught, note = ALL[sid]
    out = {"id": sid, "property": pid, "author": "independent sub-agent given only the property text and its own scratch worktree",
           "title": meta.get("title"), "what_breaks": meta.get("what_breaks"), "needs": meta.get("needs"),
           "files": meta.get("files"), "author_tests_run": meta.get("tests_run"), "demo": meta.get("demo"),
           "confirmed_in_scratch_worktree": confirmed.get(sid, "pending"),
           "caught_by": [c.strip() for c in caught.split(",") if c.strip()], "result_note": note}
    json.dump(out, open(f"{dst}/meta.json", "w"), indent=1)
    rows.append((sid, (meta.get("title") or "")[:110], caught or "-", note))
with open(f"{DST}/INDEX.md", "w") as f:
    f.write("# Seeded changes (independent sub-agents), see DESIGN.md 8.5\n\n| id | change | caught by | note |\n|---|---|---|---|\n")
    for r in rows:
        f.write("| %s | %s | %s | %s |\n" % tuple(x.replace("|", "/") for x in r))
print(len(rows), "seeded changes;", sum(1 for r in rows if r[2] != "-"), "caught")
