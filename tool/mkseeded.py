#!/usr/bin/env python3
"""Copies the confirmed seeded changes from the sub-agents' output directories into
/verif/seeded/<ID>-<k>/ (patch.diff, the demonstration, meta.json) and writes seeded/INDEX.md.
The 'caught_by' / 'note' columns come from the table below (results of running the checks with
seedsens.sh / sens.sh); 'confirmed' comes from seedfull.sh's summary log."""
import json, os, shutil, glob, re, sys

SRC = "/tmp/seedout"
DST = "/verif/seeded"
# id -> (caught by (check ids, quick tier unless stated), note)
RESULTS = {
 "C01-1": ("C01", ""), "C01-2": ("C01", "after the SSRC clause was extended to multi-format medias"),
 "C01-3": ("C01", "after payloads at the MaxPacketSize limit were added"),
 "C01-4": ("C01", "after the heavy-duplication profile was added (also C14)"), "C01-5": ("C01", ""),
 "C02-1": ("C02", ""), "C02-2": ("C02", "after the 'connection kept after a successful TEARDOWN' oracle was added"),
 "C02-3": ("C02", ""), "C02-4": ("C02", "server panic"),
 "C04-1": ("C04", ""), "C04-2": ("C04", "after TCP write coalescing (tcp.coalesce) was added to the simulated network"),
 "C04-3": ("C04", ""), "C04-4": ("C04", ""),
 "C07-1": ("C07", ""), "C07-2": ("C07", ""), "C07-3": ("C07", ""), "C07-4": ("C07", ""),
 "C10-1": ("C10", ""), "C10-2": ("C10", "after pre-emptive Basic credentials were added to workload C"),
 "C10-3": ("C10", "after empty-path URLs were added to workloads A/B"), "C10-4": ("C10", ""),
 "C11-1": ("C11, C17", "C11 after the secure profile with a valid KeyMgmt header on plain servers was added; C17's downgrade case caught it unchanged"),
 "C11-2": ("C11", ""),
 "C11-3": ("C02", "same change as C02-4; C11's own quick tier does not reach 'handler without OnPause + PAUSE with a valid session id' often enough"),
 "C11-4": ("C11, C01", "C11 after the hostile peer that stops reading was added; C01 (stalled reader that pauses) caught it unchanged as a hang"),
 "C12-1": ("C12", "after the flood behaviour was added"), "C12-2": ("C12", "client panic"), "C12-3": ("C12", ""), "C12-4": ("C12", "after holds at the client's shutdown yield sites were added"),
 "C13-1": ("C13", "after Close landing inside a packet callback was added"),
 "C13-2": ("C13", "after UDP-multicast was brought into the simulation"),
 "C13-3": ("C12", "same change as C12-4: needs a server that sends requests to the client, which only C12's scripted server does"),
 "C13-4": ("C13", ""),
 "C14-1": ("C14", ""), "C14-2": ("C14", ""), "C14-3": ("C14", ""), "C14-4": ("C14", ""),
 "C15-1": ("C15", ""), "C15-2": ("C15", ""),
 "C15-3": ("C15", "after simulation-aware locks, automatic per-statement yield points in receiver.go and the concurrent-callers mode were added (DESIGN 8.6)"),
 "C15-4": ("C15", ""),
 "C16-1": ("C16", ""), "C16-2": ("C16", "after the OnError-vs-Close oracle was added"),
 "C16-3": ("C16", "after the capacity workload behind the media entry points was added"),
 "C16-4": ("C16", "after the sequential reference-model mode was added"),
 "C17-1": ("C17", "after the multicast downgrade case was added"), "C17-2": ("C17", "after the per-session writer mode was added"),
 "C17-3": ("", "MISSED: RLock instead of Lock around a call into pion/srtp: the corruption needs two goroutines interleaving inside the dependency's code, where no yield point can be placed (DESIGN 8.6)"),
 "C17-4": ("C17", ""),
 "C18-1": ("C18", "after Start() validation was run across forced protocols"), "C18-2": ("C18", ""), "C18-3": ("C18", ""), "C18-4": ("C18", ""),
 "C19-1": ("", "NOT A VIOLATION of the statement as written: with AnyPortEnable the port is 'explicitly relaxed'; the oracle asserts only the IP there (DESIGN 8.6)"),
 "C19-2": ("C19", ""), "C19-3": ("C19", ""), "C19-4": ("C19", "after forged IPv6 sources built from the negotiated IPv4 bytes were added"),
 "C20-1": ("C20", ""), "C20-2": ("C20", ""), "C20-3": ("C20", ""), "C20-4": ("C20", "after back channels in the stream description were added"),
}
confirmed = {}
for line in open("/tmp/confirm-summary.log") if os.path.exists("/tmp/confirm-summary.log") else []:
    m = re.match(r"(C\d+)/(\d+) apply=(\S+) build=(\S+) tests=(\S+) demo_with=(\S+) demo_without=(\S+)", line)
    if m:
        confirmed[f"{m.group(1)}-{m.group(2)}"] = dict(applies=m.group(3), builds=m.group(4), unedited_tests=m.group(5),
                                                        demo_with_patch=m.group(6), demo_without_patch=m.group(7))
for extra in ["/tmp/confirm-summary-early.log"]:
    if os.path.exists(extra):
        for line in open(extra):
            m = re.match(r"(C\d+)/(\d+) apply=(\S+) build=(\S+) tests=(\S+) demo_with=(\S+) demo_without=(\S+)", line)
            if m:
                confirmed.setdefault(f"{m.group(1)}-{m.group(2)}", dict(applies=m.group(3), builds=m.group(4), unedited_tests=m.group(5),
                                                        demo_with_patch=m.group(6), demo_without_patch=m.group(7)))
rows = []
for sid in sorted(RESULTS):
    pid, k = sid.split("-")
    src = f"{SRC}/{pid}/{k}"
    if not os.path.isdir(src):
        print("missing", src); continue
    dst = f"{DST}/{sid}"
    os.makedirs(dst, exist_ok=True)
    for f in os.listdir(src):
        p = os.path.join(src, f)
        if os.path.isfile(p) and os.path.getsize(p) < 60000 and (f.endswith((".diff", ".go", ".md", ".sh")) or f == "meta.json"):
            if f != "meta.json":
                shutil.copy(p, os.path.join(dst, f))
    meta = {}
    try:
        meta = json.load(open(f"{src}/meta.json"))
    except Exception as e:
        meta = {"title": "(meta.json of the author unreadable)"}
    caught, note = RESULTS[sid]
    out = {"id": sid, "property": pid, "author": "independent sub-agent given only the property text and its own scratch worktree",
           "title": meta.get("title"), "what_breaks": meta.get("what_breaks"), "needs": meta.get("needs"),
           "files": meta.get("files"), "author_tests_run": meta.get("tests_run"), "demo": meta.get("demo"),
           "confirmed_in_scratch_worktree": confirmed.get(sid, "pending"),
           "caught_by": [c.strip() for c in caught.split(",") if c.strip()], "result_note": note}
    json.dump(out, open(f"{dst}/meta.json", "w"), indent=1)
    rows.append((sid, (meta.get("title") or "")[:110], caught or "-", note))
with open(f"{DST}/INDEX.md", "w") as f:
    f.write("# Seeded changes (independent sub-agents), see DESIGN.md 8.5\n\n| id | change | caught by | note |\n|---|---|---|---|\n")
    for r in rows:
        f.write("| %s | %s | %s | %s |\n" % tuple(x.replace("|", "/") for x in r))
print(len(rows), "seeded changes;", sum(1 for r in rows if r[2] != "-"), "caught")
