module veriftool

go 1.26
