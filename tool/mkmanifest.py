#!/usr/bin/env python3
"""Regenerates /verif/MANIFEST.json from the table below (kept in one place so
that the manifest stays valid while checks are added)."""
import json

NA = {
 "C03": "pure function of (frame, encoder configuration): no schedule, clock, stream, fault or interleaving for a simulator to own; property-based testing decides it, not deterministic simulation",
 "C05": "SDP marshal/unmarshal round trip and parser totality are pure functions of a description / byte string; nothing for a simulator to schedule or fault",
 "C06": "packetizer output is a pure function of the Encode call series and the encoder configuration; no concurrency, time or I/O",
 "C08": "deterministic function of an arbitrary packet history with no transport, clock or concurrency; deciding it is coverage-guided fuzzing plus heap measurement, and routing random bytes through a simulated link would only rename input generation",
 "C09": "header codecs are pure functions; the map-iteration concern is inside one call and cannot be placed behind a seam the simulator owns",
}

WHOLE_NOTE = ("Sampling, not enumeration: a clean batch is evidence, not proof. Trusted: testing/synctest (fake clock, quiescence detection), "
              "the simulated sockets of /verif/sim/simnet standing in for the OS network, the harness oracles. Real: all of gortsplib and its dependencies. "
              "UDP-multicast transport is outside the simulation.")

CHECKS = {
 "C14": dict(
  text="Receiver-over-lossy-link simulation: an ordered source (seeded start sequence number, every wrap position over a batch) feeds the real rtpreceiver.Receiver (reliable and unreliable mode, buffer sizes 1..512) through a simulated link whose explicit, seeded schedule drops, burst-drops, duplicates, delays (bounded displacement) and pauses packets and restarts the sender; the receiver's report ticker runs on the fake clock. Oracles written from the statement: strictly increasing delivery modulo 2^16 without duplicates except across a detected restart, delivery of packets displaced by less than the buffer size, lost == skipped sequence numbers, Stats() and every captured receiver report (extended highest sequence number, cumulative and interval fraction lost) against the delivery history, restart followed within buffer size + 1 packets.",
  note="Real: pkg/rtpreceiver. Simulated: the link (arrival history), the clock. The displacement clause is asserted for pure displacement only (no unresolved older loss when the packet is first overtaken); BufferSize+1 consecutive stale arrivals count as a detected restart (the statement's own restart clause).",
  tech="deterministic simulation: seeded arrival-history search on a fake clock, reference-model oracle", ref="3.9"),
 "C15": dict(
  text="Sender->link->receiver simulation on the fake clock: writer tracks with exact 64-bit tick indices (seeded clock rates incl. arbitrary ones, initial timestamps, forward/backward/huge steps crossing 2^32 repeatedly), real rtpsender.Sender (reports on its ticker), a link giving packets and reports independent delays (all interleavings), real rtpreceiver.Receiver and rtptime.GlobalDecoder, wall-clock offsets from 1970 to 2036; oracles: PTS differences equal the exact accumulated signed 32-bit steps, later tracks land on the leading timeline, PacketNTP within one tick + NTP rounding of the writer's instant (math/big reference), ntp.Decode(ntp.Encode(t)) within 1 ns.",
  note="Real: pkg/rtptime, pkg/ntp, pkg/rtpsender, pkg/rtpreceiver. Simulated: clock (testing/synctest), link delays. The late-track clause has no tolerance in the statement; the oracle allows 2 ticks of the new track + 1 tick of the leading clock.",
  tech="deterministic simulation on a fake clock: seeded interleaving search, exact-arithmetic reference", ref="3.10"),
 "C16": dict(
  text="Seeded search over fully controlled interleavings of the real RingBuffer and asyncprocessor.Processor: every goroutine parks at every lock acquisition, unlock->broadcast gap and processor step, one is released per step by H(seed,step); each recorded history is checked by porcupine against a bounded-FIFO model plus direct exactly-once / order / after-close / lost-wake-up / OnError oracles. Sampling, not enumeration: a clean batch is evidence, not proof.",
  note="Interleavings are explored at the granularity of the inserted yield sites; code between two sites runs atomically w.r.t. other controlled goroutines. Trusted: Go runtime sync primitives, testing/synctest quiescence detection, porcupine.",
  tech="deterministic simulation: controlled-schedule search + porcupine linearizability", ref="3.11"),
 "C01": dict(
  text="Whole-system deterministic simulation: real Server/ServerStream/Client over a simulated network (UDP, TCP interleaved, HTTP and WebSocket tunnels, plain and TLS+SRTP, server-side writer or recording client as source, readers joining/pausing/leaving) under seeded latency, chunking (down to 1-byte reads), UDP drop/dup/reorder/burst, bounded windows with receiver stalls and seeded yield-point holds; every delivered packet is checked online for identity/order/at-most-once/SSRC, and the recorded history for gap-freedom on reliable carriers.",
  note=WHOLE_NOTE, tech="deterministic simulation with fault injection: seeded schedule/fault search, history oracle", ref="3.1"),
 "C02": dict(
  text="Whole-system deterministic simulation with a scripted raw RTSP client: seeded request sequences (10 methods x no/right/wrong Session header, 1-2 connections, pipelining, every chunking incl. 1-byte reads, 5 application handler subsets, UDP offered or not) judged request by request against an executable model of the RFC 2326 session state machine written from the statement (success/error class, next state via ServerSession.State(), when the session ends, one response per request in order with CSeq echoed, server alive afterwards, OnSessionClose exactly once); and an expiry workload on the fake clock (shipped and seeded timeouts): a real Client left running as live peer, fully silent scripted peers, keep-alive-only and media/RTCP-only peers over UDP and TCP, with 'never expired' / 'closed within timeout + one check period + injected-delay budget' oracles.",
  note=WHOLE_NOTE + " The model is silent (either outcome accepted) where RFC 2326 and common server practice differ or the statement is not explicit; the list is in the evidence assumptions.",
  tech="deterministic simulation: scripted-peer sequences vs executable reference model; simulated-time expiry", ref="3.2"),
 "C07": dict(
  text="Codec-over-lossy-link simulation for the 12 stateful depacketizers: real encoder -> packets tagged (frame, position) -> simulated link whose seeded, explicit fault schedule drops / duplicates / late-duplicates / swaps packets and drops whole frames -> real decoder; history oracle: every frame that is clean by the statement's definition (its packets and its predecessor's arrived once, in order, contiguously) is returned intact exactly once, no later than the Decode call of the next frame's first packet; no panic; a fault-free configuration runs alongside. Seeded search over fault schedules and frame shapes, not enumeration.",
  note="Real: the encoders and decoders of pkg/format/rtp*. Simulated: the link (packet fates). No clock or concurrency is involved; frames are valid inputs built by the harness. What a decoder returns for frames that are not clean is unconstrained. A stray packet of an older frame landing between two intact frames counts as damage to the frame it precedes (conservative reading).",
  tech="deterministic simulation: seeded fault-schedule search over a lossy link, history oracle", ref="3.4"),
 "C10": dict(
  text="Whole-system deterministic simulation of authentication on the wire in three workloads: (A) real Client with credentials in the URL against a real Server calling VerifyCredentials, for every ordered non-empty subset of {Basic, Digest-MD5, Digest-SHA-256}, seeded user names / passwords (incl. ':') / paths / queries / track suffixes, play and record; (B) real Client against a scripted server issuing challenges with arbitrary realm / nonce / method list and verifying with auth.Verify; (C) scripted raw client with its own RFC 7617/2617/7616 implementation against a real Server: unauthenticated request -> 401 with exactly the enabled methods and the connection kept, valid credentials accepted, every single-field perturbation (user, password, realm, nonce, method, algorithm, URI, response, scheme not enabled) rejected with 401 and the connection closed. Latency and every chunking mode (1-byte reads of the Authorization header).",
  note=WHOLE_NOTE + " The SETUP base-URL relaxation forms are sent as valid requests and never counted as perturbations.",
  tech="deterministic simulation: real client/server pairs and scripted peers over a simulated network, perturbation search", ref="3.5"),
 "C11": dict(
  text="Whole-system deterministic simulation with 1..4 simultaneous hostile scripted control connections (valid play/record conversations, interleaved frames in any state, HTTP-tunnel and WebSocket handshakes, base64 blocks, garbage; 16 grammar/byte-level mutation kinds; every chunking; ending in close, RST or silence; plain or after a TLS handshake) next to a well-behaved real client: no panic or deadlock, every hostile connection answered or closed within the configured timeouts (simulated time), the well-behaved client's stream stays in order and gap-free, and after all timeouts the server registries, stream reader slots, server-node sockets and library goroutine count are back at the baseline taken before the attack; a fresh client is then served; OnConnOpen/OnConnClose balanced.",
  note=WHOLE_NOTE, tech="deterministic simulation with fault injection: hostile scripted peers, resource census vs baseline", ref="3.6"),
 "C12": dict(
  text="Whole-system deterministic simulation of a real Client (play or record; protocol forced or automatic; credentials; back channels; AnyPortEnable; busy local UDP ports) against a scripted server derived from a correct one: per request the response is mutated (16 grammar/byte kinds, field-level SDP / Transport / Session / RTP-Info mutations), dropped, duplicated, delayed around and beyond ReadTimeout, preceded by injected frames or server requests, replaced by odd status codes, wrong/missing CSeq or redirects (incl. endless chains), or the connection is closed / reset / left silent; every API call must return within a multiple of the configured timeouts in simulated time, nothing may panic, Close and Wait return, and afterwards the client node holds no socket and no client goroutine remains.",
  note=WHOLE_NOTE + " The driver respects documented API preconditions (Record only after a successful Setup, writes only while recording).",
  tech="deterministic simulation with fault injection: hostile scripted server, simulated-time latency + census oracle", ref="3.7"),
 "C13": dict(
  text="Whole-system deterministic simulation with Server.Close, ServerStream.Close and Client.Close (from another goroutine) landing at seeded instants between any two protocol steps - idle, mid-handshake, playing, recording, paused, with a writer running, with peers that stopped reading (bounded window) or vanished - and seeded holds at ~40 yield sites on the shutdown paths; oracles: Close latency in simulated time, socket census of the closed object's node, goroutines attributed to the closed object (creator chains) and a complete end-of-run census, open/close notification balance and no packet/request callback after OnSessionClose (global sequence numbers).",
  note=WHOLE_NOTE, tech="deterministic simulation with fault injection: close-point and shutdown-interleaving search, census + callback-history oracle", ref="3.8"),
 "C19": dict(
  text="Whole-system deterministic simulation with a spoofing node and intruding control connections: sessions over UDP (reading client, recording client) and TCP; the spoofer forges perfectly valid RTP for the session and RTCP sender reports from another IP, another IP with the negotiated port, the negotiated IP with another port and IPv4-mapped forms, towards the client's and the server's media ports, with AnyPortEnable on and off and sources reported in 4- or 16-byte form; oracles: no forged packet reaches a packet callback, the session's inbound byte counter equals the bytes that arrived from the negotiated peer (wire tap), a legitimate peer that vanishes silently is expired on time although forged traffic keeps flowing; foreign control requests with the stolen session id (7 methods, set-up / streaming / paused states) from another IP - and from the same IP on another connection while the session streams interleaved - get an error status and leave state, medias and liveness of the session untouched.",
  note=WHOLE_NOTE, tech="deterministic simulation with fault injection: forged-source datagrams and stolen-session requests, callback/statistics/timeout oracle", ref="3.14"),
 "C17": dict(
  text="Whole-system deterministic simulation of RTSPS+SRTP sessions with wire taps and tampering: 1..2 medias x 1..3 formats (SSRC sets), server-side writer or recording client over UDP/TCP, readers over UDP/TCP joining late, pausing and resuming, sequence numbers starting just below 65535 so that the roll-over counter advances and late joiners receive a non-zero counter through MIKEY; RTP payloads and RTCP APP packets carry 16 marker bytes that must never appear in any UDP datagram, TCP byte stream or interleaved frame (tap above TLS); every delivered packet must be byte-identical to a written one although datagrams are corrupted (single bit / byte), lost, duplicated and reordered in transit; over TCP everything handed to the stream while the reader plays must arrive (each side decrypts what the other encrypts); plus the three downgrade refusals (secure profile on a plain server with a fully valid KeyMgmt header, unencrypted UDP on a TLS server, a real client redirected from rtsps to rtsp opens no plain connection).",
  note=WHOLE_NOTE + " Tampering inside the TLS stream is not simulated (TLS authenticates it); client-managed keys (MKI) are exercised by C18.",
  tech="deterministic simulation with fault injection: wire taps + in-transit corruption, delivery-identity oracle", ref="3.12"),
 "C20": dict(
  text="Whole-system deterministic simulation of URL handling in two workloads: (lib) real Client (play and record, credentials in the URL, Basic/Digest) against a real Server over a simulated network with seeded URLs - IPv4 / IPv6-literal / resolved host names, with and without port, paths with any number of segments, percent-escapes of reserved, unreserved, lower-case-hex and UTF-8 bytes, segments that look like trackID=N, queries containing '/', '?', '=', '&', '@' and escapes; every handler context (Describe, Announce, Setup, Play, Record, Pause) must carry exactly the generator's decoded path and the raw query, every media of a multi-media description must be matched to the media the client asked for (tagged packets per media), credentials never occur in a request line; (camera) real Client against a scripted camera-style server whose DESCRIBE answer uses seeded Content-Base forms (absent, absolute, other host, host-relative) and control attributes (absolute, relative, '?'-style, leading '/', empty, '*', session-level absolute): each SETUP URL must equal the URL computed from the statement's rules and aggregate requests must use the base URL.",
  note=WHOLE_NOTE + " Silent where the statement is: media-level a=control:* and the host of an absolute control that names another host than the request (listed in the evidence assumptions).",
  tech="deterministic simulation: seeded URL-space search with real client/server pairs and a scripted camera, reference URL-resolution oracle", ref="3.15"),
 "C18": dict(
  text="Whole-system deterministic simulation with wire taps: server and per-client MaxPacketSize from 32 to 1472 (and default), plain and RTSPS+SRTP (incl. client-managed keys with MKI), UDP and interleaved, packets swept around the limit (header + CSRC + extension + payload + padding; single and compound RTCP) through ServerStream, ServerSession and Client write entry points; every UDP datagram and interleaved-frame payload leaving a library endpoint (automatic reports and firewall-opening packets included) is measured against that endpoint's maximum, an oversize write must return an error and put nothing on the wire, and Start() must reject MaxPacketSize > 1472 and write-queue sizes that are not powers of two.",
  note=WHOLE_NOTE + " The multicast writer entry point and the HTTP/WebSocket tunnels are excluded; maxima below 32 are treated as degenerate.",
  tech="deterministic simulation with wire taps: size sweep around the limit, datagram/frame size oracle", ref="3.13"),
}

def chk(pid, d):
    return {"property_id": pid, "quick_cmd": f"./check {pid} quick", "thorough_cmd": f"./check {pid} thorough",
            "evidence_file": f"/verif/evidence/{pid}.json", "replay_cmd_template": f"./check {pid} --replay {{path}}",
            "engine": "verifsim",
            "level_claimed": {"category": "exploration", "text": d["text"], "design_ref": d["ref"]},
            "level_note": d["note"], "technique": d["tech"]}

m = {
 "version": 1,
 "setup_cmd": "/verif/setup.sh",
 "hooks": {
  "guard": "verif",
  "enable": "no hook is committed to /repo: every check copies /repo's working tree to a scratch directory, runs /verif/bin/instrument on the copy (insertion of verifhook.Point(...) yield calls listed in /verif/hooks/sites.txt, validated with go/parser, plus the drop-in files /verif/hooks/export_verif.go and pkg/verifhook/hook.go, all //go:build verif) and builds the harness with -tags verif against the copy",
  "baseline_off_cmd": "cd /repo && GOFLAGS=-mod=mod go test -vet=off -count=1 -timeout 25m ./...",
  "source_commits": [],
  "add_only": True,
 },
 "engines": [
  {"name": "verifsim", "path": "/verif/sim", "serves_properties": sorted(CHECKS),
   "kind_free_text": "deterministic simulation with fault injection: real library code inside a testing/synctest bubble (fake clock, quiescence detection), simulated sockets/entropy, seeded scheduler deciding delivery, chunking, faults and yield-point interleavings; 16 worker processes over disjoint seed ranges; violations minimised and replay-verified"},
 ],
 "checks": [chk(p, CHECKS[p]) for p in sorted(CHECKS)],
 "not_applicable": [{"property_id": k, "reason": v} for k, v in sorted(NA.items())],
 "notes": "See DESIGN.md. Exit codes of every check: 0 held, 1 VIOLATION (with replay file), 2 build/tool/watchdog trouble (never printed as a violation). /repo carries unguarded fix: commits, one per repaired defect (see known_findings.txt).",
}
json.dump(m, open("/verif/MANIFEST.json", "w"), indent=1)
print("manifest: checks", sorted(CHECKS))
