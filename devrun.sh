#!/bin/sh
# devrun.sh <ID> <seed_base> <nruns> [tier]: run a batch with the dev binary ($DEVDIR, default /tmp/vb), print a summary.
id=$1; base=$2; n=$3; tier=${4:-quick}
D=${DEVDIR:-/tmp/vb}
O=${DEVOUT:-out}; export O; cd $D && rm -f $O.json
VSIM_MODE=batch VSIM_PROP=$id VSIM_TIER=$tier VSIM_SEED_BASE=$base VSIM_WORKER=0 VSIM_NWORKERS=1 VSIM_BUDGET_S=600 VSIM_MAXRUNS=$n VSIM_OUT=$D/$O.json VSIM_INFLIGHT=$D/$O-inflight.json VSIM_WATCHDOG_S=20 GOMAXPROCS=1 GODEBUG=asyncpreemptoff=1 ./sim.test -test.run '^TestWorker$' -test.timeout 0 > $D/$O-log.txt 2>&1
echo "exit=$?"
D=$D python3 - <<'PY'
import json,os
D=os.environ['D']
O=os.environ.get('O','out')
if os.path.exists(D+'/'+O+'.json'):
    d=json.load(open(D+'/'+O+'.json'))
    print('runs',d['runs'],'nontrivial',d['nontrivial'],'wall',round(d['wall_s'],2),'steps',d['steps'],'sim_s',d.get('sim_s'),'inconclusive',d['inconclusive'])
    print('faults',d['faults'])
    print('probes',d['probes'])
    print('yields',d['yield_hits'])
    v=d.get('violation')
    if v:
        print('VIOLATION seed',v['seed'],v['class']); print(v['detail'][:3000]); print(json.dumps(v['scenario'])[:1500])
        for l in (v.get('tail') or [])[-25:]: print('  ',l)
else:
    print(open(D+'/'+O+'-log.txt').read()[-6000:])
PY
