#!/bin/sh
# seedfull.sh <ID> <k> [srcdir] : confirm one seeded change completely in a private scratch worktree:
# applies, builds, unedited tests of the touched packages and of the root package pass, the demonstration
# fails with the patch and passes without it. Log: /tmp/confirm/<ID>-<k>.log ; prints one summary line.
id=$1; k=$2; d=${3:-/tmp/seedout/$id/$k}
mkdir -p /tmp/confirm; log=/tmp/confirm/$id-$k.log; : > $log
WT=/tmp/confirmwt-$id-$k
git -C /repo worktree add -q --detach $WT HEAD >>$log 2>&1 || { echo "$id/$k worktree failed"; exit 2; }
fin() { git -C /repo worktree remove --force $WT >/dev/null 2>&1; echo "$id/$k apply=$A build=$B tests=$T demo_with=$DW demo_without=$DO  ($log)"; }
A=no; B=-; T=-; DW=-; DO=-
git -C $WT apply "$d/patch.diff" >>$log 2>&1 || { fin; exit 1; }; A=ok
cd $WT
go build -mod=mod . ./pkg/... ./internal/... >>$log 2>&1 && B=ok || { B=FAIL; fin; exit 1; }
pk=$(grep '^+++ b/' "$d/patch.diff" | sed 's|^+++ b/||' | xargs -n1 dirname | sort -u | grep -v '^\.$' | sed 's|^|./|' | tr '\n' ' ')
T=ok
if [ -n "$pk" ]; then go test -mod=mod -vet=off -count=1 -timeout 20m $pk >>$log 2>&1 || T=FAIL; fi
flock /tmp/gotest.lock go test -mod=mod -vet=off -count=1 -timeout 20m . >>$log 2>&1 || { echo "root suite failed once, retrying" >>$log; flock /tmp/gotest.lock go test -mod=mod -vet=off -count=1 -timeout 20m . >>$log 2>&1 || T=FAIL; }
# demonstration: a *_test.go file in the change directory, copied next to the code of its package
demo=$(ls "$d"/*_test.go 2>/dev/null | head -1)
if [ -n "$demo" ]; then
  pkgname=$(grep -m1 '^package ' "$demo" | awk '{print $2}')
  if [ "$pkgname" = gortsplib ] || [ "$pkgname" = gortsplib_test ]; then pdir=.; else
    pdir=$(grep -rl --include=*.go "^package ${pkgname%_test}\$" pkg internal 2>/dev/null | head -1 | xargs dirname); fi
  [ -n "$DEMO_DIR" ] && pdir=$DEMO_DIR
  names=$(grep -o '^func Test[A-Za-z0-9_]*' "$demo" | sed 's/func //' | tr '\n' '|' | sed 's/|$//')
  cp "$demo" "$pdir/zz_seed_demo_test.go"
  echo "=== demo with patch: $pdir -run '^($names)\$'" >>$log
  if flock /tmp/gotest.lock go test -mod=mod -vet=off -count=1 -timeout 15m -run "^($names)\$" ./$pdir >>$log 2>&1; then DW=PASS; else DW=fail; fi
  git apply -R "$d/patch.diff" >>$log 2>&1
  echo "=== demo without patch" >>$log
  if flock /tmp/gotest.lock go test -mod=mod -vet=off -count=1 -timeout 15m -run "^($names)\$" ./$pdir >>$log 2>&1; then DO=pass; else DO=FAIL; fi
else DW=nodemo; DO=nodemo; fi
fin
