#!/bin/sh
# seedconfirm.sh <dir-with-patch.diff> : confirm in a scratch worktree that a seeded change applies to
# /repo's HEAD, compiles, and passes the unedited tests of the touched packages and of the root package.
# Leaves the worktree (/tmp/confirmwt) with the patch APPLIED so that the demonstration can be run next;
# `seedconfirm.sh --reset` restores it. Never touches /repo's working tree.
set -e
WT=/tmp/confirmwt
[ -d $WT ] || git -C /repo worktree add -q --detach $WT HEAD
git -C $WT checkout -q --detach "$(git -C /repo rev-parse HEAD)"; git -C $WT checkout -q -- .; git -C $WT clean -fdq
[ "$1" = "--reset" ] && exit 0
d="$(readlink -f "$1")"
git -C $WT apply "$d/patch.diff"
pk=$(grep '^+++ b/' "$d/patch.diff" | sed 's|^+++ b/||' | xargs -n1 dirname | sort -u | sed 's|^\.$||;s|^|./|' | tr '\n' ' ')
case " $pk " in *" ./ "*) ;; *) pk="$pk ./";; esac
cd $WT
go build -mod=mod . ./pkg/... ./internal/... 
echo "confirm: packages: $pk"
flock /tmp/gotest.lock go test -mod=mod -vet=off -count=1 -timeout 20m $pk 2>&1 | grep -v "no test files" | tail -15
