#!/bin/sh
# dev.sh: (re)build the harness in a persistent dev scratch (/tmp/vb) for quick iteration.
set -e
export GOFLAGS=-mod=mod GOPROXY=off GOSUMDB=off GOTOOLCHAIN=local
mkdir -p /tmp/vb && rm -rf /tmp/vb/sim /tmp/vb/repo && cp -r /verif/sim /tmp/vb/sim && mkdir /tmp/vb/repo
(cd /repo && git ls-files | grep -v '_test.go$' | grep -v '^examples/' | tar -c -T - | tar -x -C /tmp/vb/repo)
/verif/bin/instrument -repo /tmp/vb/repo -hooks /verif/hooks
cd /tmp/vb/sim && cp go.mod.tmpl go.mod && cat /repo/go.sum go.sum.extra > go.sum
rm -f /tmp/vb/sim.test; go1.26.8 test -c -tags verif -trimpath -o /tmp/vb/sim.test ./run
