#!/bin/sh
# dev.sh: (re)build the harness in a persistent dev scratch ($DEVDIR, default /tmp/vb) for quick iteration.
# Not used by any registered check.
set -e
D=${DEVDIR:-/tmp/vb}
export GOFLAGS=-mod=mod GOPROXY=off GOSUMDB=off GOTOOLCHAIN=local
mkdir -p $D && rm -rf $D/sim && cp -r ${VROOT:-/verif}/sim $D/sim
# DEV_KEEP_REPO=1 keeps (a possibly hand-mutated) $D/repo instead of re-copying /repo: used to try
# deliberate breakages of the library without ever touching /repo.
if [ -z "$DEV_KEEP_REPO" ] || [ ! -d $D/repo ]; then
  rm -rf $D/repo && mkdir $D/repo
  (cd /repo && git ls-files | grep -v '_test.go$' | grep -v '^examples/' | tar -c -T - | tar -x -C $D/repo)
  ${VROOT:-/verif}/bin/instrument -repo $D/repo -hooks ${VROOT:-/verif}/hooks
fi
cd $D/sim && cp go.mod.tmpl go.mod && cat /repo/go.sum go.sum.extra > go.sum
# Families that do not compile right now (someone else's work in progress) are left out of the
# dev binary so that they cannot block others; DEV_ONLY="c01 c02" restricts the list explicitly.
fams=""
for d in scen/*/; do
  f=$(basename $d)
  if [ -n "$DEV_ONLY" ]; then case " $DEV_ONLY " in *" $f "*) ;; *) continue;; esac; fi
  if go1.26.8 build -tags verif ./scen/$f >/dev/null 2>$D/build-$f.log; then fams="$fams $f"; else echo "dev: leaving out $f (does not compile, see $D/build-$f.log)"; fi
done
{
  echo "package run"; echo; echo "import ("; echo '	"testing"'; echo; echo '	"verifsim/core"'
  for f in $fams; do echo "	_ \"verifsim/scen/$f\""; done
  echo ")"; echo; echo "func TestWorker(t *testing.T) { core.WorkerMain(t) }"
} > run/worker_test.go
rm -f $D/sim.test; go1.26.8 test -c -tags verif -trimpath -o $D/sim.test ./run
