#!/bin/sh
# dev.sh: (re)build the harness in a persistent dev scratch ($DEVDIR, default /tmp/vb) for quick iteration.
# Not used by any registered check.
set -e
D=${DEVDIR:-/tmp/vb}
export GOFLAGS=-mod=mod GOPROXY=off GOSUMDB=off GOTOOLCHAIN=local
mkdir -p $D && rm -rf $D/sim && cp -r /verif/sim $D/sim
# DEV_KEEP_REPO=1 keeps (a possibly hand-mutated) $D/repo instead of re-copying /repo: used to try
# deliberate breakages of the library without ever touching /repo.
if [ -z "$DEV_KEEP_REPO" ] || [ ! -d $D/repo ]; then
  rm -rf $D/repo && mkdir $D/repo
  (cd /repo && git ls-files | grep -v '_test.go$' | grep -v '^examples/' | tar -c -T - | tar -x -C $D/repo)
  /verif/bin/instrument -repo $D/repo -hooks /verif/hooks
fi
cd $D/sim && cp go.mod.tmpl go.mod && cat /repo/go.sum go.sum.extra > go.sum
rm -f $D/sim.test; go1.26.8 test -c -tags verif -trimpath -o $D/sim.test ./run
