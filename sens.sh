#!/bin/sh
# sens.sh <patch.diff> <ID> [tier]  - apply a patch to /repo, run the check, undo the patch.
# Used only for sensitivity experiments (seeded breakages); never leaves /repo modified.
patch="$(readlink -f "$1")"; id="$2"; tier="${3:-quick}"
git -C /repo diff --quiet || { echo "sens: /repo has uncommitted changes" >&2; exit 2; }
git -C /repo apply "$patch" || { echo "sens: patch does not apply" >&2; exit 2; }
/verif/check "$id" "$tier"; rc=$?
git -C /repo checkout -- . ; git -C /repo clean -fdq
# evidence written while a patch was applied is not evidence for the unchanged tree
git -C /verif checkout -- "evidence/$id.json" 2>/dev/null
echo "sens: exit=$rc"
exit $rc
