//go:build verif

package multicast

import (
	"fmt"
	"net"
)

// Simulation stand-in for the platform files of this package (which open raw
// sockets with syscalls and ignore the ListenPacket seam on Linux): both
// constructors bind the multicast group address through the seam, so that the
// simulated network of /verif/sim/simnet carries the group traffic. Everything
// above this file (multicast writers, listeners, SETUP negotiation) is the real code.

// NewMultiConn allocates a multicast connection on all interfaces.
func NewMultiConn(
	address string,
	_ bool,
	listenPacket func(network, address string) (net.PacketConn, error),
) (Conn, error) {
	pc, err := listenPacket("udp4", address)
	if err != nil {
		return nil, err
	}
	c, ok := pc.(Conn)
	if !ok {
		pc.Close() //nolint:errcheck
		return nil, fmt.Errorf("the packet connection does not implement multicast.Conn")
	}
	return c, nil
}

// NewSingleConn allocates a multicast connection on one interface.
func NewSingleConn(
	_ *net.Interface,
	address string,
	listenPacket func(network, address string) (net.PacketConn, error),
) (Conn, error) {
	return NewMultiConn(address, false, listenPacket)
}
