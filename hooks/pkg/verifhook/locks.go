//go:build verif

package verifhook

import "sync"

// SimLocks switches the library's mutexes (rewritten to the types below in the scratch copy)
// from the runtime's sync.Mutex / sync.RWMutex to simulation-aware locks whose waiters block on
// channels. testing/synctest sees a goroutine that waits for a channel as durably blocked, but
// not one that waits for a sync.Mutex: with these locks a goroutine may be parked at a yield
// point *inside* a critical section without hiding quiescence from the simulator. It must be
// set before any lock of the run is used and stay constant during the run.
var SimLocks bool

// guard protects the bookkeeping of the simulated locks. It is held for a few instructions only
// and never across anything that blocks.
var guard sync.Mutex

// Mutex replaces sync.Mutex.
type Mutex struct {
	real sync.Mutex
	// simulated
	locked  bool
	waiters []chan struct{}
}

// Lock implements sync.Locker.
func (m *Mutex) Lock() {
	if !SimLocks {
		m.real.Lock()
		return
	}
	guard.Lock()
	if !m.locked {
		m.locked = true
		guard.Unlock()
		return
	}
	ch := make(chan struct{})
	m.waiters = append(m.waiters, ch)
	guard.Unlock()
	<-ch // ownership is handed over by Unlock
}

// TryLock mirrors sync.Mutex.TryLock.
func (m *Mutex) TryLock() bool {
	if !SimLocks {
		return m.real.TryLock()
	}
	guard.Lock()
	defer guard.Unlock()
	if m.locked {
		return false
	}
	m.locked = true
	return true
}

// Unlock implements sync.Locker.
func (m *Mutex) Unlock() {
	if !SimLocks {
		m.real.Unlock()
		return
	}
	guard.Lock()
	if !m.locked {
		guard.Unlock()
		panic("verifhook: unlock of unlocked Mutex")
	}
	if len(m.waiters) > 0 {
		ch := m.waiters[0]
		m.waiters = m.waiters[1:]
		guard.Unlock()
		close(ch) // stays locked, now owned by the waiter
		return
	}
	m.locked = false
	guard.Unlock()
}

type rwWaiter struct {
	ch     chan struct{}
	writer bool
}

// RWMutex replaces sync.RWMutex. As in the runtime's implementation a waiting writer blocks
// readers that arrive after it; waiters are served in arrival order.
type RWMutex struct {
	real sync.RWMutex
	// simulated
	writer  bool
	readers int
	queue   []rwWaiter
}

// Lock locks for writing.
func (m *RWMutex) Lock() {
	if !SimLocks {
		m.real.Lock()
		return
	}
	guard.Lock()
	if !m.writer && m.readers == 0 && len(m.queue) == 0 {
		m.writer = true
		guard.Unlock()
		return
	}
	ch := make(chan struct{})
	m.queue = append(m.queue, rwWaiter{ch, true})
	guard.Unlock()
	<-ch
}

// Unlock unlocks a write lock.
func (m *RWMutex) Unlock() {
	if !SimLocks {
		m.real.Unlock()
		return
	}
	guard.Lock()
	if !m.writer {
		guard.Unlock()
		panic("verifhook: Unlock of RWMutex that is not write-locked")
	}
	m.writer = false
	wake := m.grant()
	guard.Unlock()
	for _, ch := range wake {
		close(ch)
	}
}

// RLock locks for reading.
func (m *RWMutex) RLock() {
	if !SimLocks {
		m.real.RLock()
		return
	}
	guard.Lock()
	if !m.writer && len(m.queue) == 0 {
		m.readers++
		guard.Unlock()
		return
	}
	ch := make(chan struct{})
	m.queue = append(m.queue, rwWaiter{ch, false})
	guard.Unlock()
	<-ch
}

// RUnlock unlocks a read lock.
func (m *RWMutex) RUnlock() {
	if !SimLocks {
		m.real.RUnlock()
		return
	}
	guard.Lock()
	if m.readers <= 0 {
		guard.Unlock()
		panic("verifhook: RUnlock of RWMutex that is not read-locked")
	}
	m.readers--
	var wake []chan struct{}
	if m.readers == 0 {
		wake = m.grant()
	}
	guard.Unlock()
	for _, ch := range wake {
		close(ch)
	}
}

// TryLock / TryRLock mirror the runtime's methods.
func (m *RWMutex) TryLock() bool {
	if !SimLocks {
		return m.real.TryLock()
	}
	guard.Lock()
	defer guard.Unlock()
	if m.writer || m.readers > 0 || len(m.queue) > 0 {
		return false
	}
	m.writer = true
	return true
}

// TryRLock: see TryLock.
func (m *RWMutex) TryRLock() bool {
	if !SimLocks {
		return m.real.TryRLock()
	}
	guard.Lock()
	defer guard.Unlock()
	if m.writer || len(m.queue) > 0 {
		return false
	}
	m.readers++
	return true
}

// grant hands the lock to the waiter(s) at the head of the queue: one writer, or all the
// readers that precede the next writer. Called with guard held and the lock free of writers.
func (m *RWMutex) grant() []chan struct{} {
	if m.writer || len(m.queue) == 0 {
		return nil
	}
	if m.queue[0].writer {
		if m.readers > 0 {
			return nil
		}
		m.writer = true
		ch := m.queue[0].ch
		m.queue = m.queue[1:]
		return []chan struct{}{ch}
	}
	var out []chan struct{}
	for len(m.queue) > 0 && !m.queue[0].writer {
		m.readers++
		out = append(out, m.queue[0].ch)
		m.queue = m.queue[1:]
	}
	return out
}
