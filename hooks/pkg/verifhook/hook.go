//go:build verif

// Package verifhook is dropped into a scratch copy of the repository by
// /verif/tool/cmd/instrument. It is never committed to the repository.
package verifhook

// Yield, when set, is called at every instrumented yield point with the name
// of the site. The simulator parks the goroutine there and resumes it later.
var Yield func(site string)

// Point is what the inserted lines call.
func Point(site string) {
	if f := Yield; f != nil {
		f(site)
	}
}

// MapSeed is set per run by the simulator: verifOrder (root package) rotates the sorted keys of
// the library's maps by it, so that the iteration order is a function of the run.
var MapSeed uint64
