//go:build verif

package gortsplib

import (
	"bufio"
	"context"
	"crypto/tls"
	"fmt"
	"io"
	"net"
	"sort"
	"time"

	"github.com/gorilla/websocket"

	"github.com/bluenviron/gortsplib/v5/internal/asyncprocessor"
	"github.com/bluenviron/gortsplib/v5/internal/base64streamreader"
	"github.com/bluenviron/gortsplib/v5/pkg/base"
	"github.com/bluenviron/gortsplib/v5/pkg/description"
	"github.com/bluenviron/gortsplib/v5/pkg/verifhook"
	"github.com/bluenviron/gortsplib/v5/pkg/headers"
)

// This file is dropped into a scratch copy of the repository by
// /verif/tool/cmd/instrument (build tag verif). It only adds accessors.

// VerifProcessor exposes the internal outbound queue processor (C16).
type VerifProcessor = asyncprocessor.Processor

// VerifNewBase64Reader exposes the HTTP-tunnel base64 stream reader (C04).
func VerifNewBase64Reader(r io.Reader) io.Reader { return base64streamreader.New(r) }

// VerifNewServerHTTPTunnel exposes the server side of the HTTP tunnel (C04).
func VerifNewServerHTTPTunnel(r net.Conn, rb *bufio.Reader, w net.Conn) net.Conn {
	return newServerHTTPTunnel(r, rb, w)
}

// VerifNewClientTunnelHTTP exposes the client side of the HTTP tunnel (C04).
func VerifNewClientTunnelHTTP(
	ctx context.Context, addr string, secure bool, tlsConfig *tls.Config,
	dialContext func(ctx context.Context, network, address string) (net.Conn, error),
	dialTLSContext func(ctx context.Context, network string, addr string) (net.Conn, error),
	u *base.URL,
) (net.Conn, error) {
	return newClientTunnelHTTP(ctx, addr, secure, tlsConfig, dialContext, dialTLSContext, u)
}

// VerifWSReadWriter wraps a websocket connection in the library's message
// reader/writer (C04).
func VerifWSReadWriter(wc *websocket.Conn) (io.Reader, io.Writer) {
	return &wsReader{wc: wc}, &wsWriter{wc: wc}
}

// VerifServerCounts is the server-side resource census (C11, C13).
type VerifServerCounts struct {
	Conns, Sessions, HTTPReadChannels int
	UDPRTPClients, UDPRTCPClients     int
}

// VerifCounts returns the sizes of the server's registries. It reads them
// without synchronisation: call it only when the system is quiescent.
func (s *Server) VerifCounts() VerifServerCounts {
	c := VerifServerCounts{
		Conns:            len(s.conns),
		Sessions:         len(s.sessions),
		HTTPReadChannels: len(s.httpReadChannels),
	}
	if s.udpRTPListener != nil {
		s.udpRTPListener.clientsMutex.RLock()
		c.UDPRTPClients = len(s.udpRTPListener.clients)
		s.udpRTPListener.clientsMutex.RUnlock()
	}
	if s.udpRTCPListener != nil {
		s.udpRTCPListener.clientsMutex.RLock()
		c.UDPRTCPClients = len(s.udpRTCPListener.clients)
		s.udpRTCPListener.clientsMutex.RUnlock()
	}
	return c
}

// VerifCounts returns (readers, active unicast readers) of a stream.
func (st *ServerStream) VerifCounts() (int, int) {
	st.mutex.RLock()
	defer st.mutex.RUnlock()
	return len(st.readers), len(st.activeUnicastReaders)
}

// VerifSetPeriods sets the private report/check periods of a server.
func (s *Server) VerifSetPeriods(senderReport, receiverReport, checkStream time.Duration) {
	s.senderReportPeriod = senderReport
	s.receiverReportPeriod = receiverReport
	s.checkStreamPeriod = checkStream
}

// VerifSetPeriods sets the private report/check periods of a client.
func (c *Client) VerifSetPeriods(senderReport, receiverReport, checkTimeout time.Duration) {
	c.senderReportPeriod = senderReport
	c.receiverReportPeriod = receiverReport
	c.checkTimeoutPeriod = checkTimeout
}

// VerifSecretID returns the session id (C19: the "stolen" id).
func (ss *ServerSession) VerifSecretID() string { return ss.secretID }

// VerifKeyMgmtHeader builds a valid KeyMgmt header value (MIKEY message for a
// fresh SRTP context with the given SSRCs), as a secure client would send it in
// SETUP (C17: a well-formed secure SETUP over plain RTSP must still be refused).
func VerifKeyMgmtHeader(url string, key []byte, ssrcs []uint32) (base.HeaderValue, error) {
	ctx := &wrappedSRTPContext{key: key, ssrcs: ssrcs}
	if err := ctx.initialize(); err != nil {
		return nil, err
	}
	msg, err := contextToMikey(ctx)
	if err != nil {
		return nil, err
	}
	return headers.KeyMgmt{URL: url, MikeyMessage: msg}.Marshal()
}

// verifOrder returns the keys of one of the library's maps in an order that is a function of the
// run: sorted by what identifies the key, rotated by verifhook.MapSeed (see orderMapRanges in
// /verif/tool/cmd/instrument). Keys without an identity keep the map's own order.
func verifOrder[K comparable, V any](m map[K]V) []K {
	keys := make([]K, 0, len(m))
	for k := range m {
		keys = append(keys, k)
	}
	sort.SliceStable(keys, func(i, j int) bool { return verifKeyOf(keys[i]) < verifKeyOf(keys[j]) })
	if n := len(keys); n > 1 {
		r := int(verifhook.MapSeed % uint64(n))
		keys = append(keys[r:len(keys):len(keys)], keys[:r]...)
	}
	return keys
}

func verifKeyOf(k any) string {
	switch v := k.(type) {
	case *description.Media:
		if v == nil {
			return ""
		}
		pt := -1
		if len(v.Formats) > 0 {
			pt = int(v.Formats[0].PayloadType())
		}
		return fmt.Sprintf("m|%s|%s|%v|%03d|%d", v.Control, v.Type, v.IsBackChannel, pt, len(v.Formats))
	case uint8:
		return fmt.Sprintf("u|%03d", v)
	case int:
		return fmt.Sprintf("i|%012d", v)
	case string:
		return "s|" + v
	}
	return ""
}

// verifInterfaceOfConn stands in for interfaceOfConn in the scratch copy: the client of a
// UDP-multicast session looks the local address of its control connection up among the machine's
// interfaces (net.Interfaces, a question to the operating system that no seam covers). Loopback
// addresses are left to the real function; any other address belongs to a simulated node and is
// answered with a simulated interface (the stand-in of pkg/multicast ignores the interface).
func verifInterfaceOfConn(c net.Conn) (*net.Interface, error) {
	if a, ok := c.LocalAddr().(*net.TCPAddr); ok && !a.IP.IsLoopback() {
		return &net.Interface{Index: 1, MTU: 1500, Name: "sim0", Flags: net.FlagUp | net.FlagMulticast}, nil
	}
	return interfaceOfConn(c)
}
