#!/bin/sh
# mkmut.sh <out.diff> : reads a python snippet on stdin that edits files under the current dir
# (a scratch worktree of /repo), and writes the resulting git diff to <out.diff>.
out="$(readlink -f "$1")"
rm -rf /tmp/mutwt && git -C /repo worktree add -q --detach /tmp/mutwt HEAD || exit 2
( cd /tmp/mutwt && python3 - && export GOFLAGS=-mod=mod GOPROXY=off GOSUMDB=off GOTOOLCHAIN=local && go1.26.8 build . ./pkg/... ./internal/... && git diff > "$out" )
rc=$?
git -C /repo worktree remove --force /tmp/mutwt
[ -s "$out" ] || { echo "mkmut: empty diff" >&2; exit 2; }
exit $rc
