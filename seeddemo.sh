#!/bin/sh
# seeddemo.sh <dir> <package dir relative to repo> <-run pattern> [demo file]: after seedconfirm.sh (patch applied in
# /tmp/confirmwt) run the demonstration with the patch (must fail) and without it (must pass).
d="$(readlink -f "$1")"; pkg="$2"; pat="$3"; f="${4:-demo_test.go}"
WT=/tmp/confirmwt
cp "$d/$f" "$WT/$pkg/zz_seed_demo_test.go"
cd $WT
echo "--- with patch (expect FAIL)"
flock /tmp/gotest.lock go test -mod=mod -vet=off -count=1 -timeout 10m -run "$pat" "./$pkg" 2>&1 | tail -${TAILN:-6}
git apply -R "$d/patch.diff"
echo "--- without patch (expect ok)"
flock /tmp/gotest.lock go test -mod=mod -vet=off -count=1 -timeout 10m -run "$pat" "./$pkg" 2>&1 | tail -${TAILN:-6}
rm -f "$WT/$pkg/zz_seed_demo_test.go"
