#!/bin/sh
# Builds the parent tools offline (std library only) and warms the Go build
# cache by building the harness once against /repo's current tree.
set -e
export GOFLAGS=-mod=mod GOPROXY=off GOSUMDB=off GOTOOLCHAIN=local
cd /verif/tool
mkdir -p /verif/bin
go1.26.8 build -o /verif/bin/check ./cmd/check
go1.26.8 build -o /verif/bin/instrument ./cmd/instrument
echo "setup: tools built"
