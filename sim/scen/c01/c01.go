// Package c01 decides C01 (end-to-end media delivery preserves packets, order
// and identity) by whole-system simulation (DESIGN 3.1).
package c01

import (
	"encoding/binary"
	"fmt"
	"strings"
	"sync"
	"testing"
	"time"

	"github.com/pion/rtp"

	gortsplib "github.com/bluenviron/gortsplib/v5"
	"github.com/bluenviron/gortsplib/v5/pkg/base"
	"github.com/bluenviron/gortsplib/v5/pkg/description"
	"github.com/bluenviron/gortsplib/v5/pkg/format"
	"github.com/bluenviron/gortsplib/v5/pkg/headers"

	"verifsim/core"
	"verifsim/simnet"
	"verifsim/sys"
)

// Step is one step of a reader's script.
type Step struct {
	Op    string `json:"op"`    // play | pause
	After int    `json:"after"` // microseconds to wait before the step
}

// Reader describes one reading client.
type Reader struct {
	Transport string `json:"transport"` // udp | tcp | http | ws | mcast (UDP-multicast, at most two readers per run)
	StartUS   int    `json:"start_us"`
	Script    []Step `json:"script"`
	// LeaveUS > 0: the reader closes this long after its last step instead of
	// staying until the end of the run.
	LeaveUS int `json:"leave_us"`
	// StallAtUS/StallUS: the reader's connection stops draining for a while
	// (tcp.stall) - only generated on plain carriers.
	StallAtUS int `json:"stall_at_us,omitempty"`
	StallUS   int `json:"stall_us,omitempty"`
	// Skip: bit m set = the reader does not set up media m (a reader that wants the audio only);
	// never all medias.
	Skip int `json:"skip,omitempty"`
}

// Scenario is one C01 run.
type Scenario struct {
	Seed      uint64                    `json:"seed"`
	Net       simnet.Config             `json:"net"`
	Secure    bool                      `json:"secure"`
	Formats   []int                     `json:"formats"` // formats per media
	Source    string                    `json:"source"`  // stream | publisher
	PubTr     string                    `json:"pub_transport,omitempty"`
	Readers   []Reader                  `json:"readers"`
	Packets   int                       `json:"packets"` // per format
	IntUS     int                       `json:"interval_us"`
	StartSeq  uint16                    `json:"start_seq"`
	ArbSeq    bool                      `json:"arb_seq"`
	WQ        int                       `json:"write_queue"`
	MaxSize   int                       `json:"max_payload"`
	Yields    map[string]core.YieldSpec `json:"yields,omitempty"`
	SimLocks  bool                      `json:"sim_locks,omitempty"`
	IdleS     int                       `json:"idle_s,omitempty"` // Server.IdleTimeout (0 = default)
	MaxHoldMS int                       `json:"max_hold_ms,omitempty"` // longest hold at a yield point (0 = 2 s)
	SharedPT  bool                      `json:"shared_pt,omitempty"`   // every media numbers its payload types from 96
	ClockOffS int                       `json:"clock_off_s"`
	// HasBack / BackAt (source stream): the stream's description also holds a back channel at this
	// position; the readers do not ask for back channels, so they neither see it nor may ever be
	// connected to it.
	HasBack bool `json:"has_back,omitempty"`
	BackAt  int  `json:"back_at,omitempty"`
}

func reliable(tr string) bool { return tr != "udp" && tr != "mcast" }

func gen(seed uint64, tier string) Scenario {
	r := core.NewRand(seed, "c01")
	sc := Scenario{Seed: seed}
	sc.Secure = r.Bool(0.3)
	nm := r.Range(1, 3)
	for i := 0; i < nm; i++ {
		nf := 1
		if r.Bool(0.35) {
			nf = r.Range(2, 3)
		}
		sc.Formats = append(sc.Formats, nf)
	}
	sc.Source = "stream"
	if r.Bool(0.3) {
		sc.Source = "publisher"
		sc.PubTr = []string{"tcp", "tcp", "udp", "http", "ws"}[r.Intn(5)]
	}
	trs := []string{"udp", "tcp", "tcp", "http", "ws"}
	nr := r.Range(1, 4)
	if r.Bool(0.5) {
		nr = r.Range(1, 2)
	}
	sc.Packets = r.Range(20, 120)
	if tier == "thorough" && r.Bool(0.2) {
		sc.Packets = r.Range(200, 600)
	}
	sc.IntUS = r.Pick(500, 1000, 2000, 5000, 10000)
	dur := sc.Packets * sc.IntUS
	allPlain := !sc.Secure
	for i := 0; i < nr; i++ {
		rd := Reader{Transport: trs[r.Intn(len(trs))]}
		rd.StartUS = r.Intn(dur/2 + 1)
		rd.Script = []Step{{Op: "play", After: 0}}
		if r.Bool(0.45) {
			n := r.Range(1, 3)
			for k := 0; k < n; k++ {
				rd.Script = append(rd.Script, Step{Op: "pause", After: r.Range(1000, dur/3+1000)})
				rd.Script = append(rd.Script, Step{Op: "play", After: r.Range(100, dur/4+100)})
			}
			if r.Bool(0.3) {
				rd.Script = append(rd.Script, Step{Op: "pause", After: r.Range(1000, dur/3+1000)})
			}
		}
		if r.Bool(0.3) {
			rd.LeaveUS = r.Range(1000, dur/2+1000)
		}
		if rd.Transport == "ws" {
			allPlain = false
		}
		sc.Readers = append(sc.Readers, rd)
	}
	if x := core.HS(seed, "c01.back", "", 0); sc.Source == "stream" && x%100 < 12 {
		sc.HasBack = true
		sc.BackAt = int((x >> 8) % uint64(len(sc.Formats)+1))
	}
	// one reader may use UDP-multicast (hash-derived so that no other choice of the scenario moves)
	if x := core.HS(seed, "c01.mcast", "", 0); x%100 < 15 {
		// ... and, in half of those runs, a second one (it keeps its simulated address: the interface
		// lookup of the client is answered by the simulation for addresses other than loopback)
		want := 1 + int((x>>8)%2)
		for i := range sc.Readers {
			if want > 0 && (sc.Readers[i].Transport == "udp" || sc.Readers[i].Transport == "tcp") {
				sc.Readers[i].Transport = "mcast"
				want--
			}
		}
	}
	mcastClean := false
	// payload types are per media: a fifth of the runs use the same ones in every media
	sc.SharedPT = core.HS(seed, "c01.sharedpt", "", 0)%5 == 0
	sc.StartSeq = uint16(r.Intn(65536))
	if r.Bool(0.3) {
		sc.StartSeq = uint16(65536 - r.Range(1, sc.Packets))
	}
	allReliable := sc.Source == "stream" || reliable(sc.PubTr)
	for _, rd := range sc.Readers {
		if !reliable(rd.Transport) {
			allReliable = false
		}
	}
	// SRTP (RFC 3711) estimates the roll-over counter from consecutive sequence
	// numbers: arbitrary ones cannot be carried once a reader joins late, so they
	// are generated on plain sessions only (recorded in DESIGN.md).
	sc.ArbSeq = allReliable && !sc.Secure && r.Bool(0.3)
	sc.WQ = r.Pick(8, 16, 64, 256, 256)
	sc.MaxSize = r.Pick(1, 7, 100, 600, 1200, 1438)
	// packets at the very limit of the default MaxPacketSize (1472 = 12 header bytes + payload,
	// minus the 10-byte SRTP tag on secure sessions); hash-derived so that no other choice moves
	if x := core.HS(seed, "c01.limit", "", 0); x%100 < 20 {
		if sc.Secure {
			sc.MaxSize = 1450 - int((x>>8)%2)
		} else {
			sc.MaxSize = 1460 - int((x>>8)%4)
		}
	}
	sc.ClockOffS = r.Intn(3600 * 24 * 365 * 30)

	// network
	n := simnet.Config{Seed: seed ^ 0x5bd1e995}
	n.LatMinUS = r.Pick(10, 100, 1000)
	n.LatMaxUS = n.LatMinUS + r.Pick(0, 50, 500, 5000)
	n.ChunkMode = r.Pick(0, 1, 2, 3, 3)
	n.ChunkMaxLen = r.Pick(64, 256, 600)
	if r.Bool(0.6) {
		n.UDPDrop = []float64{0, 0.01, 0.05, 0.2}[r.Intn(4)]
		n.UDPDup = []float64{0, 0.01, 0.05}[r.Intn(3)]
		n.UDPReorder = []float64{0, 0.05, 0.3}[r.Intn(3)]
		n.UDPJitUS = sc.IntUS * r.Range(1, 20)
		if r.Bool(0.2) {
			n.UDPBurst = 0.01
			n.BurstLen = r.Range(2, 20)
		}
	}
	// back-pressure only on carriers where the library holds no mutex around the socket write
	if allPlain && sc.PubTr != "ws" && r.Bool(0.35) {
		n.Window = r.Pick(2048, 8192, 65536)
		for i := range sc.Readers {
			if reliable(sc.Readers[i].Transport) && r.Bool(0.6) {
				sc.Readers[i].StallAtUS = sc.Readers[i].StartUS + r.Intn(dur/2+1)
				sc.Readers[i].StallUS = r.Range(sc.IntUS*10, sc.IntUS*400)
			}
		}
	}
	// heavy duplication: most datagrams arrive twice, over a longer run (the receivers' handling
	// of packets behind the last delivered one)
	if x := core.HS(seed, "c01.heavydup", "", 0); x%100 < 6 {
		// ... and nothing else: with loss or reordering on top, a receiver that flushes its reorder
		// buffer makes the next hop see a burst followed by more than BufferSize stale datagrams in a
		// row, which the receivers legitimately take for a sender restart (C14's restart clause)
		n.UDPDup = 0.9
		n.UDPDrop, n.UDPReorder, n.UDPBurst, n.BurstLen = 0, 0, 0, 0
		n.UDPJitUS = min(500, sc.IntUS/2)
		if sc.Packets < 120 {
			sc.Packets = 120 + int((x>>8)%80)
		}
	}
	// half of the runs with a multicast reader over a network that loses nothing, with a server-side
	// writer, at least two medias and no encryption: there every format of every media must arrive
	// (groups and ports must be told apart)
	if x := core.HS(seed, "c01.mcastclean", "", 0); x%2 == 0 {
		for _, rd := range sc.Readers {
			if rd.Transport == "mcast" {
				n.UDPDrop, n.UDPBurst = 0, 0
				sc.Source = "stream"
				sc.Secure = false
				if len(sc.Formats) < 2 {
					sc.Formats = append(sc.Formats, 1)
				}
				mcastClean = true
				sc.SharedPT = true
			}
		}
	}
	sc.Net = n

	// yield points: a seeded subset
	if r.Bool(0.6) && !mcastClean {
		sc.Yields = map[string]core.YieldSpec{}
		cands := []string{"rb.pull.lock", "ap.run.exec", "ap.run.after", "ap.start", "ap.close.cancel", "ap.close.ring", "ap.close.join",
			"ss.createWriter.pre", "ss.startWriter.pre", "ss.destroyWriter.pre", "ss.destroyWriter.mid",
			"st.setActive.pre", "st.setInactive.pre", "st.remove.pre",
			"c.destroyWriter.pre", "c.destroyWriter.mid", "c.createWriter.pre", "c.startWriter.pre", "cf.write.pre"}
		if sc.Source == "stream" || sc.PubTr != "udp" {
			cands = append(cands, "st.write.pre")
		}
		hot := map[string]bool{"rb.pull.lock": true, "ap.run.exec": true, "ap.run.after": true, "cf.write.pre": true, "st.write.pre": true}
		for _, c := range cands {
			if r.Bool(0.4) {
				sc.Yields[c] = core.YieldSpec{Hot: hot[c]}
			}
		}
	}
	// a reader that sets up only part of the medias, next to one that sets up all (hash-derived)
	if x := core.HS(seed, "c01.partial", "", 0); x%100 < 15 && len(sc.Formats) >= 2 && len(sc.Readers) >= 2 {
		i := int((x >> 8) % uint64(len(sc.Readers)))
		if sc.Readers[i].Transport != "mcast" {
			sc.Readers[i].Skip = 1 << ((x >> 16) % uint64(len(sc.Formats)))
		}
	}
	// holds between any two statements of pkg/conn's read / write functions (no lock is held there):
	// a response and a frame written by two goroutines must each reach the connection in one piece
	// (hash-derived so that no other choice moves)
	if core.HS(seed, "c01.autoconn", "", 0)%100 < 12 {
		if sc.Yields == nil {
			sc.Yields = map[string]core.YieldSpec{}
		}
		sc.Yields["auto:conn:"] = core.YieldSpec{Prob: 0.04, Hot: true}
		sc.Yields["auto:bytecounter:"] = core.YieldSpec{Prob: 0.04, Hot: true} // the writer underneath pkg/conn
		// (the WebSocket tunnel writes through it with its mutex held: simulation-aware locks)
		sc.SimLocks = true
		// ... and requests answered while media flows: a short session timeout makes the readers send
		// keep-alives every second, and the stream lasts a few seconds
		sc.IdleS = 6
		// (and no second-long stalls in these runs: a client whose reader is held for seconds at a
		// time falls behind, its PAUSE waits longer for the answer than the server's IdleTimeout
		// allows a connection to stay silent, and the server drops it - legitimately)
		sc.MaxHoldMS = 30
		// (a reader left paused would sit idle - a paused client sends no keep-alives - and be
		// disconnected after IdleTimeout, legitimately: scripts end playing in these runs)
		for i := range sc.Readers {
			scr := sc.Readers[i].Script
			for len(scr) > 0 && scr[len(scr)-1].Op == "pause" {
				scr = scr[:len(scr)-1]
			}
			sc.Readers[i].Script = scr
		}
		if sc.Packets*sc.IntUS < 3000000 {
			sc.IntUS = 3000000/sc.Packets + 1
		}
	}
	// no holds inside the write queues in multicast runs: the multicast writer's queue is closed
	// while the stream's mutex is held (see the same filter in C13 and DESIGN 2.3)
	for _, rd := range sc.Readers {
		if rd.Transport == "mcast" {
			for k := range sc.Yields {
				if strings.HasPrefix(k, "ap.") || strings.HasPrefix(k, "rb.") {
					delete(sc.Yields, k)
				}
			}
		}
	}
	return sc
}

// ---- bookkeeping -----------------------------------------------------------------

type wpkt struct {
	counter int
	seq     uint16
	ts      uint32
	marker  bool
	payload []byte
	callG   uint64 // gseq just before the write call
	retG    uint64 // gseq just after it returned
	err     error
	done    bool
}

type fkey struct {
	media int
	pt    uint8
}

type rpkt struct {
	counter int
	g       uint64
}

type interval struct {
	playRetG uint64
	endCallG uint64 // 0 = still open at the end of the run
}

type readerState struct {
	idx            int
	spec           Reader
	client         *gortsplib.Client
	mu             sync.Mutex
	recv           map[fkey][]rpkt
	intervals      []interval
	ssrcs          []*uint32 // from SETUP responses, in setup order
	lost           uint64
	decodeErr      int
	firstDecodeErr string
	diedG          uint64 // the client terminated on its own (Wait returned) at this gseq
	diedErr        error
	setupCallG     uint64
	switched       bool
	apiErr         string
	desc           *description.Session
	closedG        uint64
}

const runMagic = 0xC0010000

func makePayload(seed uint64, media int, pt uint8, counter int, maxSize int) []byte {
	h := core.H(seed, "plen", uint64(media), uint64(pt), uint64(counter))
	size := 10
	if maxSize > 10 {
		switch h % 4 {
		case 0:
			size = 10
		case 1:
			size = maxSize
		default:
			size = 10 + int(core.Mix(h)%uint64(maxSize-10+1))
		}
	}
	p := make([]byte, size)
	binary.BigEndian.PutUint32(p[0:], runMagic|uint32(seed&0xffff))
	p[4] = byte(media)
	p[5] = pt
	binary.BigEndian.PutUint32(p[6:], uint32(counter))
	for i := 10; i < size; i++ {
		p[i] = byte(core.Mix(h + uint64(i)))
	}
	return p
}

// sharedPT: payload types start at 96 in every media (they are per media: two medias may use the same).
func buildDesc(formats []int, sharedPT bool) *description.Session {
	d := &description.Session{}
	pt := uint8(96)
	for mi, nf := range formats {
		if sharedPT {
			pt = 96
		}
		m := &description.Media{Type: description.MediaTypeApplication}
		if mi%2 == 0 {
			m.Type = description.MediaTypeVideo
		} else {
			m.Type = description.MediaTypeAudio
		}
		for i := 0; i < nf; i++ {
			g := &format.Generic{PayloadTyp: pt, RTPMa: fmt.Sprintf("private/%d", []int{90000, 48000, 8000}[int(pt)%3])}
			if err := g.Init(); err != nil {
				panic(err)
			}
			m.Formats = append(m.Formats, g)
			pt++
		}
		d.Medias = append(d.Medias, m)
	}
	return d
}

func tunnelOf(tr string) gortsplib.Tunnel {
	switch tr {
	case "http":
		return gortsplib.TunnelHTTP
	case "ws":
		return gortsplib.TunnelWebSocket
	}
	return gortsplib.TunnelNone
}

func protoOf(tr string) *gortsplib.Protocol {
	p := gortsplib.ProtocolTCP
	switch tr {
	case "udp":
		p = gortsplib.ProtocolUDP
	case "mcast":
		p = gortsplib.ProtocolUDPMulticast
	}
	return &p
}

func us(n int) time.Duration { return time.Duration(n) * time.Microsecond }

func run(t *testing.T, sc Scenario) *core.Result {
	maxPayload := sc.MaxSize
	if maxPayload < 10 {
		maxPayload = 10
	}
	if sc.IdleS > 0 {
		// (also for scenarios the minimiser derives: with a short IdleTimeout no script ends paused)
		rs := append([]Reader(nil), sc.Readers...)
		for i := range rs {
			scr := rs[i].Script
			for len(scr) > 0 && scr[len(scr)-1].Op == "pause" {
				scr = scr[:len(scr)-1]
			}
			rs[i].Script = scr
		}
		sc.Readers = rs
	}
	opts := sys.Options{Seed: sc.Seed, Net: sc.Net, Yields: sc.Yields, SimLocks: sc.SimLocks, MaxSteps: 400000, Horizon: 20 * time.Minute,
		ClockOffset: time.Duration(sc.ClockOffS) * time.Second, MaxHold: 2 * time.Second}
	if sc.MaxHoldMS > 0 {
		opts.MaxHold = time.Duration(sc.MaxHoldMS) * time.Millisecond
	}
	var summary map[string]any
	res := sys.Run(t, opts, func(w *sys.World) {
		w.ProbeInit("queue_full_reported", "reader_paused", "reader_left_early", "seq_wrapped", "udp_reader", "publisher_source",
			"secure", "tunnel_http", "tunnel_ws", "late_join", "stall_applied", "back_channel_in_stream", "lossless_udp_format_received", "partial_setup", "multicast_reader", "second_multicast_reader", "multicast_packets_delivered", "packets_delivered", "srtp_wrap_between_setup_and_play_waived", "reader_timed_out", "reader_api_error_publisher_gone")
		srvNode := w.Net.Node("srv", "10.0.0.1")
		h := sys.NewHandler(w)
		srv := &gortsplib.Server{
			RTSPAddress:      "10.0.0.1:8554",
			UDPRTPAddress:    "10.0.0.1:8000",
			UDPRTCPAddress:   "10.0.0.1:8001",
			WriteQueueSize:   sc.WQ,
			Handler:          h,
			MulticastIPRange: "224.1.0.0/16", MulticastRTPPort: 8002, MulticastRTCPPort: 8003,
		}
		if sc.IdleS > 0 {
			srv.IdleTimeout = time.Duration(sc.IdleS) * time.Second
		}
		scheme := "rtsp"
		if sc.Secure {
			srv.TLSConfig = sys.ServerTLSConfig()
			scheme = "rtsps"
			w.Probe("secure")
		}
		h.Server = srv
		sys.WireServer(srv, srvNode, nil)
		if err := srv.Start(); err != nil {
			w.Fail("c01/api-error server", "Server.Start: %v", err)
			return
		}

		written := map[fkey][]*wpkt{}
		var wmu sync.Mutex
		var streamReady = make(chan struct{})
		var stream *gortsplib.ServerStream
		desc := buildDesc(sc.Formats, sc.SharedPT)
		plainMedias := append([]*description.Media(nil), desc.Medias...) // what a reader without back channels is offered
		if sc.HasBack && sc.Source == "stream" {
			a := &format.G711{PayloadTyp: 8, MULaw: false, SampleRate: 8000, ChannelCount: 1}
			back := &description.Media{Type: description.MediaTypeAudio, IsBackChannel: true, Formats: []format.Format{a}}
			desc.Medias = append(desc.Medias[:sc.BackAt:sc.BackAt], append([]*description.Media{back}, desc.Medias[sc.BackAt:]...)...)
			w.Probe("back_channel_in_stream")
		}
		writerQueueFull := false // reported to the writer (publisher client side)

		// fwd: what the server-side stream was given (== written when source is "stream")
		fwd := map[fkey][]*wpkt{}

		url := scheme + "://10.0.0.1:8554/stream"

		nextPkt := func(mi int, pt uint8, counter int) *rtp.Packet {
			hh := core.H(sc.Seed, "pkt", uint64(mi), uint64(pt), uint64(counter))
			seq := sc.StartSeq + uint16(counter)
			if sc.ArbSeq {
				seq = uint16(hh >> 16)
			}
			return &rtp.Packet{
				Header: rtp.Header{
					Version:        2,
					PayloadType:    pt,
					SequenceNumber: seq,
					Timestamp:      uint32(hh>>32) + uint32(counter)*3000,
					Marker:         hh%3 == 0,
				},
				Payload: makePayload(sc.Seed, mi, pt, counter, maxPayload),
			}
		}

		var pub *gortsplib.Client
		var pubMedias []*description.Media

		if sc.Source == "stream" {
			stream = &gortsplib.ServerStream{Server: srv, Desc: desc}
			if err := stream.Initialize(); err != nil {
				w.Fail("c01/api-error server", "ServerStream.Initialize: %v", err)
				return
			}
			h.SetStream("/stream", stream)
			close(streamReady)
		} else {
			w.Probe("publisher_source")
			h.NoForward = true
			h.OnRTP = func(ss *gortsplib.ServerSession, m *description.Media, f format.Format, pkt *rtp.Packet) {
				st := h.PubStream(ss)
				if st == nil {
					return
				}
				// which media index
				mi := -1
				for i, mm := range st.Desc.Medias {
					if mm == m {
						mi = i
					}
				}
				k := fkey{mi, pkt.PayloadType}
				rec := &wpkt{seq: pkt.SequenceNumber, ts: pkt.Timestamp, marker: pkt.Marker,
					payload: append([]byte(nil), pkt.Payload...)}
				if len(pkt.Payload) >= 10 {
					rec.counter = int(binary.BigEndian.Uint32(pkt.Payload[6:]))
				} else {
					rec.counter = -1
				}
				rec.callG = w.Log.NextG()
				rec.err = st.WritePacketRTP(m, pkt)
				rec.retG = w.Log.NextG()
				rec.done = true
				wmu.Lock()
				fwd[k] = append(fwd[k], rec)
				wmu.Unlock()
			}
			pubNode := w.Net.Node("pub", "10.0.0.9")
			pub = &gortsplib.Client{Scheme: scheme, Host: "10.0.0.1:8554", Tunnel: tunnelOf(sc.PubTr), Protocol: protoOf(sc.PubTr),
				WriteQueueSize: sc.WQ}
			if sc.Secure {
				pub.TLSConfig = sys.ClientTLSConfig()
			}
			sys.WireClient(pub, pubNode, w.Net, nil)
		}

		// ---- publisher / writer driver ---------------------------------------
		w.Go("writer", func() {
			if sc.Source == "publisher" {
				u, _ := base.ParseURL(url)
				pdesc := buildDesc(sc.Formats, sc.SharedPT)
				if err := pub.StartRecording(url, pdesc); err != nil {
					_ = u
					w.Fail("c01/api-error publisher", "StartRecording over %s: %v", sc.PubTr, err)
					close(streamReady)
					return
				}
				pubMedias = pdesc.Medias
				close(streamReady)
			}
			time.Sleep(us(sc.IntUS))
			for c := 0; c < sc.Packets; c++ {
				for mi, nf := range sc.Formats {
					for fi := 0; fi < nf; fi++ {
						var pt uint8
						if sc.Source == "stream" {
							pt = plainMedias[mi].Formats[fi].PayloadType()
						} else {
							pt = pubMedias[mi].Formats[fi].PayloadType()
						}
						pkt := nextPkt(mi, pt, c)
						rec := &wpkt{counter: c, seq: pkt.SequenceNumber, ts: pkt.Timestamp, marker: pkt.Marker, payload: pkt.Payload}
						k := fkey{mi, pt}
						wmu.Lock()
						written[k] = append(written[k], rec)
						if sc.Source == "stream" {
							fwd[k] = append(fwd[k], rec)
						}
						wmu.Unlock()
						rec.callG = w.Log.NextG()
						if sc.Source == "stream" {
							rec.err = stream.WritePacketRTP(plainMedias[mi], pkt)
						} else {
							rec.err = pub.WritePacketRTP(pubMedias[mi], pkt)
							if rec.err != nil && strings.Contains(rec.err.Error(), "queue is full") {
								writerQueueFull = true
							}
						}
						rec.retG = w.Log.NextG()
						rec.done = true
						if rec.err != nil {
							w.Log.Add("writer", "write.err", "%d/%d/%d %v", mi, pt, c, rec.err)
							if strings.Contains(rec.err.Error(), "queue is full") {
								w.Probe("queue_full_reported")
							}
						}
					}
				}
				if uint16(sc.StartSeq+uint16(c)) == 0xffff {
					w.Probe("seq_wrapped")
				}
				time.Sleep(us(sc.IntUS) + time.Duration(core.H(sc.Seed, "wj", uint64(c))%977))
			}
			w.Log.Add("writer", "done", "")
		})

		// ---- readers -----------------------------------------------------------
		readers := make([]*readerState, len(sc.Readers))
		mcastSeen := false
		var names []string
		for i, spec := range sc.Readers {
			rs := &readerState{idx: i, spec: spec, recv: map[fkey][]rpkt{}}
			readers[i] = rs
			name := fmt.Sprintf("reader%d", i)
			names = append(names, name)
			ip := fmt.Sprintf("10.0.0.%d", 20+i)
			if spec.Transport == "mcast" {
				// the first multicast reader sits on loopback (the client finds its local address among the
				// real interfaces), a second one keeps its simulated address (stand-in of the lookup)
				if !mcastSeen {
					ip = "127.0.0.1"
				} else {
					w.Probe("second_multicast_reader")
				}
				mcastSeen = true
			}
			node := w.Net.Node(name, ip)
			switch spec.Transport {
			case "mcast":
				w.Probe("multicast_reader")
			case "udp":
				w.Probe("udp_reader")
			case "http":
				w.Probe("tunnel_http")
			case "ws":
				w.Probe("tunnel_ws")
			}
			w.Go(name, func() {
				<-streamReady
				if w.Failed() {
					return
				}
				time.Sleep(us(spec.StartUS))
				if spec.StartUS > 0 {
					w.Probe("late_join")
				}
				c := &gortsplib.Client{Scheme: scheme, Host: "10.0.0.1:8554", Tunnel: tunnelOf(spec.Transport), Protocol: protoOf(spec.Transport)}
				if sc.Secure {
					c.TLSConfig = sys.ClientTLSConfig()
				}
				sys.WireClient(c, node, w.Net, nil)
				c.OnResponse = func(res *base.Response) {
					if tr, ok := res.Header["Transport"]; ok && res.StatusCode == base.StatusOK {
						var th headers.Transport
						if err := th.Unmarshal(tr); err == nil {
							rs.mu.Lock()
							rs.ssrcs = append(rs.ssrcs, th.SSRC)
							rs.mu.Unlock()
						}
					}
				}
				c.OnPacketsLost = func(l uint64) { rs.mu.Lock(); rs.lost += l; rs.mu.Unlock() }
				c.OnDecodeError = func(err error) {
					rs.mu.Lock()
					rs.decodeErr++
					if rs.firstDecodeErr == "" {
						rs.firstDecodeErr = err.Error()
					}
					rs.mu.Unlock()
				}
				c.OnTransportSwitch = func(error) { rs.mu.Lock(); rs.switched = true; rs.mu.Unlock() }
				rs.client = c
				fail := func(what string, err error) {
					rs.apiErr = what + ": " + err.Error()
					// a starved reader (nothing flows for ReadTimeout) legitimately times out
					if isTimeout(err) {
						w.Probe("reader_timed_out")
						return
					}
					// with a recording client as source, the stream legitimately disappears
					// when the publisher's session ends (e.g. its UDP session times out
					// once it stops writing): the reader then simply has left
					if sc.Source == "publisher" {
						w.Probe("reader_api_error_publisher_gone")
						return
					}
					w.Fail("c01/api-error reader", "reader %d (%s, secure=%v) %s: %v", i, spec.Transport, sc.Secure, what, err)
				}
				if err := c.Start(); err != nil {
					fail("Start", err)
					return
				}
				closing := false
				go func() {
					err := c.Wait()
					rs.mu.Lock()
					if !closing {
						rs.diedG = w.Log.NextG()
						rs.diedErr = err
					}
					rs.mu.Unlock()
				}()
				defer func() {
					rs.mu.Lock()
					closing = true
					rs.mu.Unlock()
					c.Close()
					rs.closedG = w.Log.NextG()
				}()
				u, _ := base.ParseURL(url)
				d, _, err := c.Describe(u)
				if err != nil {
					fail("Describe", err)
					return
				}
				rs.desc = d
				rs.setupCallG = w.Log.NextG()
				if spec.Skip == 0 {
					if err := c.SetupAll(d.BaseURL, d.Medias); err != nil {
						fail("SetupAll", err)
						return
					}
				} else {
					w.Probe("partial_setup")
					for k, m := range d.Medias {
						if spec.Skip&(1<<k) != 0 {
							continue
						}
						if _, err := c.Setup(d.BaseURL, m, 0, 0); err != nil {
							fail("Setup", err)
							return
						}
					}
				}
				c.OnPacketRTPAny(func(m *description.Media, f format.Format, pkt *rtp.Packet) {
					g := w.Log.NextG()
					mi := -1
					for k, mm := range d.Medias {
						if mm == m {
							mi = k
						}
					}
					onPacket(w, &sc, rs, written, &wmu, mi, f, pkt, g)
				})
				if spec.StallUS > 0 {
					// the stall lands on the server->reader direction of the reader's connections
					w.S.After(us(spec.StallAtUS-spec.StartUS), "stall:"+name, func() {
						for _, cn := range w.Net.Conns(name) {
							cn.Stall(us(spec.StallUS))
						}
						w.Probe("stall_applied")
					})
				}
				playing := false
				for _, st := range spec.Script {
					time.Sleep(us(st.After))
					switch st.Op {
					case "play":
						if _, err := c.Play(nil); err != nil {
							fail("Play", err)
							return
						}
						rs.mu.Lock()
						rs.intervals = append(rs.intervals, interval{playRetG: w.Log.NextG()})
						rs.mu.Unlock()
						playing = true
						w.Log.Add(name, "play", "")
					case "pause":
						rs.mu.Lock()
						rs.intervals[len(rs.intervals)-1].endCallG = w.Log.NextG()
						rs.mu.Unlock()
						if _, err := c.Pause(); err != nil {
							fail("Pause", err)
							return
						}
						playing = false
						w.Probe("reader_paused")
						w.Log.Add(name, "pause", "")
					}
				}
				if spec.LeaveUS > 0 {
					time.Sleep(us(spec.LeaveUS))
					w.Probe("reader_left_early")
				} else {
					// stay until the writer is done and the network had time to drain
					w.WaitDrivers("writer")
					// the bound includes the injected-delay budget: max yield hold + latency + jitter + stall
					quiet := opts.MaxHold + 4*us(sc.Net.LatMaxUS) + us(sc.Net.UDPJitUS)*2 + us(spec.StallUS) + 100*time.Millisecond
					w.Settle(func() int {
						rs.mu.Lock()
						defer rs.mu.Unlock()
						n := 0
						for _, v := range rs.recv {
							n += len(v)
						}
						return n
					}, quiet)
				}
				if playing {
					rs.mu.Lock()
					if spec.LeaveUS > 0 {
						rs.intervals[len(rs.intervals)-1].endCallG = w.Log.NextG()
					}
					rs.mu.Unlock()
				}
			})
		}

		// ---- closer -------------------------------------------------------------
		w.Go("closer", func() {
			w.WaitDrivers(append([]string{"writer"}, names...)...)
			if pub != nil {
				// let what the publisher wrote reach the server session (bound
				// includes the injected-delay budget) before tearing it down
				w.Settle(func() int {
					wmu.Lock()
					defer wmu.Unlock()
					n := 0
					for _, v := range fwd {
						n += len(v)
					}
					return n
				}, opts.MaxHold+4*us(sc.Net.LatMaxUS)+us(sc.Net.UDPJitUS)*2+100*time.Millisecond)
				pub.Close()
			}
			if stream != nil {
				stream.Close()
			}
			srv.Close()
		})

		w.AtEnd(func() {
			if w.Failed() {
				return
			}
			total := 0
			for _, rs := range readers {
				checkReader(w, &sc, h, rs, written, fwd, writerQueueFull)
				for _, v := range rs.recv {
					total += len(v)
				}
			}
			if total > 0 {
				w.Probe("packets_delivered")
			}
			if sc.Source == "publisher" {
				checkPublisherLeg(w, &sc, written, fwd, writerQueueFull)
			}
			summary = map[string]any{"readers": len(readers), "delivered": total, "source": sc.Source, "secure": sc.Secure}
		})
	})
	nontrivial := res.Probes["packets_delivered"] > 0
	nf := 0
	for k, v := range res.Faults {
		if v > 0 && k != "tcp.delay" {
			nf++
		}
	}
	res.Nontrivial = nontrivial && (nf > 0 || len(res.YieldHits) > 0)
	res.Sample = summary
	return res
}

// onPacket is the online identity check of one delivered packet.
func onPacket(w *sys.World, sc *Scenario, rs *readerState, written map[fkey][]*wpkt, wmu *sync.Mutex,
	mi int, f format.Format, pkt *rtp.Packet, g uint64,
) {
	p := pkt.Payload
	if len(p) < 10 || binary.BigEndian.Uint32(p[0:]) != runMagic|uint32(sc.Seed&0xffff) {
		w.Fail("c01/identity packet", "reader %d received a packet that was never written (payload %d bytes: %x...)", rs.idx, len(p), head(p, 16))
		return
	}
	wm, wpt, counter := int(p[4]), p[5], int(binary.BigEndian.Uint32(p[6:]))
	if wm != mi || wpt != f.PayloadType() || pkt.PayloadType != wpt {
		w.Fail("c01/identity media", "reader %d: packet written to media %d format %d arrived at the callback of media %d format %d (header PT %d)",
			rs.idx, wm, wpt, mi, f.PayloadType(), pkt.PayloadType)
		return
	}
	k := fkey{mi, wpt}
	wmu.Lock()
	var rec *wpkt
	if counter >= 0 && counter < len(written[k]) {
		rec = written[k][counter]
	}
	wmu.Unlock()
	if rec == nil {
		w.Fail("c01/identity packet", "reader %d received packet %d/%d/%d that was never written", rs.idx, mi, wpt, counter)
		return
	}
	if string(rec.payload) != string(p) || rec.marker != pkt.Marker || rec.ts != pkt.Timestamp || rec.seq != pkt.SequenceNumber {
		w.Fail("c01/identity fields", "reader %d packet %d/%d/%d differs from what was written: seq %d/%d ts %d/%d marker %v/%v payload equal=%v (len %d/%d)",
			rs.idx, mi, wpt, counter, pkt.SequenceNumber, rec.seq, pkt.Timestamp, rec.ts, pkt.Marker, rec.marker, string(rec.payload) == string(p), len(p), len(rec.payload))
		return
	}
	rs.mu.Lock()
	prev := rs.recv[k]
	if len(prev) > 0 && prev[len(prev)-1].counter >= counter {
		last := prev[len(prev)-1].counter
		rs.mu.Unlock()
		if last == counter {
			w.Fail("c01/at-most-once packet", "reader %d received packet %d/%d/%d twice", rs.idx, mi, wpt, counter)
		} else {
			w.Fail("c01/order packet", "reader %d received packet %d/%d/%d after %d", rs.idx, mi, wpt, counter, last)
		}
		return
	}
	rs.recv[k] = append(prev, rpkt{counter, g})
	if rs.spec.Transport == "mcast" && len(prev) == 0 {
		w.Probe("multicast_packets_delivered")
	}
	// SSRC announced in the SETUP response (single-format medias only)
	var announced *uint32
	// (rs.ssrcs is in SETUP order: with medias left out, media mi was the j-th one set up)
	j := mi
	for m := 0; m < mi; m++ {
		if rs.spec.Skip&(1<<m) != 0 {
			j--
		}
	}
	if j >= 0 && j < len(rs.ssrcs) {
		announced = rs.ssrcs[j]
	}
	rs.mu.Unlock()
	// (whatever the number of formats of the media: an SSRC that is announced must be the one carried)
	if announced != nil && len(sc.Formats) > mi && pkt.SSRC != *announced && !rs.switched {
		w.Fail("c01/ssrc media", "reader %d: SETUP announced ssrc %08x for media %d but packets carry %08x", rs.idx, *announced, mi, pkt.SSRC)
	}
}

func isTimeout(err error) bool {
	if err == nil {
		return false
	}
	s := err.Error()
	return strings.Contains(s, "timeout") || strings.Contains(s, "timed out")
}

func head(b []byte, n int) []byte {
	if len(b) > n {
		return b[:n]
	}
	return b
}

// holdsOnWritePath: the run holds goroutines at yield points of the stream's write path (queue,
// writer goroutine, connection writes).
func holdsOnWritePath(sc *Scenario) bool {
	for k := range sc.Yields {
		if strings.HasPrefix(k, "ap.") || strings.HasPrefix(k, "rb.") || strings.HasPrefix(k, "st.write") || strings.HasPrefix(k, "auto:") || strings.HasPrefix(k, "cf.") {
			return true
		}
	}
	return false
}

// checkReader is the gap-freedom check over the recorded history.
func checkReader(w *sys.World, sc *Scenario, h *sys.Handler, rs *readerState, written, fwd map[fkey][]*wpkt, writerQueueFull bool) {
	if rs.client == nil || rs.apiErr != "" {
		return
	}
	if rs.spec.Skip != 0 {
		// what was written to a media the reader did not set up is not owed to it
		f2 := map[fkey][]*wpkt{}
		for k, v := range fwd {
			if rs.spec.Skip&(1<<k.media) == 0 {
				f2[k] = v
			}
		}
		fwd = f2
	}
	if rs.diedG != 0 {
		if !isTimeout(rs.diedErr) && sc.Source != "publisher" {
			w.Fail("c01/api-error reader", "reader %d (%s) terminated on its own: %v", rs.idx, rs.spec.Transport, rs.diedErr)
			return
		}
		w.Probe("reader_timed_out")
		// the reader has left at that point
		for i := range rs.intervals {
			if rs.intervals[i].endCallG == 0 || rs.intervals[i].endCallG > rs.diedG {
				rs.intervals[i].endCallG = rs.diedG
			}
		}
	}
	if !reliable(rs.spec.Transport) {
		// UDP / multicast: in-order subsequence, checked online. One thing more can be said when the
		// network loses nothing: a format of which plenty was written while the reader played cannot
		// arrive empty ("was written ... to that same media and format" has a converse as soon as
		// nothing is lost: the packets must go to the media and format they were written to).
		// (Not when the scheduler holds goroutines at yield points: a writer goroutine that is held
		// for tens of milliseconds per packet legitimately delivers only the first few packets of
		// the queue before a short-lived reader leaves.)
		if sc.Net.UDPDrop == 0 && sc.Net.UDPBurst == 0 && sc.Source == "stream" && !sc.Secure && !rs.switched && rs.diedG == 0 && !h.HadWriteError(nil) && !holdsOnWritePath(sc) {
			rs.mu.Lock()
			defer rs.mu.Unlock()
			for k, list := range fwd {
				n := 0
				for _, p := range list {
					for _, iv := range rs.intervals {
						if p.done && p.callG > iv.playRetG && (iv.endCallG == 0 || p.retG < iv.endCallG) {
							n++
						}
					}
				}
				if n >= 20 && len(rs.recv[k]) == 0 {
					w.Fail("c01/starved format", "reader %d (%s): %d packets of media %d / payload type %d were written while the reader played, the network drops nothing, and none arrived at its callback for that media and format",
						rs.idx, rs.spec.Transport, n, k.media, k.pt)
					return
				}
				if n >= 20 {
					w.Probe("lossless_udp_format_received")
				}
			}
		}
		return
	}
	if rs.switched {
		return
	}
	// a write-queue-full error reported for this reader's session waives completeness
	// (reader completeness is relative to what the server-side stream was given, so a
	// queue-full error on the publisher's side only matters for the publisher leg)
	if h.HadWriteError(nil) {
		w.Probe("queue_full_reported")
		return
	}
	rs.mu.Lock()
	defer rs.mu.Unlock()
	// SRTP limitation, not a library defect: MIKEY hands a joining reader the
	// roll-over counter as of its SETUP (RFC 3830 CS ID map); when the stream's
	// sequence number wraps between that SETUP and the first packet the reader
	// sees, RFC 3711 index estimation cannot recover and every packet fails
	// authentication. The oracle is silent about such a reader.
	if sc.Secure && len(rs.intervals) > 0 && !sc.ArbSeq {
		wrapCounter := (65536 - int(sc.StartSeq)) % 65536
		for k, list := range fwd {
			sawPreWrap := false
			for _, r := range rs.recv[k] {
				if r.counter < wrapCounter {
					sawPreWrap = true
				}
			}
			if sawPreWrap {
				continue
			}
			for _, p := range list {
				// the first packet at or after the wrap was (still being) written by the stream after this
				// reader's SETUP, and the reader never saw a packet from before the wrap
				if p.counter >= wrapCounter && p.retG >= rs.setupCallG { // the write may still have been in progress (held at a yield point) when SETUP built the MIKEY message
					if p.counter > 0 {
						w.Probe("srtp_wrap_between_setup_and_play_waived")
						return
					}
					break
				}
				if p.counter >= wrapCounter {
					break
				}
			}
		}
	}
	for k, list := range fwd {
		got := map[int]bool{}
		maxGot := -1
		for _, r := range rs.recv[k] {
			got[r.counter] = true
			if r.counter > maxGot {
				maxGot = r.counter
			}
		}
		for _, iv := range rs.intervals {
			// W_I: packets handed to the stream entirely inside the interval
			var inI []*wpkt
			for _, p := range list {
				if !p.done || p.counter < 0 {
					continue
				}
				if p.callG > iv.playRetG && (iv.endCallG == 0 || p.retG < iv.endCallG) {
					inI = append(inI, p)
				}
			}
			if len(inI) == 0 {
				continue
			}
			// highest delivered member of W_I
			hi := -1
			for _, p := range inI {
				if got[p.counter] && p.counter > hi {
					hi = p.counter
				}
			}
			for _, p := range inI {
				if p.err != nil {
					continue
				}
				missing := !got[p.counter]
				if missing && (p.counter < hi || iv.endCallG == 0) {
					w.Fail("c01/gap packet", "reader %d (%s): packet %d/%d/%d was written after PLAY completed (write g=%d..%d, interval g=%d..%d) and is missing although no write-queue-full error was reported; highest later delivered: %d; intervals %v; received %d of this format; decode errors %d (first: %s)",
						rs.idx, rs.spec.Transport, k.media, k.pt, p.counter, p.callG, p.retG, iv.playRetG, iv.endCallG, hi, rs.intervals, len(rs.recv[k]), rs.decodeErr, rs.firstDecodeErr)
					return
				}
			}
		}
	}
}

// checkPublisherLeg: what the server session received from the publisher.
func checkPublisherLeg(w *sys.World, sc *Scenario, written, fwd map[fkey][]*wpkt, writerQueueFull bool) {
	for k, list := range fwd {
		last := -1
		for _, p := range list {
			if p.counter < 0 || p.counter >= len(written[k]) {
				w.Fail("c01/identity packet", "server session received a packet the publisher never wrote (%d/%d)", k.media, k.pt)
				return
			}
			o := written[k][p.counter]
			if string(o.payload) != string(p.payload) || o.seq != p.seq || o.ts != p.ts || o.marker != p.marker {
				w.Fail("c01/identity fields", "server session: packet %d/%d/%d differs from what the publisher wrote", k.media, k.pt, p.counter)
				return
			}
			if p.counter <= last {
				w.Fail("c01/order packet", "server session received publisher packet %d/%d/%d after %d", k.media, k.pt, p.counter, last)
				return
			}
			last = p.counter
		}
		if reliable(sc.PubTr) && !writerQueueFull {
			got := map[int]bool{}
			for _, p := range list {
				got[p.counter] = true
			}
			for _, o := range written[k] {
				if o.done && o.err == nil && !got[o.counter] {
					w.Fail("c01/gap packet", "publisher over %s: packet %d/%d/%d was written without error but never reached the server session", sc.PubTr, k.media, k.pt, o.counter)
					return
				}
			}
		}
	}
}

func shrink(sc Scenario) []Scenario {
	var out []Scenario
	clone := func() Scenario {
		c := sc
		c.Formats = append([]int(nil), sc.Formats...)
		c.Readers = make([]Reader, len(sc.Readers))
		for i, r := range sc.Readers {
			c.Readers[i] = r
			c.Readers[i].Script = append([]Step(nil), r.Script...)
		}
		if sc.Yields != nil {
			c.Yields = map[string]core.YieldSpec{}
			for k, v := range sc.Yields {
				c.Yields[k] = v
			}
		}
		return c
	}
	// drop readers
	for i := range sc.Readers {
		if len(sc.Readers) > 1 {
			c := clone()
			c.Readers = append(c.Readers[:i], c.Readers[i+1:]...)
			out = append(out, c)
		}
	}
	// fewer medias / formats
	if len(sc.Formats) > 1 {
		c := clone()
		c.Formats = c.Formats[:len(c.Formats)-1]
		out = append(out, c)
	}
	for i, nf := range sc.Formats {
		if nf > 1 {
			c := clone()
			c.Formats[i] = 1
			out = append(out, c)
		}
	}
	// fewer packets
	if sc.Packets > 4 {
		c := clone()
		c.Packets = sc.Packets / 2
		out = append(out, c)
	}
	// no yields, then fewer
	if len(sc.Yields) > 0 {
		c := clone()
		c.Yields = nil
		out = append(out, c)
		for k := range sc.Yields {
			c := clone()
			delete(c.Yields, k)
			out = append(out, c)
		}
	}
	// simpler scripts
	for i, r := range sc.Readers {
		if len(r.Script) > 1 {
			c := clone()
			c.Readers[i].Script = c.Readers[i].Script[:len(r.Script)-1]
			out = append(out, c)
		}
		if r.LeaveUS > 0 {
			c := clone()
			c.Readers[i].LeaveUS = 0
			out = append(out, c)
		}
		if r.StallUS > 0 {
			c := clone()
			c.Readers[i].StallUS = 0
			out = append(out, c)
		}
		if r.Transport != "tcp" {
			c := clone()
			c.Readers[i].Transport = "tcp"
			out = append(out, c)
		}
		if r.StartUS > 0 {
			c := clone()
			c.Readers[i].StartUS = 0
			out = append(out, c)
		}
	}
	// simpler carriers / faults
	if sc.Secure {
		c := clone()
		c.Secure = false
		out = append(out, c)
	}
	if sc.Source == "publisher" {
		c := clone()
		c.Source = "stream"
		c.PubTr = ""
		out = append(out, c)
	}
	if sc.Net.ChunkMode != 0 {
		c := clone()
		c.Net.ChunkMode = 0
		out = append(out, c)
	}
	if sc.Net.Window != 0 {
		c := clone()
		c.Net.Window = 0
		out = append(out, c)
	}
	if sc.Net.UDPDrop != 0 || sc.Net.UDPDup != 0 || sc.Net.UDPReorder != 0 || sc.Net.UDPBurst != 0 {
		c := clone()
		c.Net.UDPDrop, c.Net.UDPDup, c.Net.UDPReorder, c.Net.UDPBurst = 0, 0, 0, 0
		out = append(out, c)
	}
	if sc.ArbSeq {
		c := clone()
		c.ArbSeq = false
		out = append(out, c)
	}
	if sc.ClockOffS != 0 {
		c := clone()
		c.ClockOffS = 0
		out = append(out, c)
	}
	return out
}

func init() {
	f := core.Register("C01", gen, run, shrink)
	f.Real = []string{"gortsplib.Server, ServerStream, ServerSession, ServerConn, Client (root package, all pkg/* and internal/* it uses)", "pion rtp/rtcp/srtp/sdp", "gorilla/websocket", "crypto/tls", "net/http request/response parsing", "bufio"}
	f.Simulated = []string{"TCP and UDP sockets, listeners, port allocation (simnet through Server.Listen/ListenPacket/TLSListen and Client.DialContext/DialTLSContext/ListenPacket)", "clock, timers, deadlines (testing/synctest fake clock)", "entropy (crypto/rand.Reader, uuid)", "goroutine interleaving at the enabled yield sites"}
	f.Excluded = []string{"pkg/multicast's raw-socket platform files (replaced in the scratch copy by a stand-in that binds the group address through the ListenPacket seam; everything above it - multicast writers, listeners, SETUP negotiation - is the real code)", "net.Interfaces for addresses other than loopback (a second multicast reader's interface lookup is answered by hooks/export_verif.go", "back-pressure under TLS / WebSocket (window unbounded there, DESIGN 2.3)"}
	f.Rule = "scenario = stream description (1..3 medias x 1..3 formats; payload types unique across the medias, or - a fifth of the runs - numbered from 96 in every media) x source (server-side writer | recording client over udp/tcp/http/ws) x 1..4 readers (udp/tcp/http/ws, plain or TLS+SRTP) with seeded join / pause / resume / leave scripts x (an eighth of the runs: simulation-aware locks, a yield point before every statement of pkg/conn and internal/bytecounter, IdleTimeout 6 s so that readers send keep-alives every second while media flows, streams of 3 s) x packet sequence (sizes 10..max, seeded timestamps/markers, consecutive sequence numbers from a seeded start incl. wrap, arbitrary on reliable carriers) x fault mix (latency, chunking incl. 1-byte, UDP drop/dup/reorder/burst, bounded window + receiver stalls) x enabled yield sites; non-trivial = at least one packet delivered to a reader and (>= 1 fault kind other than plain delay fired or >= 1 yield site hit); distinct = distinct hash of the canonical event log"
	f.Assumptions = []string{
		"packets still queued when the reader itself sends PAUSE/TEARDOWN are not 'missing' (the reader has left)",
		"completeness is waived for a run in which a write-queue-full error was reported to the writer or to OnStreamWriteError",
		"UDP reordering is bounded below the receiver's reorder buffer so that the sender-restart heuristic (owned by C14) is not triggered",
	}
}
