// Package c12 holds the scenario family of property C12.
package c12
