// Package c12 decides C12 (the client survives hostile servers) by whole-system
// simulation: a real Client against a scripted server derived from a correct
// one by mutating, dropping, duplicating and delaying responses, injecting
// frames and requests, closing at every step or going silent (DESIGN 3.7).
package c12

import (
	"bufio"
	"context"
	"crypto/tls"
	"fmt"
	"net"
	"net/http"
	"strings"
	"sync"
	"testing"
	"time"

	"github.com/pion/rtcp"
	"github.com/pion/rtp"

	gortsplib "github.com/bluenviron/gortsplib/v5"
	"github.com/bluenviron/gortsplib/v5/pkg/base"
	"github.com/bluenviron/gortsplib/v5/pkg/conn"
	"github.com/bluenviron/gortsplib/v5/pkg/description"
	"github.com/bluenviron/gortsplib/v5/pkg/format"
	"github.com/bluenviron/gortsplib/v5/pkg/headers"

	"verifsim/core"
	"verifsim/peers"
	"verifsim/simnet"
	"verifsim/sys"
)

// Behaviour says what the scripted server does with the n-th request it receives.
type Behaviour struct {
	Kind string `json:"k"` // normal | mutate | targeted | drop | dup | delay | frames | request | close-before | close-after | rst | silent | flood | status | cseq | redirect
	Arg  int    `json:"a,omitempty"`
}

// Scenario is one C12 run.
type Scenario struct {
	Seed       uint64        `json:"seed"`
	Net        simnet.Config `json:"net"`
	Role       string        `json:"role"`     // play | record
	Protocol   string        `json:"protocol"` // udp | tcp | auto
	Creds      bool          `json:"creds"`
	BackChan   bool          `json:"back_channels"`
	AnyPort    bool          `json:"any_port"`
	Medias     int           `json:"medias"`
	Behaviours []Behaviour   `json:"behaviours"`
	// RedirectLoop: from the end of the behaviour list on, every DESCRIBE is answered
	// with a redirect to the same URL (an endless redirect chain).
	RedirectLoop bool `json:"redirect_loop,omitempty"`
	ReadMS       int  `json:"read_ms"`
	WriteMS      int  `json:"write_ms"`
	PortInUse    int  `json:"port_in_use"` // number of client UDP ports that are busy
	ExtraCalls   int  `json:"extra_calls"` // API calls issued after the main script
	// Yields: yield sites of the client's shutdown / writer paths at which the scheduler may hold
	// the goroutine (simulated scheduling delay), so that server bytes can arrive in between.
	Yields map[string]core.YieldSpec `json:"yields,omitempty"`
	// Tunnel: the client runs RTSP over HTTP ("http"); the scripted server speaks the tunnel.
	Tunnel string `json:"tunnel,omitempty"`
	// Secure: rtsps - the scripted server speaks TLS (it still offers plain RTP: the handshake and the
	// control channel are what is exercised, and what Close has to clean up).
	Secure bool `json:"secure,omitempty"`
}

var clientSites = []string{"c.doClose.pre", "c.doClose.teardown", "c.doClose.reader", "c.doClose.medias", "c.run.close",
	"c.destroyWriter.pre", "c.destroyWriter.mid", "c.createWriter.pre", "c.startWriter.pre",
	"ap.close.cancel", "ap.close.ring", "ap.close.join", "ap.start"}

const maxHold = 50 * time.Millisecond

var kinds = []string{"normal", "normal", "normal", "mutate", "mutate", "targeted", "targeted", "targeted", "drop", "dup", "delay", "frames", "request",
	"close-before", "close-after", "rst", "silent", "flood", "auth401", "deaf-after", "status", "cseq", "redirect"}

func gen(seed uint64, tier string) Scenario {
	r := core.NewRand(seed, "c12")
	sc := Scenario{Seed: seed}
	sc.Role = "play"
	if r.Bool(0.3) {
		sc.Role = "record"
	}
	sc.Protocol = []string{"udp", "tcp", "auto"}[r.Intn(3)]
	sc.Creds = r.Bool(0.3)
	sc.BackChan = sc.Role == "play" && r.Bool(0.15)
	sc.AnyPort = r.Bool(0.2)
	sc.Medias = r.Range(1, 3)
	sc.ReadMS = r.Pick(1000, 2000, 10000)
	sc.WriteMS = r.Pick(1000, 2000, 10000)
	n := r.Range(3, 14)
	hostileFrom := r.Intn(8) // the first few exchanges are often correct so that deep states are reached
	for i := 0; i < n; i++ {
		b := Behaviour{Kind: "normal"}
		if i >= hostileFrom && r.Bool(0.55) {
			b.Kind = kinds[r.Intn(len(kinds))]
			b.Arg = r.Intn(1 << 20)
		}
		sc.Behaviours = append(sc.Behaviours, b)
	}
	if r.Bool(0.15) {
		sc.PortInUse = r.Range(1, 6)
	}
	sc.ExtraCalls = r.Range(0, 3)
	if r.Bool(0.04) {
		sc.RedirectLoop = true
		sc.Behaviours = sc.Behaviours[:r.Intn(2)]
	}
	// the client through the HTTP tunnel, in part with a bounded window so that a server that stops
	// reading makes the client's writes block (hash-derived so that no other choice moves)
	window := 0
	if x := core.HS(seed, "c12.tunnel", "", 0); x%100 < 15 {
		sc.Tunnel = "http"
		sc.Protocol = "tcp"
		if (x>>8)%2 == 0 {
			window = []int{2048, 8192}[(x>>16)%2]
			// ... and in most of these runs a publisher whose server goes deaf right after RECORD
			if (x>>24)%4 != 0 {
				sc.Role = "record"
				sc.BackChan = false
				sc.Creds = false
				sc.Behaviours = nil
				for i := 0; i < 3+sc.Medias; i++ { // OPTIONS, ANNOUNCE, SETUP x medias, RECORD
					sc.Behaviours = append(sc.Behaviours, Behaviour{Kind: "normal"})
				}
				sc.Behaviours[len(sc.Behaviours)-1] = Behaviour{Kind: "deaf-after"}
				sc.RedirectLoop = false
			}
		}
	}
	// TLS underneath (hash-derived so that no other choice moves): mostly together with the tunnel,
	// where two TLS connections have to be closed
	if x := core.HS(seed, "c12.secure", "", 0) % 100; (sc.Tunnel != "" && x < 40) || x < 6 {
		sc.Secure = true
		// ... and in half of the tunnelled ones the server resets the GET half (only) at a seeded request
		if y := core.HS(seed, "c12.rstget", "", 0); sc.Tunnel != "" && y%2 == 0 && len(sc.Behaviours) > 0 {
			k := int((y >> 8) % uint64(len(sc.Behaviours)))
			sc.Behaviours[k] = Behaviour{Kind: "rst", Arg: 2 + int((y>>16)%2)} // (Arg/2)%3 == 1: the GET half; Arg%2: answer first or not
		}
	}
	// a UDP-multicast client (it plays; the scripted server answers SETUP with a group address and a
	// port pair, and sends to the groups); hash-derived so that no other choice moves
	if x := core.HS(seed, "c12.mcast", "", 0); x%100 < 8 && sc.Tunnel == "" && sc.Role == "play" {
		sc.Protocol = "mcast"
		sc.PortInUse = 0
		// ... in half of these runs the n-th SETUP answer is hostile in a multicast-specific way
		if (x>>8)%2 == 0 {
			k := 2 + int((x>>16)%uint64(sc.Medias)) // OPTIONS, DESCRIBE, SETUP...
			if sc.Creds {
				k++
			}
			for len(sc.Behaviours) <= k {
				sc.Behaviours = append(sc.Behaviours, Behaviour{Kind: "normal"})
			}
			sc.Behaviours[k] = Behaviour{Kind: "targeted", Arg: int((x >> 24) % (1 << 16))}
		}
	}
	// hash-derived so that no other choice of the scenario moves
	if core.HS(seed, "c12.yields", "", 0)%100 < 50 {
		sc.Yields = map[string]core.YieldSpec{}
		for i, st := range clientSites {
			if core.HS(seed, "c12.yield", st, uint64(i))%100 < 40 {
				sc.Yields[st] = core.YieldSpec{}
			}
		}
	}
	nc := simnet.Config{Seed: seed ^ 0x12121212}
	nc.LatMinUS = r.Pick(10, 100, 1000)
	nc.LatMaxUS = nc.LatMinUS + r.Pick(0, 50, 500)
	nc.ChunkMode = r.Pick(0, 1, 2, 3)
	nc.ChunkMaxLen = r.Pick(64, 1024)
	// writes that wait together may travel as one byte run (pipelined requests, a response and
	// the frames behind it); hash-derived so that no other choice moves
	if x := core.HS(seed, "c12.coalesce", "", 0) % 100; x < 30 {
		nc.Coalesce = []float64{0.3, 0.7, 1}[x%3]
	}
	if r.Bool(0.3) {
		nc.UDPDrop = 0.1
	}
	nc.Window = window
	sc.Net = nc
	return sc
}

func ms(n int) time.Duration { return time.Duration(n) * time.Millisecond }

func mkDesc(n int, back bool) *description.Session {
	d := &description.Session{}
	for i := 0; i < n; i++ {
		g := &format.Generic{PayloadTyp: uint8(96 + i), RTPMa: "private/90000"}
		g.Init() //nolint:errcheck
		d.Medias = append(d.Medias, &description.Media{Type: description.MediaTypeVideo, Formats: []format.Format{g}, Control: fmt.Sprintf("trackID=%d", i)})
	}
	if back {
		g := &format.G711{PayloadTyp: 8, MULaw: false, SampleRate: 8000, ChannelCount: 1}
		d.Medias = append(d.Medias, &description.Media{Type: description.MediaTypeAudio, IsBackChannel: true, Formats: []format.Format{g}, Control: fmt.Sprintf("trackID=%d", n)})
	}
	return d
}

// ---- scripted server --------------------------------------------------------------

type fakeServer struct {
	w     *sys.World
	sc    *Scenario
	node  *simnet.Node
	ln    net.Listener
	mu    sync.Mutex
	nreq  int
	conns []net.Conn
	udp   []net.PacketConn
	wg    sync.WaitGroup
	stop  chan struct{}
	// always401: every further request is answered 401 with a fresh challenge
	always401 bool
	n401      int
	tunGet    map[string]net.Conn // GET halves of HTTP tunnels by cookie
	tunGetRaw map[string]*simnet.Conn
}

func (fs *fakeServer) behaviour() Behaviour {
	fs.mu.Lock()
	defer fs.mu.Unlock()
	i := fs.nreq
	fs.nreq++
	if fs.always401 {
		return Behaviour{Kind: "auth401-sticky", Arg: i}
	}
	if i < len(fs.sc.Behaviours) {
		return fs.sc.Behaviours[i]
	}
	if fs.sc.RedirectLoop {
		return Behaviour{Kind: "redirect-loop"}
	}
	return Behaviour{Kind: "normal"}
}

func (fs *fakeServer) serve() {
	defer fs.wg.Done()
	for {
		nc, err := fs.ln.Accept()
		if err != nil {
			return
		}
		fs.mu.Lock()
		fs.conns = append(fs.conns, nc)
		fs.mu.Unlock()
		fs.wg.Add(1)
		go fs.handle(nc)
	}
}

func (fs *fakeServer) close() {
	close(fs.stop)
	fs.ln.Close()
	fs.mu.Lock()
	for _, c := range fs.conns {
		c.Close()
	}
	for _, u := range fs.udp {
		u.Close()
	}
	fs.mu.Unlock()
	fs.wg.Wait()
}

// handle serves one accepted connection: plain RTSP, or one half of an RTSP-over-HTTP tunnel
// (GET = the channel the server writes to, POST = base64-encoded requests from the client).
func (fs *fakeServer) handle(nc net.Conn) {
	defer fs.wg.Done()
	rawConn, _ := nc.(*simnet.Conn)
	if fs.sc.Secure {
		nc = tls.Server(nc, sys.ServerTLSConfig())
		fs.w.Probe("tls_connection")
	}
	br := bufio.NewReader(nc)
	nc.SetReadDeadline(time.Now().Add(5 * time.Minute))
	if pk, err := br.Peek(4); err == nil && (string(pk) == "GET " || string(pk) == "POST") {
		hreq, err := http.ReadRequest(br)
		if err != nil {
			nc.Close()
			return
		}
		cookie := hreq.Header.Get("X-Sessioncookie")
		if hreq.Method == "GET" {
			nc.SetWriteDeadline(time.Now().Add(10 * time.Second))
			nc.Write([]byte("HTTP/1.1 200 OK\r\nCache-Control: no-cache\r\nConnection: close\r\nContent-Type: application/x-rtsp-tunnelled\r\nPragma: no-cache\r\n\r\n")) //nolint:errcheck
			fs.mu.Lock()
			if fs.tunGet == nil {
				fs.tunGet = map[string]net.Conn{}
			}
			fs.tunGet[cookie] = nc
			if fs.tunGetRaw == nil {
				fs.tunGetRaw = map[string]*simnet.Conn{}
			}
			fs.tunGetRaw[cookie] = rawConn
			fs.mu.Unlock()
			fs.w.Probe("http_tunnel_get")
			return // stays open: the POST half's handler writes to it (closed by fs.close)
		}
		var get net.Conn
		for i := 0; i < 100 && get == nil; i++ {
			fs.mu.Lock()
			get = fs.tunGet[cookie]
			fs.mu.Unlock()
			if get == nil {
				time.Sleep(10 * time.Millisecond)
			}
		}
		if get == nil {
			nc.Close()
			return
		}
		fs.w.Probe("http_tunnel_paired")
		tc := gortsplib.VerifNewServerHTTPTunnel(nc, br, get)
		defer nc.Close()
		defer get.Close()
		fs.mu.Lock()
		getRaw := fs.tunGetRaw[cookie]
		fs.mu.Unlock()
		fs.serveRTSP(tc, bufio.NewReader(tc), rawConn, getRaw)
		return
	}
	defer nc.Close()
	fs.serveRTSP(nc, br, rawConn, nil)
}

// serveRTSP: raw is the simulated socket the client's bytes arrive on (for "stops reading").
// getRaw: the socket of the GET half when the conversation runs through the HTTP tunnel.
func (fs *fakeServer) serveRTSP(nc net.Conn, br *bufio.Reader, raw, getRaw *simnet.Conn) {
	c := conn.NewConn(br, nc)
	sc := fs.sc
	w := fs.w
	sess := "sess" + fmt.Sprint(core.H(sc.Seed, "sid")%100000)
	desc := mkDesc(sc.Medias, sc.BackChan)
	setups := 0
	playing := false
	var playStop chan struct{}
	tcp := false
	var udpDst []*net.UDPAddr
	var udpSock net.PacketConn
	stopPlay := func() {
		if playStop != nil {
			close(playStop)
			playStop = nil
		}
	}
	defer stopPlay()
	mu := &peers.Mutator{Seed: sc.Seed, Ent: "srv"}
	for {
		nc.SetReadDeadline(time.Now().Add(5 * time.Minute))
		what, err := c.Read()
		if err != nil {
			return
		}
		req, ok := what.(*base.Request)
		if !ok {
			continue // frames / responses from the client
		}
		b := fs.behaviour()
		w.Fault("server." + b.Kind)
		res := &base.Response{StatusCode: base.StatusOK, Header: base.Header{}}
		if cs, ok := req.Header["CSeq"]; ok {
			res.Header["CSeq"] = cs
		}
		afterSend := func() {}
		switch req.Method {
		case base.Options:
			res.Header["Public"] = base.HeaderValue{"DESCRIBE, ANNOUNCE, SETUP, PLAY, RECORD, PAUSE, GET_PARAMETER, TEARDOWN"}
		case base.Describe:
			if sc.Creds && req.Header["Authorization"] == nil {
				res.StatusCode = base.StatusUnauthorized
				res.Header["WWW-Authenticate"] = base.HeaderValue{`Digest realm="r", nonce="abcdef0123456789"`, `Basic realm="r"`}
				break
			}
			body, _ := desc.Marshal()
			res.Header["Content-Type"] = base.HeaderValue{"application/sdp"}
			ustr := "rtsp://10.0.0.1:8554/stream"
			if req.URL != nil { // a request line with "*" parses to a nil URL
				ustr = req.URL.String()
			}
			res.Header["Content-Base"] = base.HeaderValue{ustr + "/"}
			res.Body = body
		case base.Announce:
		case base.Setup:
			var th headers.Transport
			if err := th.Unmarshal(req.Header["Transport"]); err != nil {
				res.StatusCode = base.StatusBadRequest
				break
			}
			out := headers.Transport{Profile: th.Profile, Delivery: ptrOf(headers.TransportDeliveryUnicast), Mode: th.Mode}
			if th.Protocol == headers.TransportProtocolUDP && th.Delivery != nil && *th.Delivery == headers.TransportDeliveryMulticast {
				// one group per media, one port pair for all (the client filters on the source port,
				// which it expects to equal the group port)
				w.Probe("multicast_setup")
				out.Protocol = headers.TransportProtocolUDP
				out.Delivery = ptrOf(headers.TransportDeliveryMulticast)
				grp := fmt.Sprintf("224.1.0.%d", 1+setups%200)
				out.Destination2 = &grp
				out.Ports = &[2]int{5000, 5001}
				out.TTL = ptrOf(uint(127))
				udpDst = append(udpDst, &net.UDPAddr{IP: net.ParseIP(grp), Port: 5000})
				if udpSock == nil {
					if u, err := fs.node.ListenPacket("udp", ":5000"); err == nil {
						udpSock = u
						fs.mu.Lock()
						fs.udp = append(fs.udp, u)
						fs.mu.Unlock()
					}
				}
			} else if th.Protocol == headers.TransportProtocolTCP {
				tcp = true
				out.Protocol = headers.TransportProtocolTCP
				out.InterleavedIDs = th.InterleavedIDs
				if out.InterleavedIDs == nil {
					out.InterleavedIDs = &[2]int{2 * setups, 2*setups + 1}
				}
			} else {
				out.Protocol = headers.TransportProtocolUDP
				out.ClientPorts = th.ClientPorts
				out.ServerPorts = &[2]int{9000, 9001}
				if th.ClientPorts != nil {
					ra := nc.RemoteAddr().(*net.TCPAddr)
					udpDst = append(udpDst, &net.UDPAddr{IP: ra.IP, Port: th.ClientPorts[0]})
				}
				if udpSock == nil {
					if u, err := fs.node.ListenPacket("udp", ":9000"); err == nil {
						udpSock = u
						fs.mu.Lock()
						fs.udp = append(fs.udp, u)
						fs.mu.Unlock()
						if u2, err := fs.node.ListenPacket("udp", ":9001"); err == nil {
							fs.mu.Lock()
							fs.udp = append(fs.udp, u2)
							fs.mu.Unlock()
						}
					}
				}
			}
			ssrc := uint32(0x11223344 + setups)
			out.SSRC = &ssrc
			res.Header["Transport"] = out.Marshal()
			res.Header["Session"] = base.HeaderValue{sess + ";timeout=60"}
			setups++
		case base.Play, base.Record:
			res.Header["Session"] = base.HeaderValue{sess}
			if req.Method == base.Play && !playing {
				playing = true
				playStop = make(chan struct{})
				ps := playStop
				isTCP := tcp
				setupsAtPlay := setups
				dsts := append([]*net.UDPAddr(nil), udpDst...)
				us := udpSock
				afterSend = func() {
					fs.wg.Add(1)
					go func() {
						defer fs.wg.Done()
						for k := 0; k < 200; k++ {
							select {
							case <-ps:
								return
							case <-fs.stop:
								return
							default:
							}
							pkt, _ := (&rtp.Packet{Header: rtp.Header{Version: 2, PayloadType: 96, SequenceNumber: uint16(k), Timestamp: uint32(k * 3000), SSRC: 0x11223344}, Payload: []byte{1, 2, 3, 4}}).Marshal()
							// hostile media in a third of the runs: header fields that point beyond the packet
							// (padding count, extension, CSRC count), truncated headers, on every channel
							if x := core.HS(sc.Seed, "c12.hostilemedia", "", uint64(k)); core.HS(sc.Seed, "c12.hostilemedia.on", "", 0)%3 == 0 && x%5 == 0 {
								switch (x >> 8) % 7 {
								case 0:
									pkt[0] |= 0x20
									pkt[len(pkt)-1] = 200
								case 1:
									pkt[0] |= 0x20
									pkt[len(pkt)-1] = byte(len(pkt) - 11)
								case 2:
									pkt[0] |= 0x10 // extension announced, none present
								case 3:
									pkt[0] |= 0x0f // 15 CSRCs announced
								case 4:
									pkt = pkt[:(x>>16)%12] // shorter than a header
								case 5:
									pkt[0] = 0x40 // version 1
								case 6:
									pkt[0] |= 0x20
									pkt[len(pkt)-1] = 0
								}
								w.Fault("server.hostile_rtp")
							}
							if isTCP {
								// every set-up channel gets media, a back channel's included (and now and then one
								// that was never set up); the payload type is the one of the channel's media
								ch := int((core.HS(sc.Seed, "c12.ch", "", uint64(k)) % 4) * uint64(2) % uint64(2*setupsAtPlay+2))
								if len(pkt) >= 2 {
									pt := byte(96 + ch/2)
									if sc.BackChan && ch/2 == sc.Medias {
										pt = 8
									}
									pkt[1] = pkt[1]&0x80 | pt
								}
								fr := base.InterleavedFrame{Channel: ch, Payload: pkt}
								buf, _ := fr.Marshal()
								nc.SetWriteDeadline(time.Now().Add(5 * time.Second))
								if _, err := nc.Write(buf); err != nil {
									return
								}
							} else if us != nil {
								for _, d := range dsts {
									us.WriteTo(pkt, d) //nolint:errcheck
								}
							}
							time.Sleep(20 * time.Millisecond)
						}
					}()
				}
			}
		case base.Pause:
			res.Header["Session"] = base.HeaderValue{sess}
			playing = false
			stopPlay()
		case base.Teardown:
			stopPlay()
		case base.GetParameter:
			res.Header["Session"] = base.HeaderValue{sess}
		}

		send := func(r *base.Response) bool {
			buf, _ := r.Marshal()
			nc.SetWriteDeadline(time.Now().Add(5 * time.Second))
			_, err := nc.Write(buf)
			return err == nil
		}
		sendRaw := func(b []byte) bool {
			nc.SetWriteDeadline(time.Now().Add(5 * time.Second))
			_, err := nc.Write(b)
			return err == nil
		}
		switch b.Kind {
		case "normal":
			if !send(res) {
				return
			}
		case "mutate":
			buf, _ := res.Marshal()
			mu.Ent = fmt.Sprint("srv", b.Arg)
			out, kind := mu.Mutate(buf)
			w.Fault("server.mut." + kind)
			if !sendRaw(out) {
				return
			}
		case "targeted":
			targeted(res, req, b.Arg, w)
			if !send(res) {
				return
			}
		case "drop":
			// no response at all
		case "dup":
			if !send(res) || !send(res) {
				return
			}
		case "delay":
			d := []time.Duration{100 * time.Millisecond, ms(sc.ReadMS) - 50*time.Millisecond, ms(sc.ReadMS) + 500*time.Millisecond, 3 * ms(sc.ReadMS)}[b.Arg%4]
			select {
			case <-time.After(d):
			case <-fs.stop:
				return
			}
			if !send(res) {
				return
			}
		case "frames":
			for k := 0; k < 1+b.Arg%5; k++ {
				mu.Ent = fmt.Sprint("fr", b.Arg, k)
				if !sendRaw(mu.Frame()) {
					return
				}
			}
			if !send(res) {
				return
			}
		case "request":
			m := []base.Method{base.Options, base.GetParameter, base.Teardown, base.Setup, "REDIRECT"}[b.Arg%5]
			ru := req.URL
			if ru == nil {
				ru, _ = base.ParseURL("rtsp://10.0.0.1:8554/stream")
			}
			r2 := &base.Request{Method: m, URL: ru, Header: base.Header{"CSeq": base.HeaderValue{"777"}}}
			buf, _ := r2.Marshal()
			if !sendRaw(buf) || !send(res) {
				return
			}
		case "close-before":
			return
		case "close-after":
			send(res)
			return
		case "rst":
			if b.Arg%2 == 0 {
				send(res)
			}
			// reset the connection; through the tunnel: the POST half, the GET half, or both
			switch {
			case getRaw == nil:
				if raw != nil {
					raw.Reset()
				}
			case (b.Arg/2)%3 == 0:
				raw.Reset()
			case (b.Arg/2)%3 == 1:
				getRaw.Reset()
				w.Probe("tunnel_get_half_reset")
				// the POST half stays as it is: the client has to close it
				select {
				case <-fs.stop:
				case <-time.After(2 * time.Minute):
				}
			default:
				raw.Reset()
				getRaw.Reset()
			}
			return
		case "silent":
			// says nothing and reads nothing any more, but stays connected
			if raw != nil && fs.sc.Net.Window > 0 {
				raw.Stall(10 * time.Minute)
				w.Probe("server_stopped_reading")
			}
			select {
			case <-fs.stop:
			case <-time.After(10 * time.Minute):
			}
			return
		case "auth401":
			// from now on every request is refused with a fresh, well-formed challenge - also the
			// authenticated retry (wrong password / a server that rotates its nonce every time)
			fs.mu.Lock()
			fs.always401 = true
			fs.mu.Unlock()
			fallthrough
		case "auth401-sticky":
			fs.mu.Lock()
			fs.n401++
			k := fs.n401
			fs.mu.Unlock()
			ch := fmt.Sprintf(`Digest realm="r", nonce="n%d"`, k)
			if b.Arg%3 == 0 {
				ch = `Basic realm="r"`
			}
			r := &base.Response{StatusCode: base.StatusUnauthorized, Header: base.Header{"CSeq": req.Header["CSeq"], "WWW-Authenticate": base.HeaderValue{ch}}}
			if !send(r) {
				return
			}
		case "deaf-after":
			// answers, then stops reading for good while staying connected: what the client sends
			// from now on piles up (bounded window)
			if !send(res) {
				return
			}
			if raw != nil {
				raw.Stall(10 * time.Minute)
				w.Probe("server_stopped_reading")
			}
		case "flood":
			// the request is never answered, but the connection is anything but silent: responses
			// that answer nothing (foreign CSeq) and / or server requests keep arriving more often
			// than ReadTimeout, for far longer than any bound on the call
			period := ms(fs.sc.ReadMS) / time.Duration(2+b.Arg%3)
			end := time.Now().Add(40*(ms(fs.sc.ReadMS)+ms(fs.sc.WriteMS)) + time.Minute)
			for k := 0; time.Now().Before(end); k++ {
				select {
				case <-fs.stop:
					return
				case <-time.After(period):
				}
				var buf []byte
				if (b.Arg/3)%3 != 1 {
					r := &base.Response{StatusCode: base.StatusOK, Header: base.Header{"CSeq": base.HeaderValue{fmt.Sprint(900000 + k)}}}
					x, _ := r.Marshal()
					buf = append(buf, x...)
				}
				if (b.Arg/3)%3 != 0 {
					ru := req.URL
					if ru == nil {
						ru, _ = base.ParseURL("rtsp://10.0.0.1:8554/stream")
					}
					r := &base.Request{Method: base.Options, URL: ru, Header: base.Header{"CSeq": base.HeaderValue{fmt.Sprint(k + 1)}}}
					x, _ := r.Marshal()
					buf = append(buf, x...)
				}
				if !sendRaw(buf) {
					return
				}
			}
			return
		case "status":
			codes := []base.StatusCode{100, 199, 201, 299, 301, 302, 400, 401, 404, 405, 454, 459, 461, 500, 503, 551, 999, 0}
			res.StatusCode = codes[b.Arg%len(codes)]
			if res.StatusCode == 401 && b.Arg%3 == 0 {
				res.Header["WWW-Authenticate"] = base.HeaderValue{[]string{`Digest realm="x"`, `Basic`, `Digest realm="r", nonce="n", algorithm=FOO`, `Bearer x`, ""}[b.Arg%5]}
			}
			if !send(res) {
				return
			}
		case "cseq":
			switch b.Arg % 4 {
			case 0:
				delete(res.Header, "CSeq")
			case 1:
				res.Header["CSeq"] = base.HeaderValue{"999999"}
			case 2:
				res.Header["CSeq"] = base.HeaderValue{"1", "2"}
			case 3:
				res.Header["CSeq"] = base.HeaderValue{" " + res.Header["CSeq"][0] + " "}
			}
			if !send(res) {
				return
			}
		case "redirect-loop":
			if req.Method == base.Describe {
				loc := "rtsp://10.0.0.1:8554/stream"
				if req.URL != nil {
					loc = req.URL.String()
				}
				res = &base.Response{StatusCode: base.StatusMovedPermanently, Header: base.Header{"CSeq": req.Header["CSeq"], "Location": base.HeaderValue{loc}}}
			}
			if !send(res) {
				return
			}
		case "redirect":
			res.StatusCode = []base.StatusCode{301, 302, 303, 305}[b.Arg%4]
			locs := []string{"rtsp://10.0.0.1:8554/stream", "rtsp://10.0.0.1:8554/other", "rtsp://10.0.0.9:8554/nowhere", "rtsp://nonexistent.host/x", "http://10.0.0.1/x", "rtsp://[::1", "", "rtsp://10.0.0.1:1/x"}
			res.Header["Location"] = base.HeaderValue{locs[(b.Arg/4)%len(locs)]}
			if !send(res) {
				return
			}
		}
		afterSend()
	}
}

func ptrOf[T any](v T) *T { return &v }

// targeted applies a field-level mutation that keeps the response well formed.
func targeted(res *base.Response, req *base.Request, arg int, w *sys.World) {
	switch req.Method {
	case base.Describe:
		body := string(res.Body)
		switch arg % 10 {
		case 0:
			body = strings.ReplaceAll(body, "a=control:trackID=", "a=control:rtsp://[::1/trackID=")
		case 1:
			body = strings.ReplaceAll(body, "a=control:trackID=", "a=control:%zz%=")
		case 2:
			body = strings.ReplaceAll(body, "a=control:", "a=control:?")
		case 3:
			body = strings.ReplaceAll(body, "RTP/AVP", "RTP/SAVP")
		case 4:
			body = strings.ReplaceAll(body, "a=rtpmap:96 private/90000", "a=rtpmap:96 H264/90000\r\na=fmtp:96 packetization-mode=1; sprop-parameter-sets=Z,,;profile-level-id=zz")
		case 5:
			body = "v=0\r\n" // no medias
		case 6:
			delete(res.Header, "Content-Type")
		case 7:
			res.Header["Content-Base"] = base.HeaderValue{[]string{"/relative/", "rtsp://[::1", "http://x/", "rtsp://10.0.0.7:8554/elsewhere/"}[(arg/10)%4]}
		case 8:
			body = strings.ReplaceAll(body, "m=video 0 RTP/AVP 96", "m=video 0 RTP/AVP 96 97 98 99 100")
		case 9:
			body += "a=key-mgmt:mikey AAAA\r\n"
		}
		res.Body = []byte(body)
		w.Fault(fmt.Sprintf("server.targeted.describe.%d", arg%10))
	case base.Setup:
		var th headers.Transport
		if th.Unmarshal(res.Header["Transport"]) != nil {
			return
		}
		if th.Delivery != nil && *th.Delivery == headers.TransportDeliveryMulticast {
			switch arg % 10 {
			case 0:
				th.Ports = &[2]int{65535, 65536} // what "port=65535" parses to
			case 1:
				th.Ports = nil
			case 2:
				th.Destination2 = nil
			case 3:
				th.Destination2 = ptrOf("no-such-host.invalid")
			case 4:
				th.Destination2 = ptrOf("10.0.0.9") // not a group address
			case 5:
				th.Ports = &[2]int{0, 1}
			case 6:
				th.Delivery = ptrOf(headers.TransportDeliveryUnicast)
			case 7:
				th.Source2 = ptrOf("no-such-host.invalid")
			case 8:
				th.Ports = &[2]int{65534, 70000}
			case 9:
				th.Destination2 = ptrOf("alias.example") // resolves to a unicast address
			}
			res.Header["Transport"] = th.Marshal()
			w.Fault(fmt.Sprintf("server.targeted.setup.mcast.%d", arg%10))
			return
		}
		switch arg % 12 {
		case 0:
			th.ServerPorts = nil
		case 1:
			th.ServerPorts = &[2]int{0, 1}
		case 2:
			th.ServerPorts = &[2]int{70000, 70001}
		case 3:
			th.InterleavedIDs = &[2]int{5, 9}
		case 4:
			th.InterleavedIDs = nil
		case 5:
			if th.Protocol == headers.TransportProtocolUDP {
				th.Protocol = headers.TransportProtocolTCP
				th.InterleavedIDs = &[2]int{0, 1}
			} else {
				th.Protocol = headers.TransportProtocolUDP
				th.ServerPorts = &[2]int{9000, 9001}
			}
		case 6:
			th.Delivery = ptrOf(headers.TransportDeliveryMulticast)
		case 7:
			th.Source2 = ptrOf("no-such-host.invalid")
		case 8:
			th.Source2 = ptrOf("10.0.0.77")
		case 9:
			th.Profile = headers.TransportProfileSAVP
		case 10:
			res.Header["Session"] = base.HeaderValue{[]string{"", ";timeout=", "abc;timeout=-5", "abc;timeout=99999999999999999999", strings.Repeat("s", 3000)}[(arg/12)%5]}
		case 11:
			th.InterleavedIDs = &[2]int{0, 1} // possibly already in use by another media
		}
		res.Header["Transport"] = th.Marshal()
		w.Fault(fmt.Sprintf("server.targeted.setup.%d", arg%12))
	case base.Play:
		res.Header["RTP-Info"] = base.HeaderValue{[]string{"url=rtsp://x;seq=abc;rtptime=-1", "garbage", "url=;seq=99999999;rtptime=99999999999"}[arg%3]}
		w.Fault("server.targeted.play")
	default:
		res.Header["Session"] = base.HeaderValue{"other-session;timeout=1"}
		w.Fault("server.targeted.session")
	}
}

// ---- the run ------------------------------------------------------------------------

func run(t *testing.T, sc Scenario) *core.Result {
	opts := sys.Options{Seed: sc.Seed, Net: sc.Net, Yields: sc.Yields, MaxHold: maxHold, MaxSteps: 400000, Horizon: 60 * time.Minute}
	var summary map[string]any
	res := sys.Run(t, opts, func(w *sys.World) {
		w.ProbeInit("call_returned_error", "call_returned_ok", "reached_play", "reached_record", "client_terminated_itself", "calls_after_failure",
			"udp_port_retry", "packets_received", "close_verified", "tls_connection", "tunnel_get_half_reset", "client_multicast", "multicast_setup", "multicast_packets_received")
		rootGID := core.GoID()
		srvNode := w.Net.Node("srv", "10.0.0.1")
		w.Net.AddHost("alias.example", "10.0.0.1")
		ln, err := srvNode.Listen("tcp", "10.0.0.1:8554")
		if err != nil {
			w.Fail("c12/harness listen", "%v", err)
			return
		}
		fs := &fakeServer{w: w, sc: &sc, node: srvNode, ln: ln, stop: make(chan struct{})}
		fs.wg.Add(1)
		go fs.serve()

		cliIP := "10.0.0.20"
		if sc.Protocol == "mcast" {
			cliIP = "127.0.0.1" // the client looks for a real interface with its local address (net.Interfaces)
		}
		cliNode := w.Net.Node("cli", cliIP)
		c := &gortsplib.Client{Scheme: "rtsp", Host: "10.0.0.1:8554", ReadTimeout: ms(sc.ReadMS), WriteTimeout: ms(sc.WriteMS),
			AnyPortEnable: sc.AnyPort, RequestBackChannels: sc.BackChan, UDPSourcePortRange: [2]uint16{20000, 20031}}
		if sc.Secure {
			c.Scheme = "rtsps"
			c.TLSConfig = sys.ClientTLSConfig()
		}
		if sc.Tunnel == "http" {
			c.Tunnel = gortsplib.TunnelHTTP
			w.Probe("client_http_tunnel")
		}
		switch sc.Protocol {
		case "udp":
			p := gortsplib.ProtocolUDP
			c.Protocol = &p
		case "tcp":
			p := gortsplib.ProtocolTCP
			c.Protocol = &p
		case "mcast":
			p := gortsplib.ProtocolUDPMulticast
			c.Protocol = &p
			w.Probe("client_multicast")
		}
		sys.WireClient(c, cliNode, w.Net, nil)
		for i := 0; i < sc.PortInUse; i++ {
			w.Net.FailListenPacket[fmt.Sprintf(cliIP+":%d", 20000+int(core.H(sc.Seed, "busy", uint64(i))%32))] = true // even (RTP) and odd (RTCP) ports
		}
		npk := 0
		c.OnPacketsLost = func(uint64) {}
		c.OnDecodeError = func(error) {}
		c.OnTransportSwitch = func(error) {}
		c.OnRequest = func(*base.Request) {}

		// every exchange is bounded by the read / write timeouts; one API call performs a
		// bounded number of exchanges (OPTIONS, the request, an authenticated retry, a
		// transport switch: describe + setups + play again).
		perExchange := ms(sc.ReadMS) + ms(sc.WriteMS)
		bound := 16*perExchange + 8*time.Duration(sc.Net.LatMaxUS)*time.Microsecond + 5*time.Second
		failedOnce := false
		call := func(name string, f func() error) error {
			t0 := time.Now()
			hold0 := w.S.HoldTotal()
			w.Log.Add("cli", "call", "%s", name)
			err := f()
			d := time.Since(t0) - (w.S.HoldTotal() - hold0) // holds at yield sites are the simulator's own delay
			w.Log.Add("cli", "return", "%s %v", name, err != nil)
			if d > bound {
				w.Fail("c12/api-call latency", "%s returned after %v of simulated time (bound %v = 16 x (ReadTimeout+WriteTimeout) + budget); error: %v", name, d, bound, err)
			}
			if err != nil {
				w.Probe("call_returned_error")
				failedOnce = true
			} else {
				w.Probe("call_returned_ok")
			}
			if failedOnce {
				w.Probe("calls_after_failure")
			}
			return err
		}

		w.Go("client", func() {
			user := ""
			if sc.Creds {
				user = "user:pa:ss@"
			}
			urlScheme := "rtsp"
			if sc.Secure {
				urlScheme = "rtsps"
			}
			u, _ := base.ParseURL(urlScheme + "://" + user + "10.0.0.1:8554/stream")
			if err := c.Start(); err != nil {
				w.Fail("c12/api-error start", "%v", err)
				return
			}
			died := make(chan error, 1)
			go func() { died <- c.Wait() }()
			var medias []*description.Media
			var baseURL *base.URL
			if sc.Role == "play" {
				call("Options", func() error { _, err := c.Options(u); return err })
				call("Describe", func() error {
					d, _, err := c.Describe(u)
					if err == nil {
						medias, baseURL = d.Medias, d.BaseURL
					}
					return err
				})
				if medias != nil {
					err := call("SetupAll", func() error { return c.SetupAll(baseURL, medias) })
					if err == nil {
						c.OnPacketRTPAny(func(*description.Media, format.Format, *rtp.Packet) { npk++ })
						c.OnPacketRTCPAny(func(*description.Media, rtcp.Packet) {})
					}
				}
				if call("Play", func() error { _, err := c.Play(nil); return err }) == nil {
					w.Probe("reached_play")
				}
				time.Sleep(300 * time.Millisecond)
				call("Pause", func() error { _, err := c.Pause(); return err })
				call("Play#2", func() error { _, err := c.Play(nil); return err })
				time.Sleep(100 * time.Millisecond)
			} else {
				pd := mkDesc(sc.Medias, false)
				call("Announce", func() error { _, err := c.Announce(u, pd); return err })
				// Record() is documented as callable only after Announce() and Setup(): it is
				// called when at least one SETUP succeeded (calling it with nothing set up is
				// API misuse and dereferences a nil transport - noted in DESIGN.md, not a C12 matter)
				nset := 0
				var err error
				for _, m := range pd.Medias {
					mm := m
					if e := call("Setup", func() error { _, e := c.Setup(u, mm, 0, 0); return e }); e != nil {
						err = e
						break
					}
					nset++
				}
				recording := false
				if nset > 0 {
					if call("Record", func() error { _, err := c.Record(); return err }) == nil {
						w.Probe("reached_record")
						recording = true
					}
				}
				// packets are written only on a session that is recording (writing on anything
				// else is API misuse, not something a server reply can force on a correct caller)
				if recording {
					for k := 0; k < 20; k++ {
						kk := k
						call("WritePacketRTP", func() error {
							pl := []byte{1, 2, 3, 4}
							if sc.Net.Window > 0 {
								pl = make([]byte, 600) // fills the window of a server that stopped reading
							}
							return c.WritePacketRTP(pd.Medias[0], &rtp.Packet{Header: rtp.Header{Version: 2, PayloadType: 96, SequenceNumber: uint16(kk)}, Payload: pl})
						})
						time.Sleep(10 * time.Millisecond)
					}
				}
				call("Pause", func() error { _, err := c.Pause(); return err })
				_ = err
			}
			// after a failure the client reports it from subsequent calls instead of blocking
			for k := 0; k < sc.ExtraCalls; k++ {
				switch (int(sc.Seed) + k) % 4 {
				case 0:
					call("Options#x", func() error { _, err := c.Options(u); return err })
				case 1:
					call("Describe#x", func() error { _, _, err := c.Describe(u); return err })
				case 2:
					call("Play#x", func() error { _, err := c.Play(nil); return err })
				case 3:
					call("Pause#x", func() error { _, err := c.Pause(); return err })
				}
			}
			select {
			case <-died:
				w.Probe("client_terminated_itself")
				go func() {}()
			default:
				go func() { <-died }()
			}
			t0 := time.Now()
			hold0 := w.S.HoldTotal()
			c.Close()
			if d := time.Since(t0) - (w.S.HoldTotal() - hold0); d > bound {
				w.Fail("c12/close latency", "Client.Close took %v of simulated time (bound %v)", d, bound)
			}
			// a second Wait must return at once
			done := make(chan struct{})
			go func() { c.Wait(); close(done) }() //nolint:errcheck
			select {
			case <-done:
			case <-time.After(time.Second):
				w.Fail("c12/wait blocks", "Client.Wait still blocks after Close returned")
			}
			if left := w.Net.OpenSockets("cli"); len(left) > 0 {
				w.Fail("c12/socket-leak client", "after Close the client node still holds %v", left)
			}
			time.Sleep(time.Millisecond)
			gs := core.BubbleOthers(rootGID, func(g *core.G) bool {
				return g.Has("gortsplib/v5") && !strings.Contains(g.CreatedBy, "verifsim/") && !g.Has("verifsim/scen/c12.(*fakeServer)")
			})
			if len(gs) > 0 {
				w.Fail("c12/goroutine-leak client", "after Close %d client goroutines remain: %s", len(gs), core.Describe(gs))
			}
			if npk > 0 {
				w.Probe("packets_received")
				if sc.Protocol == "mcast" {
					w.Probe("multicast_packets_received")
				}
			}
			if w.Net.StatsCopy()["udp.port_in_use"] > 0 {
				w.Probe("udp_port_retry")
			}
			w.Probe("close_verified")
			summary = map[string]any{"role": sc.Role, "protocol": sc.Protocol, "packets": npk}
		})

		w.Go("closer", func() {
			w.WaitDrivers("client")
			fs.close()
		})
	})
	res.Nontrivial = res.Probes["close_verified"] > 0 && res.Probes["call_returned_error"] > 0
	res.Sample = summary
	_ = context.Background
	return res
}

func shrink(sc Scenario) []Scenario {
	var out []Scenario
	clone := func() Scenario {
		c := sc
		c.Behaviours = append([]Behaviour(nil), sc.Behaviours...)
		if sc.Yields != nil {
			c.Yields = map[string]core.YieldSpec{}
			for k, v := range sc.Yields {
				c.Yields[k] = v
			}
		}
		return c
	}
	if len(sc.Yields) > 0 {
		c := clone()
		c.Yields = nil
		out = append(out, c)
		for k := range sc.Yields {
			c := clone()
			delete(c.Yields, k)
			out = append(out, c)
		}
	}
	for i, b := range sc.Behaviours {
		if b.Kind != "normal" {
			c := clone()
			c.Behaviours[i] = Behaviour{Kind: "normal"}
			out = append(out, c)
		}
	}
	if n := len(sc.Behaviours); n > 1 {
		c := clone()
		c.Behaviours = c.Behaviours[:n-1]
		out = append(out, c)
	}
	if sc.ExtraCalls > 0 {
		c := clone()
		c.ExtraCalls = 0
		out = append(out, c)
	}
	if sc.RedirectLoop {
		c := clone()
		c.RedirectLoop = false
		out = append(out, c)
	}
	if sc.PortInUse > 0 {
		c := clone()
		c.PortInUse = 0
		out = append(out, c)
	}
	if sc.Creds {
		c := clone()
		c.Creds = false
		out = append(out, c)
	}
	if sc.BackChan {
		c := clone()
		c.BackChan = false
		out = append(out, c)
	}
	if sc.Medias > 1 {
		c := clone()
		c.Medias = 1
		out = append(out, c)
	}
	if sc.Protocol != "tcp" {
		c := clone()
		c.Protocol = "tcp"
		out = append(out, c)
	}
	if sc.Net.ChunkMode != 0 {
		c := clone()
		c.Net.ChunkMode = 0
		out = append(out, c)
	}
	if sc.Net.UDPDrop != 0 {
		c := clone()
		c.Net.UDPDrop = 0
		out = append(out, c)
	}
	return out
}

func init() {
	f := core.Register("C12", gen, run, shrink)
	f.Real = []string{"gortsplib.Client (client.go, client_media.go, client_format.go, client_reader.go, client_udp_listener.go), pkg/description, pkg/auth (sender), pkg/headers, pkg/base, pkg/conn"}
	f.Simulated = []string{"the hostile server (scripted harness code built on pkg/base + pkg/conn; crypto/tls underneath in rtsps runs; the library's own tunnel codec for the HTTP tunnel)", "TCP/UDP sockets incl. UDP port-in-use failures (simnet)", "clock (fake), entropy"}
	f.Excluded = []string{"HTTP / WebSocket tunnels and TLS towards the scripted server", "UDP-multicast"}
	f.Rule = "scenario = client configuration (play or record; protocol forced udp / tcp / UDP-multicast or automatic; RTSP-over-HTTP tunnel in 15%; rtsps (the scripted server speaks TLS) in 40% of the tunnelled and 6% of the other runs, resets of the POST half, the GET half or both; credentials in the URL or not; back channels; AnyPortEnable; seeded read/write timeouts; busy local UDP ports) x a per-request behaviour list for the scripted server: normal, one of 16 grammar/byte-level mutations of the response, field-level mutation (SDP control attributes / profiles / key-mgmt / Content-Base; Transport ports, interleaved ids, protocol, delivery, source, profile; Session; RTP-Info), dropped, duplicated or delayed response (around and beyond ReadTimeout), injected interleaved frames or server requests, close before/after the response, RST, silence, unexpected status codes incl. 401 with odd challenges, CSeq missing/wrong/duplicated, redirects (self, other host, unresolvable, non-RTSP, invalid), flood, sticky 401, deaf-after (answers, then stops reading; bounded window), multicast-specific SETUP answers (ports past 65535, missing / unresolvable / unicast destination); the client then runs its whole script regardless of errors, plus extra calls, then Close; non-trivial = at least one call returned an error and the post-Close census ran; distinct = distinct canonical event log"
	f.Assumptions = []string{
		"'within its timeouts': one API call may perform several request/response exchanges (OPTIONS, the request itself, an authenticated retry, an automatic transport switch), each bounded by ReadTimeout + WriteTimeout; the bound used is 16 exchanges + budget",
		"the client keeps running its script after errors: calls after a failure only have to return (with or without error) within the bound",
	}
}
