package c07

import (
	"sort"

	"verifsim/core"
)

// jpegImage is a small baseline JPEG as RFC 2435 can carry it: 8-bit, three
// components, 4:2:2 or 4:2:0, one or two 8-bit quantisation tables, no
// restart markers (the depacketizer rejects the restart types 64..127).
type jpegImage struct {
	w, h   int
	samp   byte // 0x21 (RTP type 0) or 0x22 (RTP type 1)
	tables [][]byte
	data   []byte // entropy-coded segment, without EOI
	jfif   bool
	dht    bool
	split  bool // one DQT segment per table
}

func makeJPEG(seed uint64, frame int, dataLen int) *jpegImage {
	h := core.H(seed, "jpeg", uint64(frame))
	im := &jpegImage{
		w:     8 * int(1+h%255),
		h:     8 * int(1+(h>>8)%255),
		samp:  0x21,
		jfif:  (h>>20)%2 == 0,
		dht:   (h>>21)%2 == 0,
		split: (h>>22)%2 == 0,
	}
	if (h>>16)%2 == 1 {
		im.samp = 0x22
	}
	nt := 1 + int((h>>17)%2)
	for t := 0; t < nt; t++ {
		tb := make([]byte, 64)
		fill(tb, seed, frame, 200+t)
		for i := range tb {
			if tb[i] == 0 {
				tb[i] = 1
			}
		}
		im.tables = append(im.tables, tb)
	}
	if dataLen < 3 {
		dataLen = 3
	}
	im.data = make([]byte, dataLen)
	fill(im.data, seed, frame, 0)
	tag(im.data, frame, 0)
	for i := range im.data {
		if im.data[i] == 0xFF { // no markers inside the scan
			im.data[i] = 0xFE
		}
	}
	return im
}

func seg(buf []byte, marker byte, body []byte) []byte {
	n := len(body) + 2
	buf = append(buf, 0xFF, marker, byte(n>>8), byte(n))
	return append(buf, body...)
}

func (im *jpegImage) marshal() []byte {
	buf := []byte{0xFF, 0xD8}
	if im.jfif {
		buf = seg(buf, 0xE0, []byte{'J', 'F', 'I', 'F', 0, 1, 1, 0, 0, 1, 0, 1, 0, 0})
	}
	if im.split {
		for id, t := range im.tables {
			buf = seg(buf, 0xDB, append([]byte{byte(id)}, t...))
		}
	} else {
		var body []byte
		for id, t := range im.tables {
			body = append(body, byte(id))
			body = append(body, t...)
		}
		buf = seg(buf, 0xDB, body)
	}
	ct := byte(0)
	if len(im.tables) == 2 {
		ct = 1
	}
	buf = seg(buf, 0xC0, []byte{
		8, byte(im.h >> 8), byte(im.h), byte(im.w >> 8), byte(im.w), 3,
		1, im.samp, 0,
		2, 0x11, ct,
		3, 0x11, ct,
	})
	if im.dht {
		// one Huffman table segment (luminance DC of annex K); the
		// packetizer does not transmit Huffman tables
		body := []byte{0x00, 0, 1, 5, 1, 1, 1, 1, 1, 1, 0, 0, 0, 0, 0, 0, 0, 0, 1, 2, 3, 4, 5, 6, 7, 8, 9, 10, 11}
		buf = seg(buf, 0xC4, body)
	}
	buf = seg(buf, 0xDA, []byte{3, 1, 0x00, 2, 0x11, 3, 0x11, 0, 63, 0})
	buf = append(buf, im.data...)
	return append(buf, 0xFF, 0xD9)
}

func canonOf(w, h int, samp byte, tables [][]byte, scan []byte) []byte {
	out := []byte{'J', byte(w >> 8), byte(w), byte(h >> 8), byte(h), samp, byte(len(tables))}
	for _, t := range tables {
		out = append(out, t...)
	}
	return append(out, scan...)
}

// canon is what must be recoverable from the image the depacketizer rebuilds:
// dimensions, sampling type, quantisation tables, entropy-coded data + EOI.
func (im *jpegImage) canon() []byte {
	scan := append(append([]byte(nil), im.data...), 0xFF, 0xD9)
	return canonOf(im.w, im.h, im.samp, im.tables, scan)
}

// canonJPEG parses a JPEG produced by the depacketizer into the same
// canonical form; anything unparsable maps to a value no image maps to.
func canonJPEG(b []byte) []byte {
	bad := func() []byte { return append([]byte("unparsable:"), b...) }
	if len(b) < 4 || b[0] != 0xFF || b[1] != 0xD8 {
		return bad()
	}
	p := b[2:]
	var w, h int
	var samp byte
	sof := false
	tb := map[int][]byte{}
	for {
		if len(p) < 4 || p[0] != 0xFF {
			return bad()
		}
		m := p[1]
		n := int(p[2])<<8 | int(p[3])
		if n < 2 || len(p) < 2+n {
			return bad()
		}
		body := p[4 : 2+n]
		p = p[2+n:]
		switch m {
		case 0xDB:
			for len(body) > 0 {
				if len(body) < 65 || body[0]>>4 != 0 {
					return bad()
				}
				tb[int(body[0]&0x0F)] = body[1:65]
				body = body[65:]
			}
		case 0xC0:
			if len(body) != 15 || body[0] != 8 || body[5] != 3 {
				return bad()
			}
			h = int(body[1])<<8 | int(body[2])
			w = int(body[3])<<8 | int(body[4])
			samp = body[7]
			sof = true
		case 0xDA:
			if !sof {
				return bad()
			}
			ids := make([]int, 0, len(tb))
			for id := range tb {
				ids = append(ids, id)
			}
			sort.Ints(ids)
			var tables [][]byte
			for _, id := range ids {
				tables = append(tables, tb[id])
			}
			return canonOf(w, h, samp, tables, p)
		}
	}
}
