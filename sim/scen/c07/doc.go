// Package c07 decides C07 (depacketizers resynchronise after loss,
// duplication and reordering): for each of the 12 stateful RTP decoders the
// real encoder feeds the real decoder through a simulated link whose fault
// schedule (an explicit list of drop / dup / duplate / swap / dropframe
// faults) is the thing searched.
//
// Frames and units per decoder (frame = input of one Encode call):
//
//	h264        frame = access unit; units = NAL units (types 1..23, no 00 00 pairs)      one Decode return == the AU
//	h265        frame = access unit; units = NAL units (types 0..40, 2-byte header)        one Decode return == the AU
//	av1         frame = temporal unit; units = OBUs without size field                      one Decode return == the TU
//	vp8         frame = one VP8 frame (opaque bytes)                                        one return == the frame
//	vp9         frame = one VP9 frame with a parseable key / non-key uncompressed header   one return == the frame
//	fragmented  frame = one MPEG-4 video frame or LATM AudioMuxElement                      one return == the frame
//	mpeg1video  frame = picture: [sequence hdr, GOP hdr,] picture hdr + slices (start-code delimited); one return == the bytes
//	mjpeg       frame = baseline JPEG (DQT, SOF0, SOS, scan, EOI); one return, compared by dimensions, sampling type,
//	            quantisation tables, entropy-coded data (the decoder rebuilds the headers)
//	klv         frame = KLV unit of 1..3 KLV triplets; one return == the unit
//	mpeg4audio  frame = 1..8 access units given to one Encode call; the decoder returns AUs packet by packet:
//	            the AUs of the call must appear exactly once, contiguously, in the concatenated output
//	mpeg1audio  frame = 1..6 MPEG-1 layer II/III frames of one Encode call; compared like mpeg4audio
//	ac3         frame = 1..4 AC-3 syncframes of one Encode call; compared like mpeg4audio
//
// Unit 0 of every frame carries (frame, unit) in its first payload bytes, so
// no two frames of a stream are equal and "returned exactly once" is
// decidable from the bytes alone.
package c07
