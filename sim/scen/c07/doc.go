// Package c07 holds the scenario family of property C07.
package c07
