package c07

import (
	"bytes"
	"fmt"
	"runtime/debug"
	"sort"
	"strings"
	"testing"

	"github.com/pion/rtp"

	"verifsim/core"
)

// Fault is one fault of the simulated link. Pkt addresses a packet of the
// frame: -1 = last (marker) packet, otherwise Pkt modulo the number of
// packets the encoder produced for that frame (0 = first).
//
//	drop      the packet is not delivered
//	dup       the packet is delivered twice, back to back
//	duplate   an extra copy is delivered Arg packets later
//	swap      the packet is delivered Arg packets later (Arg=1: swapped with its successor)
//	dropframe every packet of the frame is dropped
type Fault struct {
	Frame int    `json:"f"`
	Pkt   int    `json:"p"`
	Kind  string `json:"k"`
	Arg   int    `json:"a,omitempty"`
}

// Scenario is one encoded stream and one fault schedule.
type Scenario struct {
	Seed uint64 `json:"seed"`
	Dec  string `json:"dec"`
	// PMS is Encoder.PayloadMaxSize; 0 = library default (1450).
	PMS int `json:"pms"`
	// Par: per-format parameters (mpeg4audio: SizeLength, IndexLength,
	// IndexDeltaLength; fragmented: 1 = LATM payloads, 0 = MPEG-4 video).
	Par []int `json:"par,omitempty"`
	// Seq, TS: initial sequence number and timestamp base.
	Seq int    `json:"seq"`
	TS  uint32 `json:"ts"`
	// Frames[i] = unit values of Encode call i (byte sizes; for mpeg1audio
	// and ac3 a code selecting one of the valid frame lengths).
	Frames [][]int `json:"frames"`
	Faults []Fault `json:"faults"`
}

func effPMS(p int) int {
	if p == 0 {
		return 1450
	}
	return p
}

// ---- generation ---------------------------------------------------------------

func pickSize(r *core.Rand, profile int, eff, hdr, lo, hi int) int {
	var v int
	u := r.Float()
	thr := eff - hdr // a unit of this size just fills one packet
	if thr < 1 {
		thr = 1
	}
	switch profile {
	case 0: // small units: aggregation
		switch {
		case u < 0.5:
			v = r.Range(lo, lo+24)
		case u < 0.75:
			v = thr/2 + r.Range(-6, 6)
		case u < 0.9:
			v = thr/3 + r.Range(-5, 5)
		default:
			v = r.Range(lo, thr)
		}
	case 1: // thresholds
		switch {
		case u < 0.4:
			v = thr + r.Range(-12, 12)
		case u < 0.55:
			v = 2*thr + r.Range(-14, 14)
		case u < 0.65:
			v = 3*thr + r.Range(-16, 16)
		case u < 0.8:
			v = thr/2 + r.Range(-6, 6)
		default:
			v = r.Range(lo, lo+24)
		}
	case 2: // large units: fragmentation
		switch {
		case u < 0.5:
			v = r.Range(thr, 4*thr)
		case u < 0.7:
			v = thr + r.Range(-12, 12)
		case u < 0.85:
			v = r.Range(2, 4)*thr + r.Range(-14, 14)
		default:
			v = r.Range(lo, thr)
		}
	default: // mixed
		switch {
		case u < 0.25:
			v = r.Range(lo, lo+24)
		case u < 0.45:
			v = thr + r.Range(-12, 12)
		case u < 0.55:
			v = thr/2 + r.Range(-6, 6)
		case u < 0.65:
			v = r.Range(2, 3)*thr + r.Range(-14, 14)
		case u < 0.85:
			v = r.Range(lo, thr)
		default:
			v = r.Range(thr, 4*thr)
		}
	}
	if v < lo {
		v = lo
	}
	if v > hi {
		v = hi
	}
	return v
}

func gen(seed uint64, tier string) Scenario {
	r := core.NewRand(seed, "c07")
	sc := Scenario{Seed: seed}
	sc.Dec = kinds[r.Intn(len(kinds))]
	// development aid: tier "dec=<kind>" restricts the search to one decoder
	if strings.HasPrefix(tier, "dec=") {
		if _, ok := specs[tier[4:]]; ok {
			sc.Dec = tier[4:]
		}
	}
	sp := specs[sc.Dec]

	// sequence numbers: often wrapping inside the stream
	if r.Bool(0.4) {
		sc.Seq = 65535 - r.Intn(120)
	} else {
		sc.Seq = r.Intn(65536)
	}
	if r.Bool(0.2) {
		sc.TS = 0xFFFFFFFF - uint32(r.Intn(400000))
	} else {
		sc.TS = uint32(r.U64())
	}

	switch sc.Dec {
	case "mpeg4audio":
		sets := [][]int{{13, 3, 3}, {13, 3, 3}, {6, 2, 2}, {13, 0, 0}, {21, 3, 3}, {16, 0, 0}}
		sc.Par = sets[r.Intn(len(sets))]
	case "fragmented":
		sc.Par = []int{r.Intn(2)}
	}

	// table formats: a main frame length, payload limits relative to it
	mainCode, mainLen := 0, 0
	if sp.table {
		if sc.Dec == "mpeg1audio" {
			mainCode = r.Intn(m1aCodes)
		} else {
			mainCode = r.Intn(ac3Codes)
		}
		mainLen = unitLen(sc.Dec, mainCode)
	}

	// payload size limit
	u := r.Float()
	switch {
	case sp.table && u < 0.3:
		sc.PMS = mainLen + sp.hdr + r.Range(-3, 3)
	case sp.table && u < 0.45:
		sc.PMS = 2*mainLen + sp.hdr + r.Range(-3, 3)
	case sp.table && u < 0.6:
		sc.PMS = mainLen/2 + r.Range(-3, 8)
	case u < 0.2:
		sc.PMS = r.Range(sp.minPMS, sp.minPMS+60)
	case u < 0.45:
		sc.PMS = r.Range(64, 400)
	case u < 0.65:
		sc.PMS = r.Range(400, 1400)
	case u < 0.75:
		sc.PMS = r.Range(1440, 1460)
	case u < 0.85:
		sc.PMS = 0
	default:
		sc.PMS = r.Range(1461, 3000)
	}
	if sc.PMS != 0 && sc.PMS < sp.minPMS {
		sc.PMS = sp.minPMS
	}
	if sc.Dec == "mpeg4audio" && sc.Par[0] == 6 && r.Bool(0.7) {
		sc.PMS = r.Range(sp.minPMS, 90) // AUs are at most 63 bytes
	}
	eff := effPMS(sc.PMS)

	// stream length and shape
	var nf int
	switch v := r.Float(); {
	case v < 0.5:
		nf = r.Range(5, 20)
	case v < 0.8:
		nf = r.Range(20, 60)
	default:
		nf = r.Range(60, 200)
	}
	profile := r.Intn(4)
	unitMode := r.Intn(4) // 0 all single, 1 mostly single, 2 1..3, 3 1..max
	hi := 4*eff + 64
	if sc.Dec == "mpeg4audio" {
		if m := mpeg4MaxAU(sc.Par[0]); hi > m {
			hi = m
		}
	}
	budget := 300 * 1024
	total := 0
	many := core.HS(seed, "c07.many", "", 0)%10 == 0 // hash-derived so that no other choice moves
	for f := 0; f < nf; f++ {
		nu := 1
		switch unitMode {
		case 1:
			if r.Bool(0.25) {
				nu = r.Range(2, sp.maxUnits)
			}
		case 2:
			nu = r.Range(1, 3)
		case 3:
			nu = r.Range(1, sp.maxUnits)
		}
		if nu > sp.maxUnits {
			nu = sp.maxUnits
		}
		if many && sp.manyUnits > 0 && core.HS(seed, "c07.manyf", "", uint64(f))%3 != 0 {
			nu = sp.manyUnits/2 + int(core.HS(seed, "c07.manyn", "", uint64(f))%uint64(sp.manyUnits-sp.manyUnits/2+1))
		}
		fr := make([]int, nu)
		for i := range fr {
			if sp.table {
				c := mainCode
				if r.Bool(0.3) {
					for try := 0; try < 8; try++ {
						if sc.Dec == "mpeg1audio" {
							c = r.Intn(m1aCodes)
						} else {
							c = r.Intn(ac3Codes)
						}
						if unitLen(sc.Dec, c) <= 4*eff+64 {
							break
						}
						c = mainCode
					}
				}
				fr[i] = c
				total += unitLen(sc.Dec, c)
			} else {
				lo := sp.minN
				if i == 0 {
					lo = sp.min0
				}
				fr[i] = pickSize(r, profile, eff, sp.hdr, lo, hi)
				total += fr[i]
			}
		}
		sc.Frames = append(sc.Frames, fr)
		if total > budget && f >= 4 {
			break
		}
	}
	nf = len(sc.Frames)

	// every 8th scenario is the fault-free configuration
	if seed%8 == 0 {
		return sc
	}

	// fault schedule (swarm: a subset of kinds, a density, a position bias)
	all := []string{"drop", "dup", "swap", "duplate", "dropframe"}
	var en []string
	for _, k := range all {
		if r.Bool(0.55) {
			en = append(en, k)
		}
	}
	if len(en) == 0 {
		en = []string{all[r.Intn(len(all))]}
	}
	damaged := map[int]bool{}
	var order []int
	mark := func(f int) {
		if f >= 0 && f < nf && !damaged[f] {
			damaged[f] = true
			order = append(order, f)
		}
	}
	switch v := r.Float(); {
	case v < 0.35:
		for i, n := 0, r.Range(1, 3); i < n; i++ {
			mark(r.Intn(nf))
		}
	case v < 0.7:
		for i, n := 0, 1+nf/10; i < n; i++ {
			mark(r.Intn(nf))
		}
	case v < 0.9:
		for i, n := 0, 1+nf*3/10; i < n; i++ {
			mark(r.Intn(nf))
		}
	default:
		s := r.Intn(nf)
		for i, n := 0, r.Range(2, 6); i < n; i++ {
			mark(s + i)
		}
	}
	// adjacent-frame combinations
	for _, f := range append([]int(nil), order...) {
		if r.Bool(0.2) {
			mark(f + 1)
		}
		if r.Bool(0.2) {
			mark(f + 2)
		}
	}
	posBias := r.Intn(4) // 0 any, 1 first, 2 last, 3 first/last
	seen := map[string]bool{}
	for _, f := range order {
		n := 1
		if v := r.Float(); v > 0.9 {
			n = 3
		} else if v > 0.7 {
			n = 2
		}
		for i := 0; i < n; i++ {
			ft := Fault{Frame: f, Kind: en[r.Intn(len(en))]}
			switch {
			case ft.Kind == "dropframe":
				ft.Pkt = 0
			case posBias == 1 && r.Bool(0.7):
				ft.Pkt = 0
			case posBias == 2 && r.Bool(0.7):
				ft.Pkt = -1
			case posBias == 3 && r.Bool(0.8):
				ft.Pkt = -r.Intn(2)
			default:
				switch r.Intn(4) {
				case 0:
					ft.Pkt = 0
				case 1:
					ft.Pkt = -1
				default:
					ft.Pkt = r.Intn(12)
				}
			}
			if ft.Kind == "swap" || ft.Kind == "duplate" {
				switch v := r.Float(); {
				case v < 0.5:
					ft.Arg = 1
				case v < 0.85:
					ft.Arg = r.Range(2, 4)
				default:
					ft.Arg = r.Range(5, 12)
				}
			}
			key := fmt.Sprint(ft)
			if !seen[key] {
				seen[key] = true
				sc.Faults = append(sc.Faults, ft)
			}
		}
	}
	sort.SliceStable(sc.Faults, func(i, j int) bool {
		a, b := sc.Faults[i], sc.Faults[j]
		if a.Frame != b.Frame {
			return a.Frame < b.Frame
		}
		if a.Pkt != b.Pkt {
			return a.Pkt < b.Pkt
		}
		return a.Kind < b.Kind
	})
	return sc
}

// ---- the run -------------------------------------------------------------------

// spkt is one packet on the sender side.
type spkt struct {
	frame, pos int
	last       bool
	pkt        *rtp.Packet
}

// arrival is one packet delivered to the decoder and what Decode did with it.
type arrival struct {
	frame, pos int
	copyNo     int
	ret        [][]byte // units returned (nil: error / nothing), copied at return time
	live       [][]byte // the slices the decoder handed out (aliasing probe only)
	errs       string
}

func unitHash(u []byte) uint64 {
	h := uint64(0xcbf29ce484222325) ^ uint64(len(u))
	for _, c := range u {
		h = (h ^ uint64(c)) * 0x100000001b3
	}
	return h
}

func listHash(l [][]byte) uint64 {
	h := uint64(len(l))
	for _, u := range l {
		h = core.Mix(h ^ unitHash(u))
	}
	return h
}

func listEqual(a, b [][]byte) bool {
	if len(a) != len(b) {
		return false
	}
	for i := range a {
		if !bytes.Equal(a[i], b[i]) {
			return false
		}
	}
	return true
}

func run(t *testing.T, sc Scenario) *core.Result {
	res := core.NewResult()
	for _, k := range kinds {
		res.Probes["dec."+k] = 0
	}
	for _, p := range []string{"clean_frame_after_damaged_frame", "marker_packet_dropped", "first_packet_dropped",
		"fragmented_frame", "aggregated_packet", "clean_frames_checked", "clean_frame_returned_at_next_frame",
		"fault_free_run", "seq_wrap", "returned_buffer_overwritten_by_later_decode", "stray_between_intact_frames", "decode_error", "decode_more_needed"} {
		res.Probes[p] = 0
	}
	for _, k := range []string{"link.drop", "link.dup", "link.swap", "link.dup_late", "link.drop_frame"} {
		res.Faults[k] = 0
	}
	sp, ok := specs[sc.Dec]
	if !ok || len(sc.Frames) == 0 {
		res.Violation = core.Viol("c07/config scenario", "invalid scenario: decoder %q, %d frames", sc.Dec, len(sc.Frames))
		return res
	}
	res.Probes["dec."+sc.Dec]++
	core.Beat()

	var viol *core.Violation
	// deferred holds a violation that matches the precondition of a recorded known
	// finding (see /verif/known_findings.txt): it is reported only if the run shows
	// nothing else, so that a known defect does not mask a different violation.
	var deferred *core.Violation
	qualifier := ""
	fail := func(class, f string, a ...any) {
		c := class + " " + sc.Dec
		if qualifier != "" {
			c += " " + qualifier
			if deferred == nil {
				deferred = core.Viol(c, f, a...)
			}
			return
		}
		if viol == nil {
			viol = core.Viol(c, f, a...)
		}
	}

	it, err := newInst(&sc)
	if err != nil {
		res.Violation = core.Viol("c07/config scenario", "cannot initialise %s: %v", sc.Dec, err)
		return res
	}

	// ---- sender: real encoder -------------------------------------------------
	nf := len(sc.Frames)
	exp := make([][][]byte, nf)
	npk := make([]int, nf)
	first := make([]int, nf) // global index of the first packet of a frame
	var sent []spkt
	for f := 0; f < nf && viol == nil; f++ {
		in, e, nunits := it.makeFrame(f, sc.Frames[f])
		exp[f] = e
		var pkts []*rtp.Packet
		func() {
			defer func() {
				if pv := recover(); pv != nil {
					fail("c07/panic", "Encode of valid frame %d panicked: %v\n%s", f, pv, cleanStack(debug.Stack()))
				}
			}()
			pkts, err = it.encode(in)
		}()
		if viol != nil {
			break
		}
		if err != nil || len(pkts) == 0 {
			fail("c07/encode", "Encode refused valid frame %d (units %v): %d packets, err=%v", f, sc.Frames[f], len(pkts), err)
			break
		}
		first[f] = len(sent)
		npk[f] = len(pkts)
		for i, p := range pkts {
			p.Timestamp += sc.TS + uint32(f)*90000
			sent = append(sent, spkt{frame: f, pos: i, last: i == len(pkts)-1, pkt: p})
			if p.SequenceNumber == 0 && len(sent) > 1 {
				res.Probes["seq_wrap"] = 1
			}
		}
		if len(pkts) > nunits {
			res.Probes["fragmented_frame"]++
		}
		if len(pkts) < nunits {
			res.Probes["aggregated_packet"]++
		}
	}
	if viol != nil {
		res.Violation = viol
		return res
	}

	// ---- link: apply the fault schedule ---------------------------------------------
	type slot struct {
		drop   bool
		dup    int
		delay  int
		late   []int
		dframe bool
	}
	slots := make([]slot, len(sent))
	resolve := func(ft Fault) int {
		n := npk[ft.Frame]
		p := ft.Pkt
		if p < 0 {
			p = n - 1
		} else {
			p %= n
		}
		return first[ft.Frame] + p
	}
	for _, ft := range sc.Faults {
		if ft.Frame < 0 || ft.Frame >= nf {
			continue
		}
		switch ft.Kind {
		case "dropframe":
			for i := 0; i < npk[ft.Frame]; i++ {
				slots[first[ft.Frame]+i].dframe = true
			}
		case "drop":
			slots[resolve(ft)].drop = true
		case "dup":
			slots[resolve(ft)].dup++
		case "swap":
			if ft.Arg > 0 {
				s := &slots[resolve(ft)]
				if ft.Arg > s.delay {
					s.delay = ft.Arg
				}
			}
		case "duplate":
			if ft.Arg > 0 {
				s := &slots[resolve(ft)]
				s.late = append(s.late, ft.Arg)
			}
		}
	}
	type deliv struct {
		key, idx, copyNo int
		delayed          bool
	}
	var order []deliv
	seenFrameDrop := map[int]bool{}
	for i := range sent {
		s := &slots[i]
		if s.dframe {
			if !seenFrameDrop[sent[i].frame] {
				seenFrameDrop[sent[i].frame] = true
				res.Faults["link.drop_frame"]++
			}
			continue
		}
		if s.drop {
			res.Faults["link.drop"]++
			if sent[i].pos == 0 {
				res.Probes["first_packet_dropped"]++
			}
			if sent[i].last {
				res.Probes["marker_packet_dropped"]++
			}
			continue
		}
		key := 2 * i
		if s.delay > 0 {
			key = 2*(i+s.delay) + 1
		}
		c := 0
		order = append(order, deliv{key, i, c, s.delay > 0})
		for d := 0; d < s.dup; d++ {
			c++
			order = append(order, deliv{key, i, c, false})
			res.Faults["link.dup"]++
		}
		for _, l := range s.late {
			c++
			order = append(order, deliv{2*(i+l) + 1, i, c, false})
			res.Faults["link.dup_late"]++
		}
	}
	sort.SliceStable(order, func(a, b int) bool {
		if order[a].key != order[b].key {
			return order[a].key < order[b].key
		}
		if order[a].idx != order[b].idx {
			return order[a].idx < order[b].idx
		}
		return order[a].copyNo < order[b].copyNo
	})
	// a swap fired when the delayed packet was really overtaken
	for j, hi := 0, -1; j < len(order); j++ {
		if order[j].delayed && order[j].copyNo == 0 && hi > order[j].idx {
			res.Faults["link.swap"]++
		}
		if order[j].idx > hi {
			hi = order[j].idx
		}
	}
	nFired := 0
	for _, v := range res.Faults {
		nFired += v
	}

	// ---- receiver: real decoder, online oracle ----------------------------------------
	hist := make([]arrival, 0, len(order))
	for _, dv := range order {
		sk := sent[dv.idx]
		a := arrival{frame: sk.frame, pos: sk.pos, copyNo: dv.copyNo}
		p := sk.pkt.Clone() // every delivery is its own buffer, as on a socket
		func() {
			defer func() {
				if pv := recover(); pv != nil {
					fail("c07/panic", "Decode panicked on arrival %d (frame %d packet %d/%d copy %d): %v\n%s",
						len(hist), sk.frame, sk.pos, npk[sk.frame], dv.copyNo, pv, cleanStack(debug.Stack()))
				}
			}()
			units, err := it.decode(p)
			if err != nil {
				a.errs = err.Error()
				if a.errs == "need more packets" {
					res.Probes["decode_more_needed"]++
				} else {
					res.Probes["decode_error"]++
				}
			} else if len(units) > 0 {
				// the statement is about what Decode returns: compare the value
				// at return time (a decoder that later overwrites a buffer it
				// handed out is a different defect; see the probe below)
				a.live = units
				a.ret = make([][]byte, len(units))
				for i, u := range units {
					a.ret[i] = append([]byte{}, u...)
				}
			}
		}()
		hist = append(hist, a)
		res.Steps++
		if viol != nil {
			break
		}
	}

	for _, a := range hist {
		if a.live != nil && !listEqual(a.live, a.ret) {
			res.Probes["returned_buffer_overwritten_by_later_decode"]++
		}
	}

	// ---- history oracle ----------------------------------------------------------------
	// intact(f): the packets of f were delivered exactly once each, in order,
	// as one contiguous run. clean(f): f is intact, the run of f-1 is intact
	// and immediately precedes it (frame 0: its run opens the stream).
	nClean := 0
	if viol == nil {
		cnt := make([]int, nf)
		start := make([]int, nf)
		for f := range start {
			start[f] = -1
		}
		for i, a := range hist {
			if cnt[a.frame] == 0 {
				start[a.frame] = i
			}
			cnt[a.frame]++
		}
		intact := make([]bool, nf)
		for f := 0; f < nf; f++ {
			if cnt[f] != npk[f] || start[f] < 0 || start[f]+npk[f] > len(hist) {
				continue
			}
			ok := true
			for j := 0; j < npk[f]; j++ {
				a := hist[start[f]+j]
				if a.frame != f || a.pos != j {
					ok = false
					break
				}
			}
			intact[f] = ok
		}
		// index of the returns
		type loc struct{ arr, unit int }
		var flat [][]byte
		var flatLoc []loc
		byList := map[uint64][]int{}
		byUnit := map[uint64][]int{}
		for i, a := range hist {
			if a.ret == nil {
				continue
			}
			if sp.grouped {
				h := listHash(a.ret)
				byList[h] = append(byList[h], i)
			} else {
				for u, b := range a.ret {
					h := unitHash(b)
					byUnit[h] = append(byUnit[h], len(flat))
					flat = append(flat, b)
					flatLoc = append(flatLoc, loc{i, u})
				}
			}
		}
		faultFree := len(order) == len(sent) && nFired == 0
		if faultFree {
			res.Probes["fault_free_run"]++
		}
		for f := 0; f < nf && viol == nil; f++ {
			if !intact[f] {
				continue
			}
			if f == 0 {
				if start[0] != 0 {
					continue
				}
			} else {
				if !intact[f-1] || start[f-1]+npk[f-1] != start[f] {
					if intact[f-1] {
						res.Probes["stray_between_intact_frames"]++
					}
					continue
				}
			}
			// f is clean. Window of Decode calls in which it must be returned:
			// from its first packet to the call that processes the first packet
			// of the following frame. No such call (next first packet dropped,
			// or last frame): the statement sets no deadline; in the fault-free
			// configuration the last frame must still come out by the end.
			s, end := start[f], start[f]+npk[f]-1
			deadline := -1
			if f+1 < nf {
				for i := end + 1; i < len(hist); i++ {
					if hist[i].frame == f+1 && hist[i].pos == 0 {
						deadline = i
						break
					}
				}
			}
			mustReturn := deadline >= 0 || faultFree
			if deadline < 0 {
				deadline = len(hist) - 1
			}
			nClean++
			res.Probes["clean_frames_checked"]++
			if f >= 2 && !intact[f-2] {
				res.Probes["clean_frame_after_damaged_frame"]++
			}
			// where was exactly this frame returned?
			var at []int // arrival index of the Decode call(s) that completed a copy
			if sp.grouped {
				for _, i := range byList[listHash(exp[f])] {
					if listEqual(hist[i].ret, exp[f]) {
						at = append(at, i)
					}
				}
			} else {
				e := exp[f]
				for _, p := range byUnit[unitHash(e[0])] {
					if p+len(e) > len(flat) {
						continue
					}
					if listEqual(flat[p:p+len(e)], e) {
						if flatLoc[p].arr < s {
							at = append(at, flatLoc[p].arr) // before its own packets: reported below as misplaced
						} else {
							at = append(at, flatLoc[p+len(e)-1].arr)
						}
					}
				}
			}
			desc := func() string {
				return fmt.Sprintf("frame %d (units %v, %d packets, arrivals %d..%d, first packet of next frame at arrival %d)",
					f, sc.Frames[f], npk[f], s, end, deadline)
			}
			switch {
			case len(at) == 0 && mustReturn:
				// known finding: a KLV unit of several KLV items that spans packets
				if sc.Dec == "klv" && len(sc.Frames[f]) >= 2 && npk[f] >= 2 {
					qualifier = "multi-item-unit-split"
				}
				fail("c07/missing", "clean %s was never returned intact; returns in its window: %s", desc(), renderWindow(hist, s, deadline))
				qualifier = ""
			case len(at) > 1:
				fail("c07/duplicate", "clean %s was returned %d times (Decode calls %v)", desc(), len(at), at)
			case len(at) == 1 && at[0] > deadline:
				fail("c07/late", "clean %s was returned only by Decode call %d, after the first packet of the next frame had been processed; window: %s",
					desc(), at[0], renderWindow(hist, s, at[0]))
			case len(at) == 1 && at[0] < s:
				fail("c07/duplicate", "a copy of clean %s was returned by Decode call %d, before its packets arrived", desc(), at[0])
			case len(at) == 1 && at[0] > end:
				res.Probes["clean_frame_returned_at_next_frame"]++
			}
		}
	}

	if viol == nil {
		viol = deferred
	}
	res.Violation = viol
	res.Nontrivial = nFired > 0 && nClean > 0
	sig := core.HS(uint64(sc.PMS), "c07", sc.Dec)
	for _, p := range sc.Par {
		sig = core.Mix(sig ^ uint64(p))
	}
	for _, fr := range sc.Frames {
		sig = core.Mix(sig ^ uint64(len(fr)))
		for _, v := range fr {
			sig = core.Mix(sig ^ uint64(v))
		}
	}
	for _, ft := range sc.Faults {
		sig = core.HS(sig, "f", ft.Kind, uint64(ft.Frame), uint64(int64(ft.Pkt)), uint64(ft.Arg))
	}
	res.Sig = sig
	res.Sample = map[string]any{"dec": sc.Dec, "pms": sc.PMS, "frames": nf, "packets": len(sent),
		"delivered": len(hist), "faults": len(sc.Faults), "clean_checked": nClean}
	if viol != nil || core.FullLog {
		lines := renderHist(hist, sent, first)
		if core.FullLog {
			res.FullLog = lines
		}
		if viol != nil {
			if len(lines) > 40 {
				lines = lines[len(lines)-40:]
			}
			res.Tail = lines
		}
	}
	return res
}

// cleanStack drops what differs between two runs of the same scenario
// (goroutine ids, argument values, program counters).
func cleanStack(st []byte) string {
	var out []string
	for _, l := range strings.Split(string(st), "\n") {
		switch {
		case l == "" || strings.HasPrefix(l, "goroutine "):
			continue
		case strings.HasPrefix(l, "\t"):
			if i := strings.Index(l, " +0x"); i >= 0 {
				l = l[:i]
			}
		default:
			if i := strings.LastIndex(l, "("); i >= 0 {
				l = l[:i]
			}
		}
		out = append(out, l)
		if len(out) >= 24 {
			break
		}
	}
	return strings.Join(out, "\n")
}

func renderRet(a arrival) string {
	if a.ret == nil {
		if a.errs != "" {
			return "err(" + a.errs + ")"
		}
		return "nothing"
	}
	s := fmt.Sprintf("RET %d units [", len(a.ret))
	for i, u := range a.ret {
		if i > 0 {
			s += " "
		}
		if i >= 10 {
			s += "..."
			break
		}
		s += fmt.Sprintf("%dB:%08x", len(u), uint32(unitHash(u)))
	}
	return s + "]"
}

func renderWindow(hist []arrival, from, to int) string {
	s := ""
	if to >= len(hist) {
		to = len(hist) - 1
	}
	if to-from > 24 {
		from = to - 24
		s = "... "
	}
	for i := from; i <= to; i++ {
		s += fmt.Sprintf("\n  #%d f%d/p%d: %s", i, hist[i].frame, hist[i].pos, renderRet(hist[i]))
	}
	return s
}

func renderHist(hist []arrival, sent []spkt, first []int) []string {
	out := make([]string, 0, len(hist))
	for i, a := range hist {
		p := sent[first[a.frame]+a.pos]
		m := 0
		if p.pkt.Marker {
			m = 1
		}
		out = append(out, fmt.Sprintf("#%d frame=%d pkt=%d copy=%d seq=%d ts=%d m=%d len=%d -> %s",
			i, a.frame, a.pos, a.copyNo, p.pkt.SequenceNumber, p.pkt.Timestamp, m, len(p.pkt.Payload), renderRet(a)))
	}
	return out
}

// ---- shrinking -------------------------------------------------------------------

func (sc Scenario) clone() Scenario {
	c := sc
	c.Par = append([]int(nil), sc.Par...)
	c.Frames = make([][]int, len(sc.Frames))
	for i, f := range sc.Frames {
		c.Frames[i] = append([]int(nil), f...)
	}
	c.Faults = append([]Fault(nil), sc.Faults...)
	return c
}

// cut keeps frames [from,to) and renumbers the faults.
func (sc Scenario) cut(from, to int) Scenario {
	c := sc.clone()
	c.Frames = c.Frames[from:to]
	c.Faults = c.Faults[:0]
	for _, ft := range sc.Faults {
		if ft.Frame >= from && ft.Frame < to {
			ft.Frame -= from
			c.Faults = append(c.Faults, ft)
		}
	}
	return c
}

func (sc Scenario) without(frame int) Scenario {
	c := sc.clone()
	c.Frames = append(c.Frames[:frame], c.Frames[frame+1:]...)
	c.Faults = c.Faults[:0]
	for _, ft := range sc.Faults {
		switch {
		case ft.Frame < frame:
			c.Faults = append(c.Faults, ft)
		case ft.Frame > frame:
			ft.Frame--
			c.Faults = append(c.Faults, ft)
		}
	}
	return c
}

func shrink(sc Scenario) []Scenario {
	var out []Scenario
	nf := len(sc.Frames)
	sp := specs[sc.Dec]
	// shorter streams: halves, then a frame off either end
	if nf > 2 {
		out = append(out, sc.cut(0, nf/2), sc.cut(nf/2, nf), sc.cut(0, nf-1), sc.cut(1, nf))
	}
	if nf > 8 {
		out = append(out, sc.cut(nf/4, nf), sc.cut(0, nf-nf/4))
	}
	// fewer faults: halves, then one at a time
	if n := len(sc.Faults); n > 3 {
		a, b := sc.clone(), sc.clone()
		a.Faults = a.Faults[:n/2]
		b.Faults = b.Faults[n/2:]
		out = append(out, a, b)
	}
	for i := range sc.Faults {
		c := sc.clone()
		c.Faults = append(c.Faults[:i], c.Faults[i+1:]...)
		out = append(out, c)
	}
	// single frames
	if nf > 1 && nf <= 24 {
		for f := 0; f < nf; f++ {
			out = append(out, sc.without(f))
		}
	}
	// simpler faults
	for i, ft := range sc.Faults {
		if ft.Arg > 1 {
			c := sc.clone()
			c.Faults[i].Arg = 1
			out = append(out, c)
		}
		if ft.Kind == "dropframe" {
			c := sc.clone()
			c.Faults[i].Kind = "drop"
			out = append(out, c)
		}
		if ft.Pkt > 0 {
			c := sc.clone()
			c.Faults[i].Pkt = 0
			out = append(out, c)
		}
	}
	// fewer and smaller units
	if nf <= 24 {
		for f, fr := range sc.Frames {
			if len(fr) > 1 {
				c := sc.clone()
				c.Frames[f] = c.Frames[f][:len(fr)-1]
				out = append(out, c)
				c = sc.clone()
				c.Frames[f] = c.Frames[f][1:]
				out = append(out, c)
			}
		}
		if !sp.table {
			for f, fr := range sc.Frames {
				for u, v := range fr {
					lo := sp.minN
					if u == 0 {
						lo = sp.min0
					}
					if v > lo {
						c := sc.clone()
						c.Frames[f][u] = lo
						out = append(out, c)
						if v/2 > lo {
							c = sc.clone()
							c.Frames[f][u] = v / 2
							out = append(out, c)
						}
					}
				}
			}
		}
	}
	// simpler parameters
	if sc.Seq != 1000 {
		c := sc.clone()
		c.Seq = 1000
		out = append(out, c)
	}
	if sc.TS != 0 {
		c := sc.clone()
		c.TS = 0
		out = append(out, c)
	}
	if eff := effPMS(sc.PMS); eff > 2*sp.minPMS && !sp.table {
		// halve the payload limit together with all sizes
		c := sc.clone()
		c.PMS = eff / 2
		for f := range c.Frames {
			for u := range c.Frames[f] {
				c.Frames[f][u] /= 2
			}
		}
		out = append(out, c)
	}
	return out
}

func init() {
	f := core.Register("C07", gen, run, shrink)
	f.Real = []string{
		"pkg/format/rtph264 Encoder+Decoder", "pkg/format/rtph265 Encoder+Decoder", "pkg/format/rtpav1 Encoder+Decoder",
		"pkg/format/rtpvp8 Encoder+Decoder", "pkg/format/rtpvp9 Encoder+Decoder", "pkg/format/rtpmpeg4audio Encoder+Decoder",
		"pkg/format/rtpfragmented Encoder+Decoder (MPEG-4 video / MPEG-4 audio LATM)", "pkg/format/rtpmpeg1audio Encoder+Decoder",
		"pkg/format/rtpmpeg1video Encoder+Decoder", "pkg/format/rtpmjpeg Encoder+Decoder", "pkg/format/rtpac3 Encoder+Decoder",
		"pkg/format/rtpklv Encoder+Decoder", "pion/rtp packet type and VP8/VP9 payloaders (as used by the encoders)",
	}
	f.Simulated = []string{
		"the link between packetizer and depacketizer: an explicit fault list (drop, dup, duplate, swap, dropframe) applied to the packet sequence; no clock",
		"the media: synthetic but format-valid frames (NAL units with legal type bytes and no start-code emulation, OBUs with legal headers, VP9 frames with parseable uncompressed headers, MPEG-1 audio / AC-3 frames whose headers announce their true length, MPEG-1 video pictures made of start-code delimited slices, baseline JPEGs with DQT/SOF0/SOS, SMPTE KLV triplets with BER lengths)",
		"RTP timestamps: one value per Encode call (base + 90000*frame) added to whatever the encoder sets, as a sender does",
	}
	f.Excluded = []string{
		"M-JPEG restart-marker images (DRI): the depacketizer rejects RTP/JPEG types 64..127, so no valid stream exists for them",
		"MPEG-2 (half sample rate) and Layer I MPEG audio frames: only MPEG-1 Layer II/III lengths are generated",
		"H264/H265 Annex-B wrapped NAL units (vendor quirk path, not produced by the encoder)",
		"decoders without inter-packet state (rtplpcm, rtpsimpleaudio, rtpmpegts) are not in the property's quantifier",
		"corrupted packets (bit errors), packets of other SSRCs: the statement speaks of loss, duplication and reordering only",
	}
	f.Rule = "scenario = decoder kind (1 of 12, by seed) x PayloadMaxSize (encoder minimum .. 3000, 0 = default 1450; for the table-driven audio formats placed around the frame length) x per-format parameters x 5..200 Encode calls of 1..8 units whose sizes are drawn around the aggregation / fragmentation thresholds of that payload size x explicit fault list (drop / dup / duplate / swap / dropframe on first, middle, last packets, 1..3 faults per damaged frame, sparse to 30% damaged frames, bursts, adjacent-frame combinations); every 8th seed is fault-free. A run is non-trivial when at least one fault fired and at least one clean frame was checked. Two runs are distinct when (decoder, PayloadMaxSize, parameters, unit sizes, fault list) hash differently."
	f.Assumptions = []string{
		"frame = the input of one Encode call. For h264/h265/av1/vp8/vp9/fragmented/mpeg1video/mjpeg/klv one Decode return must equal it (same units, same bytes, same grouping; M-JPEG: same dimensions, sampling type, quantisation tables and entropy-coded data incl. EOI). For mpeg4audio/mpeg1audio/ac3, which hand out access units / frames packet by packet, the units of the call must appear exactly once as one contiguous run of the concatenated Decode output",
		"clean(f): the packets of f arrive exactly once each, in order, as one contiguous run; the same holds for f-1; and the run of f-1 immediately precedes the run of f (a stray late duplicate between two otherwise intact frames counts as damage to the second one; the next frame after it is checked again). Frame 0 is clean when its run opens the stream",
		"deadline: the Decode call that processes the first delivery of packet 0 of frame f+1 after the run of f. If that packet is never delivered (dropped, or f is the last frame) the statement sets no deadline and the oracle only checks 'at most once'; in a fault-free run the last frame must still be returned by the end of the stream",
		"whatever is returned for frames that are not clean is ignored, except that it may not equal a clean frame (second copy)",
		"sentinel errors (ErrMorePacketsNeeded, ErrNonStartingPacketAndNoPrevious) and ordinary errors are both 'nothing returned'",
		"all packets of one Encode call carry the same RTP timestamp and consecutive calls differ by 90000 (plus what the encoder itself adds for aggregated audio)",
		"what Decode returns is compared as of the moment it returns (copied at once); a decoder that later overwrites a buffer it handed out (rtpklv reuses its assembly buffer) is a different defect, counted by the probe returned_buffer_overwritten_by_later_decode and not reported as a C07 violation",
		"judgment call: a packet of an older frame (late duplicate, or a packet delayed across frame boundaries) that lands exactly between two otherwise intact frames is treated as damage to the frame it precedes. Under the more literal reading (only the frame's own and its predecessor's packets matter) h265, av1, mpeg4audio, fragmented, mpeg1video and klv would be reported, because such a stray packet is glued to, or makes them discard the first packet of, the following frame; the frame after that is decoded correctly",
		"a Decode/Encode call that never returns is caught by the worker watchdog, not by the family",
		"development aid: tier \"dec=<kind>\" restricts generation to one decoder kind; every other tier searches all 12",
	}
}
