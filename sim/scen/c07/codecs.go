package c07

import (
	"fmt"

	"github.com/bluenviron/gortsplib/v5/pkg/format/rtpac3"
	"github.com/bluenviron/gortsplib/v5/pkg/format/rtpav1"
	"github.com/bluenviron/gortsplib/v5/pkg/format/rtpfragmented"
	"github.com/bluenviron/gortsplib/v5/pkg/format/rtph264"
	"github.com/bluenviron/gortsplib/v5/pkg/format/rtph265"
	"github.com/bluenviron/gortsplib/v5/pkg/format/rtpklv"
	"github.com/bluenviron/gortsplib/v5/pkg/format/rtpmjpeg"
	"github.com/bluenviron/gortsplib/v5/pkg/format/rtpmpeg1audio"
	"github.com/bluenviron/gortsplib/v5/pkg/format/rtpmpeg1video"
	"github.com/bluenviron/gortsplib/v5/pkg/format/rtpmpeg4audio"
	"github.com/bluenviron/gortsplib/v5/pkg/format/rtpvp8"
	"github.com/bluenviron/gortsplib/v5/pkg/format/rtpvp9"
	"github.com/pion/rtp"

	"verifsim/core"
)

// Decoder kinds (the 12 depacketizers with inter-packet state).
var kinds = []string{
	"h264", "h265", "av1", "vp8", "vp9", "mpeg4audio",
	"fragmented", "mpeg1audio", "mpeg1video", "mjpeg", "ac3", "klv",
}

// spec is the static description of one decoder kind, used by gen, run and
// shrink. A "frame" is always the input of ONE Encode call; its "units" are
// the elements the format is made of (see doc.go for the per-format meaning).
type spec struct {
	// grouped: one Decode return corresponds to exactly one Encode call
	// (access unit / temporal unit / picture / KLV unit). Not grouped: the
	// format aggregates several small frames in one packet and Decode hands
	// them out packet by packet; the units of one Encode call are then
	// compared as a contiguous run of the flattened output.
	grouped  bool
	minPMS   int // smallest PayloadMaxSize the encoder is used with
	maxUnits int // units per Encode call
	// manyUnits (0 = none): in a tenth of the runs some frames carry up to this many units (many
	// slices per picture), towards the decoders' documented per-frame limits
	manyUnits int
	min0     int // minimum size of unit 0 (room for header + identity tag)
	minN     int // minimum size of the other units
	hdr      int // packet header bytes in front of a single unit (for threshold sizes)
	table    bool
}

var specs = map[string]spec{
	"h264":       {grouped: true, minPMS: 12, maxUnits: 8, manyUnits: 30, min0: 4, minN: 1, hdr: 0},
	"h265":       {grouped: true, minPMS: 12, maxUnits: 8, manyUnits: 21, min0: 5, minN: 3, hdr: 0}, // 21 = the decoder's documented NALU limit per access unit
	"av1":        {grouped: true, minPMS: 12, maxUnits: 8, min0: 4, minN: 1, hdr: 1},
	"vp8":        {grouped: true, minPMS: 8, maxUnits: 1, min0: 4, minN: 4, hdr: 1},
	"vp9":        {grouped: true, minPMS: 20, maxUnits: 1, min0: 12, minN: 12, hdr: 3},
	"mpeg4audio": {grouped: false, minPMS: 12, maxUnits: 8, min0: 4, minN: 4, hdr: 4},
	"fragmented": {grouped: true, minPMS: 8, maxUnits: 1, min0: 4, minN: 4, hdr: 0},
	"mpeg1audio": {grouped: false, minPMS: 24, maxUnits: 6, hdr: 4, table: true},
	"mpeg1video": {grouped: true, minPMS: 16, maxUnits: 8, min0: 9, minN: 5, hdr: 4},
	"mjpeg":      {grouped: true, minPMS: 160, maxUnits: 1, min0: 3, minN: 3, hdr: 8},
	"ac3":        {grouped: false, minPMS: 24, maxUnits: 4, hdr: 2, table: true},
	"klv":        {grouped: true, minPMS: 8, maxUnits: 3, min0: 0, minN: 0, hdr: 0},
}

// ---- valid frame sizes of the two table-driven audio formats ---------------

// MPEG-1 (ISO 11172-3) Layer II / III bit rates and sampling rates; the frame
// length of both layers is 144*bitrate/samplerate (+1 with padding).
var m1aBitrates = [2][14]int{
	{32, 48, 56, 64, 80, 96, 112, 128, 160, 192, 224, 256, 320, 384}, // layer II
	{32, 40, 48, 56, 64, 80, 96, 112, 128, 160, 192, 224, 256, 320},  // layer III
}
var m1aRates = [3]int{44100, 48000, 32000}

// m1aCode: code = ((layer*14+br)*3+sr)*2+pad, layer 0 = II, 1 = III.
const m1aCodes = 2 * 14 * 3 * 2

func m1aDecode(code int) (layer, br, sr, pad int) {
	code %= m1aCodes
	if code < 0 {
		code += m1aCodes
	}
	pad = code % 2
	code /= 2
	sr = code % 3
	code /= 3
	br = code % 14
	layer = code / 14
	return
}

func m1aLen(code int) int {
	layer, br, sr, pad := m1aDecode(code)
	return 144*m1aBitrates[layer][br]*1000/m1aRates[sr] + pad
}

// AC-3 (ATSC A/52 table 5.18) words per syncframe for frmsizecod 0..37 and
// fscod 0 (48 kHz), 1 (44.1 kHz), 2 (32 kHz).
var ac3Words = [38][3]int{
	{64, 69, 96}, {64, 70, 96}, {80, 87, 120}, {80, 88, 120}, {96, 104, 144}, {96, 105, 144},
	{112, 121, 168}, {112, 122, 168}, {128, 139, 192}, {128, 140, 192}, {160, 174, 240}, {160, 175, 240},
	{192, 208, 288}, {192, 209, 288}, {224, 243, 336}, {224, 244, 336}, {256, 278, 384}, {256, 279, 384},
	{320, 348, 480}, {320, 349, 480}, {384, 417, 576}, {384, 418, 576}, {448, 487, 672}, {448, 488, 672},
	{512, 557, 768}, {512, 558, 768}, {640, 696, 960}, {640, 697, 960}, {768, 835, 1152}, {768, 836, 1152},
	{896, 975, 1344}, {896, 976, 1344}, {1024, 1114, 1536}, {1024, 1115, 1536}, {1152, 1253, 1728}, {1152, 1254, 1728},
	{1280, 1393, 1920}, {1280, 1394, 1920},
}

const ac3Codes = 38 * 3

func ac3Len(code int) int {
	code %= ac3Codes
	if code < 0 {
		code += ac3Codes
	}
	return ac3Words[code/3][code%3] * 2
}

// unitLen is the byte length of a unit given its scenario value.
func unitLen(kind string, v int) int {
	switch kind {
	case "mpeg1audio":
		return m1aLen(v)
	case "ac3":
		return ac3Len(v)
	}
	return v
}

// ---- deterministic payload bytes ---------------------------------------------

// fill writes pseudo-random bytes derived from (seed, frame, unit).
func fill(b []byte, seed uint64, frame, unit int) {
	x := core.H(seed, "fill", uint64(frame), uint64(unit))
	for i := 0; i < len(b); i += 8 {
		x = core.Mix(x + uint64(i))
		v := x
		for j := 0; j < 8 && i+j < len(b); j++ {
			b[i+j] = byte(v >> (8 * j))
		}
	}
}

// noStartCodes removes every 00 00 pair (so that neither 00 00 01 nor
// 00 00 00 01 can occur, as in real NAL units / MPEG slices, which are
// protected by emulation prevention) and makes the last byte non-zero.
func noStartCodes(b []byte) {
	for i := 1; i < len(b); i++ {
		if b[i] == 0 && b[i-1] == 0 {
			b[i] = 0xA5
		}
	}
	if n := len(b); n > 0 && b[n-1] == 0 {
		b[n-1] = 0x80
	}
}

// tag stores the identity of a unit (frame, unit) at b[0:3] if there is room.
func tag(b []byte, frame, unit int) {
	if len(b) >= 3 {
		b[0] = 0x40 | byte(frame>>8)&0x3f // never 0x00 and never 0xFF
		b[1] = byte(frame)
		b[2] = 0x80 | byte(unit)
	}
}

// ---- per-run instance ----------------------------------------------------------

// inst wraps the real encoder and decoder of one kind.
type inst struct {
	// makeFrame builds the valid input of one Encode call and the canonical
	// form of what a correct decoder hands back for it.
	makeFrame func(frame int, vals []int) (in any, exp [][]byte, nunits int)
	encode    func(in any) ([]*rtp.Packet, error)
	// decode returns the canonical units of one Decode call (nil when the
	// call returned an error, sentinel or not).
	decode func(p *rtp.Packet) ([][]byte, error)
}

func one(b []byte, err error) ([][]byte, error) {
	if err != nil {
		return nil, err
	}
	if b == nil {
		return nil, nil
	}
	return [][]byte{b}, nil
}

func join(units [][]byte) []byte {
	n := 0
	for _, u := range units {
		n += len(u)
	}
	out := make([]byte, 0, n)
	for _, u := range units {
		out = append(out, u...)
	}
	return out
}

func clampSizes(sp spec, vals []int) []int {
	out := make([]int, 0, len(vals))
	for i, v := range vals {
		if i >= sp.maxUnits {
			break
		}
		lo := sp.minN
		if i == 0 {
			lo = sp.min0
		}
		if !sp.table && v < lo {
			v = lo
		}
		out = append(out, v)
	}
	if len(out) == 0 {
		out = append(out, sp.min0)
	}
	return out
}

func newInst(sc *Scenario) (*inst, error) {
	sp, ok := specs[sc.Dec]
	if !ok {
		return nil, fmt.Errorf("unknown decoder kind %q", sc.Dec)
	}
	seed := sc.Seed
	ssrc := uint32(core.H(seed, "ssrc"))
	seq := uint16(sc.Seq)
	it := &inst{}

	// generic unit builder: header bytes, then tag, then filler.
	mk := func(frame, unit, size, hdrLen int, hdr func(b []byte), clean func(b []byte)) []byte {
		b := make([]byte, size)
		fill(b, seed, frame, unit)
		if size > hdrLen {
			tag(b[hdrLen:], frame, unit)
		}
		if clean != nil {
			clean(b)
		}
		if hdr != nil {
			hdr(b)
		}
		return b
	}
	hv := func(kind string, frame, unit int) uint64 { return core.H(seed, kind, uint64(frame), uint64(unit)) }

	switch sc.Dec {
	case "h264":
		e := &rtph264.Encoder{PayloadType: 96, SSRC: &ssrc, InitialSequenceNumber: &seq, PayloadMaxSize: sc.PMS, PacketizationMode: 1}
		d := &rtph264.Decoder{PacketizationMode: 1}
		if err := e.Init(); err != nil {
			return nil, err
		}
		if err := d.Init(); err != nil {
			return nil, err
		}
		it.makeFrame = func(frame int, vals []int) (any, [][]byte, int) {
			vals = clampSizes(sp, vals)
			au := make([][]byte, len(vals))
			for u, sz := range vals {
				h := hv("nalhdr", frame, u)
				typ := byte(1 + h%23) // 1..23: single NAL unit types (24..29 are RTP aggregation/fragmentation types)
				nri := byte((h >> 8) % 4)
				au[u] = mk(frame, u, sz, 1, func(b []byte) { b[0] = nri<<5 | typ }, noStartCodes)
			}
			return au, au, len(au)
		}
		it.encode = func(in any) ([]*rtp.Packet, error) { return e.Encode(in.([][]byte)) }
		it.decode = func(p *rtp.Packet) ([][]byte, error) { return d.Decode(p) }

	case "h265":
		e := &rtph265.Encoder{PayloadType: 96, SSRC: &ssrc, InitialSequenceNumber: &seq, PayloadMaxSize: sc.PMS}
		d := &rtph265.Decoder{}
		if err := e.Init(); err != nil {
			return nil, err
		}
		if err := d.Init(); err != nil {
			return nil, err
		}
		it.makeFrame = func(frame int, vals []int) (any, [][]byte, int) {
			vals = clampSizes(sp, vals)
			au := make([][]byte, len(vals))
			for u, sz := range vals {
				h := hv("nalhdr", frame, u)
				typ := byte(h % 41) // 0..40: VCL, parameter sets, AUD, SEI (48..50 are RTP payload structures)
				tid := byte(1 + (h>>8)%3)
				au[u] = mk(frame, u, sz, 2, func(b []byte) { b[0] = typ << 1; b[1] = tid }, noStartCodes)
			}
			return au, au, len(au)
		}
		it.encode = func(in any) ([]*rtp.Packet, error) { return e.Encode(in.([][]byte)) }
		it.decode = func(p *rtp.Packet) ([][]byte, error) { return d.Decode(p) }

	case "av1":
		e := &rtpav1.Encoder{PayloadType: 96, SSRC: &ssrc, InitialSequenceNumber: &seq, PayloadMaxSize: sc.PMS}
		d := &rtpav1.Decoder{}
		if err := e.Init(); err != nil {
			return nil, err
		}
		if err := d.Init(); err != nil {
			return nil, err
		}
		obuTypes := []byte{1, 3, 4, 5, 6, 6, 6, 4} // sequence header, frame header, tile group, metadata, frame
		it.makeFrame = func(frame int, vals []int) (any, [][]byte, int) {
			vals = clampSizes(sp, vals)
			tu := make([][]byte, len(vals))
			for u, sz := range vals {
				typ := obuTypes[hv("obuhdr", frame, u)%uint64(len(obuTypes))]
				if typ == 1 && u != 0 {
					typ = 6
				}
				// obu_forbidden_bit 0, type, no extension, no size field, reserved 0
				tu[u] = mk(frame, u, sz, 1, func(b []byte) { b[0] = typ << 3 }, nil)
			}
			return tu, tu, len(tu)
		}
		it.encode = func(in any) ([]*rtp.Packet, error) { return e.Encode(in.([][]byte)) }
		it.decode = func(p *rtp.Packet) ([][]byte, error) { return d.Decode(p) }

	case "vp8":
		e := &rtpvp8.Encoder{PayloadType: 96, SSRC: &ssrc, InitialSequenceNumber: &seq, PayloadMaxSize: sc.PMS}
		d := &rtpvp8.Decoder{}
		if err := e.Init(); err != nil {
			return nil, err
		}
		if err := d.Init(); err != nil {
			return nil, err
		}
		it.makeFrame = func(frame int, vals []int) (any, [][]byte, int) {
			vals = clampSizes(sp, vals)
			b := mk(frame, 0, vals[0], 0, nil, nil)
			return b, [][]byte{b}, 1
		}
		it.encode = func(in any) ([]*rtp.Packet, error) { return e.Encode(in.([]byte)) }
		it.decode = func(p *rtp.Packet) ([][]byte, error) { return one(d.Decode(p)) }

	case "vp9":
		pid := uint16(core.H(seed, "vp9pid"))
		e := &rtpvp9.Encoder{PayloadType: 96, SSRC: &ssrc, InitialSequenceNumber: &seq, PayloadMaxSize: sc.PMS, InitialPictureID: &pid}
		d := &rtpvp9.Decoder{}
		if err := e.Init(); err != nil {
			return nil, err
		}
		if err := d.Init(); err != nil {
			return nil, err
		}
		// key frame: frame_marker 2, profile 0, key, show, sync code 49 83 42,
		// colour config, 1920x804 (the header of the library's own test frame)
		keyHdr := []byte{0x82, 0x49, 0x83, 0x42, 0x00, 0x77, 0xf0, 0x32, 0x34}
		it.makeFrame = func(frame int, vals []int) (any, [][]byte, int) {
			vals = clampSizes(sp, vals)
			var b []byte
			if hv("vp9key", frame, 0)%4 == 0 {
				b = mk(frame, 0, vals[0], len(keyHdr), func(b []byte) { copy(b, keyHdr) }, nil)
			} else {
				// non-key frame: frame_marker 2, profile 0, non_key 1, show 1
				b = mk(frame, 0, vals[0], 1, func(b []byte) { b[0] = 0x86 }, nil)
			}
			return b, [][]byte{b}, 1
		}
		it.encode = func(in any) ([]*rtp.Packet, error) { return e.Encode(in.([]byte)) }
		it.decode = func(p *rtp.Packet) ([][]byte, error) { return one(d.Decode(p)) }

	case "mpeg4audio":
		sl, il, dl := 13, 3, 3
		if len(sc.Par) == 3 {
			sl, il, dl = sc.Par[0], sc.Par[1], sc.Par[2]
		}
		e := &rtpmpeg4audio.Encoder{PayloadType: 96, SSRC: &ssrc, InitialSequenceNumber: &seq, PayloadMaxSize: sc.PMS,
			SizeLength: sl, IndexLength: il, IndexDeltaLength: dl}
		d := &rtpmpeg4audio.Decoder{SizeLength: sl, IndexLength: il, IndexDeltaLength: dl}
		if err := e.Init(); err != nil {
			return nil, err
		}
		if err := d.Init(); err != nil {
			return nil, err
		}
		maxAU := mpeg4MaxAU(sl)
		it.makeFrame = func(frame int, vals []int) (any, [][]byte, int) {
			vals = clampSizes(sp, vals)
			aus := make([][]byte, len(vals))
			for u, sz := range vals {
				if sz > maxAU {
					sz = maxAU
				}
				aus[u] = mk(frame, u, sz, 0, nil, nil)
			}
			return aus, aus, len(aus)
		}
		it.encode = func(in any) ([]*rtp.Packet, error) { return e.Encode(in.([][]byte)) }
		it.decode = func(p *rtp.Packet) ([][]byte, error) { return d.Decode(p) }

	case "fragmented":
		e := &rtpfragmented.Encoder{PayloadType: 96, SSRC: &ssrc, InitialSequenceNumber: &seq, PayloadMaxSize: sc.PMS}
		d := &rtpfragmented.Decoder{}
		if err := e.Init(); err != nil {
			return nil, err
		}
		if err := d.Init(); err != nil {
			return nil, err
		}
		latm := len(sc.Par) > 0 && sc.Par[0] == 1
		it.makeFrame = func(frame int, vals []int) (any, [][]byte, int) {
			vals = clampSizes(sp, vals)
			var b []byte
			if latm || vals[0] < 8 {
				// LATM AudioMuxElement: opaque to the depacketizer
				b = mk(frame, 0, vals[0], 0, nil, nil)
			} else {
				// MPEG-4 video: VOP start code 00 00 01 B6
				b = mk(frame, 0, vals[0], 4, func(b []byte) { copy(b, []byte{0, 0, 1, 0xB6}) }, nil)
			}
			return b, [][]byte{b}, 1
		}
		it.encode = func(in any) ([]*rtp.Packet, error) { return e.Encode(in.([]byte)) }
		it.decode = func(p *rtp.Packet) ([][]byte, error) { return one(d.Decode(p)) }

	case "mpeg1audio":
		e := &rtpmpeg1audio.Encoder{SSRC: &ssrc, InitialSequenceNumber: &seq, PayloadMaxSize: sc.PMS}
		d := &rtpmpeg1audio.Decoder{}
		if err := e.Init(); err != nil {
			return nil, err
		}
		if err := d.Init(); err != nil {
			return nil, err
		}
		it.makeFrame = func(frame int, vals []int) (any, [][]byte, int) {
			vals = clampSizes(sp, vals)
			frs := make([][]byte, len(vals))
			for u, code := range vals {
				layer, br, sr, pad := m1aDecode(code)
				mode := byte(hv("m1amode", frame, u) % 4)
				frs[u] = mk(frame, u, m1aLen(code), 4, func(b []byte) {
					b[0] = 0xFF
					if layer == 0 {
						b[1] = 0xFD // MPEG-1, layer II, no CRC
					} else {
						b[1] = 0xFB // MPEG-1, layer III, no CRC
					}
					b[2] = byte(br+1)<<4 | byte(sr)<<2 | byte(pad)<<1
					b[3] = mode << 6
				}, nil)
			}
			return frs, frs, len(frs)
		}
		it.encode = func(in any) ([]*rtp.Packet, error) { return e.Encode(in.([][]byte)) }
		it.decode = func(p *rtp.Packet) ([][]byte, error) { return d.Decode(p) }

	case "mpeg1video":
		e := &rtpmpeg1video.Encoder{SSRC: &ssrc, InitialSequenceNumber: &seq, PayloadMaxSize: sc.PMS}
		d := &rtpmpeg1video.Decoder{}
		if err := e.Init(); err != nil {
			return nil, err
		}
		if err := d.Init(); err != nil {
			return nil, err
		}
		it.makeFrame = func(frame int, vals []int) (any, [][]byte, int) {
			vals = clampSizes(sp, vals)
			var parts [][]byte
			if hv("m1vkey", frame, 0)%5 == 0 {
				// sequence header + group of pictures header in front of the picture
				parts = append(parts, mk(frame, 100, 12, 4, func(b []byte) { copy(b, []byte{0, 0, 1, 0xB3}) }, noStartCodes))
				parts = append(parts, mk(frame, 101, 8, 4, func(b []byte) { copy(b, []byte{0, 0, 1, 0xB8}) }, noStartCodes))
			}
			for u, sz := range vals {
				if u == 0 {
					// picture header: start code 00, temporal reference + coding type, then data
					h := hv("m1vpic", frame, 0)
					parts = append(parts, mk(frame, 0, sz, 6, func(b []byte) {
						copy(b, []byte{0, 0, 1, 0})
						b[4] = byte(h)
						b[5] = byte(h>>8)&0xC0 | byte(1+(h>>16)%3)<<3 | 0x07
					}, noStartCodes))
				} else {
					// slice: start code 01..AF
					parts = append(parts, mk(frame, u, sz, 4, func(b []byte) { copy(b, []byte{0, 0, 1, byte(u)}) }, noStartCodes))
				}
			}
			b := join(parts)
			return b, [][]byte{b}, len(parts)
		}
		it.encode = func(in any) ([]*rtp.Packet, error) { return e.Encode(in.([]byte)) }
		it.decode = func(p *rtp.Packet) ([][]byte, error) { return one(d.Decode(p)) }

	case "mjpeg":
		e := &rtpmjpeg.Encoder{SSRC: &ssrc, InitialSequenceNumber: &seq, PayloadMaxSize: sc.PMS}
		d := &rtpmjpeg.Decoder{}
		if err := e.Init(); err != nil {
			return nil, err
		}
		if err := d.Init(); err != nil {
			return nil, err
		}
		it.makeFrame = func(frame int, vals []int) (any, [][]byte, int) {
			vals = clampSizes(sp, vals)
			im := makeJPEG(seed, frame, vals[0])
			img := im.marshal()
			return img, [][]byte{im.canon()}, 1
		}
		it.encode = func(in any) ([]*rtp.Packet, error) { return e.Encode(in.([]byte)) }
		it.decode = func(p *rtp.Packet) ([][]byte, error) {
			b, err := d.Decode(p)
			if err != nil || b == nil {
				return nil, err
			}
			return [][]byte{canonJPEG(b)}, nil
		}

	case "ac3":
		e := &rtpac3.Encoder{PayloadType: 96, SSRC: &ssrc, InitialSequenceNumber: &seq, PayloadMaxSize: sc.PMS}
		d := &rtpac3.Decoder{}
		if err := e.Init(); err != nil {
			return nil, err
		}
		if err := d.Init(); err != nil {
			return nil, err
		}
		it.makeFrame = func(frame int, vals []int) (any, [][]byte, int) {
			vals = clampSizes(sp, vals)
			frs := make([][]byte, len(vals))
			for u, code := range vals {
				c := code % ac3Codes
				if c < 0 {
					c += ac3Codes
				}
				// syncword 0B 77, crc1 (2 bytes), fscod/frmsizecod, then bsi + audio blocks
				frs[u] = mk(frame, u, ac3Len(code), 5, func(b []byte) {
					b[0], b[1] = 0x0B, 0x77
					b[4] = byte(c%3)<<6 | byte(c/3)
				}, nil)
			}
			return frs, frs, len(frs)
		}
		it.encode = func(in any) ([]*rtp.Packet, error) { return e.Encode(in.([][]byte)) }
		it.decode = func(p *rtp.Packet) ([][]byte, error) { return d.Decode(p) }

	case "klv":
		e := &rtpklv.Encoder{PayloadType: 96, SSRC: &ssrc, InitialSequenceNumber: &seq, PayloadMaxSize: sc.PMS}
		d := &rtpklv.Decoder{}
		if err := e.Init(); err != nil {
			return nil, err
		}
		if err := d.Init(); err != nil {
			return nil, err
		}
		it.makeFrame = func(frame int, vals []int) (any, [][]byte, int) {
			vals = clampSizes(sp, vals)
			var items [][]byte
			for u, vlen := range vals {
				if vlen < 0 {
					vlen = 0
				}
				// 16-byte SMPTE universal label, BER length, value
				var lf []byte
				switch {
				case vlen < 128:
					lf = []byte{byte(vlen)}
				case vlen < 256:
					lf = []byte{0x81, byte(vlen)}
				default:
					lf = []byte{0x82, byte(vlen >> 8), byte(vlen)}
				}
				b := make([]byte, 16+len(lf)+vlen)
				fill(b, seed, frame, u)
				copy(b, []byte{0x06, 0x0e, 0x2b, 0x34, 0x02, 0x0b, 0x01, 0x01})
				tag(b[8:], frame, u)
				copy(b[16:], lf)
				items = append(items, b)
			}
			b := join(items)
			return b, [][]byte{b}, len(items)
		}
		it.encode = func(in any) ([]*rtp.Packet, error) { return e.Encode(in.([]byte)) }
		it.decode = func(p *rtp.Packet) ([][]byte, error) { return one(d.Decode(p)) }
	}
	return it, nil
}

// mpeg4MaxAU is the largest access unit that is valid for a given
// sizeLength: it must fit the AU-size field and the library's documented
// maximum access unit size (5 KiB).
func mpeg4MaxAU(sizeLength int) int {
	m := 5 * 1024
	if sizeLength < 13 {
		if v := 1<<uint(sizeLength) - 1; v < m {
			m = v
		}
	}
	return m
}
