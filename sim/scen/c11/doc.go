// Package c11 holds the scenario family of property C11.
package c11
