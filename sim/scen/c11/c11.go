// Package c11 decides C11 (the server survives hostile control connections and
// cleans up after them) by whole-system simulation with hostile scripted peers
// next to a well-behaved real client (DESIGN 3.6).
package c11

import (
	"context"
	"crypto/tls"
	"encoding/base64"
	"encoding/binary"
	"fmt"
	"net"
	"strings"
	"sync"
	"sync/atomic"
	"testing"
	"time"

	"github.com/pion/rtp"

	gortsplib "github.com/bluenviron/gortsplib/v5"
	"github.com/bluenviron/gortsplib/v5/pkg/base"
	"github.com/bluenviron/gortsplib/v5/pkg/description"
	"github.com/bluenviron/gortsplib/v5/pkg/format"
	"github.com/bluenviron/gortsplib/v5/pkg/headers"

	"verifsim/core"
	"verifsim/peers"
	"verifsim/simnet"
	"verifsim/sys"
)

// Msg is one step of a hostile connection.
type Msg struct {
	Tmpl  string `json:"t"`             // template name
	Mut   bool   `json:"m,omitempty"`   // mutate it
	Read  bool   `json:"r,omitempty"`   // try to read a response afterwards (learns the session id)
	GapUS int    `json:"gap,omitempty"` // pause before sending
}

// Hostile is one hostile connection.
type Hostile struct {
	StartUS int    `json:"start_us"`
	TLS     bool   `json:"tls"` // perform a TLS handshake first (TLS servers only)
	Msgs    []Msg  `json:"msgs"`
	End     string `json:"end"` // close | rst | silent | deaf (stops reading after message DeafAt, goes on sending, then stays silent)
	DeafAt  int    `json:"deaf_at,omitempty"`
	// SameHost: this hostile connection comes from the same address as hostile connection 0 and, when
	// it has no session of its own, uses the session id that connection 0 obtained (a second
	// connection of one client steering - or tearing down - the session of the first).
	SameHost bool `json:"same_host,omitempty"`
	// Cookie pins the tunnel cookie of this connection's http-get / http-post messages.
	Cookie string `json:"cookie,omitempty"`
}

// Scenario is one C11 run.
type Scenario struct {
	Seed    uint64        `json:"seed"`
	Net     simnet.Config `json:"net"`
	Handler string        `json:"handler"`
	UDP     bool          `json:"udp"`
	Secure  bool          `json:"secure"`
	GoodTr  string        `json:"good_transport"`
	Hostile []Hostile     `json:"hostile"`
	IdleMS  int           `json:"idle_ms"`
	ReadMS  int           `json:"read_ms"`
	// AppClose > 0: the application gets rid of a hostile connection itself: inside the n-th method
	// callback (DESCRIBE ... SET_PARAMETER) of a connection from a hostile address it calls ServerConn.Close, while the peer
	// has more requests in flight behind that one (pipelined).
	AppClose int `json:"app_close,omitempty"`
	// Yields: seeded holds on the connection's shutdown path.
	Yields map[string]core.YieldSpec `json:"yields,omitempty"`
}

var connSites = []string{"sc.run.teardown.cancel", "sc.run.teardown.close", "sc.run.teardown.wait", "sc.run.teardown.session", "sc.run.teardown.closeConn"}

var templates = []string{"options", "describe", "setup-udp", "setup-tcp", "play", "pause", "teardown", "getparam", "setparam", "star",
	"announce", "setup-rec-udp", "setup-rec-tcp", "record", "frame", "frame", "garbage", "http-get", "http-post", "ws-upgrade", "ws-frame", "b64", "response"}

var playConv = []string{"options", "describe", "setup-tcp", "play", "frame", "getparam", "pause", "teardown"}

// keep-alives and other requests on "*" inside a session
var starConv = []string{"describe", "setup-tcp", "star", "play", "star", "star"}
var playUDPConv = []string{"options", "describe", "setup-udp", "play", "getparam", "teardown"}
var recConv = []string{"options", "announce", "setup-rec-tcp", "record", "frame", "frame", "teardown"}
var recUDPConv = []string{"announce", "setup-rec-udp", "record", "getparam"}

// a publisher that asks for client ports the server cannot send to (sendto() to port 0 fails)
var recUDP0Conv = []string{"announce", "setup-rec-udp0", "record", "getparam"}
var httpConv = []string{"http-get", "b64", "garbage"}
var httpPostConv = []string{"http-post", "b64", "b64"}
var wsConv = []string{"ws-upgrade", "ws-frame", "ws-frame", "garbage"}

func gen(seed uint64, tier string) Scenario {
	r := core.NewRand(seed, "c11")
	sc := Scenario{Seed: seed}
	sc.Handler = "full"
	if r.Bool(0.3) {
		sc.Handler = sys.HandlerKinds[r.Intn(len(sys.HandlerKinds))]
		if sc.Handler == "record-only" {
			sc.Handler = "no-params" // the well-behaved client needs to play
		}
	}
	sc.UDP = r.Bool(0.7)
	sc.Secure = r.Bool(0.25)
	sc.GoodTr = "tcp"
	if sc.UDP && r.Bool(0.5) {
		sc.GoodTr = "udp"
	}
	sc.IdleMS = r.Pick(3000, 6000, 10000)
	sc.ReadMS = r.Pick(2000, 4000, 10000)
	nh := r.Range(1, 4)
	convs := [][]string{playConv, playUDPConv, recConv, recUDPConv, httpConv, httpPostConv, wsConv, recUDP0Conv, recUDP0Conv, starConv}
	for i := 0; i < nh; i++ {
		h := Hostile{StartUS: r.Intn(300000)}
		h.TLS = sc.Secure && r.Bool(0.7)
		n := r.Range(1, 8)
		var plan []string
		if r.Bool(0.7) {
			plan = convs[r.Intn(len(convs))]
		}
		for k := 0; k < n; k++ {
			m := Msg{}
			if plan != nil && k < len(plan) && r.Bool(0.8) {
				m.Tmpl = plan[k]
			} else {
				m.Tmpl = templates[r.Intn(len(templates))]
			}
			m.Mut = r.Bool(0.45)
			m.Read = r.Bool(0.7)
			if r.Bool(0.3) {
				m.GapUS = r.Intn(200000)
			}
			h.Msgs = append(h.Msgs, m)
		}
		h.End = []string{"close", "close", "rst", "silent", "silent"}[r.Intn(5)]
		sc.Hostile = append(sc.Hostile, h)
	}
	// a second connection from the address of the first one (hash-derived so that no other choice moves)
	if x := core.HS(seed, "c11.samehost", "", 0); len(sc.Hostile) > 1 && x%100 < 30 {
		sc.Hostile[1].SameHost = true
		sc.Hostile[1].TLS = sc.Hostile[0].TLS
	}
	// a peer that stops reading (plain servers only: under TLS the write path holds a mutex around
	// the socket call, DESIGN 2.3); hash-derived so that no other choice moves
	deaf := false
	if x := core.HS(seed, "c11.deaf", "", 0); !sc.Secure && x%100 < 20 {
		i := int((x >> 8) % uint64(len(sc.Hostile)))
		sc.Hostile[i].End = "deaf"
		sc.Hostile[i].TLS = false
		sc.Hostile[i].DeafAt = int((x >> 16) % uint64(len(sc.Hostile[i].Msgs)))
		if (x>>24)%2 == 0 {
			// the conversation most likely to have a writer running: an interleaved play session
			// it plays, stops reading, and once the server's writer is blocked on the full window
			// (before WriteTimeout = ReadTimeout >= 2 s has passed) sends one more request
			sc.Hostile[i].Msgs = nil
			for _, t := range []string{"options", "describe", "setup-tcp", "play"} {
				sc.Hostile[i].Msgs = append(sc.Hostile[i].Msgs, Msg{Tmpl: t, Read: true, GapUS: 20000})
			}
			sc.Hostile[i].DeafAt = 3
			late := []string{"pause", "pause", "teardown", "getparam", "play", "setup-tcp"}[(x>>32)%6]
			sc.Hostile[i].Msgs = append(sc.Hostile[i].Msgs, Msg{Tmpl: late, GapUS: 600000 + int((x>>40)%1000000)})
			if (x>>52)%2 == 0 {
				sc.Hostile[i].Msgs = append(sc.Hostile[i].Msgs, Msg{Tmpl: "teardown", GapUS: 20000})
			}
		}
		deaf = true
	}
	// one GET half and several POST halves with its cookie, all from one address, the POSTs a few
	// (simulated) milliseconds apart: the second one meets a GET half that has just been paired and
	// is on its way out (hash-derived so that no other choice moves)
	race := false
	if x := core.HS(seed, "c11.tunnelrace", "", 0); x%100 < 10 {
		t0 := int((x >> 8) % 200000)
		sc.Hostile = []Hostile{{StartUS: t0, Cookie: "R", End: "silent", Msgs: []Msg{{Tmpl: "http-get", Read: true}}}}
		sc.Hostile[0].TLS = sc.Secure
		at := t0 + 20000 + int((x>>24)%50000)
		for k := 0; k < 2+int((x>>32)%3); k++ {
			h := Hostile{StartUS: at, SameHost: true, Cookie: "R", TLS: sc.Secure, End: []string{"close", "silent", "rst", "rst"}[(x>>(40+2*uint(k)))%4],
				Msgs: []Msg{{Tmpl: "http-post"}, {Tmpl: "b64", Read: true}, {Tmpl: "b64"}}}
			sc.Hostile = append(sc.Hostile, h)
			at += 53 + int(core.HS(seed, "c11.tunnelrace.gap", "", uint64(k))%30000) // never at the same instant: the order would be the runtime's choice
		}
		deaf = false
		race = true
	}
	// the application closes hostile connections from inside a request callback, with more requests
	// pipelined behind (hash-derived so that no other choice moves)
	if x := core.HS(seed, "c11.appclose", "", 0); x%100 < 20 {
		sc.AppClose = 1 + int((x>>8)%3)
		for i := range sc.Hostile {
			hm := sc.Hostile[i].Msgs
			for k := range hm {
				if k >= sc.AppClose-1 {
					hm[k].Read = false
					hm[k].GapUS = 0
				}
			}
			for k := 0; k < 4; k++ {
				sc.Hostile[i].Msgs = append(sc.Hostile[i].Msgs, Msg{Tmpl: []string{"describe", "getparam", "describe", "options"}[k]})
			}
			if sc.Hostile[i].End == "deaf" && sc.Hostile[i].DeafAt >= sc.AppClose-1 {
				sc.Hostile[i].End = "silent"
			}
		}
	}
	// seeded holds on the connections' shutdown path (an upgraded GET half, a connection the
	// application or a session closes): widens the windows in which a second request meets a
	// connection that is on its way out
	if sc.AppClose > 0 || race || core.HS(seed, "c11.yields", "", 0)%100 < 30 {
		sc.Yields = map[string]core.YieldSpec{}
		for i, st := range connSites {
			if core.HS(seed, "c11.yield", st, uint64(i))%100 < 50 {
				sc.Yields[st] = core.YieldSpec{}
			}
		}
	}
	n := simnet.Config{Seed: seed ^ 0x11111111}
	n.LatMinUS = r.Pick(10, 100, 1000)
	n.LatMaxUS = n.LatMinUS + r.Pick(0, 50, 500)
	n.ChunkMode = r.Pick(0, 1, 2, 3, 3)
	n.ChunkMaxLen = r.Pick(64, 512, 4096)
	// writes that wait together may travel as one byte run (pipelined requests, a response and
	// the frames behind it); hash-derived so that no other choice moves
	if x := core.HS(seed, "c11.coalesce", "", 0) % 100; x < 30 {
		n.Coalesce = []float64{0.3, 0.7, 1}[x%3]
	}
	if deaf {
		n.Window = []int{2048, 8192}[core.HS(seed, "c11.window", "", 0)%2]
		// larger packets fill the window quickly: keep 1-byte segments for small writes only
		if n.ChunkMode == 2 {
			n.ChunkMode = 3
		}
		n.ChunkMaxLen = 64
	}
	sc.Net = n
	return sc
}

// payloadLen: the stream's packets are tiny, except in runs with a bounded window, where they
// must fill it within a fraction of a second.
func payloadLen(sc *Scenario) int {
	if sc.Net.Window > 0 {
		return 200
	}
	return 8
}

// cookieOf: the tunnel cookie of a hostile connection. Drawn from a small set shared by all hostile
// connections of a run, so that GET and POST halves of different connections do pair (and a
// second POST with a cookie that is already paired arrives now and then).
func cookieOf(mu *peers.Mutator) string {
	if v, ok := mu.Fixed["cookie"]; ok {
		return v
	}
	return []string{"A", "A", "B", mu.Ent}[mu.Pick("cookie", 4)]
}

func mkDesc() *description.Session {
	g := &format.Generic{PayloadTyp: 96, RTPMa: "private/90000"}
	g.Init() //nolint:errcheck
	return &description.Session{Medias: []*description.Media{{Type: description.MediaTypeVideo, Formats: []format.Format{g}, Control: "trackID=0"}}}
}

func ms(n int) time.Duration { return time.Duration(n) * time.Millisecond }
func us(n int) time.Duration { return time.Duration(n) * time.Microsecond }

// build renders a template into bytes.
func build(tmpl string, scheme string, sess string, idx int, mu *peers.Mutator) []byte {
	host := "10.0.0.1:8554"
	u := func(p string) *base.URL {
		x, _ := base.ParseURL(scheme + "://" + host + p)
		return x
	}
	hdr := base.Header{}
	if sess != "" {
		hdr["Session"] = base.HeaderValue{sess}
	}
	hdr["CSeq"] = base.HeaderValue{fmt.Sprint(idx + 1)}
	hdr["User-Agent"] = base.HeaderValue{"hostile"}
	marshal := func(req *base.Request) []byte {
		b, _ := req.Marshal()
		return b
	}
	pub := fmt.Sprintf("/pub%s", mu.Ent)
	switch tmpl {
	case "options":
		return marshal(&base.Request{Method: base.Options, URL: u("/stream"), Header: hdr})
	case "describe":
		return marshal(&base.Request{Method: base.Describe, URL: u("/stream"), Header: hdr})
	case "setup-udp", "setup-tcp", "setup-rec-udp", "setup-rec-tcp", "setup-rec-udp0":
		th := headers.Transport{Delivery: ptrOf(headers.TransportDeliveryUnicast)}
		// the secure profile: on TLS servers, and (less often) on plain ones, where it must be refused;
		// with a garbage key-management header or a fully valid one
		if (scheme == "rtsps" && mu.Chance("savp", 0.5)) || (scheme == "rtsp" && mu.Chance("savp-plain", 0.25)) {
			th.Profile = headers.TransportProfileSAVP
			hdr["KeyMgmt"] = base.HeaderValue{"prot=mikey;uri=\"" + scheme + "://" + host + "/stream\";data=\"" + base64.StdEncoding.EncodeToString(mu.Garbage(60)) + "\""}
			if mu.Chance("validkm", 0.5) {
				if km, err := gortsplib.VerifKeyMgmtHeader(scheme+"://"+host+"/stream/trackID=0", mu.Garbage(30), []uint32{0x11223344}); err == nil {
					hdr["KeyMgmt"] = km
				}
			}
		}
		if strings.HasSuffix(tmpl, "udp") || strings.HasSuffix(tmpl, "udp0") {
			th.Protocol = headers.TransportProtocolUDP
			p := 30000 + 2*mu.Pick("port", 500)
			th.ClientPorts = &[2]int{p, p + 1}
			if mu.Chance("port0", 0.15) || tmpl == "setup-rec-udp0" {
				// ports the server cannot send to (sendto() to port 0 fails)
				th.ClientPorts = &[2]int{0, 1}
			}
		} else {
			th.Protocol = headers.TransportProtocolTCP
			c := 2 * mu.Pick("chan", 4)
			th.InterleavedIDs = &[2]int{c, c + 1}
		}
		path := "/stream/trackID=0"
		if strings.Contains(tmpl, "rec") {
			th.Mode = ptrOf(headers.TransportModeRecord)
			path = pub + "/trackID=0"
		}
		hdr["Transport"] = th.Marshal()
		return marshal(&base.Request{Method: base.Setup, URL: u(path), Header: hdr})
	case "play":
		return marshal(&base.Request{Method: base.Play, URL: u("/stream"), Header: hdr})
	case "pause":
		return marshal(&base.Request{Method: base.Pause, URL: u("/stream"), Header: hdr})
	case "teardown":
		return marshal(&base.Request{Method: base.Teardown, URL: u("/stream"), Header: hdr})
	case "getparam":
		return marshal(&base.Request{Method: base.GetParameter, URL: u("/stream"), Header: hdr})
	case "star":
		// "*" as request URL (legal for OPTIONS; some clients use it for keep-alives), with the
		// session header of this connection's session if it has one
		m := []string{"GET_PARAMETER", "OPTIONS", "SET_PARAMETER", "PLAY", "PAUSE", "TEARDOWN", "SETUP", "DESCRIBE"}[mu.Pick("starm", 8)]
		b := m + " * RTSP/1.0\r\nCSeq: " + fmt.Sprint(idx+1) + "\r\n"
		if sess != "" {
			b += "Session: " + sess + "\r\n"
		}
		return []byte(b + "\r\n")
	case "setparam":
		hdr["Content-Type"] = base.HeaderValue{"text/parameters"}
		return marshal(&base.Request{Method: base.SetParameter, URL: u("/stream"), Header: hdr, Body: []byte("a: b\r\n")})
	case "announce":
		d := mkDesc()
		body, _ := d.Marshal()
		hdr["Content-Type"] = base.HeaderValue{"application/sdp"}
		return marshal(&base.Request{Method: base.Announce, URL: u(pub), Header: hdr, Body: body})
	case "record":
		return marshal(&base.Request{Method: base.Record, URL: u(pub), Header: hdr})
	case "frame":
		return mu.Frame()
	case "garbage":
		return mu.Garbage(1 + mu.Pick("glen", 3000))
	case "response":
		return []byte("RTSP/1.0 200 OK\r\nCSeq: 1\r\n\r\n")
	case "http-get":
		return []byte("GET /stream HTTP/1.1\r\nHost: " + host + "\r\nX-Sessioncookie: cookie" + cookieOf(mu) + "\r\nAccept: application/x-rtsp-tunnelled\r\nContent-Length: 30000\r\n\r\n")
	case "http-post":
		return []byte("POST /stream HTTP/1.1\r\nHost: " + host + "\r\nX-Sessioncookie: cookie" + cookieOf(mu) + "\r\nContent-Type: application/x-rtsp-tunnelled\r\nContent-Length: 30000\r\n\r\n")
	case "b64":
		inner := marshal(&base.Request{Method: base.Options, URL: u("/stream"), Header: hdr})
		if mu.Chance("b64garbage", 0.4) {
			inner = mu.Garbage(50)
		}
		s := base64.StdEncoding.EncodeToString(inner)
		if mu.Chance("b64cut", 0.3) && len(s) > 3 {
			s = s[:len(s)-1-mu.Pick("cut", 3)] // break the padding / quantum
		}
		return []byte(s)
	case "ws-upgrade":
		return []byte("GET /stream HTTP/1.1\r\nHost: " + host + "\r\nConnection: Upgrade\r\nUpgrade: websocket\r\nSec-WebSocket-Protocol: rtsp.onvif.org\r\nSec-WebSocket-Version: 13\r\nSec-WebSocket-Key: dGhlIHNhbXBsZSBub25jZQ==\r\n\r\n")
	case "ws-frame":
		// a masked binary frame carrying an RTSP request (or garbage)
		inner := marshal(&base.Request{Method: base.Options, URL: u("/stream"), Header: hdr})
		if mu.Chance("wsgarbage", 0.4) {
			inner = mu.Garbage(1 + mu.Pick("wslen", 300))
		}
		var f []byte
		op := []byte{0x82, 0x81, 0x88, 0x89, 0x02, 0x80}[mu.Pick("wsop", 6)]
		f = append(f, op)
		mask := []byte{1, 2, 3, 4}
		switch {
		case len(inner) < 126:
			f = append(f, 0x80|byte(len(inner)))
		default:
			f = append(f, 0x80|126)
			var l [2]byte
			binary.BigEndian.PutUint16(l[:], uint16(len(inner)))
			f = append(f, l[:]...)
		}
		f = append(f, mask...)
		for i, b := range inner {
			f = append(f, b^mask[i%4])
		}
		return f
	}
	return nil
}

func ptrOf[T any](v T) *T { return &v }

func libGoroutines(self int) int {
	n := 0
	for _, g := range core.BubbleOthers(self, nil) {
		if strings.Contains(g.CreatedBy, "verifsim/") {
			continue
		}
		if g.Has("gortsplib/v5") {
			n++
		}
	}
	return n
}

func run(t *testing.T, sc Scenario) *core.Result {
	opts := sys.Options{Seed: sc.Seed, Net: sc.Net, Yields: sc.Yields, MaxHold: 50 * time.Millisecond, MaxSteps: 600000, Horizon: 20 * time.Minute}
	var summary map[string]any
	res := sys.Run(t, opts, func(w *sys.World) {
		w.ProbeInit("hostile_got_response", "hostile_closed_by_server", "hostile_session_opened", "hostile_tls_handshake", "http_tunnel_attempt",
			"ws_attempt", "second_conn_same_address", "second_conn_uses_first_session", "silent_peer_expired", "hostile_stopped_reading", "deaf_peer_expired", "fresh_client_served", "good_packets", "cleanup_verified", "app_closed_hostile_conn")
		rootGID := core.GoID()
		srvNode := w.Net.Node("srv", "10.0.0.1")
		h := sys.NewHandler(w)
		if sc.AppClose > 0 {
			var hmu sync.Mutex
			seen := map[*gortsplib.ServerConn]int{}
			h.Hook = func(cb sys.CB) {
				switch cb.Kind {
				case "describe", "announce", "setup", "play", "record", "pause", "getparam", "setparam":
				default:
					return
				}
				if cb.Conn == nil {
					return
				}
				ra, _ := cb.Conn.NetConn().RemoteAddr().(*net.TCPAddr)
				if ra == nil || !ra.IP.Equal(net.ParseIP("10.0.0.100")) && !ra.IP.Equal(net.ParseIP("10.0.0.101")) && !ra.IP.Equal(net.ParseIP("10.0.0.102")) && !ra.IP.Equal(net.ParseIP("10.0.0.103")) {
					return
				}
				hmu.Lock()
				seen[cb.Conn]++
				n := seen[cb.Conn]
				hmu.Unlock()
				if n == sc.AppClose {
					w.Probe("app_closed_hostile_conn")
					cb.Conn.Close()
				}
			}
		}
		srv := &gortsplib.Server{RTSPAddress: "10.0.0.1:8554", Handler: sys.WrapHandler(sc.Handler, h),
			IdleTimeout: ms(sc.IdleMS), ReadTimeout: ms(sc.ReadMS), WriteTimeout: ms(sc.ReadMS)}
		if sc.UDP {
			srv.UDPRTPAddress, srv.UDPRTCPAddress = "10.0.0.1:8000", "10.0.0.1:8001"
		}
		if sc.Net.Window > 0 {
			// runs with a peer that stops reading: a short queue, so that it is full for most of the time
			// until the peer is cut off (what is written for the others must still reach them)
			srv.WriteQueueSize = 8
		}
		scheme := "rtsp"
		if sc.Secure {
			srv.TLSConfig = sys.ServerTLSConfig()
			scheme = "rtsps"
		}
		h.Server = srv
		sys.WireServer(srv, srvNode, nil)
		if err := srv.Start(); err != nil {
			w.Fail("c11/api-error server", "Server.Start: %v", err)
			return
		}
		desc := mkDesc()
		stream := &gortsplib.ServerStream{Server: srv, Desc: desc}
		if err := stream.Initialize(); err != nil {
			w.Fail("c11/api-error server", "stream: %v", err)
			return
		}
		h.SetStream("/stream", stream)

		stop := make(chan struct{})
		w.Go("writer", func() {
			for c := 0; ; c++ {
				select {
				case <-stop:
					return
				default:
				}
				p := make([]byte, payloadLen(&sc))
				binary.BigEndian.PutUint32(p[0:], 0xC0110000)
				binary.BigEndian.PutUint32(p[4:], uint32(c))
				stream.WritePacketRTP(desc.Medias[0], &rtp.Packet{Header: rtp.Header{Version: 2, PayloadType: 96, SequenceNumber: uint16(c), Timestamp: uint32(c * 3000)}, Payload: p}) //nolint:errcheck
				time.Sleep(20 * time.Millisecond)
			}
		})

		// ---- the well-behaved client ---------------------------------------------------
		newClient := func(node *simnet.Node, tr string) *gortsplib.Client {
			p := gortsplib.ProtocolTCP
			if tr == "udp" {
				p = gortsplib.ProtocolUDP
			}
			c := &gortsplib.Client{Scheme: scheme, Host: "10.0.0.1:8554", Protocol: &p}
			if sc.Secure {
				c.TLSConfig = sys.ClientTLSConfig()
			}
			sys.WireClient(c, node, w.Net, nil)
			c.OnPacketsLost = func(uint64) {}
			c.OnDecodeError = func(error) {}
			return c
		}
		var gmu sync.Mutex
		goodLast := -1
		goodCount := 0
		goodDied := error(nil)
		playClient := func(c *gortsplib.Client, onPkt func(int)) error {
			u, _ := base.ParseURL(scheme + "://10.0.0.1:8554/stream")
			if err := c.Start(); err != nil {
				return err
			}
			d, _, err := c.Describe(u)
			if err != nil {
				return err
			}
			if err := c.SetupAll(d.BaseURL, d.Medias); err != nil {
				return err
			}
			c.OnPacketRTPAny(func(_ *description.Media, _ format.Format, pkt *rtp.Packet) {
				if len(pkt.Payload) == payloadLen(&sc) && binary.BigEndian.Uint32(pkt.Payload) == 0xC0110000 {
					onPkt(int(binary.BigEndian.Uint32(pkt.Payload[4:])))
				} else {
					onPkt(-1)
				}
			})
			_, err = c.Play(nil)
			return err
		}

		type phase struct {
			counts  gortsplib.VerifServerCounts
			readers int
			active  int
			gor     int
			socks   []string
		}
		snapshot := func() phase {
			var p phase
			p.counts = srv.VerifCounts()
			p.readers, p.active = stream.VerifCounts()
			p.gor = libGoroutines(rootGID)
			p.socks = w.Net.OpenSockets("srv")
			return p
		}

		good := newClient(w.Net.Node("good", "10.0.0.50"), sc.GoodTr)
		hostileDone := make(chan struct{})
		var baseline phase
		nHostileSess := 0

		w.Go("good", func() {
			defer close(stop)
			defer good.Close()
			err := playClient(good, func(c int) {
				gmu.Lock()
				defer gmu.Unlock()
				if c < 0 {
					w.Fail("c11/good-client corrupted", "the well-behaved client received a packet that was never written")
					return
				}
				if c <= goodLast {
					w.Fail("c11/good-client order", "the well-behaved client received packet %d after %d", c, goodLast)
					return
				}
				if sc.GoodTr == "tcp" && goodLast >= 0 && c != goodLast+1 {
					w.Fail("c11/good-client gap", "the well-behaved client (interleaved) missed packets %d..%d while hostile connections were active", goodLast+1, c-1)
					return
				}
				goodLast = c
				goodCount++
			})
			if err != nil {
				w.Fail("c11/good-client api", "the well-behaved client could not play: %v", err)
				return
			}
			go func() {
				e := good.Wait()
				gmu.Lock()
				goodDied = e
				gmu.Unlock()
			}()
			time.Sleep(150 * time.Millisecond)
			baseline = snapshot()
			close(hostileDone) // hostile connections may start now
			// stay until the hostile phase and the cleanup check are over
			w.WaitDrivers("judge")
		})

		// ---- hostile connections ---------------------------------------------------------
		var hnames []string
		type hstate struct {
			lastByte time.Duration
			closedBy string // "server" | "self" | ""
			closedAt time.Duration
			port     int
		}
		hs := make([]*hstate, len(sc.Hostile))
		var sess0 atomic.Value // session id obtained by hostile connection 0
		since := func() time.Duration { return time.Since(w.Log.Start()) }
		for i, hc := range sc.Hostile {
			name := fmt.Sprintf("hostile%d", i)
			hnames = append(hnames, name)
			node := w.Net.Node(name, fmt.Sprintf("10.0.0.%d", 100+i))
			if hc.SameHost {
				node = w.Net.Node("hostile0", "10.0.0.100")
				w.Probe("second_conn_same_address")
			}
			st := &hstate{}
			hs[i] = st
			w.Go(name, func() {
				<-hostileDone
				if w.Failed() {
					return
				}
				time.Sleep(us(hc.StartUS))
				ctx, cancel := context.WithTimeout(context.Background(), 10*time.Second)
				nc, err := node.DialContext(ctx, "tcp", "10.0.0.1:8554")
				cancel()
				if err != nil {
					w.Fail("c11/alive server", "hostile peer cannot even connect: %v", err)
					return
				}
				st.port = nc.LocalAddr().(*net.TCPAddr).Port
				raw := nc.(*simnet.Conn)
				var conn net.Conn = nc
				if hc.TLS {
					tc := tls.Client(nc, sys.ClientTLSConfig())
					hctx, hcancel := context.WithTimeout(context.Background(), 10*time.Second)
					err := tc.HandshakeContext(hctx)
					hcancel()
					if err != nil {
						nc.Close()
						st.closedBy = "self"
						return
					}
					conn = tc
					w.Probe("hostile_tls_handshake")
				}
				rc := peers.NewRawConn(conn)
				mu := &peers.Mutator{Seed: sc.Seed, Ent: fmt.Sprint(i)}
				if hc.Cookie != "" {
					mu.Fixed = map[string]string{"cookie": hc.Cookie}
				}
				sess := ""
				for k, m := range hc.Msgs {
					if m.GapUS > 0 {
						time.Sleep(us(m.GapUS))
					}
					if hc.SameHost && sess == "" {
						if v, ok := sess0.Load().(string); ok && v != "" {
							sess = v
							w.Probe("second_conn_uses_first_session")
						}
					}
					b := build(m.Tmpl, scheme, sess, k, mu)
					if m.Mut {
						var kind string
						b, kind = mu.Mutate(b)
						w.Fault("hostile.mut." + kind)
					}
					w.Fault("hostile.msg." + m.Tmpl)
					switch m.Tmpl {
					case "http-get", "http-post", "b64":
						w.Probe("http_tunnel_attempt")
					case "ws-upgrade", "ws-frame":
						w.Probe("ws_attempt")
					}
					if len(b) == 0 {
						continue
					}
					if err := rc.WriteRaw(b); err != nil {
						st.closedBy = "server"
						st.closedAt = since()
						break
					}
					st.lastByte = since()
					if hc.End == "deaf" && k == hc.DeafAt {
						raw.Stall(3 * time.Minute)
						w.Probe("hostile_stopped_reading")
					}
					if m.Read && !(hc.End == "deaf" && k >= hc.DeafAt) {
						conn.SetReadDeadline(time.Now().Add(300 * time.Millisecond))
						what, err := rc.C.Read()
						if err == nil {
							if res, ok := what.(*base.Response); ok {
								w.Probe("hostile_got_response")
								if v, ok := res.Header["Session"]; ok {
									var sx headers.Session
									if sx.Unmarshal(v) == nil {
										sess = sx.Session
										if i == 0 {
											sess0.Store(sess)
										}
									}
								}
							}
						} else if !strings.Contains(err.Error(), "timeout") {
							// EOF / reset: the server closed on us
							st.closedBy = "server"
							st.closedAt = since()
							break
						}
					}
				}
				if st.closedBy == "server" {
					w.Probe("hostile_closed_by_server")
					conn.Close()
					return
				}
				switch hc.End {
				case "close":
					conn.Close()
					st.closedBy = "self"
					st.closedAt = since()
				case "rst":
					raw.Reset()
					nc.Close()
					st.closedBy = "self"
					st.closedAt = since()
				case "deaf":
					// never reads again, says nothing more: the server must still get rid of the connection
					// (its writes run into WriteTimeout, its reads into the idle / read timeouts)
					limit := time.Duration(sc.IdleMS+3*sc.ReadMS)*time.Millisecond + 6*time.Second + 2*time.Second
					time.Sleep(limit)
					if p := raw.Peer(); p != nil && !p.IsClosed() {
						w.Fail("c11/hostile-conn kept", "a hostile connection that stopped reading after message %d (script %s, last byte at t=%v) was not closed within IdleTimeout+3xReadTimeout(=WriteTimeout)+8s = %v",
							hc.DeafAt, describe(hc.Msgs), st.lastByte, limit)
					} else {
						st.closedBy = "server"
						st.closedAt = since()
						w.Probe("deaf_peer_expired")
					}
					nc.Close()
				case "silent":
					// keep the connection open and say nothing: the server must get rid of it within its timeouts
					limit := time.Duration(sc.IdleMS+sc.ReadMS)*time.Millisecond + 6*time.Second + 2*time.Second
					conn.SetReadDeadline(time.Now().Add(limit))
					buf := make([]byte, 4096)
					for {
						_, err := conn.Read(buf)
						if err != nil {
							if strings.Contains(err.Error(), "timeout") {
								w.Fail("c11/hostile-conn kept", "a silent hostile connection (last byte at t=%v, script %s) was neither answered nor closed within IdleTimeout+ReadTimeout+6s+2s = %v",
									st.lastByte, describe(hc.Msgs), limit)
							} else {
								st.closedBy = "server"
								st.closedAt = since()
								w.Probe("silent_peer_expired")
							}
							break
						}
					}
					conn.Close()
				}
			})
		}

		// ---- judge: after the hostile phase, cleanup must be complete ---------------------
		w.Go("judge", func() {
			<-hostileDone
			w.WaitDrivers(hnames...)
			if w.Failed() {
				return
			}
			// let every timeout elapse: sessions opened by hostile peers over UDP expire by timer
			time.Sleep(ms(sc.IdleMS+sc.ReadMS) + 6*time.Second + 3*time.Second)
			for _, cb := range h.Callbacks() {
				if cb.Kind == "session.open" {
					nHostileSess++
				}
			}
			nHostileSess-- // the well-behaved client's
			if nHostileSess > 0 {
				w.ProbeAdd("hostile_session_opened", nHostileSess)
			}
			gmu.Lock()
			died := goodDied
			gmu.Unlock()
			if died != nil {
				w.Fail("c11/good-client dropped", "the well-behaved client was disconnected while hostile connections were active: %v", died)
				return
			}
			after := snapshot()
			if after.counts != baseline.counts {
				w.Fail("c11/cleanup registries", "server registries did not return to the baseline after the hostile connections ended and all timeouts elapsed: baseline %+v, now %+v", baseline.counts, after.counts)
				return
			}
			if after.readers != baseline.readers || after.active != baseline.active {
				w.Fail("c11/cleanup stream-readers", "stream reader slots: baseline %d/%d active, now %d/%d", baseline.readers, baseline.active, after.readers, after.active)
				return
			}
			if fmt.Sprint(after.socks) != fmt.Sprint(baseline.socks) {
				w.Fail("c11/cleanup sockets", "server node sockets: baseline %v, now %v", baseline.socks, after.socks)
				return
			}
			if after.gor != baseline.gor {
				w.Fail("c11/cleanup goroutines", "library goroutines: baseline %d, now %d: %s", baseline.gor, after.gor, core.Describe(core.BubbleOthers(rootGID, func(g *core.G) bool {
					return g.Has("gortsplib/v5") && !strings.Contains(g.CreatedBy, "verifsim/")
				})))
				return
			}
			w.Probe("cleanup_verified")
			// a fresh well-behaved client is served
			fresh := newClient(w.Net.Node("fresh", "10.0.0.60"), "tcp")
			got := 0
			err := playClient(fresh, func(int) { got++ })
			if err != nil {
				w.Fail("c11/fresh-client refused", "after the hostile phase a fresh client could not DESCRIBE/SETUP/PLAY: %v", err)
				return
			}
			time.Sleep(300 * time.Millisecond)
			fresh.Close()
			if got == 0 {
				w.Fail("c11/fresh-client starved", "the fresh client played but received no packet in 300 ms")
				return
			}
			w.Probe("fresh_client_served")
		})

		w.Go("closer", func() {
			w.WaitDrivers(append([]string{"good", "judge", "writer"}, hnames...)...)
			stream.Close()
			srv.Close()
		})

		w.AtEnd(func() {
			if w.Failed() {
				return
			}
			// every connection notification is balanced
			opens, closes := map[*gortsplib.ServerConn]int{}, map[*gortsplib.ServerConn]int{}
			for _, cb := range h.Callbacks() {
				if cb.Kind == "conn.open" {
					opens[cb.Conn]++
				}
				if cb.Kind == "conn.close" {
					closes[cb.Conn]++
				}
			}
			for c, n := range opens {
				if n != 1 || closes[c] != 1 {
					w.Fail("c11/cleanup conn-close", "connection %v: %d OnConnOpen, %d OnConnClose", c.NetConn().RemoteAddr(), n, closes[c])
					return
				}
			}
			gmu.Lock()
			if goodCount > 0 {
				w.Probe("good_packets")
			}
			summary = map[string]any{"hostile": len(sc.Hostile), "good_packets": goodCount, "hostile_sessions": nHostileSess}
			gmu.Unlock()
		})
	})
	res.Nontrivial = res.Probes["cleanup_verified"] > 0 && res.Probes["good_packets"] > 0
	res.Sample = summary
	return res
}

func describe(ms []Msg) string {
	var b strings.Builder
	for _, m := range ms {
		b.WriteString(m.Tmpl)
		if m.Mut {
			b.WriteString("*")
		}
		b.WriteString(" ")
	}
	return b.String()
}

func shrink(sc Scenario) []Scenario {
	var out []Scenario
	clone := func() Scenario {
		c := sc
		c.Hostile = make([]Hostile, len(sc.Hostile))
		for i, h := range sc.Hostile {
			c.Hostile[i] = h
			c.Hostile[i].Msgs = append([]Msg(nil), h.Msgs...)
		}
		return c
	}
	for i := range sc.Hostile {
		if len(sc.Hostile) > 1 {
			c := clone()
			c.Hostile = append(c.Hostile[:i], c.Hostile[i+1:]...)
			out = append(out, c)
		}
	}
	for i, h := range sc.Hostile {
		for k := range h.Msgs {
			if len(h.Msgs) > 1 {
				c := clone()
				c.Hostile[i].Msgs = append(c.Hostile[i].Msgs[:k], c.Hostile[i].Msgs[k+1:]...)
				out = append(out, c)
			}
		}
		for k, m := range h.Msgs {
			if m.Mut {
				c := clone()
				c.Hostile[i].Msgs[k].Mut = false
				out = append(out, c)
			}
			if m.GapUS != 0 {
				c := clone()
				c.Hostile[i].Msgs[k].GapUS = 0
				out = append(out, c)
			}
		}
		if h.End != "close" {
			c := clone()
			c.Hostile[i].End = "close"
			out = append(out, c)
		}
		if h.StartUS != 0 {
			c := clone()
			c.Hostile[i].StartUS = 0
			out = append(out, c)
		}
	}
	if sc.Secure {
		c := clone()
		c.Secure = false
		for i := range c.Hostile {
			c.Hostile[i].TLS = false
		}
		out = append(out, c)
	}
	if sc.Handler != "full" {
		c := clone()
		c.Handler = "full"
		out = append(out, c)
	}
	if sc.Net.ChunkMode != 0 {
		c := clone()
		c.Net.ChunkMode = 0
		out = append(out, c)
	}
	if sc.GoodTr != "tcp" {
		c := clone()
		c.GoodTr = "tcp"
		out = append(out, c)
	}
	return out
}

func init() {
	f := core.Register("C11", gen, run, shrink)
	f.Real = []string{"gortsplib.Server, ServerConn, ServerSession, ServerStream, HTTP / WebSocket tunnel code, wrapped SRTP context; gortsplib.Client as the well-behaved and the fresh peer", "net/http request parsing, gorilla/websocket, crypto/tls"}
	f.Simulated = []string{"TCP/UDP sockets (simnet), clock (fake), entropy", "hostile peers: scripted harness code"}
	f.Excluded = []string{"UDP-multicast", "hostile UDP datagrams (C19 owns spoofed media)"}
	f.Rule = "scenario = server configuration (5 handler subsets, UDP on/off, TLS on/off, seeded idle/read timeouts) x 1..4 simultaneous hostile connections, each a seeded script of 1..8 messages drawn from 22 templates (valid play/record conversations, interleaved frames in any state, HTTP tunnel GET/POST + base64 blocks, WebSocket upgrade + frames, garbage, responses), 45% mutated by 16 grammar/byte-level mutation kinds, under every chunking mode, ending in close / RST / silence / deafness, next to a well-behaved playing client; second connections from the address of the first; 20%: the application calls ServerConn.Close from inside the n-th method callback of a hostile connection while more requests are pipelined behind it; 6%: one GET half and 2..4 POST halves with its cookie from one address a few simulated ms apart; seeded holds at the 5 yield sites of the connection shutdown path; non-trivial = the cleanup comparison ran and the well-behaved client received packets; distinct = distinct canonical event log"
	f.Assumptions = []string{
		"'within its timeouts' = IdleTimeout + ReadTimeout + 6 s (the HTTP tunnel pairing wait is a fixed 5 s) + 2 s budget after the hostile peer's last byte",
		"cleanup is judged by comparing server registries, stream reader slots, server-node sockets and the number of library goroutines with a baseline taken while only the well-behaved client was playing, after all timeouts have elapsed",
	}
}
