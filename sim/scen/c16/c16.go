// Package c16 decides C16 (outbound write queue: FIFO, bounded, loss only
// when signalled) by fully controlled schedule simulation of the real
// ringbuffer.RingBuffer and asyncprocessor.Processor (DESIGN 3.11).
package c16

import (
	"errors"
	"fmt"
	"sort"
	"strings"
	"sync"
	"sync/atomic"
	"testing"
	"testing/synctest"
	"time"

	"context"

	"github.com/anishathalye/porcupine"
	gortsplib "github.com/bluenviron/gortsplib/v5"
	"github.com/bluenviron/gortsplib/v5/pkg/ringbuffer"
	"github.com/bluenviron/gortsplib/v5/pkg/verifhook"

	"verifsim/core"
)

// Op is one scripted operation of a task.
type Op struct {
	Kind string `json:"k"` // push | pull | close | start
	V    int    `json:"v,omitempty"`
}

// Task is a scripted caller thread.
type Task struct {
	Name string `json:"name"`
	Ops  []Op   `json:"ops"`
}

// Scenario is one schedule of one workload. Sub > 1 runs several schedule
// seeds (Seed, Seed+1, ...) of the same workload inside one bubble.
type Scenario struct {
	Seed     uint64 `json:"seed"`
	Sub      int    `json:"sub"`
	Mode     string `json:"mode"` // ring | proc | seq (one caller, ring buffer vs. the sequential reference model)
	Cap      int    `json:"cap"`
	FailItem int    `json:"fail_item"` // proc: id of the item whose execution fails, 0 = none
	Tasks    []Task `json:"tasks"`
	// SeqOps (mode seq): push / pull / close / reset, executed by one goroutine.
	SeqOps []Op `json:"seq_ops,omitempty"`
	// CapSpec (mode cap): the queue behind the library's media entry points, see cap.go.
	CapSpec *CapSpec `json:"cap_spec,omitempty"`
	// NoYield lists site names that do not park in this run (minimisation).
	NoYield []string `json:"no_yield,omitempty"`
}

func gen(seed uint64, tier string) Scenario {
	r := core.NewRand(seed, "c16")
	sc := Scenario{Seed: seed, Sub: 16}
	if r.Bool(0.35) {
		sc.Mode = "ring"
	} else {
		sc.Mode = "proc"
	}
	caps := []int{1, 1, 2, 2, 4, 4, 8, 16, 32, 64, 128, 256}
	sc.Cap = caps[r.Intn(len(caps))]
	// a tenth of the runs: the sequential case (hash-derived so that no other choice moves)
	switch x := core.HS(seed, "c16.seq", "", 0) % 100; {
	case x < 10:
		return genSeq(seed, sc.Cap)
	case x < 18:
		return genCap(seed)
	}
	// Concurrency and history length are balanced so that the linearizability
	// check stays tractable (concurrent unresolved pushes multiply FIFO states).
	var np, maxPer int
	switch u := r.Float(); {
	case u < 0.5:
		np, maxPer = r.Range(1, 3), 6
	case u < 0.8:
		np, maxPer = r.Range(4, 5), 3
	default:
		np, maxPer = r.Range(6, 8), 2
	}
	item := 1
	total := 0
	for p := 0; p < np; p++ {
		n := r.Range(1, maxPer)
		t := Task{Name: fmt.Sprintf("P%d", p)}
		for i := 0; i < n; i++ {
			t.Ops = append(t.Ops, Op{Kind: "push", V: item})
			item++
		}
		total += n
		sc.Tasks = append(sc.Tasks, t)
	}
	switch sc.Mode {
	case "ring":
		c := Task{Name: "C"}
		n := total
		if r.Bool(0.25) {
			n = r.Range(1, total)
		}
		for i := 0; i < n; i++ {
			c.Ops = append(c.Ops, Op{Kind: "pull"})
		}
		sc.Tasks = append(sc.Tasks, c)
		if r.Bool(0.5) {
			sc.Tasks = append(sc.Tasks, Task{Name: "X", Ops: []Op{{Kind: "close"}}})
		}
	default:
		o := Task{Name: "O"}
		switch r.Intn(6) {
		case 0:
			o.Ops = []Op{{Kind: "close"}} // closed before ever started
		case 1, 2:
			o.Ops = []Op{{Kind: "start"}}
		default:
			o.Ops = []Op{{Kind: "start"}, {Kind: "close"}}
		}
		sc.Tasks = append(sc.Tasks, o)
		if r.Bool(0.3) {
			sc.FailItem = 1 + r.Intn(item-1)
		}
	}
	return sc
}

// genSeq builds a sequential operation series for one caller: phases that fill the ring to a
// seeded level (often exactly its capacity, or one below / above), drain part of it, close,
// pull after the close, reset and go on. A Pull is generated only where the reference model
// says it returns at once (something queued, or closed); no Push between Close and Reset
// (the statement does not say what a push into a closed queue does).
func genSeq(seed uint64, capacity int) Scenario {
	r := core.NewRand(seed, "c16.seq")
	sc := Scenario{Seed: seed, Sub: 1, Mode: "seq", Cap: capacity}
	n, closed := 0, false // model: queued items, closed
	item := 1
	phases := r.Range(2, 8)
	for p := 0; p < phases && len(sc.SeqOps) < 1500; p++ {
		if closed {
			for k := r.Range(0, 2); k > 0; k-- {
				sc.SeqOps = append(sc.SeqOps, Op{Kind: "pull"})
			}
			if r.Bool(0.2) {
				sc.SeqOps = append(sc.SeqOps, Op{Kind: "close"})
			}
			sc.SeqOps = append(sc.SeqOps, Op{Kind: "reset"})
			n, closed = 0, false
			continue
		}
		// fill
		target := []int{capacity, capacity, capacity - 1, capacity + 1, capacity + 3, r.Range(0, capacity), 1}[r.Intn(7)]
		for n2 := n; n2 < target; n2++ {
			sc.SeqOps = append(sc.SeqOps, Op{Kind: "push", V: item})
			item++
			if n < capacity {
				n++
			}
		}
		// drain some
		if n > 0 && r.Bool(0.7) {
			k := []int{1, n, n / 2, r.Range(1, n)}[r.Intn(4)]
			if k < 1 {
				k = 1
			}
			for ; k > 0 && n > 0; k-- {
				sc.SeqOps = append(sc.SeqOps, Op{Kind: "pull"})
				n--
			}
		}
		if r.Bool(0.6) {
			sc.SeqOps = append(sc.SeqOps, Op{Kind: "close"})
			n, closed = 0, true
		}
	}
	if closed {
		sc.SeqOps = append(sc.SeqOps, Op{Kind: "pull"})
	}
	return sc
}

// runSeq executes a sequential series against the reference model: a FIFO of at most Cap
// items; Push is refused exactly when it holds Cap items; Close empties it and makes Pull
// return false; Reset empties it and reopens it.
func runSeq(sc *Scenario) (oc outcome) {
	oc.probes = map[string]int{}
	verifhook.Yield = nil
	rb, err := ringbuffer.New(uint64(sc.Cap))
	if err != nil {
		oc.viol = core.Viol("c16/config", "ringbuffer.New(%d) failed: %v", sc.Cap, err)
		return
	}
	var q []int
	closed := false
	fail := func(i int, f string, a ...any) {
		if oc.viol == nil {
			oc.viol = core.Viol("c16/sequential model", "capacity %d, operation #%d: %s", sc.Cap, i, fmt.Sprintf(f, a...))
		}
	}
	for i, op := range sc.SeqOps {
		oc.trace = append(oc.trace, op.Kind)
		switch op.Kind {
		case "push":
			if closed {
				continue // not generated; skipped if minimisation produced it
			}
			ok := rb.Push(op.V)
			want := len(q) < sc.Cap
			if ok != want {
				fail(i, "Push(%d) returned %v with %d of %d slots in use", op.V, ok, len(q), sc.Cap)
				return
			}
			if ok {
				q = append(q, op.V)
				if len(q) == sc.Cap {
					oc.probes["seq_filled_to_capacity"] = 1
				}
			} else {
				oc.probes["push_refused_full"] = 1
			}
		case "pull":
			if len(q) == 0 && !closed {
				continue // would block: not generated
			}
			v, ok := rb.Pull()
			if len(q) > 0 {
				if !ok || v.(int) != q[0] {
					fail(i, "Pull returned (%v, %v), the oldest queued item is %d (queue %v)", v, ok, q[0], q)
					return
				}
				q = q[1:]
			} else if ok {
				fail(i, "Pull returned item %v from a closed, emptied queue", v)
				return
			} else {
				oc.probes["seq_pull_after_close"] = 1
			}
		case "close":
			if len(q) == sc.Cap {
				oc.probes["seq_close_when_full"] = 1
			}
			rb.Close()
			q, closed = nil, true
		case "reset":
			rb.Reset()
			q, closed = nil, false
		}
	}
	oc.ops = len(sc.SeqOps)
	oc.tasks = 1
	return
}

// ---- controlled scheduler ------------------------------------------------

type pk struct {
	site string
	ch   chan struct{}
}

type ctl struct {
	mu      sync.Mutex
	parked  map[string]*pk
	names   map[int]string
	off     map[string]bool
	stamp   atomic.Int64
	enabled atomic.Bool
	// auto: the yield points before every statement of ringbuffer.go are in use, i.e. a caller
	// may also be held inside a critical section (runs with simulation-aware locks)
	auto bool
	// subset != 0: every site is switched off for the run with probability 0.35 (hash of subset and name)
	subset uint64
}

func (c *ctl) yield(site string) {
	if !c.enabled.Load() {
		return
	}
	if !c.auto && strings.HasPrefix(site, "auto:") {
		return
	}
	gid := core.GoID()
	c.mu.Lock()
	if c.subset != 0 {
		// this run uses a seeded subset of the sites (between two operations of a task included:
		// Start directly followed by Close, a Push directly behind a Close ...)
		if _, ok := c.off[site]; !ok {
			c.off[site] = core.HS(c.subset, "c16.site", site, 0)%100 < 35
		}
	}
	if c.off[site] {
		c.mu.Unlock()
		return
	}
	name, ok := c.names[gid]
	if !ok {
		name = "consumer"
	}
	p := &pk{site: site, ch: make(chan struct{})}
	c.parked[name] = p
	c.mu.Unlock()
	<-p.ch
}

func (c *ctl) register(name string) {
	gid := core.GoID()
	c.mu.Lock()
	c.names[gid] = name
	c.mu.Unlock()
}

// ---- history ---------------------------------------------------------------

type hop struct {
	task   string
	kind   string // push | deq | pull | close
	v      int
	ok     bool
	call   int64
	ret    int64
	done   bool
	client int
}

type qin struct {
	kind string
	v    int
}
type qout struct {
	v  int
	ok bool
}

type qstate struct {
	q      string // comma separated ids: comparable
	n      int
	closed bool
}

func model(capacity int) porcupine.Model {
	return porcupine.Model{
		Init: func() any { return qstate{} },
		Step: func(state, input, output any) (bool, any) {
			st := state.(qstate)
			in := input.(qin)
			out := output.(qout)
			if st.closed {
				// The statement says nothing about operations that take effect
				// after Close (the ring keeps accepting pushes and hands them
				// out in slot order): the oracle is silent about them.
				return true, st
			}
			switch in.kind {
			case "push":
				if out.ok {
					if st.n >= capacity {
						return false, st
					}
					if st.n == 0 {
						st.q = fmt.Sprint(in.v)
					} else {
						st.q = st.q + "," + fmt.Sprint(in.v)
					}
					st.n++
					return true, st
				}
				return st.n == capacity, st
			case "deq": // the consumer obtained item out.v
				if st.n == 0 {
					return false, st
				}
				head := st.q
				rest := ""
				if i := strings.IndexByte(st.q, ','); i >= 0 {
					head, rest = st.q[:i], st.q[i+1:]
				}
				if head != fmt.Sprint(out.v) {
					return false, st
				}
				st.q = rest
				st.n--
				return true, st
			case "pullclosed": // Pull returned (nil,false) although not closed
				return false, st
			case "close":
				st.q, st.n, st.closed = "", 0, true
				return true, st
			}
			return false, st
		},
		Equal: func(a, b any) bool { return a.(qstate) == b.(qstate) },
		DescribeOperation: func(input, output any) string {
			return fmt.Sprintf("%v -> %v", input, output)
		},
	}
}

// ---- one schedule ------------------------------------------------------------

type outcome struct {
	viol   *core.Violation
	trace  []string
	probes map[string]int
	incon  int
	ops    int
	tasks  int
	lin    []porcupine.Operation
	hist   string
}

func runOne(sc *Scenario, seed uint64) (oc outcome) {
	oc.probes = map[string]int{}
	c := &ctl{parked: map[string]*pk{}, names: map[int]string{}, off: map[string]bool{}}
	for _, s := range sc.NoYield {
		c.off[s] = true
	}
	// a third of the runs: simulation-aware locks, callers may be held inside the ring buffer's
	// critical sections (a Push that finds the mutex taken must wait, not give up)
	if core.HS(seed, "c16.simlocks", "", 0)%3 == 0 {
		c.auto = true
		verifhook.SimLocks = true
		oc.probes["held_inside_critical_section"] = 1
	}
	if core.HS(seed, "c16.subset", "", 0)%100 < 40 {
		c.subset = core.HS(seed, "c16.subset.seed", "", 0) | 1
		oc.probes["site_subset"] = 1
	}
	verifhook.Yield = c.yield
	defer func() { verifhook.Yield = nil; verifhook.SimLocks = false }()

	var hmu sync.Mutex
	var hist []*hop
	record := func(h *hop) *hop {
		hmu.Lock()
		hist = append(hist, h)
		hmu.Unlock()
		return h
	}

	var rb *ringbuffer.RingBuffer
	var proc *gortsplib.VerifProcessor
	var onErr atomic.Int32
	var execOrder []int
	var execBegin []int64
	var lastExecEnd atomic.Int64
	var consumerFrom atomic.Int64 // stamp from which the consumer may dequeue
	var errExecuted atomic.Bool
	var onErrBegin, onErrEnd atomic.Int64

	if sc.Mode == "ring" {
		var err error
		rb, err = ringbuffer.New(uint64(sc.Cap))
		if err != nil {
			oc.viol = core.Viol("c16/config", "ringbuffer.New(%d) failed: %v", sc.Cap, err)
			return
		}
	} else {
		proc = &gortsplib.VerifProcessor{
			BufferSize: sc.Cap,
			OnError: func(_ context.Context, _ error) {
				onErr.Add(1)
				onErrBegin.Store(c.stamp.Add(1))
				// the error handler takes a while (the library's own handlers block on a channel):
				// a scheduling point inside it
				c.yield("h.onerror")
				onErrEnd.Store(c.stamp.Add(1))
			},
		}
		proc.Initialize()
	}

	mkItem := func(v int) func() error {
		return func() error {
			b := c.stamp.Add(1)
			from := lastExecEnd.Load()
			if from == 0 {
				from = consumerFrom.Load()
			}
			h := record(&hop{task: "consumer", kind: "deq", v: v, ok: true, call: from, ret: b, done: true, client: 99})
			_ = h
			hmu.Lock()
			execOrder = append(execOrder, v)
			execBegin = append(execBegin, b)
			hmu.Unlock()
			e := c.stamp.Add(1)
			lastExecEnd.Store(e)
			if v == sc.FailItem {
				errExecuted.Store(true)
				return errors.New("item failed")
			}
			return nil
		}
	}

	var wg sync.WaitGroup
	finished := map[string]bool{}
	var fmu sync.Mutex
	c.enabled.Store(true)
	for ti, t := range sc.Tasks {
		t := t
		ti := ti
		wg.Add(1)
		go func() {
			defer wg.Done()
			c.register(t.Name)
			for _, op := range t.Ops {
				c.yield("task.op")
				switch op.Kind {
				case "push":
					h := record(&hop{task: t.Name, kind: "push", v: op.V, client: ti})
					h.call = c.stamp.Add(1)
					var ok bool
					if rb != nil {
						ok = rb.Push(op.V)
					} else {
						ok = proc.Push(mkItem(op.V))
					}
					h.ret = c.stamp.Add(1)
					h.ok = ok
					h.done = true
				case "pull":
					h := record(&hop{task: t.Name, kind: "pull", client: ti})
					h.call = c.stamp.Add(1)
					v, ok := rb.Pull()
					h.ret = c.stamp.Add(1)
					h.ok = ok
					if ok {
						h.v = v.(int)
						h.kind = "deq"
					} else {
						h.kind = "pullclosed"
					}
					h.done = true
				case "start":
					consumerFrom.Store(c.stamp.Add(1))
					proc.Start()
				case "close":
					h := record(&hop{task: t.Name, kind: "close", client: ti})
					h.call = c.stamp.Add(1)
					if rb != nil {
						rb.Close()
					} else {
						proc.Close()
					}
					h.ret = c.stamp.Add(1)
					h.done = true
				}
			}
			fmu.Lock()
			finished[t.Name] = true
			fmu.Unlock()
		}()
	}

	// S: release exactly one parked goroutine per step, chosen by hash.
	const maxSteps = 5000
	step := 0
	sticky := core.HS(seed, "c16.sticky", "", 0)%2 == 0
	lastPick := ""
	slow := uint64(0)
	if x := core.HS(seed, "c16.stall", "", 0); x%2 == 0 {
		slow = x | 1
	}
	for ; step < maxSteps; step++ {
		synctest.Wait()
		c.mu.Lock()
		names := make([]string, 0, len(c.parked))
		for n := range c.parked {
			names = append(names, n)
		}
		if len(names) == 0 {
			c.mu.Unlock()
			break
		}
		sort.Strings(names)
		// half of the schedules have "slow sites": a caller parked at one of them (about one site
		// in 16, chosen by hash per schedule) is only released when nobody else can move - it sits
		// between two statements, possibly inside a critical section, while the others run as far as
		// they get. Uniform choice practically never produces this.
		if slow != 0 {
			kept := make([]string, 0, len(names))
			for _, n := range names {
				if core.HS(slow, "c16.slowsite", c.parked[n].site, 0)%16 != 0 {
					kept = append(kept, n)
				}
			}
			if len(kept) > 0 {
				names = kept
			}
		}
		pick := names[core.H(seed, "pick", uint64(step))%uint64(len(names))]
		// half of the schedules are "sticky": the goroutine released last goes on with probability 0.7
		// when it is parked again, so that one caller makes several steps in a row while another sits
		// in the middle of an operation (uniform choice almost never produces such runs of steps)
		if sticky && lastPick != "" && core.H(seed, "stick", uint64(step))%10 < 7 {
			if _, ok := c.parked[lastPick]; ok {
				pick = lastPick
			}
		}
		lastPick = pick
		p := c.parked[pick]
		delete(c.parked, pick)
		c.mu.Unlock()
		oc.trace = append(oc.trace, pick+"@"+p.site)
		close(p.ch)
	}
	synctest.Wait()

	// ---- oracles over the recorded history ---------------------------------
	hmu.Lock()
	h := append([]*hop(nil), hist...)
	eo := append([]int(nil), execOrder...)
	eb := append([]int64(nil), execBegin...)
	hmu.Unlock()
	oc.ops = len(h)
	oc.tasks = len(sc.Tasks)

	closed := false
	var closeRet int64
	accepted := map[int]bool{}
	nAccepted, nRefused := 0, 0
	for _, o := range h {
		if o.kind == "close" && o.done {
			closed = true
			closeRet = o.ret
		}
	}
	for _, o := range h {
		if o.kind == "push" && o.done {
			if o.ok {
				accepted[o.v] = true
				nAccepted++
			} else {
				nRefused++
			}
		}
	}
	if nRefused > 0 {
		oc.probes["push_refused_full"] = 1
	}
	if closed {
		oc.probes["close_in_history"] = 1
	}
	if errExecuted.Load() {
		oc.probes["item_error"] = 1
	}

	fail := func(class, f string, a ...any) {
		if oc.viol == nil {
			oc.viol = core.Viol(class, f, a...)
			oc.viol.Detail += "\ntrace: " + strings.Join(oc.trace, " ") + "\nhistory: " + renderHist(h)
		}
	}

	if step >= maxSteps {
		fail("c16/livelock", "schedule did not terminate in %d steps", maxSteps)
	}

	// every task must have finished, except a consumer legitimately waiting in Pull
	pulled := 0
	for _, o := range h {
		if o.kind == "deq" && o.task != "consumer" {
			pulled++
		}
	}
	if sc.Mode == "ring" {
		for _, t := range sc.Tasks {
			fmu.Lock()
			fin := finished[t.Name]
			fmu.Unlock()
			if fin {
				continue
			}
			if t.Name == "C" {
				// blocked in Pull: legitimate only if nothing is available and the ring is open
				if closed {
					fail("c16/lost-wakeup consumer", "consumer still blocked in Pull although Close returned")
				} else if nAccepted-pulled > 0 {
					fail("c16/lost-wakeup consumer", "consumer blocked in Pull with %d accepted items not yet pulled", nAccepted-pulled)
				} else {
					oc.probes["consumer_waiting_at_end"] = 1
				}
				continue
			}
			fail("c16/stuck task", "task %s never finished (blocked forever)", t.Name)
		}
	} else {
		for _, t := range sc.Tasks {
			fmu.Lock()
			fin := finished[t.Name]
			fmu.Unlock()
			if !fin {
				fail("c16/stuck task", "task %s never finished (blocked forever)", t.Name)
			}
		}
		started := consumerFrom.Load() != 0
		// lost wake-up: consumer running, no close, no error, and accepted items not executed
		if started && !closed && !errExecuted.Load() && len(eo) < nAccepted {
			fail("c16/lost-wakeup consumer", "%d items accepted, only %d executed, consumer idle and queue open", nAccepted, len(eo))
		}
		// at most once
		seen := map[int]bool{}
		for _, v := range eo {
			if seen[v] {
				fail("c16/exactly-once item", "item %d executed twice", v)
			}
			seen[v] = true
			if !accepted[v] {
				fail("c16/exactly-once item", "item %d executed but its Push was refused or never returned", v)
			}
		}
		// nothing runs after Close has returned
		if closed {
			for i, b := range eb {
				if b > closeRet {
					fail("c16/after-close item", "item %d began executing after Close returned", eo[i])
				}
			}
		}
		// ... the error report included
		if closed && onErrBegin.Load() != 0 {
			oc.probes["onerror_and_close"] = 1
			if e := onErrEnd.Load(); e == 0 || e > closeRet {
				fail("c16/after-close onerror", "OnError was still running (or had not finished) when Close returned (OnError %d..%d, Close returned at %d)", onErrBegin.Load(), e, closeRet)
			}
		}
		// after an item fails nothing else runs; OnError exactly once
		if errExecuted.Load() {
			if len(eo) == 0 || eo[len(eo)-1] != sc.FailItem {
				fail("c16/after-error item", "items executed after the failing item %d: %v", sc.FailItem, eo)
			}
			if n := onErr.Load(); n != 1 && !closed {
				fail("c16/onerror count", "OnError invoked %d times after one failing item", n)
			}
			if n := onErr.Load(); n > 1 {
				fail("c16/onerror count", "OnError invoked %d times", n)
			}
		} else if onErr.Load() != 0 {
			fail("c16/onerror count", "OnError invoked %d times without a failing item", onErr.Load())
		}
		// per-producer order
		pos := map[int]int{}
		for i, v := range eo {
			pos[v] = i
		}
		for _, t := range sc.Tasks {
			last := -1
			for _, op := range t.Ops {
				if op.Kind != "push" {
					continue
				}
				if p, ok := pos[op.V]; ok {
					if p < last {
						fail("c16/fifo producer", "items of %s executed out of push order: %v", t.Name, eo)
					}
					last = p
				}
			}
		}
	}

	// ring mode: items of one producer are pulled in its push order
	if sc.Mode == "ring" {
		pos := map[int]int{}
		n := 0
		for _, o := range h {
			if o.kind == "deq" && o.done {
				if _, dup := pos[o.v]; dup {
					fail("c16/exactly-once item", "item %d pulled twice", o.v)
				}
				pos[o.v] = n
				n++
				if !accepted[o.v] {
					fail("c16/exactly-once item", "item %d pulled but its Push was refused or never returned", o.v)
				}
			}
		}
		for _, t := range sc.Tasks {
			last := -1
			for _, op := range t.Ops {
				if op.Kind != "push" {
					continue
				}
				if p, ok := pos[op.V]; ok {
					if p < last {
						fail("c16/fifo producer", "items of %s pulled out of push order", t.Name)
					}
					last = p
				}
			}
		}
	}

	// linearizability against the bounded FIFO model
	if oc.viol == nil {
		var ops []porcupine.Operation
		maxStamp := c.stamp.Add(1)
		for _, o := range h {
			if !o.done {
				// pending operation (blocked Pull): it has no effect in the model
				if o.kind == "pull" {
					continue
				}
				// a pending push/close would be a stuck task, reported above
				continue
			}
			if closed && o.call > closeRet {
				// can only take effect after Close: unconstrained, leave it out
				continue
			}
			var in qin
			var out qout
			switch o.kind {
			case "push":
				in, out = qin{"push", o.v}, qout{o.v, o.ok}
			case "deq":
				in, out = qin{"deq", 0}, qout{o.v, true}
			case "pullclosed":
				in, out = qin{"pullclosed", 0}, qout{0, false}
			case "close":
				in, out = qin{"close", 0}, qout{0, true}
			}
			call, ret := o.call, o.ret
			if ret <= call {
				ret = call + 1
			}
			if ret > maxStamp {
				ret = maxStamp
			}
			ops = append(ops, porcupine.Operation{ClientId: o.client, Input: in, Call: call, Output: out, Return: ret})
		}
		oc.lin = ops
		oc.hist = "trace: " + strings.Join(oc.trace, " ") + "\nhistory: " + renderHist(h)
	}

	// cleanup: nothing may stay parked or blocked
	c.enabled.Store(false)
	c.mu.Lock()
	for n, p := range c.parked {
		close(p.ch)
		delete(c.parked, n)
	}
	c.mu.Unlock()
	if rb != nil {
		rb.Close()
	} else {
		done := make(chan struct{})
		go func() { proc.Close(); close(done) }()
		synctest.Wait()
		select {
		case <-done:
		default:
			fail("c16/close-hang processor", "Close did not return at cleanup")
		}
	}
	synctest.Wait()
	wgDone := make(chan struct{})
	go func() { wg.Wait(); close(wgDone) }()
	synctest.Wait()
	select {
	case <-wgDone:
	default:
		fail("c16/stuck task", "tasks still blocked after cleanup Close")
	}
	return oc
}

func renderHist(h []*hop) string {
	var b strings.Builder
	for _, o := range h {
		fmt.Fprintf(&b, "[%s %s v=%d ok=%v %d..%d done=%v] ", o.task, o.kind, o.v, o.ok, o.call, o.ret, o.done)
	}
	return b.String()
}

func configChecks() *core.Violation {
	for _, n := range []uint64{3, 5, 6, 7, 9, 12, 100, 255, 257} {
		if _, err := ringbuffer.New(n); err == nil {
			return core.Viol("c16/config", "ringbuffer.New(%d) accepted a size that is not a power of two", n)
		}
	}
	for _, n := range []uint64{1, 2, 4, 8, 16, 32, 64, 128, 256} {
		if _, err := ringbuffer.New(n); err != nil {
			return core.Viol("c16/config", "ringbuffer.New(%d) rejected a power of two: %v", n, err)
		}
	}
	return nil
}

func run(t *testing.T, sc Scenario) *core.Result {
	if sc.Mode == "cap" && sc.CapSpec != nil {
		return runCap(t, sc)
	}
	res := core.NewResult()
	sub := sc.Sub
	if sub <= 0 {
		sub = 1
	}
	var first *core.Violation
	traceSig := uint64(0)
	var sample any
	interleaved := false
	type pending struct {
		seed uint64
		ops  []porcupine.Operation
		hist string
	}
	var lin []pending
	pv, stack, dl := core.InBubble(t, func() {
		if v := configChecks(); v != nil {
			first = v
			return
		}
		for i := 0; i < sub; i++ {
			core.Beat()
			var oc outcome
			if sc.Mode == "seq" {
				oc = runSeq(&sc)
			} else {
				oc = runOne(&sc, sc.Seed+uint64(i))
			}
			res.Steps += len(oc.trace)
			for k, v := range oc.probes {
				res.Probes[k] += v
			}
			res.Inconclusive += oc.incon
			for _, s := range oc.trace {
				traceSig = core.HS(traceSig, "t", s)
			}
			if len(oc.trace) >= 4 && (oc.tasks >= 2 || sc.Mode == "seq") {
				interleaved = true
			}
			if sample == nil {
				sample = map[string]any{"mode": sc.Mode, "cap": sc.Cap, "ops": oc.ops, "trace_head": headN(oc.trace, 24)}
			}
			if oc.viol == nil && oc.lin != nil {
				lin = append(lin, pending{sc.Seed + uint64(i), oc.lin, oc.hist})
			}
			if oc.viol != nil && first == nil {
				first = oc.viol
				first.Detail = fmt.Sprintf("sub-seed %d: %s", sc.Seed+uint64(i), first.Detail)
				return
			}
		}
	})
	if pv != nil {
		first = core.PanicViolation(pv, stack)
	} else if dl != nil && first == nil {
		first = core.Viol("c16/leak goroutine", "bubble could not end: %v", dl)
	}
	// porcupine runs outside the bubble (it uses its own goroutines and timers)
	if first == nil {
		m := model(sc.Cap)
		for _, p := range lin {
			core.Beat()
			switch porcupine.CheckOperationsTimeout(m, p.ops, 300*time.Millisecond) {
			case porcupine.Illegal:
				first = core.Viol("c16/linearizability queue", "sub-seed %d: history is not linearizable to a bounded FIFO of capacity %d\n%s", p.seed, sc.Cap, p.hist)
			case porcupine.Unknown:
				res.Inconclusive++
			}
			if first != nil {
				break
			}
		}
	}
	res.Violation = first
	res.Sig = traceSig
	res.Nontrivial = interleaved
	res.Sample = sample
	res.Faults["sched.yield"] = res.Steps
	if core.FullLog {
		res.FullLog = []string{fmt.Sprintf("sig=%d steps=%d", traceSig, res.Steps)}
	}
	return res
}

func headN(s []string, n int) []string {
	if len(s) > n {
		return s[:n]
	}
	return s
}

func shrink(sc Scenario) []Scenario {
	var out []Scenario
	clone := func() Scenario {
		c := sc
		c.Tasks = make([]Task, len(sc.Tasks))
		for i, t := range sc.Tasks {
			c.Tasks[i] = Task{Name: t.Name, Ops: append([]Op(nil), t.Ops...)}
		}
		c.NoYield = append([]string(nil), sc.NoYield...)
		return c
	}
	if sc.Mode == "cap" {
		if sc.CapSpec != nil && sc.CapSpec.Transport != "tcp" {
			c := clone()
			cs := *sc.CapSpec
			cs.Transport = "tcp"
			c.CapSpec = &cs
			out = append(out, c)
		}
		if sc.CapSpec != nil && sc.CapSpec.Extra > 1 {
			c := clone()
			cs := *sc.CapSpec
			cs.Extra = 1
			c.CapSpec = &cs
			out = append(out, c)
		}
		return out
	}
	if sc.Mode == "seq" {
		// drop the second half, then single operations
		n := len(sc.SeqOps)
		if n > 1 {
			c := clone()
			c.SeqOps = append([]Op(nil), sc.SeqOps[:n/2]...)
			out = append(out, c)
		}
		for i := 0; i < n && i < 400; i++ {
			c := clone()
			c.SeqOps = append(append([]Op(nil), sc.SeqOps[:i]...), sc.SeqOps[i+1:]...)
			out = append(out, c)
		}
		return out
	}
	// single sub-schedule: try each sub seed alone
	if sc.Sub > 1 {
		for i := 0; i < sc.Sub; i++ {
			c := clone()
			c.Seed = sc.Seed + uint64(i)
			c.Sub = 1
			out = append(out, c)
		}
		return out
	}
	// drop whole tasks
	for i := range sc.Tasks {
		if len(sc.Tasks) <= 1 {
			break
		}
		c := clone()
		c.Tasks = append(c.Tasks[:i], c.Tasks[i+1:]...)
		out = append(out, c)
	}
	// drop single ops
	for i, t := range sc.Tasks {
		for j := range t.Ops {
			if len(t.Ops) <= 1 {
				continue
			}
			c := clone()
			c.Tasks[i].Ops = append(c.Tasks[i].Ops[:j], c.Tasks[i].Ops[j+1:]...)
			out = append(out, c)
		}
	}
	if sc.FailItem != 0 {
		c := clone()
		c.FailItem = 0
		out = append(out, c)
	}
	// smaller capacity
	if sc.Cap > 1 {
		c := clone()
		c.Cap = sc.Cap / 2
		out = append(out, c)
	}
	// disable yield sites one at a time
	all := []string{"task.op", "rb.close.lock", "rb.close.bcast", "rb.push.lock", "rb.push.bcast", "rb.pull.lock",
		"ap.close.cancel", "ap.close.ring", "ap.close.join", "ap.start", "ap.run.exec", "ap.run.after"}
	off := map[string]bool{}
	for _, s := range sc.NoYield {
		off[s] = true
	}
	for _, s := range all {
		if !off[s] {
			c := clone()
			c.NoYield = append(c.NoYield, s)
			out = append(out, c)
		}
	}
	return out
}

func init() {
	f := core.Register("C16", gen, run, shrink)
	f.Real = []string{"pkg/ringbuffer.RingBuffer", "internal/asyncprocessor.Processor (through a verif-tagged type alias)", "sync.Mutex / sync.Cond of the Go runtime", "mode cap: gortsplib.Client, Server, ServerStream, ServerSession (the queue as configured behind Client.WritePacketRTP while recording / on a back channel while playing and behind ServerStream.WritePacketRTP)"}
	f.Simulated = []string{"goroutine interleaving: every goroutine parks at every lock acquisition, unlock->broadcast gap, processor step and task operation; the scheduler releases exactly one per step, chosen by H(seed, step)"}
	f.Excluded = []string{"RingBuffer.Reset in the concurrent modes (sequential mode only)", "capacity 0", "Push between Close and Reset (the statement is silent about it)"}
	f.Rule = "scenario = capacity (power of two 1..256) x 1..8 producer scripts x owner/consumer/closer scripts x optional failing item; each scenario is run under 16 schedule seeds in one bubble; a third of the schedules use simulation-aware locks and a yield point before every statement of ringbuffer.go (callers held inside the critical sections), 40% use a seeded subset of the sites (each off with probability 0.35, the point between two operations of a task included); the scheduler's choice among the parked callers is uniform, or (half of the schedules) sticky - the caller released last goes on with probability 0.7 -, and half of the schedules have slow sites (about one site in 16: a caller parked there is released only when nobody else can move); a tenth of the scenarios are the sequential case instead: one caller, phases filling the ring to a seeded level (often exactly the capacity, one below, one above), draining, Close, Pull after Close, Reset, compared operation by operation with a reference FIFO; 8% are the capacity workload of cap.go (real client and server, WriteQueueSize 8..512, a burst of capacity+1..6 writes into the idle queue of each media entry point over tcp/udp: none may be refused before WriteQueueSize were accepted); a run is non-trivial when >= 2 tasks and >= 4 scheduling decisions; distinct = distinct hash of the sequence of (task, site) scheduling decisions"
	f.Assumptions = []string{
		"interleavings are explored at the granularity of the inserted yield sites (all lock acquisitions and unlock->broadcast gaps of ringbuffer, all steps of asyncprocessor; in runs with simulation-aware locks every statement of ringbuffer.go); code between two sites runs atomically with respect to the other controlled goroutines",
		"Start and Close are issued by one owner task, as the library does (the processor's running flag is not synchronised)",
		"pushes that linearise after Close are unconstrained (the statement is silent about them)",
	}
}
