package c16

import (
	"fmt"
	"strings"
	"sync/atomic"
	"testing"
	"time"

	"github.com/pion/rtcp"
	"github.com/pion/rtp"

	gortsplib "github.com/bluenviron/gortsplib/v5"
	"github.com/bluenviron/gortsplib/v5/pkg/base"
	"github.com/bluenviron/gortsplib/v5/pkg/description"
	"github.com/bluenviron/gortsplib/v5/pkg/format"

	"verifsim/core"
	"verifsim/simnet"
	"verifsim/sys"
)

// Mode "cap": the queue as the library configures it behind its media entry points. A real
// client and a real server are brought to the streaming state over the simulated network, the
// session is left idle until the queue is empty, and then the entry point is called
// Cap+Extra times in one burst (no simulated time passes, the consumer cannot be scheduled in
// between - and if it were, more items would fit, never fewer). Oracle, from the statement: "an
// item is refused - and the caller told - only when the queue already holds its configured
// capacity": no write of the burst may be refused before WriteQueueSize of them were accepted.
//
// Entry points: Client.WritePacketRTP while recording; Client.WritePacketRTP on a back channel
// while playing; ServerStream.WritePacketRTP towards a playing reader (refusals are reported
// through OnStreamWriteError). Over TCP and UDP.

// CapSpec is the mode-"cap" part of a Scenario.
type CapSpec struct {
	Entry     string        `json:"entry"`     // record | backchannel | stream
	Transport string        `json:"transport"` // tcp | udp
	Extra     int           `json:"extra"`     // writes beyond the capacity
	// RefusedPause (entry record): before the burst the client calls Pause and the server refuses it
	// (455): the session keeps recording, and what is accepted afterwards must still be executed -
	// a handful of packets written one by one must reach the server.
	RefusedPause bool `json:"refused_pause,omitempty"`
	Net       simnet.Config `json:"net"`
}

func genCap(seed uint64) Scenario {
	r := core.NewRand(seed, "c16.cap")
	sc := Scenario{Seed: seed, Sub: 1, Mode: "cap"}
	sc.Cap = r.Pick(8, 16, 32, 64, 128, 256, 512)
	sc.CapSpec = &CapSpec{
		Entry:     []string{"record", "backchannel", "stream", "mcast_rtcp"}[int(core.HS(seed, "c16.cap.entry", "", 0)%4)],
		Transport: []string{"tcp", "udp"}[r.Intn(2)],
		Extra:     r.Range(1, 6),
	}
	if sc.CapSpec.Entry == "mcast_rtcp" {
		sc.CapSpec.Transport = "mcast"
	}
	if sc.CapSpec.Entry == "record" && r.Bool(0.4) {
		sc.CapSpec.RefusedPause = true
	}
	nc := simnet.Config{Seed: seed ^ 0x16161616}
	nc.LatMinUS = r.Pick(10, 100, 1000)
	nc.LatMaxUS = nc.LatMinUS + r.Pick(0, 50, 500)
	nc.ChunkMode = r.Pick(0, 1, 2, 3)
	nc.ChunkMaxLen = r.Pick(64, 1024)
	sc.CapSpec.Net = nc
	return sc
}

func capDesc(back bool) *description.Session {
	g := &format.Generic{PayloadTyp: 96, RTPMa: "private/90000"}
	g.Init() //nolint:errcheck
	d := &description.Session{Medias: []*description.Media{{Type: description.MediaTypeVideo, Formats: []format.Format{g}}}}
	if back {
		a := &format.G711{PayloadTyp: 8, MULaw: false, SampleRate: 8000, ChannelCount: 1}
		d.Medias = append(d.Medias, &description.Media{Type: description.MediaTypeAudio, IsBackChannel: true, Formats: []format.Format{a}})
	}
	return d
}

func runCap(t *testing.T, sc Scenario) *core.Result {
	cs := sc.CapSpec
	opts := sys.Options{Seed: sc.Seed, Net: cs.Net, MaxSteps: 400000, Horizon: 10 * time.Minute}
	var sample map[string]any
	res := sys.Run(t, opts, func(w *sys.World) {
		w.ProbeInit("cap_record", "cap_backchannel", "cap_stream", "cap_mcast_rtcp", "cap_refusal_at_capacity", "cap_refused_pause")
		srvNode := w.Net.Node("srv", "10.0.0.1")
		cliIP := "10.0.0.20"
		if cs.Transport == "mcast" {
			cliIP = "127.0.0.1" // the client looks for a real interface with its local address
		}
		cliNode := w.Net.Node("cli", cliIP)
		h := sys.NewHandler(w)
		srv := &gortsplib.Server{
			RTSPAddress: "10.0.0.1:8554", UDPRTPAddress: "10.0.0.1:8000", UDPRTCPAddress: "10.0.0.1:8001",
			WriteQueueSize: sc.Cap, Handler: h,
		}
		if cs.Transport == "mcast" {
			srv.MulticastIPRange, srv.MulticastRTPPort, srv.MulticastRTCPPort = "224.1.0.0/16", 8002, 8003
		}
		h.Server = srv
		sys.WireServer(srv, srvNode, nil)
		if err := srv.Start(); err != nil {
			w.Fail("c16/harness server", "Server.Start: %v", err)
			return
		}
		desc := capDesc(cs.Entry == "backchannel")
		stream := &gortsplib.ServerStream{Server: srv, Desc: desc}
		if err := stream.Initialize(); err != nil {
			w.Fail("c16/harness server", "ServerStream.Initialize: %v", err)
			srv.Close()
			return
		}
		h.SetStream("/stream", stream)
		if cs.RefusedPause {
			h.StatusFor = func(m base.Method, _ string) base.StatusCode {
				if m == base.Pause {
					return base.StatusMethodNotValidInThisState
				}
				return 0
			}
		}
		var srvGot atomic.Int32
		h.OnRTP = func(*gortsplib.ServerSession, *description.Media, format.Format, *rtp.Packet) { srvGot.Add(1) }

		w.Go("client", func() {
			defer srv.Close()
			defer stream.Close()
			p := gortsplib.ProtocolTCP
			switch cs.Transport {
			case "udp":
				p = gortsplib.ProtocolUDP
			case "mcast":
				p = gortsplib.ProtocolUDPMulticast
			}
			c := &gortsplib.Client{Scheme: "rtsp", Host: "10.0.0.1:8554", Protocol: &p, WriteQueueSize: sc.Cap,
				RequestBackChannels: cs.Entry == "backchannel"}
			sys.WireClient(c, cliNode, w.Net, nil)
			c.OnPacketsLost = func(uint64) {}
			c.OnDecodeError = func(error) {}
			if err := c.Start(); err != nil {
				w.Fail("c16/harness client", "Client.Start: %v", err)
				return
			}
			defer c.Close()
			fail := func(step string, err error) {
				w.Fail("c16/harness client", "%s (%s over %s): %v", step, cs.Entry, cs.Transport, err)
			}
			n := sc.Cap + cs.Extra
			pkt := func(pt uint8, k int) *rtp.Packet {
				return &rtp.Packet{Header: rtp.Header{Version: 2, PayloadType: pt, SequenceNumber: uint16(k), Timestamp: uint32(k) * 90}, Payload: make([]byte, 40)}
			}
			accepted, refusedAt := 0, -1
			var firstErr error
			switch cs.Entry {
			case "record":
				u, _ := base.ParseURL("rtsp://10.0.0.1:8554/pub")
				pd := capDesc(false)
				if _, err := c.Announce(u, pd); err != nil {
					fail("Announce", err)
					return
				}
				if err := c.SetupAll(u, pd.Medias); err != nil {
					fail("SetupAll", err)
					return
				}
				if _, err := c.Record(); err != nil {
					fail("Record", err)
					return
				}
				time.Sleep(200 * time.Millisecond) // anything queued at start-up has been sent
				if cs.RefusedPause {
					if _, err := c.Pause(); err == nil {
						w.Fail("c16/harness client", "Pause succeeded although the handler refuses it")
						return
					}
					w.Probe("cap_refused_pause")
					before := srvGot.Load()
					okw := 0
					for k := 0; k < 5; k++ {
						if err := c.WritePacketRTP(pd.Medias[0], pkt(96, 1000+k)); err == nil {
							okw++
						}
						time.Sleep(20 * time.Millisecond)
					}
					time.Sleep(200 * time.Millisecond)
					if got := int(srvGot.Load() - before); okw > 0 && got < okw {
						w.Fail("c16/executed after-refused-pause", "record over %s: after a PAUSE that the server refused (455) %d packets were accepted by Client.WritePacketRTP one by one, but only %d reached the server: accepted items were not executed",
							cs.Transport, okw, got)
						return
					}
				}
				w.Probe("cap_record")
				for k := 0; k < n; k++ {
					if err := c.WritePacketRTP(pd.Medias[0], pkt(96, k)); err != nil {
						if refusedAt < 0 {
							refusedAt, firstErr = k, err
						}
					} else if refusedAt < 0 {
						accepted++
					}
				}
			case "backchannel":
				u, _ := base.ParseURL("rtsp://10.0.0.1:8554/stream")
				d, _, err := c.Describe(u)
				if err != nil {
					fail("Describe", err)
					return
				}
				var back *description.Media
				for _, m := range d.Medias {
					if m.IsBackChannel {
						back = m
					}
				}
				if back == nil {
					w.Fail("c16/harness client", "the description carries no back channel")
					return
				}
				if err := c.SetupAll(d.BaseURL, d.Medias); err != nil {
					fail("SetupAll", err)
					return
				}
				if _, err := c.Play(nil); err != nil {
					fail("Play", err)
					return
				}
				time.Sleep(200 * time.Millisecond)
				w.Probe("cap_backchannel")
				for k := 0; k < n; k++ {
					if err := c.WritePacketRTP(back, pkt(8, k)); err != nil {
						if refusedAt < 0 {
							refusedAt, firstErr = k, err
						}
					} else if refusedAt < 0 {
						accepted++
					}
				}
			case "mcast_rtcp":
				// RTCP written through the stream API towards a UDP-multicast reader: the multicast
				// writer's queue. What is accepted must be executed: over a network that loses nothing
				// every packet whose write reported no error reaches the reader.
				u, _ := base.ParseURL("rtsp://10.0.0.1:8554/stream")
				d, _, err := c.Describe(u)
				if err != nil {
					fail("Describe", err)
					return
				}
				if err := c.SetupAll(d.BaseURL, d.Medias); err != nil {
					fail("SetupAll", err)
					return
				}
				var got atomic.Int32
				c.OnPacketRTPAny(func(*description.Media, format.Format, *rtp.Packet) {})
				c.OnPacketRTCPAny(func(_ *description.Media, p rtcp.Packet) {
					if a, ok := p.(*rtcp.ApplicationDefined); ok && a.Name == "c16 " {
						got.Add(1)
					}
				})
				if _, err := c.Play(nil); err != nil {
					fail("Play", err)
					return
				}
				stream.WritePacketRTP(desc.Medias[0], pkt(96, 0)) //nolint:errcheck
				time.Sleep(200 * time.Millisecond)
				w.Probe("cap_mcast_rtcp")
				before := 0
				for _, cb := range h.Callbacks() {
					if cb.Kind == "write_error" {
						before++
					}
				}
				for k := 0; k < n; k++ {
					err := stream.WritePacketRTCP(desc.Medias[0], &rtcp.ApplicationDefined{SubType: 1, SSRC: uint32(k), Name: "c16 ", Data: []byte{1, 2, 3, 4}})
					ne := 0
					for _, cb := range h.Callbacks() {
						if cb.Kind == "write_error" {
							ne++
							if firstErr == nil {
								firstErr = cb.Err
							}
						}
					}
					if err != nil && firstErr == nil {
						firstErr = err
					}
					if err != nil || ne > before {
						if refusedAt < 0 {
							refusedAt = k
						}
						before = ne
					} else {
						accepted++
					}
				}
				time.Sleep(500 * time.Millisecond)
				if g := int(got.Load()); g < accepted {
					w.Fail("c16/executed mcast-rtcp", "UDP-multicast reader, WriteQueueSize %d: %d of %d RTCP packets written through ServerStream.WritePacketRTCP in one burst were accepted (no error returned, none reported), but only %d reached the reader over a network that loses nothing: accepted items were dropped without the caller being told",
						sc.Cap, accepted, n, g)
					return
				}
				refusedAt = -1 // (accepted counts all accepted writes of the burst here, not those before the first refusal)
			case "stream":
				u, _ := base.ParseURL("rtsp://10.0.0.1:8554/stream")
				d, _, err := c.Describe(u)
				if err != nil {
					fail("Describe", err)
					return
				}
				if err := c.SetupAll(d.BaseURL, d.Medias); err != nil {
					fail("SetupAll", err)
					return
				}
				c.OnPacketRTPAny(func(*description.Media, format.Format, *rtp.Packet) {})
				if _, err := c.Play(nil); err != nil {
					fail("Play", err)
					return
				}
				time.Sleep(200 * time.Millisecond)
				w.Probe("cap_stream")
				before := 0
				for _, cb := range h.Callbacks() {
					if cb.Kind == "write_error" {
						before++
					}
				}
				for k := 0; k < n; k++ {
					stream.WritePacketRTP(desc.Medias[0], pkt(96, k)) //nolint:errcheck
					ne := 0
					for _, cb := range h.Callbacks() {
						if cb.Kind == "write_error" {
							ne++
							firstErr = cb.Err
						}
					}
					if ne > before {
						if refusedAt < 0 {
							refusedAt = k
						}
					} else if refusedAt < 0 {
						accepted++
					}
				}
			}
			// (whether the consumer gets to run in the middle of the burst - a contended mutex hands the
			// processor over - is the runtime's choice: the log only says what the oracle looks at)
			if accepted >= sc.Cap {
				w.Log.Add("cli", "burst", "entry=%s cap=%d writes=%d accepted_before_refusal>=cap", cs.Entry, sc.Cap, n)
			} else {
				w.Log.Add("cli", "burst", "entry=%s cap=%d writes=%d accepted_before_refusal=%d", cs.Entry, sc.Cap, n, accepted)
			}
			if refusedAt >= 0 {
				if firstErr != nil && !strings.Contains(firstErr.Error(), "queue is full") {
					// some other error (e.g. the session ended): nothing to say about capacity
					w.Log.Add("cli", "burst.other-error", "%v", firstErr)
					return
				}
				if refusedAt < sc.Cap {
					w.Fail("c16/capacity "+cs.Entry, "%s over %s, WriteQueueSize %d: write #%d of a burst into an empty queue was refused (%v) after only %d accepted items",
						cs.Entry, cs.Transport, sc.Cap, refusedAt+1, firstErr, accepted)
					return
				}
				w.Probe("cap_refusal_at_capacity")
			}
			sample = map[string]any{"mode": "cap", "entry": cs.Entry, "transport": cs.Transport, "cap": sc.Cap, "writes": n, "accepted_at_least_cap": accepted >= sc.Cap}
			time.Sleep(100 * time.Millisecond)
		})
	})
	res.Nontrivial = res.Probes["cap_record"]+res.Probes["cap_backchannel"]+res.Probes["cap_stream"]+res.Probes["cap_mcast_rtcp"] > 0
	res.Sample = sample
	_ = fmt.Sprint
	return res
}
