// Package c13 decides C13 (Close is complete; lifecycle callbacks are balanced
// and ordered) by whole-system simulation with Close calls at seeded instants
// and seeded holds at the yield sites of the shutdown paths (DESIGN 3.8).
package c13

import (
	"fmt"
	"net"
	"runtime"
	"strings"
	"sync"
	"sync/atomic"
	"testing"
	"time"

	"github.com/pion/rtcp"
	"github.com/pion/rtp"

	gortsplib "github.com/bluenviron/gortsplib/v5"
	"github.com/bluenviron/gortsplib/v5/pkg/base"
	"github.com/bluenviron/gortsplib/v5/pkg/description"
	"github.com/bluenviron/gortsplib/v5/pkg/format"

	"verifsim/core"
	"verifsim/simnet"
	"verifsim/sys"
)

// Peer is one client of the run.
type Peer struct {
	Role      string `json:"role"`      // read | publish
	Transport string `json:"transport"` // udp | tcp | http | ws | mcast (UDP-multicast reader, at most one per run)
	StartUS   int    `json:"start_us"`
	// Steps: how far the script goes before it idles: 1 start, 2 describe/announce,
	// 3 setup, 4 play/record, 5 pause, 6 play/record again.
	Steps int `json:"steps"`
	// CloseAtUS: Client.Close is called from another goroutine at this instant
	// (0 = closed by the script after the run's main phase).
	CloseAtUS int `json:"close_at_us"`
	// StallAtUS / StallUS: the peer stops reading (plain carriers, bounded window).
	StallAtUS int `json:"stall_at_us,omitempty"`
	StallUS   int `json:"stall_us,omitempty"`
	// Vanish: instead of closing, the peer's node disappears silently at CloseAtUS.
	Vanish bool `json:"vanish,omitempty"`
}

// Scenario is one C13 run.
type Scenario struct {
	Seed          uint64                    `json:"seed"`
	Net           simnet.Config             `json:"net"`
	Secure        bool                      `json:"secure"`
	Peers         []Peer                    `json:"peers"`
	ServerCloseUS int                       `json:"server_close_us"` // 0 = at the end
	StreamCloseUS int                       `json:"stream_close_us"` // 0 = at the end (before the server)
	DurUS         int                       `json:"dur_us"`
	IntUS         int                       `json:"interval_us"`
	WQ            int                       `json:"write_queue"`
	ReadTO        int                       `json:"read_timeout_ms"`
	WriteTO       int                       `json:"write_timeout_ms"`
	IdleTO        int                       `json:"idle_timeout_ms"`
	Yields        map[string]core.YieldSpec `json:"yields,omitempty"`
	// CBClose: a Close call that lands while a packet callback is running (issued from another
	// goroutine started inside the callback of the packet with sequence number Seq; the callback
	// then yields the processor Spin times before it returns, so that the close path advances as
	// far as it can while the callback is still in progress).
	CBClose *CBClose `json:"cb_close,omitempty"`
	// BackChan: the stream also offers a back channel; readers over udp / tcp ask for back channels and
	// keep writing to it while they play, until the moment they are closed.
	BackChan bool `json:"back_chan,omitempty"`
	// ReqClose: a Close issued from inside a request callback (the application closes the stream,
	// the session or the server while it handles a request).
	ReqClose *ReqClose `json:"req_close,omitempty"`
	// SimLocks: the library's mutexes are the simulation-aware ones in this run, and every statement
	// of the UDP listeners (server and client) is a yield point at which the scheduler may hold the
	// goroutine - also while it holds the listeners' lock or runs a packet callback.
	SimLocks bool `json:"sim_locks,omitempty"`
}

// ReqClose: see Scenario.ReqClose.
type ReqClose struct {
	Kind  string `json:"kind"`  // stream | session | server | conn (ServerConn.Close of the connection that carried the request)
	CB    string `json:"cb"`    // describe | announce | setup | play | record | pause
	Nth   int    `json:"nth"`   // the n-th callback of that kind (1-based)
	Async bool   `json:"async"` // from a goroutine started in the callback (always for server) instead of synchronously
}

// CBClose: see Scenario.CBClose.
type CBClose struct {
	Kind string `json:"kind"` // session (ServerSession.Close) | server (Server.Close) | client (Client.Close of the reader) | conn (ServerConn.Close of the session's control connection)
	Seq  int    `json:"seq"`
	Spin int    `json:"spin"`
	// Swap: publishers write packets Seq and Seq+1 in swapped order, so that over UDP the
	// reorder buffer releases both within one datagram's processing.
	Swap bool `json:"swap,omitempty"`
}

var shutdownSites = []string{
	"ss.run.teardown.cancel", "ss.run.teardown.conns", "ss.run.teardown.stream", "ss.run.teardown.medias",
	"ss.run.teardown.writer", "ss.run.teardown.closeSession", "ss.run.teardown.onclose",
	"sc.run.teardown.cancel", "sc.run.teardown.close", "sc.run.teardown.wait", "sc.run.teardown.session", "sc.run.teardown.closeConn",
	"s.run.teardown.cancel", "s.run.teardown.tcp",
	"ss.createWriter.pre", "ss.startWriter.pre", "ss.destroyWriter.pre", "ss.destroyWriter.mid",
	"st.setActive.pre", "st.setInactive.pre", "st.remove.pre", "st.close.pre",
	"c.destroyWriter.pre", "c.destroyWriter.mid", "c.createWriter.pre", "c.startWriter.pre",
	"c.doClose.pre", "c.doClose.teardown", "c.doClose.reader", "c.doClose.medias", "c.run.close",
	"ap.close.cancel", "ap.close.ring", "ap.close.join", "ap.start", "ap.run.exec", "ap.run.after", "rb.pull.lock",
}

func gen(seed uint64, tier string) Scenario {
	r := core.NewRand(seed, "c13")
	sc := Scenario{Seed: seed}
	sc.Secure = r.Bool(0.25)
	sc.DurUS = r.Pick(20000, 50000, 100000, 300000)
	sc.IntUS = r.Pick(500, 1000, 2000, 5000)
	sc.WQ = r.Pick(8, 16, 64, 256)
	sc.ReadTO = r.Pick(2000, 5000, 10000)
	sc.WriteTO = r.Pick(2000, 5000, 10000)
	sc.IdleTO = r.Pick(10000, 30000, 60000)
	np := r.Range(1, 4)
	trs := []string{"udp", "tcp", "tcp", "http", "ws"}
	allPlain := !sc.Secure
	for i := 0; i < np; i++ {
		p := Peer{Role: "read", Transport: trs[r.Intn(len(trs))]}
		if r.Bool(0.25) {
			p.Role = "publish"
		}
		p.StartUS = r.Intn(sc.DurUS/2 + 1)
		p.Steps = r.Pick(1, 2, 3, 4, 4, 4, 5, 6)
		if r.Bool(0.6) {
			p.CloseAtUS = p.StartUS + r.Intn(sc.DurUS+1)
			if r.Bool(0.15) {
				p.Vanish = true
			}
		}
		if p.Transport == "ws" {
			allPlain = false
		}
		sc.Peers = append(sc.Peers, p)
	}
	if r.Bool(0.5) {
		sc.ServerCloseUS = r.Range(1, sc.DurUS)
	}
	if r.Bool(0.3) {
		sc.StreamCloseUS = r.Range(1, sc.DurUS)
	}
	n := simnet.Config{Seed: seed ^ 0x13131313}
	n.LatMinUS = r.Pick(10, 100, 1000)
	n.LatMaxUS = n.LatMinUS + r.Pick(0, 50, 500, 5000)
	n.ChunkMode = r.Pick(0, 1, 3)
	n.ChunkMaxLen = 256
	if r.Bool(0.4) {
		n.UDPDrop = 0.05
		n.UDPReorder = 0.1
		n.UDPJitUS = sc.IntUS * 5
	}
	if allPlain && r.Bool(0.4) {
		n.Window = r.Pick(2048, 8192)
		for i := range sc.Peers {
			if sc.Peers[i].Transport != "udp" && sc.Peers[i].Role == "read" && r.Bool(0.6) {
				sc.Peers[i].StallAtUS = sc.Peers[i].StartUS + r.Intn(sc.DurUS/2+1)
				sc.Peers[i].StallUS = r.Pick(100000, 1000000, 30000000) // up to "stopped reading for good"
			}
		}
		// the other direction: the SERVER stops draining what a publisher sends (its side of the
		// connection stalls); hash-derived so that no other choice moves
		for i := range sc.Peers {
			p := &sc.Peers[i]
			if x := core.HS(seed, "c13.pubstall", "", uint64(i)); p.Role == "publish" && ((p.Transport == "tcp" && x%100 < 50) || (p.Transport == "http" && x%100 < 85)) {
				p.StallAtUS = p.StartUS + int((x>>8)%uint64(sc.DurUS/2+1))
				p.StallUS = []int{100000, 1000000, 30000000}[(x>>40)%3]
			}
		}
	}
	// writes that wait together may travel as one byte run (a publisher's packets of one tick then
	// sit in the server's read buffer together); hash-derived so that no other choice moves
	if x := core.HS(seed, "c13.coalesce", "", 0) % 100; x < 40 {
		n.Coalesce = []float64{0.5, 1}[x%2]
	}
	sc.Net = n
	// one reader may use UDP-multicast (hash-derived so that no other choice of the scenario moves)
	if x := core.HS(seed, "c13.mcast", "", 0); x%100 < 25 {
		for i := range sc.Peers {
			if sc.Peers[i].Role == "read" && (sc.Peers[i].Transport == "udp" || sc.Peers[i].Transport == "tcp") && sc.Peers[i].StallAtUS == 0 {
				sc.Peers[i].Transport = "mcast"
				break
			}
		}
	}
	// ... and in most of those runs (when there is another eligible reader) a second one (its node has no loopback address: the client's
	// interface lookup is answered by the simulation for such addresses, hooks/export_verif.go)
	if x := core.HS(seed, "c13.mcast2", "", 0); x%100 < 80 {
		first := -1
		for i := range sc.Peers {
			if sc.Peers[i].Transport == "mcast" {
				first = i
			}
		}
		for i := range sc.Peers {
			if first >= 0 && i != first && sc.Peers[i].Role == "read" && (sc.Peers[i].Transport == "udp" || sc.Peers[i].Transport == "tcp") && sc.Peers[i].StallAtUS == 0 {
				sc.Peers[i].Transport = "mcast"
				break
			}
		}
	}
	// ServerStream.Close landing inside the handshake of the multicast reader (between its
	// DESCRIBE, its SETUPs and its PLAY): one round trip is about LatMin+LatMax
	for _, p := range sc.Peers {
		if x := core.HS(seed, "c13.mcastclose", "", 0); p.Transport == "mcast" && x%100 < 50 {
			rtt := sc.Net.LatMinUS + sc.Net.LatMaxUS
			sc.StreamCloseUS = p.StartUS + int(3+(x>>8)%10)*rtt + int((x>>16)%uint64(rtt+1))
		}
	}
	if x := core.HS(seed, "c13.backchan", "", 0); x%100 < 15 {
		sc.BackChan = true
	}
	if x := core.HS(seed, "c13.reqclose", "", 0); x%100 < 25 {
		rc := &ReqClose{Kind: []string{"stream", "stream", "session", "server", "conn"}[(x>>8)%5],
			CB:  []string{"setup", "setup", "play", "describe", "record", "pause", "announce"}[(x>>16)%7],
			Nth: 1 + int((x>>24)%4), Async: (x>>32)%3 == 0}
		if rc.Kind == "server" {
			rc.Async = true // Server.Close waits for the goroutine that runs the callback
		}
		sc.ReqClose = rc
	}
	if x := core.HS(seed, "c13.simlocks", "", 0); x%100 < 30 {
		sc.SimLocks = true
	}
	if x := core.HS(seed, "c13.cbclose", "", 0); x%100 < 30 {
		sc.CBClose = &CBClose{Kind: []string{"session", "server", "client", "conn"}[(x>>8)%4], Seq: 2 + int((x>>16)%12),
			Spin: []int{1, 4, 32, 256}[(x>>24)%4], Swap: (x>>32)%3 != 0}
		if sc.CBClose.Kind == "conn" {
			// the point of closing the control connection inside a callback is what the reader does with
			// the frames that are already in its buffer: let the close path run far, and let the
			// publisher's packets of one tick arrive together
			sc.CBClose.Spin = 256
			sc.Net.Coalesce = 1
			for i := range sc.Peers {
				if sc.Peers[i].Role == "publish" && sc.Peers[i].Transport == "udp" {
					sc.Peers[i].Transport = "tcp"
				}
			}
		}
	}
	if r.Bool(0.75) {
		sc.Yields = map[string]core.YieldSpec{}
		hot := map[string]bool{"ap.run.exec": true, "ap.run.after": true, "rb.pull.lock": true}
		for _, s := range shutdownSites {
			if r.Bool(0.35) {
				sc.Yields[s] = core.YieldSpec{Hot: hot[s]}
			}
		}
	}
	// the multicast writer's queue is closed while the stream's mutex is held: a goroutine parked
	// inside that queue would leave others blocked on the mutex, which synctest cannot see as
	// quiescent (the simulator's own limitation, DESIGN 2.3) - no holds inside the queue then
	for _, p := range sc.Peers {
		if p.Transport == "mcast" {
			for k := range sc.Yields {
				if strings.HasPrefix(k, "ap.") || strings.HasPrefix(k, "rb.") {
					delete(sc.Yields, k)
				}
			}
		}
	}
	return sc
}

func tunnelOf(tr string) gortsplib.Tunnel {
	switch tr {
	case "http":
		return gortsplib.TunnelHTTP
	case "ws":
		return gortsplib.TunnelWebSocket
	}
	return gortsplib.TunnelNone
}

func protoOf(tr string) *gortsplib.Protocol {
	p := gortsplib.ProtocolTCP
	switch tr {
	case "udp":
		p = gortsplib.ProtocolUDP
	case "mcast":
		p = gortsplib.ProtocolUDPMulticast
	}
	return &p
}

func us(n int) time.Duration { return time.Duration(n) * time.Microsecond }
func ms(n int) time.Duration { return time.Duration(n) * time.Millisecond }

func mkDesc() *description.Session {
	g1 := &format.Generic{PayloadTyp: 96, RTPMa: "private/90000"}
	g2 := &format.Generic{PayloadTyp: 97, RTPMa: "private/48000"}
	g1.Init() //nolint:errcheck
	g2.Init() //nolint:errcheck
	return &description.Session{Medias: []*description.Media{
		{Type: description.MediaTypeVideo, Formats: []format.Format{g1}},
		{Type: description.MediaTypeAudio, Formats: []format.Format{g2}},
	}}
}

const maxHold = 200 * time.Millisecond

func classify(g *core.G) string {
	// goroutines started by harness code (drivers) belong to the harness even
	// while they are inside a library call such as Server.Close
	if strings.Contains(g.CreatedBy, "verifsim/") {
		return "harness"
	}
	for i, f := range g.Frames {
		if strings.Contains(f, "gortsplib/v5.(*Server)") || strings.Contains(f, "gortsplib/v5.(*ServerConn)") ||
			strings.Contains(f, "gortsplib/v5.(*ServerSession)") || strings.Contains(f, "gortsplib/v5.(*serverConnReader)") ||
			strings.Contains(f, "gortsplib/v5.(*serverUDPListener)") || strings.Contains(f, "gortsplib/v5.(*serverTCPListener)") ||
			strings.Contains(f, "gortsplib/v5.(*serverSession") || strings.Contains(f, "gortsplib/v5.(*serverStream") ||
			strings.Contains(f, "gortsplib/v5.(*serverMulticast") {
			return "server"
		}
		if strings.HasSuffix(f, "gortsplib/v5.(*Client).run") && i < len(g.Args) {
			a := g.Args[i]
			if j := strings.IndexAny(a, ", )"); j > 0 {
				a = a[:j]
			}
			return "client:" + a
		}
	}
	return ""
}

func run(t *testing.T, sc Scenario) *core.Result {
	opts := sys.Options{Seed: sc.Seed, Net: sc.Net, Yields: sc.Yields, MaxSteps: 400000, Horizon: 30 * time.Minute, MaxHold: maxHold, SimLocks: sc.SimLocks}
	if sc.SimLocks {
		opts.Yields = map[string]core.YieldSpec{}
		for k, v := range sc.Yields {
			opts.Yields[k] = v
		}
		opts.Yields["auto:server_udp_listener:"] = core.YieldSpec{Prob: 0.08}
		opts.Yields["auto:client_udp_listener:"] = core.YieldSpec{Prob: 0.08}
	}
	var summary map[string]any
	res := sys.Run(t, opts, func(w *sys.World) {
		w.ProbeInit("server_close_mid_run", "stream_close_mid_run", "client_close_concurrent", "client_close_mid_handshake", "close_inside_packet_callback", "close_inside_request_callback", "server_side_stalled", "back_channel_offered", "back_channel_writer", "multicast_reader", "second_multicast_reader", "reader_rtcp_to_group", "reader_rtcp_callback",
			"client_close_while_playing", "client_close_while_recording", "close_with_stalled_peer", "peer_vanished",
			"server_close_with_sessions", "census_attributed_goroutines", "publisher", "secure", "session_closed_by_timeout_or_peer")
		owners := core.NewOwners(classify)
		var cmu sync.Mutex
		rootGID := core.GoID()
		census := func() {
			cmu.Lock()
			owners.Update(rootGID)
			cmu.Unlock()
		}
		srvNode := w.Net.Node("srv", "10.0.0.1")
		h := sys.NewHandler(w)
		srv := &gortsplib.Server{
			RTSPAddress: "10.0.0.1:8554", UDPRTPAddress: "10.0.0.1:8000", UDPRTCPAddress: "10.0.0.1:8001",
			MulticastIPRange: "224.1.0.0/16", MulticastRTPPort: 8002, MulticastRTCPPort: 8003,
			WriteQueueSize: sc.WQ, Handler: h,
			ReadTimeout: ms(sc.ReadTO), WriteTimeout: ms(sc.WriteTO), IdleTimeout: ms(sc.IdleTO),
		}
		scheme := "rtsp"
		if sc.Secure {
			srv.TLSConfig = sys.ServerTLSConfig()
			scheme = "rtsps"
			w.Probe("secure")
		}
		h.Server = srv
		sys.WireServer(srv, srvNode, nil)
		if err := srv.Start(); err != nil {
			w.Fail("c13/api-error server", "Server.Start: %v", err)
			return
		}
		desc := mkDesc()
		if sc.BackChan {
			a := &format.G711{PayloadTyp: 8, MULaw: false, SampleRate: 8000, ChannelCount: 1}
			desc.Medias = append(desc.Medias, &description.Media{Type: description.MediaTypeAudio, IsBackChannel: true, Formats: []format.Format{a}})
			w.Probe("back_channel_offered")
		}
		stream := &gortsplib.ServerStream{Server: srv, Desc: desc}
		if err := stream.Initialize(); err != nil {
			w.Fail("c13/api-error server", "ServerStream.Initialize: %v", err)
			return
		}
		h.SetStream("/stream", stream)

		// packet callbacks of recording sessions, stamped with the global sequence number
		type pcb struct {
			ss *gortsplib.ServerSession
			g  uint64
		}
		var pmu sync.Mutex
		var pktCBs []pcb
		var closeServerFn func(string)
		var cbFired atomic.Bool
		spin := func() {
			for i := 0; i < sc.CBClose.Spin; i++ {
				runtime.Gosched()
			}
		}
		h.OnRTP = func(ss *gortsplib.ServerSession, _ *description.Media, _ format.Format, pkt *rtp.Packet) {
			g := w.Log.NextG()
			pmu.Lock()
			pktCBs = append(pktCBs, pcb{ss, g})
			pmu.Unlock()
			if cb := sc.CBClose; cb != nil && cb.Kind != "client" && int(pkt.SequenceNumber) == cb.Seq && cbFired.CompareAndSwap(false, true) {
				w.Probe("close_inside_packet_callback")
				w.Log.Add("srv", "cbclose", "%s seq=%d spin=%d", cb.Kind, cb.Seq, cb.Spin)
				switch cb.Kind {
				case "session":
					w.Go("cbcloser", func() { ss.Close() })
				case "conn":
					// the application closes the control connection of the publishing session
					var sconn *gortsplib.ServerConn
					for _, c := range h.Callbacks() {
						if c.Session == ss && c.Conn != nil {
							sconn = c.Conn
						}
					}
					if sconn != nil {
						w.Probe("conn_close_inside_packet_callback")
						w.Go("cbcloser", func() { sconn.Close() })
					}
				default:
					w.Go("cbcloser", func() { closeServerFn("in-callback") })
				}
				spin()
			}
		}
		h.OnRTCP = func(ss *gortsplib.ServerSession, _ *description.Media, pkt rtcp.Packet) {
			if rr, ok := pkt.(*rtcp.ReceiverReport); ok && rr.SSRC == 0x0C130C13 {
				w.Probe("reader_rtcp_callback")
			}
			g := w.Log.NextG()
			pmu.Lock()
			pktCBs = append(pktCBs, pcb{ss, g})
			pmu.Unlock()
		}

		// reading sessions have an RTCP callback as well
		h.PlayStatus = func(ss *gortsplib.ServerSession) base.StatusCode {
			if ss.State() == gortsplib.ServerSessionStatePrePlay {
				ss.OnPacketRTCPAny(func(m *description.Media, pkt rtcp.Packet) { h.OnRTCP(ss, m, pkt) })
			}
			return 0
		}

		budget := func(holdBefore time.Duration) time.Duration {
			return w.S.HoldTotal() - holdBefore + 8*us(sc.Net.LatMaxUS) + 2*time.Second
		}
		baseBound := ms(sc.ReadTO) + ms(sc.WriteTO)
		// with a peer that stopped reading or vanished, a write that is already blocked and the
		// response / TEARDOWN written next run into their deadlines one after the other
		// (observed: session writer blocked, then the connection's response to the peer's
		// last request): still bounded, two write timeouts instead of one
		for _, p := range sc.Peers {
			if p.StallAtUS > 0 || p.Vanish {
				baseBound = ms(sc.ReadTO) + 2*ms(sc.WriteTO)
			}
		}

		var serverClosed, streamClosed bool
		var smu sync.Mutex
		var closeServer func(who string)
		closeServerFn = func(who string) { closeServer(who) }
		closeServer = func(who string) {
			smu.Lock()
			if serverClosed {
				smu.Unlock()
				return
			}
			serverClosed = true
			smu.Unlock()
			census()
			nsess := 0
			for _, cb := range h.Callbacks() {
				if cb.Kind == "session.open" {
					nsess++
				}
				if cb.Kind == "session.close" {
					nsess--
				}
			}
			if nsess > 0 {
				w.Probe("server_close_with_sessions")
			}
			cmu.Lock()
			w.ProbeAdd("census_attributed_goroutines", len(owners.Owned(rootGID, "server")))
			cmu.Unlock()
			t0 := time.Now()
			hold0 := w.S.HoldTotal()
			w.Log.Add("driver:"+who, "server.close.call", "")
			srv.Close()
			d := time.Since(t0)
			w.Log.Add("driver:"+who, "server.close.ret", "")
			if lim := baseBound + budget(hold0); d > lim {
				w.Fail("c13/close-latency server", "Server.Close took %v of simulated time (bound %v)", d, lim)
			}
			// nothing created by the server may remain
			if left := w.Net.OpenSockets("srv"); len(left) > 0 {
				w.Fail("c13/socket-leak server", "after Server.Close returned the server node still holds: %v", left)
			}
			cmu.Lock()
			gs := owners.Owned(rootGID, "server")
			cmu.Unlock()
			if len(gs) > 0 {
				w.Fail("c13/goroutine-leak server", "after Server.Close returned %d goroutines created by the server remain: %s", len(gs), core.Describe(gs))
			}
		}

		// ---- Close from inside a request callback ----------------------------------------
		if rc := sc.ReqClose; rc != nil {
			var nCB atomic.Int32
			var rcFired atomic.Bool
			h.Hook = func(cb sys.CB) {
				if cb.Kind != rc.CB || int(nCB.Add(1)) != rc.Nth || !rcFired.CompareAndSwap(false, true) {
					return
				}
				w.Probe("close_inside_request_callback")
				w.Log.Add("srv", "reqclose", "%s in %s #%d async=%v", rc.Kind, rc.CB, rc.Nth, rc.Async)
				do := func() {
					switch rc.Kind {
					case "stream":
						smu.Lock()
						streamClosed = true
						smu.Unlock()
						stream.Close()
					case "session":
						if cb.Session != nil {
							cb.Session.Close()
						}
					case "server":
						closeServer("in-request-callback")
					case "conn":
						if cb.Conn != nil {
							cb.Conn.Close()
						}
					}
				}
				if rc.Async {
					w.Go("reqcloser", do)
				} else {
					do()
				}
			}
		}

		// ---- media writer ----------------------------------------------------------
		w.Go("writer", func() {
			n := sc.DurUS / sc.IntUS
			for c := 0; c < n; c++ {
				for mi, m := range desc.Medias {
					if m.IsBackChannel {
						continue // the server does not write to a back channel
					}
					pkt := &rtp.Packet{Header: rtp.Header{Version: 2, PayloadType: m.Formats[0].PayloadType(), SequenceNumber: uint16(c), Timestamp: uint32(c * 3000)},
						Payload: make([]byte, 20+int(core.H(sc.Seed, "sz", uint64(c), uint64(mi))%900))}
					stream.WritePacketRTP(m, pkt) //nolint:errcheck
				}
				time.Sleep(us(sc.IntUS) + time.Duration(core.H(sc.Seed, "wj", uint64(c))%977))
			}
		})

		// ---- peers ------------------------------------------------------------------
		var names []string
		var mcastNames, mcastIPs []string
		for i, p := range sc.Peers {
			name := fmt.Sprintf("peer%d", i)
			names = append(names, name)
			ip := fmt.Sprintf("10.0.0.%d", 20+i)
			if p.Transport == "mcast" {
				// the client looks its control connection's local address up among the machine's
				// real interfaces (net.Interfaces) before it joins a group: 127.0.0.1 always exists.
				// A second multicast reader keeps its simulated address (answered by the stand-in of
				// the interface lookup): the server tells multicast readers apart by their addresses.
				if len(mcastNames) == 0 {
					ip = "127.0.0.1"
				} else {
					w.Probe("second_multicast_reader")
				}
				mcastNames = append(mcastNames, name)
				mcastIPs = append(mcastIPs, ip)
				w.Probe("multicast_reader")
			}
			node := w.Net.Node(name, ip)
			c := &gortsplib.Client{Scheme: scheme, Host: "10.0.0.1:8554", Tunnel: tunnelOf(p.Transport), Protocol: protoOf(p.Transport),
				ReadTimeout: ms(sc.ReadTO), WriteTimeout: ms(sc.WriteTO), WriteQueueSize: sc.WQ}
			if sc.BackChan && p.Role == "read" && (p.Transport == "udp" || p.Transport == "tcp") {
				c.RequestBackChannels = true
			}
			if sc.Secure {
				c.TLSConfig = sys.ClientTLSConfig()
			}
			sys.WireClient(c, node, w.Net, nil)
			c.OnPacketsLost = func(uint64) {}
			c.OnDecodeError = func(error) {}
			c.OnTransportSwitch = func(error) {}
			var stateMu sync.Mutex
			state := "new"
			started := false
			setState := func(s string) { stateMu.Lock(); state = s; stateMu.Unlock() }
			// (not sync.Once: a second caller would park on its mutex, which is not a
			// durable wait, while the first is blocked inside Close)
			closeStarted := false
			closeDone := make(chan struct{})
			doClose := func(who string) {
				stateMu.Lock()
				if closeStarted {
					stateMu.Unlock()
					<-closeDone
					return
				}
				if !started {
					// nothing to close yet (a closer scheduled for the instant at which the client starts
					// may run first): leave the client to the final closer
					stateMu.Unlock()
					return
				}
				closeStarted = true
				stateMu.Unlock()
				defer close(closeDone)
				func() {
					stateMu.Lock()
					st, ok := state, started
					stateMu.Unlock()
					if !ok {
						return
					}
					switch st {
					case "describing", "setting-up", "starting":
						w.Probe("client_close_mid_handshake")
					case "playing":
						w.Probe("client_close_while_playing")
					case "recording":
						w.Probe("client_close_while_recording")
					}
					if p.StallUS > 0 {
						w.Probe("close_with_stalled_peer")
					}
					census()
					owner := fmt.Sprintf("client:%p", c)
					cmu.Lock()
					w.ProbeAdd("census_attributed_goroutines", len(owners.Owned(rootGID, owner)))
					cmu.Unlock()
					t0 := time.Now()
					hold0 := w.S.HoldTotal()
					w.Log.Add(name+":"+who, "client.close.call", "%s", st)
					c.Close()
					d := time.Since(t0)
					w.Log.Add(name+":"+who, "client.close.ret", "")
					// a recording client whose peer stopped reading: the write in progress runs into its
					// deadline, then the TEARDOWN written by Close does (two write timeouts in a row)
					// ... and more when the client's own media writer shares the connection with the request
					// being written (publisher, back-channel talker; a client that keeps going after a
					// failed PAUSE gets its writer back). A deadline belongs to the connection, not to the
					// call: whenever the writer goroutine starts a write it moves the deadline of a request
					// write (keep-alive, PAUSE) that is already blocked. Seen (seeds 31038218): keep-alive
					// blocked, a small RTCP report still fits into the window and moves the deadline, the
					// keep-alive times out one write timeout later, Close then waits for the writer's
					// blocked write and for its own TEARDOWN: four write timeouts. The chain ends when
					// nothing fits into the peer's window any more (a report or two); the bound below leaves
					// room for that and still is a bound.
					cb := baseBound
					if (p.StallAtUS > 0 || p.Vanish) && p.Transport != "udp" && p.Transport != "mcast" && (p.Role == "publish" || sc.BackChan) {
						cb = ms(sc.ReadTO) + 6*ms(sc.WriteTO)
					}
					if lim := cb + budget(hold0); d > lim {
						w.Fail("c13/close-latency client", "Client.Close (%s, state %s) took %v of simulated time (bound %v)", p.Transport, st, d, lim)
					}
					if left := w.Net.OpenSockets(name); len(left) > 0 {
						w.Fail("c13/socket-leak client", "after Client.Close returned (%s, state %s) the client node still holds: %v", p.Transport, st, left)
					}
					cmu.Lock()
					gs := owners.Owned(rootGID, owner)
					cmu.Unlock()
					if len(gs) > 0 {
						w.Fail("c13/goroutine-leak client", "after Client.Close returned (%s, state %s) %d goroutines created by the client remain: %s", p.Transport, st, len(gs), core.Describe(gs))
					}
				}()
			}
			if p.Role == "publish" {
				w.Probe("publisher")
			}
			w.Go(name, func() {
				time.Sleep(us(p.StartUS))
				setState("starting")
				if err := c.Start(); err != nil {
					return
				}
				stateMu.Lock()
				started = true
				stateMu.Unlock()
				census()
				if p.Steps < 2 {
					setState("idle")
					return
				}
				url := scheme + "://10.0.0.1:8554/stream"
				if p.Role == "publish" {
					url = fmt.Sprintf("%s://10.0.0.1:8554/pub%d", scheme, i)
				}
				u, _ := base.ParseURL(url)
				var medias []*description.Media
				var baseURL *base.URL
				setState("describing")
				if p.Role == "read" {
					d, _, err := c.Describe(u)
					if err != nil {
						setState("failed")
						return
					}
					medias, baseURL = d.Medias, d.BaseURL
				} else {
					pd := mkDesc()
					if _, err := c.Announce(u, pd); err != nil {
						setState("failed")
						return
					}
					medias, baseURL = pd.Medias, u
				}
				census()
				if p.Steps < 3 {
					setState("described")
					return
				}
				setState("setting-up")
				if err := c.SetupAll(baseURL, medias); err != nil {
					setState("failed")
					return
				}
				census()
				if p.Steps < 4 {
					setState("set-up")
					return
				}
				if p.Role == "read" {
					c.OnPacketRTPAny(func(_ *description.Media, _ format.Format, pkt *rtp.Packet) {
						if cb := sc.CBClose; cb != nil && cb.Kind == "client" && int(pkt.SequenceNumber) == cb.Seq && cbFired.CompareAndSwap(false, true) {
							w.Probe("close_inside_packet_callback")
							w.Log.Add(name, "cbclose", "client seq=%d spin=%d", cb.Seq, cb.Spin)
							w.Go(name+".cbcloser", func() { doClose("in-callback") })
							spin()
						}
					})
					if _, err := c.Play(nil); err != nil {
						setState("failed")
						return
					}
					setState("playing")
					if c.RequestBackChannels {
						// talk back until the client is closed (the last datagrams are still in flight then)
						var back *description.Media
						for _, m := range medias {
							if m.IsBackChannel {
								back = m
							}
						}
						if back != nil {
							w.Probe("back_channel_writer")
							go func() {
								for k := 0; k < 5000; k++ {
									if err := c.WritePacketRTP(back, &rtp.Packet{Header: rtp.Header{Version: 2, PayloadType: 8, SequenceNumber: uint16(k), Timestamp: uint32(k) * 160}, Payload: make([]byte, 80)}); err != nil &&
										!strings.Contains(err.Error(), "queue is full") {
										return
									}
									select {
									case <-closeDone: // the client has been closed (the packet just written may still be in flight)
										return
									case <-time.After(us(sc.IntUS) + time.Duration(core.H(sc.Seed, "bk", uint64(k))%991)):
									}
								}
							}()
						}
					}
				} else {
					if _, err := c.Record(); err != nil {
						setState("failed")
						return
					}
					setState("recording")
				}
				census()
				if p.StallUS > 0 {
					w.S.After(us(p.StallAtUS-p.StartUS), "stall:"+name, func() {
						for _, cn := range w.Net.Conns(name) {
							if p.Role == "publish" {
								// the server's end stops receiving: the publisher's writes pile up
								if pc := cn.Peer(); pc != nil {
									pc.Stall(us(p.StallUS))
								}
								w.Probe("server_side_stalled")
							} else {
								cn.Stall(us(p.StallUS))
							}
						}
					})
				}
				// a publisher writes while it records
				k := 0
				write := func(d time.Duration) {
					end := time.Now().Add(d)
					for time.Now().Before(end) {
						if p.Role == "publish" {
							for _, m := range medias {
								sq := k
								if cb := sc.CBClose; cb != nil && cb.Swap {
									if k == cb.Seq {
										sq = k + 1
									} else if k == cb.Seq+1 {
										sq = k - 1
									}
								}
								pkt := &rtp.Packet{Header: rtp.Header{Version: 2, PayloadType: m.Formats[0].PayloadType(), SequenceNumber: uint16(sq), Timestamp: uint32(sq * 3000)},
									Payload: make([]byte, 100)}
								if err := c.WritePacketRTP(m, pkt); err != nil && !strings.Contains(err.Error(), "queue is full") {
									return
								}
							}
							k++
						}
						time.Sleep(us(sc.IntUS))
					}
				}
				write(us(sc.DurUS / 4))
				if p.Steps >= 5 {
					if _, err := c.Pause(); err != nil {
						setState("failed")
						return
					}
					setState("paused")
					census()
					time.Sleep(us(sc.DurUS / 8))
					if p.Steps >= 6 {
						if p.Role == "read" {
							if _, err := c.Play(nil); err != nil {
								setState("failed")
								return
							}
							setState("playing")
						} else {
							if _, err := c.Record(); err != nil {
								setState("failed")
								return
							}
							setState("recording")
						}
						census()
						write(us(sc.DurUS / 4))
					}
				}
			})
			if p.CloseAtUS > 0 {
				w.Go(name+".closer", func() {
					time.Sleep(us(p.CloseAtUS))
					if p.Vanish {
						w.Probe("peer_vanished")
						w.Net.Vanish(name)
						return
					}
					w.Probe("client_close_concurrent")
					doClose("closer")
				})
			}
			// final close by a separate driver once the main phase is over
			w.Go(name+".final", func() {
				time.Sleep(us(sc.DurUS) + 50*time.Millisecond)
				w.WaitDrivers(name)
				if p.Vanish && p.CloseAtUS > 0 {
					// a vanished node cannot send anything any more; Close must still return
					doClose("final-vanished")
					return
				}
				doClose("final")
			})
		}

		if sc.StreamCloseUS > 0 {
			w.Go("stream.closer", func() {
				time.Sleep(us(sc.StreamCloseUS))
				w.Probe("stream_close_mid_run")
				smu.Lock()
				streamClosed = true
				smu.Unlock()
				t0 := time.Now()
				hold0 := w.S.HoldTotal()
				stream.Close()
				if d := time.Since(t0); d > baseBound+budget(hold0) {
					w.Fail("c13/close-latency stream", "ServerStream.Close took %v of simulated time", d)
				}
			})
		}
		if sc.ServerCloseUS > 0 {
			w.Go("server.closer", func() {
				time.Sleep(us(sc.ServerCloseUS))
				w.Probe("server_close_mid_run")
				closeServer("server.closer")
			})
		}

		// Receiver reports of the multicast readers, as the network may deliver them: sent to the group
		// from each reader's address and RTCP port for the whole run - while the reader plays, after it
		// has paused or left, late. (The readers' own reports go to the server's unicast address, where
		// the stand-in of pkg/multicast does not listen.) While the reader's session is alive they reach
		// its RTCP callback; once its close notification is out nothing may.
		ghostStop := make(chan struct{})
		if len(mcastNames) > 0 {
			ghostNode := w.Net.Node("ghost", "10.0.0.99")
			w.Go("ghost", func() {
				sock, err := ghostNode.ListenPacket("udp", ":7777")
				if err != nil {
					return
				}
				defer sock.Close()
				gs := sock.(*simnet.UDPSock)
				type ft struct{ from, to *net.UDPAddr }
				var list []ft
				seen := map[string]bool{}
				rr, _ := (&rtcp.ReceiverReport{SSRC: 0x0C130C13}).Marshal()
				for {
					select {
					case <-ghostStop:
						return
					default:
					}
					time.Sleep(2*us(sc.IntUS) + 7*time.Microsecond)
					for i, nm := range mcastNames {
						for _, s := range w.Net.UDPSockets(nm) {
							a := s.LocalAddr().(*net.UDPAddr)
							if a.IP.IsMulticast() && a.Port == 8003 && !seen[nm+a.String()] {
								seen[nm+a.String()] = true
								list = append(list, ft{&net.UDPAddr{IP: net.ParseIP(mcastIPs[i]), Port: 8003}, a})
							}
						}
					}
					for _, x := range list {
						gs.WriteFromTo(rr, x.from, x.to) //nolint:errcheck
						w.Probe("reader_rtcp_to_group")
					}
				}
			})
		}

		w.Go("closer", func() {
			var all []string
			for _, n := range names {
				all = append(all, n, n+".final")
			}
			w.WaitDrivers(append(all, "writer")...)
			close(ghostStop)
			smu.Lock()
			sc2 := streamClosed
			streamClosed = true
			smu.Unlock()
			if !sc2 {
				stream.Close()
			}
			closeServer("closer")
		})

		w.AtEnd(func() {
			if w.Failed() {
				return
			}
			cbs := h.Callbacks()
			// balance: every open has exactly one matching close (the server is closed by now)
			connOpen := map[*gortsplib.ServerConn]int{}
			connClose := map[*gortsplib.ServerConn]int{}
			sessOpen := map[*gortsplib.ServerSession]int{}
			sessClose := map[*gortsplib.ServerSession]int{}
			sessCloseG := map[*gortsplib.ServerSession]uint64{}
			nsess := 0
			for _, cb := range cbs {
				switch cb.Kind {
				case "conn.open":
					connOpen[cb.Conn]++
				case "conn.close":
					connClose[cb.Conn]++
				case "session.open":
					sessOpen[cb.Session]++
					nsess++
				case "session.close":
					sessClose[cb.Session]++
					sessCloseG[cb.Session] = cb.G
					if cb.Err != nil && (strings.Contains(cb.Err.Error(), "timed out") || strings.Contains(cb.Err.Error(), "not in use") || strings.Contains(cb.Err.Error(), "torn down")) {
						w.Probe("session_closed_by_timeout_or_peer")
					}
				}
			}
			for c, n := range connOpen {
				if n != 1 || connClose[c] != 1 {
					w.Fail("c13/balance conn", "connection %s: %d open notifications, %d close notifications", c.NetConn().RemoteAddr(), n, connClose[c])
					return
				}
			}
			for c, n := range connClose {
				if connOpen[c] != 1 {
					w.Fail("c13/balance conn", "connection close notification without matching open (%d closes)", n)
					return
				}
			}
			for s, n := range sessOpen {
				if n != 1 || sessClose[s] != 1 {
					w.Fail("c13/balance session", "session: %d open notifications, %d close notifications", n, sessClose[s])
					return
				}
			}
			for s, n := range sessClose {
				if sessOpen[s] != 1 {
					w.Fail("c13/balance session", "session close notification without matching open (%d closes) %p", n, s)
					return
				}
			}
			// order: nothing for a session after its close notification
			for _, cb := range cbs {
				switch cb.Kind {
				case "announce", "setup", "play", "record", "pause", "getparam", "setparam":
					if cb.Session != nil {
						if g, ok := sessCloseG[cb.Session]; ok && cb.G > g {
							w.Fail("c13/after-close request", "%s callback for a session delivered after its OnSessionClose (g=%d > %d)", cb.Kind, cb.G, g)
							return
						}
					}
				}
			}
			pmu.Lock()
			defer pmu.Unlock()
			for _, p := range pktCBs {
				if g, ok := sessCloseG[p.ss]; ok && p.g > g {
					w.Fail("c13/after-close packet", "packet callback for a session delivered after its OnSessionClose (g=%d > %d)", p.g, g)
					return
				}
			}
			summary = map[string]any{"peers": len(sc.Peers), "sessions": nsess, "conns": len(connOpen), "packet_callbacks": len(pktCBs)}
		})
	})
	nf := 0
	for k, v := range res.Faults {
		if v > 0 && k != "tcp.delay" {
			nf++
		}
	}
	res.Nontrivial = res.Probes["client_close_concurrent"]+res.Probes["server_close_mid_run"]+res.Probes["stream_close_mid_run"]+res.Probes["peer_vanished"]+res.Probes["close_inside_packet_callback"]+res.Probes["close_inside_request_callback"] > 0 &&
		(nf > 0 || len(res.YieldHits) > 0)
	res.Sample = summary
	return res
}

func shrink(sc Scenario) []Scenario {
	var out []Scenario
	clone := func() Scenario {
		c := sc
		c.Peers = append([]Peer(nil), sc.Peers...)
		if sc.Yields != nil {
			c.Yields = map[string]core.YieldSpec{}
			for k, v := range sc.Yields {
				c.Yields[k] = v
			}
		}
		return c
	}
	for i := range sc.Peers {
		if len(sc.Peers) > 1 {
			c := clone()
			c.Peers = append(c.Peers[:i], c.Peers[i+1:]...)
			out = append(out, c)
		}
	}
	if sc.CBClose != nil {
		c := clone()
		c.CBClose = nil
		out = append(out, c)
	}
	if sc.SimLocks {
		c := clone()
		c.SimLocks = false
		out = append(out, c)
	}
	if sc.ReqClose != nil {
		c := clone()
		c.ReqClose = nil
		out = append(out, c)
	}
	if len(sc.Yields) > 0 {
		c := clone()
		c.Yields = nil
		out = append(out, c)
		for k := range sc.Yields {
			c := clone()
			delete(c.Yields, k)
			out = append(out, c)
		}
	}
	if sc.ServerCloseUS != 0 {
		c := clone()
		c.ServerCloseUS = 0
		out = append(out, c)
	}
	if sc.StreamCloseUS != 0 {
		c := clone()
		c.StreamCloseUS = 0
		out = append(out, c)
	}
	for i, p := range sc.Peers {
		if p.CloseAtUS != 0 {
			c := clone()
			c.Peers[i].CloseAtUS = 0
			c.Peers[i].Vanish = false
			out = append(out, c)
		}
		if p.Vanish {
			c := clone()
			c.Peers[i].Vanish = false
			out = append(out, c)
		}
		if p.StallUS != 0 {
			c := clone()
			c.Peers[i].StallUS = 0
			out = append(out, c)
		}
		if p.Steps > 1 {
			c := clone()
			c.Peers[i].Steps--
			out = append(out, c)
		}
		if p.Transport != "tcp" {
			c := clone()
			c.Peers[i].Transport = "tcp"
			out = append(out, c)
		}
		if p.Role != "read" {
			c := clone()
			c.Peers[i].Role = "read"
			out = append(out, c)
		}
		if p.StartUS != 0 {
			c := clone()
			c.Peers[i].StartUS = 0
			out = append(out, c)
		}
	}
	if sc.Secure {
		c := clone()
		c.Secure = false
		out = append(out, c)
	}
	if sc.Net.ChunkMode != 0 {
		c := clone()
		c.Net.ChunkMode = 0
		out = append(out, c)
	}
	if sc.Net.Window != 0 {
		c := clone()
		c.Net.Window = 0
		out = append(out, c)
	}
	if sc.Net.UDPDrop != 0 {
		c := clone()
		c.Net.UDPDrop, c.Net.UDPReorder = 0, 0
		out = append(out, c)
	}
	if sc.DurUS > 20000 {
		c := clone()
		c.DurUS = sc.DurUS / 2
		out = append(out, c)
	}
	return out
}

func init() {
	f := core.Register("C13", gen, run, shrink)
	f.Real = []string{"gortsplib.Server, ServerStream, ServerSession, ServerConn, Client (root package, all pkg/* and internal/* it uses)", "pion rtp/rtcp/srtp/sdp", "gorilla/websocket", "crypto/tls", "net/http request/response parsing"}
	f.Simulated = []string{"TCP and UDP sockets, listeners (simnet)", "clock, timers, deadlines (testing/synctest fake clock)", "entropy", "goroutine interleaving at the shutdown-path yield sites (seeded holds up to 200 ms)", "UDP-multicast group sockets (simnet: join, delivery to every member incl. loop-back)", "in 30% of the runs: simulation-aware locks (verifhook.Mutex / RWMutex, waiters block on channels) and a yield point before every statement of server_udp_listener.go / client_udp_listener.go", "the application: Close calls issued from inside packet callbacks and request callbacks"}
	f.Excluded = []string{"pkg/multicast's raw-socket platform files (stand-in through the ListenPacket seam in the scratch copy; serverMulticastWriter* and the listeners above it are real)", "net.Interfaces for addresses other than loopback (the second multicast reader's interface lookup is answered by hooks/export_verif.go", "back-pressure under TLS / WebSocket", "Server.Close called synchronously from inside a handler callback (it waits for the goroutine that runs the callback: API misuse)"}
	f.Rule = "scenario = 1..4 peers (reader or publisher; udp/tcp/http/ws; plain or TLS+SRTP) each progressing to a seeded protocol step (started, described/announced, set up, playing/recording, paused, resumed) x Client.Close from another goroutine at a seeded instant (or silent disappearance of the peer's node) x Server.Close / ServerStream.Close at seeded instants while a writer keeps writing x peers that stop reading (bounded window + stall) x seeded yield holds on the shutdown paths; non-trivial = at least one Close (or vanish) landed mid-run and a fault or yield fired; distinct = distinct hash of the canonical event log"
	f.Assumptions = []string{
		"bounded time for Close = ReadTimeout + WriteTimeout (ReadTimeout + 2 x WriteTimeout in scenarios with a peer that stops reading or vanishes: a write that is already blocked and the response / TEARDOWN written next run into their deadlines one after the other) + the simulator's own injected-delay budget (yield holds assigned during the call, 8 x max latency, 2 s)",
		"per-object goroutine attribution is best effort (creator chains seen at census points); the end-of-run census (no goroutine at all left in the bubble) is complete",
		"'packet or request callback' = OnPacketRTP/OnPacketRTCP callbacks of the session and the OnAnnounce/OnSetup/OnPlay/OnRecord/OnPause/OnGetParameter/OnSetParameter handler calls that carry the session",
	}
}
