// Package c13 holds the scenario family of property C13.
package c13
