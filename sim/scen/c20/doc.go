// Package c20 holds the scenario family of property C20.
package c20
