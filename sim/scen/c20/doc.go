// Package c20 holds the scenario family of property C20 (URL fidelity): see c20.go.
package c20
