package c20

import (
	"fmt"
	"net"
	"strconv"
	"strings"
	"sync"
	"testing"
	"time"

	"github.com/pion/rtp"

	gortsplib "github.com/bluenviron/gortsplib/v5"
	"github.com/bluenviron/gortsplib/v5/pkg/base"
	"github.com/bluenviron/gortsplib/v5/pkg/description"
	"github.com/bluenviron/gortsplib/v5/pkg/format"

	"verifsim/core"
	"verifsim/sys"
)

var probeNames = []string{"query_present", "query_with_slash", "query_with_trackid", "path_segment_like_trackid", "percent_escape",
	"userinfo_present", "userinfo_password_only", "setup_challenged_and_repeated", "ipv6_authority", "hostname_authority", "record_variant", "control_relative", "control_absolute",
	"control_query_style", "control_leading_slash", "content_base_absent", "session_level_control", "setup_subset_or_permuted",
	"script_completed", "media_identity_checked", "keepalive_observed", "authenticated_retry", "raw_path_kept", "udp_transport",
	"control_empty_or_star", "base_other_host", "content_base_relative", "request_lines_checked", "tunnel_http", "tunnel_ws", "back_channel_in_stream"}

func us(n int) time.Duration { return time.Duration(n) * time.Microsecond }

func run(t *testing.T, sc Scenario) *core.Result {
	opts := sys.Options{Seed: sc.Seed, Net: sc.Net, MaxSteps: 400000, Horizon: 30 * time.Minute}
	var summary map[string]any
	res := sys.Run(t, opts, func(w *sys.World) {
		w.ProbeInit(probeNames...)
		scenarioProbes(w, &sc)
		w.Log.Add("scenario", "url", "%s %s %s/%s medias=%d order=%v all=%v samePT=%v cb=%v:%q sess=%q controls=%q", sc.Workload, sc.url(), sc.Variant, sc.Transport,
			sc.Medias, sc.SetupOrder, sc.UseSetupAll, sc.SamePT, sc.HasCB, sc.ContentBase, sc.SessControl, sc.Controls)
		if sc.Workload == "camera" {
			runCamera(w, &sc, &summary)
		} else {
			runLib(w, &sc, &summary)
		}
	})
	res.Nontrivial = res.Probes["script_completed"] > 0 && res.Probes["media_identity_checked"] > 0 && res.Probes["request_lines_checked"] > 0
	res.Sample = summary
	return res
}

// scenarioProbes counts the input classes a scenario belongs to.
func scenarioProbes(w *sys.World, sc *Scenario) {
	if sc.HasQuery {
		w.Probe("query_present")
		if strings.Contains(sc.Query, "/") {
			w.Probe("query_with_slash")
		}
		if strings.Contains(sc.Query, "trackID=") {
			w.Probe("query_with_trackid")
		}
	}
	for _, s := range sc.Segs {
		if strings.Contains(s.Dec, "trackID=") {
			w.Probe("path_segment_like_trackid")
			break
		}
	}
	if strings.Contains(sc.rawPath(), "%") {
		w.Probe("percent_escape")
	}
	if sc.PassOnly {
		w.Probe("userinfo_password_only")
	}
	if sc.User != "" {
		w.Probe("userinfo_present")
	}
	switch sc.Authority {
	case "ipv6":
		w.Probe("ipv6_authority")
	case "host", "host-noport":
		w.Probe("hostname_authority")
	}
	if sc.Variant == "record" {
		w.Probe("record_variant")
	}
	if sc.Transport == "udp" {
		w.Probe("udp_transport")
	}
	perm := len(sc.SetupOrder) != sc.Medias
	for i, m := range sc.SetupOrder {
		if m != i {
			perm = true
		}
	}
	if perm {
		w.Probe("setup_subset_or_permuted")
	}
	if sc.Workload == "camera" {
		for _, c := range sc.Controls {
			switch controlStyle(c) {
			case "relative":
				w.Probe("control_relative")
			case "absolute":
				w.Probe("control_absolute")
			case "query":
				w.Probe("control_query_style")
			case "slash":
				w.Probe("control_leading_slash")
			default:
				w.Probe("control_empty_or_star")
			}
		}
		if !sc.HasCB {
			w.Probe("content_base_absent")
		} else if strings.HasPrefix(sc.ContentBase, "/") {
			w.Probe("content_base_relative")
		}
		if sc.SessControl != "" {
			w.Probe("session_level_control")
		}
		if sc.OtherHost {
			w.Probe("base_other_host")
		}
	}
}

func mkDesc(n int, samePT bool) *description.Session {
	d := &description.Session{}
	for i := 0; i < n; i++ {
		pt := uint8(96)
		if !samePT {
			pt += uint8(i)
		}
		g := &format.Generic{PayloadTyp: pt, RTPMa: "private/90000"}
		if err := g.Init(); err != nil {
			panic(err)
		}
		typ := description.MediaTypeVideo
		if i%2 == 1 {
			typ = description.MediaTypeAudio
		}
		d.Medias = append(d.Medias, &description.Media{Type: typ, Formats: []format.Format{g}})
	}
	return d
}

const pktMagic = 0xC2

// tagged packet: payload = magic, media index, phase, counter
func mkPacket(pt uint8, media, phase, k int) *rtp.Packet {
	return &rtp.Packet{
		Header:  rtp.Header{Version: 2, PayloadType: pt, SequenceNumber: uint16(1000*phase + k), Timestamp: uint32(90000*phase + 3000*k)},
		Payload: []byte{pktMagic, byte(media), byte(phase), byte(k), 0, 0, 0, 0},
	}
}

func readTag(pkt *rtp.Packet) (media, phase, k int, ok bool) {
	p := pkt.Payload
	if len(p) != 8 || p[0] != pktMagic {
		return 0, 0, 0, false
	}
	return int(p[1]), int(p[2]), int(p[3]), true
}

func indexOf(ms []*description.Media, m *description.Media) int {
	for i, x := range ms {
		if x == m {
			return i
		}
	}
	return -1
}

// urlKinds are the handler callbacks that carry the stream's path and query.
var urlKinds = map[string]bool{"describe": true, "announce": true, "setup": true, "play": true, "record": true, "pause": true,
	"getparam": true, "setparam": true}

// checkHandlerURLs is the fidelity oracle: every handler context observed
// exactly the path and the query of the original URL.
func checkHandlerURLs(w *sys.World, sc *Scenario, h *sys.Handler) (bool, map[string]int) {
	ok := true
	counts := map[string]int{}
	for _, cb := range h.Callbacks() {
		if !urlKinds[cb.Kind] {
			continue
		}
		counts[cb.Kind]++
		if cb.Path != sc.decPath() || cb.Query != sc.rawQuery() {
			w.Fail("c20/handler-url "+cb.Kind, "URL %q: the %s handler (callback #%d of its kind) observed path %q query %q, the original URL has path %q (decoded) query %q (raw)",
				sc.urlNoCreds(), cb.Kind, counts[cb.Kind], cb.Path, cb.Query, sc.decPath(), sc.rawQuery())
			ok = false
		}
	}
	return ok, counts
}

// checkRequestLines: no request line written by the client carries the
// credentials of the URL.
func checkRequestLines(w *sys.World, sc *Scenario, tp *wireTap) []wireReq {
	if sc.Tunnel != "" {
		// HTTP requests / base64 blocks / WebSocket messages: not parsed; the credentials must
		// not occur anywhere in what the client wrote (the tunnel's own request line included)
		w.Probe("tunnel_" + sc.Tunnel)
		w.Probe("request_lines_checked")
		tp.mu.Lock()
		buf := string(tp.buf)
		tp.mu.Unlock()
		if sc.Tunnel == "http" {
			for _, tok := range []string{sc.User, sc.Pass, sc.UserDec, sc.PassDec} {
				if tok != "" && strings.Contains(buf, tok) {
					w.Fail("c20/credentials request-line", "the bytes written through the HTTP tunnel contain %q of the URL's user-info (%s:%s) in clear", tok, sc.User, sc.Pass)
					break
				}
			}
		}
		return nil
	}
	reqs, ok := tp.requests()
	if !ok {
		w.Fail("c20/harness wire-parse", "the byte stream written by the client cannot be parsed into RTSP messages")
		return nil
	}
	if len(reqs) > 0 {
		w.Probe("request_lines_checked")
	}
	if sc.User == "" && !sc.PassOnly {
		return reqs
	}
	for i, r := range reqs {
		for _, tok := range []string{sc.User, sc.Pass, sc.UserDec, sc.PassDec} {
			if tok != "" && strings.Contains(r.Line, tok) {
				w.Fail("c20/credentials request-line", "request #%d %q contains %q of the URL's user-info (%s:%s)", i, r.Line, tok, sc.User, sc.Pass)
				return reqs
			}
		}
	}
	return reqs
}

func lastSetupSession(h *sys.Handler) *gortsplib.ServerSession {
	cbs := h.Callbacks()
	for i := len(cbs) - 1; i >= 0; i-- {
		if cbs[i].Kind == "setup" && cbs[i].Session != nil {
			return cbs[i].Session
		}
	}
	return nil
}

func runLib(w *sys.World, sc *Scenario, summary *map[string]any) {
	auth, srvIP, cliIP, port := sc.hostPort()
	srvNode := w.Net.Node("srv", srvIP)
	cliNode := w.Net.Node("cli", cliIP)
	if h, _, err := net.SplitHostPort(auth); err == nil && net.ParseIP(h) == nil {
		w.Net.AddHost(h, srvIP)
	} else if err != nil {
		w.Net.AddHost(auth, srvIP)
	}
	h := sys.NewHandler(w)
	srv := &gortsplib.Server{
		RTSPAddress:    net.JoinHostPort(srvIP, strconv.Itoa(port)),
		UDPRTPAddress:  net.JoinHostPort(srvIP, "8000"),
		UDPRTCPAddress: net.JoinHostPort(srvIP, "8001"),
		Handler:        h,
	}
	h.Server = srv
	if sc.User != "" {
		h.Auth = func(conn *gortsplib.ServerConn, req *base.Request) bool {
			ok := conn.VerifyCredentials(req, sc.UserDec, sc.PassDec)
			if !ok && req.Header["Authorization"] != nil {
				w.Log.Add("srv", "auth.reject", "%s %s", req.Method, req.URL)
			}
			return ok
		}
	}
	sys.WireServer(srv, srvNode, nil)
	if err := srv.Start(); err != nil {
		w.Fail("c20/harness server", "Server.Start: %v", err)
		return
	}

	desc := mkDesc(sc.Medias, sc.SamePT)
	plain := append([]*description.Media(nil), desc.Medias...) // what a client that asks for no back channel is offered
	if sc.HasBack && sc.Variant == "play" {
		a := &format.G711{PayloadTyp: 8, MULaw: false, SampleRate: 8000, ChannelCount: 1}
		back := &description.Media{Type: description.MediaTypeAudio, IsBackChannel: true, Formats: []format.Format{a}}
		desc.Medias = append(desc.Medias[:sc.BackAt:sc.BackAt], append([]*description.Media{back}, desc.Medias[sc.BackAt:]...)...)
		w.Probe("back_channel_in_stream")
	}
	var stream *gortsplib.ServerStream
	if sc.Variant == "play" {
		stream = &gortsplib.ServerStream{Server: srv, Desc: desc}
		if err := stream.Initialize(); err != nil {
			w.Fail("c20/harness server", "ServerStream.Initialize: %v", err)
			srv.Close()
			return
		}
		// registered under the path the handlers must observe
		h.SetStream(sc.decPath(), stream)
	}

	tp := &wireTap{}
	var mu sync.Mutex
	got := map[[2]int]int{} // (phase, media) -> packets that arrived at the right media
	decodeErrs := []string{}
	setUp := map[int]bool{}
	for _, m := range sc.SetupOrder {
		setUp[m] = true
	}
	completed := false
	quiet := 4*us(sc.Net.LatMaxUS) + 20*time.Millisecond

	progress := func() int {
		mu.Lock()
		defer mu.Unlock()
		n := 0
		for _, v := range got {
			n += v
		}
		return n
	}

	// checkPhase: every set-up media received its tagged packets of this phase.
	checkPhase := func(phase int, who string) bool {
		w.Settle(progress, quiet)
		mu.Lock()
		defer mu.Unlock()
		for _, m := range sc.SetupOrder {
			n := got[[2]int{phase, m}]
			if (sc.Transport == "tcp" && n != sc.Packets) || n == 0 {
				w.Fail("c20/setup-media packets", "URL %q, %s over %s, set-up order %v: of the %d packets written to media %d in phase %d only %d arrived at %s's callback of media %d (decode errors: %v)",
					sc.urlNoCreds(), sc.Variant, sc.Transport, sc.SetupOrder, sc.Packets, m, phase, n, who, m, decodeErrs)
				return false
			}
		}
		return true
	}

	w.Go("client", func() {
		c := &gortsplib.Client{Scheme: "rtsp", Host: auth}
		p := gortsplib.ProtocolTCP
		if sc.Transport == "udp" {
			p = gortsplib.ProtocolUDP
		}
		c.Protocol = &p
		switch sc.Tunnel {
		case "http":
			c.Tunnel = gortsplib.TunnelHTTP
		case "ws":
			c.Tunnel = gortsplib.TunnelWebSocket
		}
		sys.WireClient(c, cliNode, w.Net, tp.tap)
		c.OnDecodeError = func(err error) {
			mu.Lock()
			decodeErrs = append(decodeErrs, "client: "+err.Error())
			mu.Unlock()
		}
		c.OnPacketsLost = func(uint64) {}
		nAuth := 0
		c.OnRequest = func(req *base.Request) {
			if req.Header["Authorization"] != nil {
				nAuth++
			}
		}
		fail := func(step string, err error) {
			// a handler that saw another URL explains most API errors: report that first
			if ok, _ := checkHandlerURLs(w, sc, h); !ok {
				return
			}
			// so do credentials that went out in a request line
			if checkRequestLines(w, sc, tp); w.Failed() {
				return
			}
			w.Fail("c20/api-error "+step, "URL %q (%s over %s, medias %d, set-up order %v): %s failed: %v", sc.url(), sc.Variant, sc.Transport, sc.Medias, sc.SetupOrder, step, err)
		}
		u, err := base.ParseURL(sc.url())
		if err != nil {
			w.Fail("c20/api-error parse", "base.ParseURL(%q): %v", sc.url(), err)
			return
		}
		if u.RawPath != "" {
			w.Probe("raw_path_kept")
		}
		if err := c.Start(); err != nil {
			fail("start", err)
			return
		}
		defer c.Close()

		// checkSession: after the k-th SETUP the session's medias are the ones the
		// SETUPs were issued for, in order.
		checkSession := func(k int, ref func(ss *gortsplib.ServerSession) []*description.Media) bool {
			ss := lastSetupSession(h)
			if ss == nil {
				w.Fail("c20/setup-media session", "no OnSetup callback with a session after %d successful SETUPs", k)
				return false
			}
			ms := ss.Medias()
			all := ref(ss)
			var gotIdx []int
			for _, m := range ms {
				gotIdx = append(gotIdx, indexOf(all, m))
			}
			want := sc.SetupOrder[:k]
			if fmt.Sprint(gotIdx) != fmt.Sprint(want) {
				w.Fail("c20/setup-media session", "URL %q (%s): after SETUPs issued for medias %v the server session holds medias %v", sc.urlNoCreds(), sc.Variant, want, gotIdx)
				return false
			}
			return true
		}

		if sc.Variant == "play" {
			d, _, err := c.Describe(u)
			if err != nil {
				fail("describe", err)
				return
			}
			if len(d.Medias) != sc.Medias {
				w.Fail("c20/api-error describe", "described %d medias, the stream has %d", len(d.Medias), sc.Medias)
				return
			}
			ref := func(*gortsplib.ServerSession) []*description.Media { return plain }
			if sc.setupAll() {
				if err := c.SetupAll(d.BaseURL, d.Medias); err != nil {
					fail("setup", err)
					return
				}
				if !checkSession(len(sc.SetupOrder), ref) {
					return
				}
			} else {
				for k, m := range sc.SetupOrder {
					if _, err := c.Setup(d.BaseURL, d.Medias[m], 0, 0); err != nil {
						fail("setup", fmt.Errorf("media %d (SETUP #%d): %w", m, k, err))
						return
					}
					if !checkSession(k+1, ref) {
						return
					}
				}
			}
			c.OnPacketRTPAny(func(m *description.Media, f format.Format, pkt *rtp.Packet) {
				j := indexOf(d.Medias, m)
				i, phase, _, ok := readTag(pkt)
				if !ok {
					w.Fail("c20/setup-media packets", "the client received a packet nobody wrote (%d bytes)", len(pkt.Payload))
					return
				}
				if i != j {
					w.Fail("c20/setup-media packets", "URL %q, set-up order %v: a packet written to media %d of the server stream arrived at the client callback of media %d", sc.urlNoCreds(), sc.SetupOrder, i, j)
					return
				}
				mu.Lock()
				got[[2]int{phase, j}]++
				mu.Unlock()
			})
			writeAll := func(phase, n int) {
				for k := 0; k < n; k++ {
					for i, m := range plain { // also medias that were not set up
						stream.WritePacketRTP(m, mkPacket(m.Formats[0].PayloadType(), i, phase, k)) //nolint:errcheck
					}
					time.Sleep(us(500))
				}
			}
			if _, err := c.Play(nil); err != nil {
				fail("play", err)
				return
			}
			writeAll(1, sc.Packets)
			if !checkPhase(1, "the client") {
				return
			}
			if _, err := c.Pause(); err != nil {
				fail("pause", err)
				return
			}
			if _, err := c.Play(nil); err != nil {
				fail("play#2", err)
				return
			}
			writeAll(2, sc.Packets)
			if !checkPhase(2, "the client") {
				return
			}
			if sc.KeepAlive {
				for s := 0; s < 70; s++ {
					time.Sleep(time.Second)
					writeAll(3, 1)
				}
			}
		} else {
			pdesc := mkDesc(sc.Medias, sc.SamePT)
			h.NoForward = true
			h.OnRTP = func(ss *gortsplib.ServerSession, m *description.Media, f format.Format, pkt *rtp.Packet) {
				ad := ss.AnnouncedDescription()
				j := indexOf(ad.Medias, m)
				i, phase, _, ok := readTag(pkt)
				if !ok {
					w.Fail("c20/setup-media packets", "the server session received a packet nobody wrote (%d bytes)", len(pkt.Payload))
					return
				}
				if i != j {
					w.Fail("c20/setup-media packets", "URL %q, set-up order %v: a packet the publisher wrote on media %d arrived at the session callback of announced media %d", sc.urlNoCreds(), sc.SetupOrder, i, j)
					return
				}
				mu.Lock()
				got[[2]int{phase, j}]++
				mu.Unlock()
			}
			if _, err := c.Announce(u, pdesc); err != nil {
				fail("announce", err)
				return
			}
			ref := func(ss *gortsplib.ServerSession) []*description.Media { return ss.AnnouncedDescription().Medias }
			if sc.setupAll() {
				if err := c.SetupAll(u, pdesc.Medias); err != nil {
					fail("setup", err)
					return
				}
				if !checkSession(len(sc.SetupOrder), ref) {
					return
				}
			} else {
				for k, m := range sc.SetupOrder {
					if _, err := c.Setup(u, pdesc.Medias[m], 0, 0); err != nil {
						fail("setup", fmt.Errorf("media %d (SETUP #%d): %w", m, k, err))
						return
					}
					if !checkSession(k+1, ref) {
						return
					}
				}
			}
			if ss := lastSetupSession(h); ss != nil {
				ad := ss.AnnouncedDescription()
				if len(ad.Medias) != sc.Medias {
					w.Fail("c20/setup-media session", "announced %d medias, the session holds %d", sc.Medias, len(ad.Medias))
					return
				}
			}
			writeAll := func(phase, n int) bool {
				for k := 0; k < n; k++ {
					for _, i := range sc.SetupOrder {
						m := pdesc.Medias[i]
						if err := c.WritePacketRTP(m, mkPacket(m.Formats[0].PayloadType(), i, phase, k)); err != nil {
							fail("write", err)
							return false
						}
					}
					time.Sleep(us(500))
				}
				return true
			}
			if _, err := c.Record(); err != nil {
				fail("record", err)
				return
			}
			if !writeAll(1, sc.Packets) || !checkPhase(1, "the server session") {
				return
			}
			if _, err := c.Pause(); err != nil {
				fail("pause", err)
				return
			}
			if _, err := c.Record(); err != nil {
				fail("record#2", err)
				return
			}
			if !writeAll(2, sc.Packets) || !checkPhase(2, "the server session") {
				return
			}
			if sc.KeepAlive {
				for s := 0; s < 70; s++ {
					time.Sleep(time.Second)
					if !writeAll(3, 1) {
						return
					}
				}
			}
		}
		if nAuth > 0 {
			w.Probe("authenticated_retry")
		}
		completed = true
	})

	w.Go("closer", func() {
		w.WaitDrivers("client")
		if stream != nil {
			stream.Close()
		}
		srv.Close()
	})

	w.AtEnd(func() {
		if w.Failed() {
			return
		}
		ok, counts := checkHandlerURLs(w, sc, h)
		if !ok {
			return
		}
		reqs := checkRequestLines(w, sc, tp)
		if w.Failed() {
			return
		}
		if completed {
			w.Probe("script_completed")
			w.Probe("media_identity_checked")
			// every step reached its handler (otherwise the comparison above was vacuous)
			need := []string{"describe", "setup", "play", "pause"}
			if sc.Variant == "record" {
				need = []string{"announce", "setup", "record", "pause"}
			}
			for _, k := range need {
				if counts[k] == 0 {
					w.Fail("c20/harness vacuous", "the script completed but no %s callback was recorded", k)
					return
				}
			}
			if counts["getparam"] > 0 {
				w.Probe("keepalive_observed")
			}
		}
		*summary = map[string]any{"workload": "lib", "url": sc.url(), "variant": sc.Variant, "transport": sc.Transport,
			"setup_order": sc.SetupOrder, "requests": len(reqs), "callbacks": counts}
	})
}
