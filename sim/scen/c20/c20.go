// Package c20 decides C20 (URL fidelity: path, query and track resolution agree
// between client and server) by whole-system simulation (DESIGN 3.15).
//
// Two workloads:
//
//	lib    - a real Client against a real Server: describe / setup / play / pause /
//	         play and announce / setup / record / pause over seeded stream URLs.
//	camera - a real Client against a scripted camera-style server whose DESCRIBE
//	         answer uses the control-attribute styles found in the field.
//
// Representation used for "the path and the query of the original URL"
// (pkg/base.URL is net/url.URL): the handlers' Path is the percent-DECODED path
// of the URL (url.URL.Path), the handlers' Query is the RAW query string, i.e.
// the bytes after the first '?' exactly as written (url.URL.RawQuery). The
// generator builds every path segment as a (raw, decoded) pair, so the expected
// decoded path is known without asking the library's parser.
package c20

import (
	"fmt"
	"strings"

	"verifsim/core"
	"verifsim/simnet"
)

// Seg is one path segment: as written in the URL and percent-decoded.
type Seg struct {
	Raw string `json:"raw"`
	Dec string `json:"dec"`
}

// Scenario is one C20 run.
type Scenario struct {
	Seed     uint64        `json:"seed"`
	Net      simnet.Config `json:"net"`
	Workload string        `json:"workload"` // lib | camera

	Authority string `json:"authority"`      // ipv4 | ipv6 | host | host-noport
	User      string `json:"user,omitempty"` // as written in the URL (escaped)
	Pass      string `json:"pass,omitempty"`
	// PassOnly: the user-info is ":password@" - an empty user name. Nobody asks for credentials in
	// these runs; the password must still never show up in a request line.
	PassOnly  bool   `json:"pass_only,omitempty"`
	UserDec   string `json:"user_dec,omitempty"`
	PassDec   string `json:"pass_dec,omitempty"`
	Segs      []Seg  `json:"segs"`
	HasQuery  bool   `json:"has_query"`
	Query     string `json:"query,omitempty"` // raw

	Medias      int    `json:"medias"`
	SamePT      bool   `json:"same_pt"`     // all medias use the same payload type
	Variant     string `json:"variant"`     // play | record
	Transport   string `json:"transport"`   // tcp | udp
	SetupOrder  []int  `json:"setup_order"` // medias set up, in this order
	UseSetupAll bool   `json:"use_setup_all"`
	Packets     int    `json:"packets"`
	KeepAlive   bool   `json:"keep_alive"`       // stay long enough for keep-alives to be sent
	Tunnel      string `json:"tunnel,omitempty"` // lib workload over tcp: "" | http | ws (RTSP over HTTP / WebSocket)
	// HasBack / BackAt (lib workload, play): the stream's description also holds a back channel
	// at this position; the client does not ask for back channels, so it must neither see it
	// nor ever be connected to it by a SETUP.
	HasBack bool `json:"has_back,omitempty"`
	BackAt  int  `json:"back_at,omitempty"`

	// camera workload: what the scripted server answers to DESCRIBE.
	Controls    []string `json:"controls,omitempty"`     // per media; "" = no attribute
	HasCB       bool     `json:"has_cb,omitempty"`       // Content-Base header present
	ContentBase string   `json:"content_base,omitempty"` // its value
	SessControl string   `json:"sess_control,omitempty"` // session-level a=control ("" = none)
	// LateAuth (camera workload with user-info): DESCRIBE is open, the first challenge comes with SETUP.
	LateAuth bool `json:"late_auth,omitempty"`
	OtherHost   bool     `json:"other_host,omitempty"`   // the base (Content-Base / session control) names another host
}

// ---- alphabets ----------------------------------------------------------------------

type atom struct{ raw, dec string }

var plainAtoms = []atom{{"cam", "cam"}, {"live", "live"}, {"stream", "stream"}, {"ch01", "ch01"}, {"main", "main"},
	{"A-b_c.d", "A-b_c.d"}, {"x", "x"}, {"h264", "h264"}, {"media.sdp", "media.sdp"}, {"7", "7"}}

// characters that may appear unescaped in a path segment (RFC 3986 pchar minus '/')
var rawAtoms = []atom{{"=", "="}, {"&", "&"}, {";", ";"}, {"+", "+"}, {"~", "~"}, {",", ","}, {":", ":"}, {"@", "@"}, {"$", "$"},
	{"!", "!"}, {"(", "("}, {")", ")"}, {"*", "*"}, {"'", "'"}}

var escAtoms = []atom{{"%20", " "}, {"%2F", "/"}, {"%3D", "="}, {"%26", "&"}, {"%3F", "?"}, {"%25", "%"}, {"%23", "#"}, {"%2B", "+"},
	{"%C3%A9", "é"}, {"%E2%82%AC", "€"}, {"%2f", "/"}, {"%3d", "="}, {"%41", "A"}, {"%7E", "~"}, {"%5B", "["}, {"%22", "\""}}

// whole segments that look like the server's own control attribute
var trackSegs = []atom{{"trackID=0", "trackID=0"}, {"trackID=3", "trackID=3"}, {"trackID=12", "trackID=12"},
	{"trackID%3D1", "trackID=1"}, {"trackID=", "trackID="}, {"x%2FtrackID=2", "x/trackID=2"}, {"trackID=1x", "trackID=1x"}}

var queryKeys = []string{"a", "token", "user", "ch", "profile", "trackID", "x-y", "res"}

var queryVals = []string{"1", "abc", "main", "0", "", "a/b", "/x", "/", "trackID=1", "/trackID=1", "x/trackID=0", "?", "=", "==",
	"%20", "%2F", "%3D", "+", ":", "@", ";", ",", "a?b", "rtsp://10.0.0.9/x", "a%26b", "~", "!", "(1)", "*"}

var credentials = [][4]string{
	{"usrQZ7", "pwdXK9J", "usrQZ7", "pwdXK9J"},
	{"adm1nQ", "s3cr%2Bt%3AW", "adm1nQ", "s3cr+t:W"},
	{"Op%40tor9", "Zq8-_.~Lm", "Op@tor9", "Zq8-_.~Lm"},
	{"onlyUsr5", "", "onlyUsr5", ""}, // user name without password
}

func genSeg(r *core.Rand, last bool) (Seg, bool, bool) {
	like, esc := false, false
	if r.Bool(0.18) {
		a := trackSegs[r.Intn(len(trackSegs))]
		return Seg{a.raw, a.dec}, true, strings.Contains(a.raw, "%")
	}
	n := r.Range(1, 3)
	var s Seg
	for i := 0; i < n; i++ {
		var a atom
		switch x := r.Intn(10); {
		case x < 4:
			a = plainAtoms[r.Intn(len(plainAtoms))]
		case x < 7:
			a = escAtoms[r.Intn(len(escAtoms))]
			esc = true
		default:
			a = rawAtoms[r.Intn(len(rawAtoms))]
		}
		s.Raw += a.raw
		s.Dec += a.dec
	}
	// the statement is about paths not ending in '/': the decoded form of the last
	// segment must not end in one either
	if last && strings.HasSuffix(s.Dec, "/") {
		s.Raw += "z"
		s.Dec += "z"
	}
	// "." and ".." are dot-segments, not names
	if s.Dec == "." || s.Dec == ".." {
		s.Raw += "d"
		s.Dec += "d"
	}
	return s, like, esc
}

func genQuery(r *core.Rand) string {
	n := r.Range(1, 3)
	var parts []string
	for i := 0; i < n; i++ {
		k := queryKeys[r.Intn(len(queryKeys))]
		if r.Bool(0.1) {
			parts = append(parts, k) // bare key
			continue
		}
		v := queryVals[r.Intn(len(queryVals))]
		if r.Bool(0.3) {
			v += queryVals[r.Intn(len(queryVals))]
		}
		parts = append(parts, k+"="+v)
	}
	q := strings.Join(parts, "&")
	for strings.HasSuffix(q, "/") {
		q += "1" // never ending in '/'
	}
	return q
}

func gen(seed uint64, tier string) Scenario {
	r := core.NewRand(seed, "c20")
	sc := Scenario{Seed: seed}
	sc.Workload = "lib"
	if r.Bool(0.4) {
		sc.Workload = "camera"
	}
	sc.Authority = []string{"ipv4", "ipv4", "ipv6", "ipv6", "host", "host-noport"}[r.Intn(6)]
	if r.Bool(0.4) {
		c := credentials[r.Intn(len(credentials))]
		sc.User, sc.Pass, sc.UserDec, sc.PassDec = c[0], c[1], c[2], c[3]
	}
	// ":secret@host": an empty user name with a password (hash-derived so that no other choice moves)
	if x := core.HS(seed, "c20.passonly", "", 0); x%100 < 8 {
		sc.User, sc.UserDec = "", ""
		sc.Pass, sc.PassDec = "s3cr3tPw", "s3cr3tPw"
		sc.PassOnly = true
	}
	ns := r.Range(1, 4)
	if r.Bool(0.4) {
		ns = r.Range(1, 2)
	}
	for i := 0; i < ns; i++ {
		s, _, _ := genSeg(r, i == ns-1)
		sc.Segs = append(sc.Segs, s)
	}
	if r.Bool(0.55) {
		sc.HasQuery = true
		sc.Query = genQuery(r)
	}
	sc.Medias = r.Range(1, 4)
	if r.Bool(0.05) {
		sc.Medias = r.Range(5, 12) // two-digit track ids
	}
	sc.SamePT = r.Bool(0.4)
	sc.Variant = "play"
	if r.Bool(0.35) {
		sc.Variant = "record"
	}
	sc.Transport = []string{"tcp", "udp"}[r.Intn(2)]
	sc.Packets = r.Range(2, 5)
	sc.KeepAlive = r.Bool(0.08)

	// which medias are set up, in which order
	order := make([]int, sc.Medias)
	for i := range order {
		order[i] = i
	}
	sc.UseSetupAll = true
	if sc.Medias > 1 && r.Bool(0.45) {
		sc.UseSetupAll = false
		for i := len(order) - 1; i > 0; i-- { // permute
			j := r.Intn(i + 1)
			order[i], order[j] = order[j], order[i]
		}
		// a recording session must set up every announced media
		if sc.Variant == "play" && r.Bool(0.5) {
			order = order[:r.Range(1, len(order)-1)]
		}
	} else if r.Bool(0.3) {
		sc.UseSetupAll = false // same order, one Setup call per media
	}
	sc.SetupOrder = order

	if sc.Workload == "camera" {
		sc.Variant = "play"
		sc.Transport = "tcp"
		genCamera(r, &sc)
	}

	if x := core.HS(seed, "c20.back", "", 0); sc.Workload != "camera" && sc.Variant == "play" && x%100 < 12 {
		sc.HasBack = true
		sc.BackAt = int((x >> 8) % uint64(sc.Medias+1))
	}
	// the tunnels put the URL's path into a HTTP request line as well; hash-derived so that
	// no other choice of the scenario moves
	if sc.Workload != "camera" && sc.Transport == "tcp" {
		switch x := core.HS(seed, "c20.tunnel", "", 0) % 100; {
		case x < 14:
			sc.Tunnel = "http"
		case x < 22:
			sc.Tunnel = "ws"
		}
	}

	nc := simnet.Config{Seed: seed ^ 0x20202020}
	nc.LatMinUS = r.Pick(10, 100, 1000)
	nc.LatMaxUS = nc.LatMinUS + r.Pick(0, 50, 500)
	nc.ChunkMode = r.Pick(0, 1, 2, 3)
	nc.ChunkMaxLen = r.Pick(64, 256, 1024)
	// writes that wait together may travel as one byte run (pipelined requests, a response and
	// the frames behind it); hash-derived so that no other choice moves
	if x := core.HS(seed, "c20.coalesce", "", 0) % 100; x < 30 {
		nc.Coalesce = []float64{0.3, 0.7, 1}[x%3]
	}
	sc.Net = nc
	return sc
}

// ---- derived strings ---------------------------------------------------------------------

// hostPort returns the authority as written in the URL, the address the server
// node has, the one the client node has and the port the server listens on.
func (sc *Scenario) hostPort() (auth, srvIP, cliIP string, port int) {
	switch sc.Authority {
	case "ipv6":
		return "[fd00::1]:8554", "fd00::1", "fd00::20", 8554
	case "host":
		return "cam-1.example.net:8554", "10.0.0.1", "10.0.0.20", 8554
	case "host-noport":
		return "media.example.org", "10.0.0.1", "10.0.0.20", 554
	}
	return "10.0.0.1:8554", "10.0.0.1", "10.0.0.20", 8554
}

// setupAll reports whether the medias are set up with one SetupAll call (only
// meaningful when every media is set up in description order).
func (sc *Scenario) setupAll() bool {
	if !sc.UseSetupAll || len(sc.SetupOrder) != sc.Medias {
		return false
	}
	for i, m := range sc.SetupOrder {
		if m != i {
			return false
		}
	}
	return true
}

// rawPath is the path as written in the URL.
func (sc *Scenario) rawPath() string {
	var b strings.Builder
	for _, s := range sc.Segs {
		b.WriteString("/" + s.Raw)
	}
	return b.String()
}

// decPath is the percent-decoded path: what the handlers must observe.
func (sc *Scenario) decPath() string {
	var b strings.Builder
	for _, s := range sc.Segs {
		b.WriteString("/" + s.Dec)
	}
	return b.String()
}

func (sc *Scenario) rawQuery() string {
	if sc.HasQuery {
		return sc.Query
	}
	return ""
}

// urlNoCreds is the stream URL without user-info; url() is the one handed to the client.
func (sc *Scenario) urlNoCreds() string {
	auth, _, _, _ := sc.hostPort()
	u := "rtsp://" + auth + sc.rawPath()
	if sc.HasQuery {
		u += "?" + sc.Query
	}
	return u
}

func (sc *Scenario) url() string {
	auth, _, _, _ := sc.hostPort()
	u := "rtsp://"
	if sc.User != "" || sc.PassOnly {
		u += sc.User
		if sc.Pass != "" {
			u += ":" + sc.Pass
		}
		u += "@"
	}
	u += auth + sc.rawPath()
	if sc.HasQuery {
		u += "?" + sc.Query
	}
	return u
}

// ---- shrinking -----------------------------------------------------------------------------

func (sc Scenario) clone() Scenario {
	c := sc
	c.Segs = append([]Seg(nil), sc.Segs...)
	c.SetupOrder = append([]int(nil), sc.SetupOrder...)
	c.Controls = append([]string(nil), sc.Controls...)
	return c
}

func shrink(sc Scenario) []Scenario {
	var out []Scenario
	add := func(f func(c *Scenario)) {
		c := sc.clone()
		f(&c)
		out = append(out, c)
	}
	// fewer / simpler path segments
	if len(sc.Segs) > 1 {
		for i := range sc.Segs {
			add(func(c *Scenario) { c.Segs = append(c.Segs[:i], c.Segs[i+1:]...) })
		}
	}
	for i, s := range sc.Segs {
		if s.Raw != "s" {
			add(func(c *Scenario) { c.Segs[i] = Seg{"s", "s"} })
		}
	}
	if sc.HasQuery {
		add(func(c *Scenario) { c.HasQuery = false; c.Query = "" })
		if parts := strings.Split(sc.Query, "&"); len(parts) > 1 {
			for i := range parts {
				add(func(c *Scenario) {
					p := append(append([]string(nil), parts[:i]...), parts[i+1:]...)
					c.Query = strings.Join(p, "&")
				})
			}
		}
		if sc.Query != "a=1" {
			add(func(c *Scenario) { c.Query = "a=1" })
		}
	}
	if sc.User != "" || sc.PassOnly {
		add(func(c *Scenario) { c.User, c.Pass, c.UserDec, c.PassDec, c.PassOnly = "", "", "", "", false })
	}
	if sc.Authority != "ipv4" {
		add(func(c *Scenario) { c.Authority = "ipv4" })
	}
	if sc.KeepAlive {
		add(func(c *Scenario) { c.KeepAlive = false })
	}
	if sc.Medias > 1 {
		add(func(c *Scenario) {
			c.Medias--
			var o []int
			for _, m := range c.SetupOrder {
				if m < c.Medias {
					o = append(o, m)
				}
			}
			if len(o) == 0 {
				o = []int{0}
			}
			c.SetupOrder = o
			if len(c.Controls) > c.Medias {
				c.Controls = c.Controls[:c.Medias]
			}
		})
	}
	if len(sc.SetupOrder) > 1 && sc.Variant == "play" {
		add(func(c *Scenario) { c.SetupOrder = c.SetupOrder[:len(c.SetupOrder)-1]; c.UseSetupAll = false })
	}
	sorted := true
	for i, m := range sc.SetupOrder {
		if m != i {
			sorted = false
		}
	}
	if !sorted && len(sc.SetupOrder) == sc.Medias {
		add(func(c *Scenario) {
			for i := range c.SetupOrder {
				c.SetupOrder[i] = i
			}
		})
	}
	if sc.Variant == "record" {
		add(func(c *Scenario) { c.Variant = "play" })
	}
	if sc.Transport != "tcp" {
		add(func(c *Scenario) { c.Transport = "tcp" })
	}
	if sc.Tunnel != "" {
		add(func(c *Scenario) { c.Tunnel = "" })
	}
	if sc.HasBack {
		add(func(c *Scenario) { c.HasBack = false; c.BackAt = 0 })
	}
	if sc.SamePT {
		add(func(c *Scenario) { c.SamePT = false })
	}
	if sc.Packets > 1 {
		add(func(c *Scenario) { c.Packets = 1 })
	}
	if sc.Workload == "camera" {
		if sc.SessControl != "" {
			add(func(c *Scenario) { c.SessControl = "" })
		}
		if sc.HasCB {
			add(func(c *Scenario) { c.HasCB = false; c.ContentBase = ""; c.OtherHost = false })
		}
		for i, ctl := range sc.Controls {
			simple := fmt.Sprintf("trackID=%d", i)
			if ctl != simple {
				add(func(c *Scenario) { c.Controls[i] = simple })
			}
		}
	}
	if sc.Net.ChunkMode != 0 {
		add(func(c *Scenario) { c.Net.ChunkMode = 0 })
	}
	if sc.Net.LatMaxUS != sc.Net.LatMinUS {
		add(func(c *Scenario) { c.Net.LatMaxUS = c.Net.LatMinUS })
	}
	return out
}

func init() {
	f := core.Register("C20", gen, run, shrink)
	f.Real = []string{
		"gortsplib.Client (client.go: findBaseURL, doDescribe, doAnnounce/prepareForAnnounce, doSetup, doPlay/doRecord/doPause, keep-alives), pkg/description (Media.URL, SDP marshal/unmarshal)",
		"gortsplib.Server, ServerConn, ServerSession, ServerStream (getPathAndQuery, getPathAndQueryAndTrackID, findMediaByURL, findMediaByTrackID, Content-Base, descForDescribe) - lib workload",
		"pkg/base (URL, Request marshalling without credentials), pkg/auth (Sender, Verify through ServerConn.VerifyCredentials), pkg/headers, pkg/conn",
	}
	f.Simulated = []string{
		"TCP and UDP sockets, listeners, DNS (simnet through the Listen / ListenPacket / DialContext / ResolveIPAddr seams)",
		"the camera-style server of the camera workload (scripted harness code on pkg/base + pkg/conn, hand-written SDP)",
		"clock (fake), entropy",
	}
	f.Excluded = []string{
		"TLS / SRTP, UDP-multicast (URL handling does not depend on them; owned by C01/C17)", "request-line parsing inside the HTTP / WebSocket tunnels (lib workload, 22% of the tcp runs use a tunnel: handler URLs and media identity are checked, the credentials check is a substring search over everything the client wrote)",
		"UDP transport against the scripted camera (TCP only there)",
		"redirects (Location handling is owned by C12)",
		"back channels",
	}
	f.Rule = "scenario = workload (lib: real client <-> real server; camera: real client <-> scripted camera) x stream URL (authority IPv4 / IPv6 literal / hostname with and without port; user-info absent or one of 4 credential sets incl. escaped characters and a user name without password; 1..4 path segments built from plain words, unescaped sub-delims ('=', '&', ';', '+', '~', ',', ':', '@', '$', '!', '(', ')', '*', '''), percent-escapes (%20 %2F %3D %26 %3F %25 %23 %2B, lower-case hex, escaped unreserved characters, UTF-8) and segments that look like 'trackID=n'; query absent or 1..3 key=value pairs whose values may contain '/', 'trackID=n', '/trackID=n', '?', '=', ':', '@', an embedded URL, escapes - never ending in '/') x 1..4 medias, sometimes 5..12 (distinct or identical payload types) x variant (describe/setup/play/pause/play or announce/setup/record/pause/record) x transport (tcp/udp) x set-up order (SetupAll, one Setup per media, permuted, subset when playing) x optional keep-alive period x network (latency, TCP chunking modes 0..3 incl. 1-byte segments); camera workload adds: per-media control attribute style (relative 'trackID=n' / 'trackN' / 'stream=n' / multi-segment, absolute URL with the same or another host, leading '?', leading '/', empty, absent, '*'), Content-Base absent / absolute with or without trailing slash / other path / relative starting with '/' / other host, session-level control absent / '*' / absolute; non-trivial = the whole script ran and every set-up media was identity-checked (lib: at least one tagged packet per set-up media; camera: every SETUP request line compared); distinct = distinct canonical event log"
	f.Assumptions = []string{
		"'exactly the path and query of the original URL': Path is compared in the representation the library documents for its handler contexts (net/url semantics: the percent-decoded path), Query as the raw query string (bytes after the first '?', never decoded); the expected decoded path is produced by the generator, not by the library's parser",
		"the last path segment never decodes to something ending in '/' (an escaped %2F at the very end would make 'path not ending in /' ambiguous); '.' and '..' segments, empty segments, raw '#', spaces and control characters are not generated",
		"camera workload: the expected SETUP URL follows the rules spelled out in the statement / Media.URL / findBaseURL documentation (base = absolute session-level control, else Content-Base (a value starting with '/' is taken relative to the request's scheme and host), else the request URL; absolute control = itself with the host of the base; relative control = appended to the base, after a '/' unless the control starts with '?' or '/' or the base already ends with '/'); a control starting with '/' is NOT resolved as an RFC 1808 absolute path because the statement's rule says 'appended'",
		"silent: media-level 'a=control:*' (RFC 2326 C.1.1 says it inherits the base URL; the library appends '/*'; the statement does not list this style) - only the absence of credentials is checked for that SETUP",
		"silent: which host an absolute control URL ends up with when the base URL (Content-Base or session-level control) names another host than the request; path and query are still compared",
		"silent: session-level relative control attributes other than '*' (not generated: the library refuses them)",
		"lib workload: on UDP at least one tagged packet per set-up media and phase must arrive (no loss is injected); on TCP all of them",
		"credentials 'never appear in a request line': neither the escaped nor the decoded user name or password occurs as a substring of any request line written by the client (path and query alphabets cannot produce these tokens)",
	}
}
