package c20

import (
	"bytes"
	"encoding/binary"
	"strconv"
	"strings"
	"sync"
)

// wireReq is one RTSP request found in the plaintext byte stream a client wrote.
type wireReq struct {
	Line   string // the request line, without CRLF
	Method string
	URL    string
}

// wireTap accumulates what one client node wrote on its control connection.
type wireTap struct {
	mu  sync.Mutex
	buf []byte
}

func (t *wireTap) tap(node, dir string, data []byte) {
	if dir != "write" {
		return
	}
	t.mu.Lock()
	t.buf = append(t.buf, data...)
	t.mu.Unlock()
}

// requests parses the stream into RTSP messages and returns the requests. The
// stream is a sequence of text messages (start line, headers, empty line, body
// of Content-Length bytes) and interleaved frames ('$', channel, 16-bit length,
// payload). ok is false when the stream cannot be parsed.
func (t *wireTap) requests() (out []wireReq, ok bool) {
	t.mu.Lock()
	s := append([]byte(nil), t.buf...)
	t.mu.Unlock()
	pos := 0
	for pos < len(s) {
		if s[pos] == '$' {
			if pos+4 > len(s) {
				return out, true // incomplete tail
			}
			l := int(binary.BigEndian.Uint16(s[pos+2:]))
			pos += 4 + l
			continue
		}
		end := bytes.Index(s[pos:], []byte("\r\n\r\n"))
		if end < 0 {
			return out, true
		}
		head := string(s[pos : pos+end])
		pos += end + 4
		lines := strings.Split(head, "\r\n")
		cl := 0
		for _, l := range lines[1:] {
			k, v, found := strings.Cut(l, ":")
			if found && strings.EqualFold(strings.TrimSpace(k), "Content-Length") {
				n, err := strconv.Atoi(strings.TrimSpace(v))
				if err != nil || n < 0 {
					return out, false
				}
				cl = n
			}
		}
		pos += cl
		first := lines[0]
		if strings.HasPrefix(first, "RTSP/") {
			continue // a response to a server request
		}
		parts := strings.Split(first, " ")
		if len(parts) != 3 || parts[2] != "RTSP/1.0" {
			return out, false
		}
		out = append(out, wireReq{Line: first, Method: parts[0], URL: parts[1]})
	}
	return out, true
}
