package c20

import (
	"bufio"
	"fmt"
	"net"
	"strconv"
	"strings"
	"sync"
	"time"

	gortsplib "github.com/bluenviron/gortsplib/v5"
	"github.com/bluenviron/gortsplib/v5/pkg/base"
	"github.com/bluenviron/gortsplib/v5/pkg/conn"
	"github.com/bluenviron/gortsplib/v5/pkg/headers"

	"verifsim/core"
	"verifsim/sys"
)

const otherAuthority = "192.168.1.64:554"

// ---- generation ------------------------------------------------------------------------

var controlStyles = []string{"relative", "relative", "relative", "absolute", "absolute", "query", "query", "slash", "slash", "none"}

func genControl(r *core.Rand, sc *Scenario, style string, i int) string {
	auth, _, _, _ := sc.hostPort()
	switch style {
	case "relative":
		return []string{
			fmt.Sprintf("trackID=%d", i), fmt.Sprintf("trackID=%d", i+1), fmt.Sprintf("track%d", i+1), fmt.Sprintf("stream=%d", i),
			fmt.Sprintf("a/b/c%d", i), fmt.Sprintf("video/track%d", i), fmt.Sprintf("streamid=%d", i), fmt.Sprintf("rtx;apt=%d", i),
			fmt.Sprintf("trackID=%d?x=1", i),
		}[r.Intn(9)]
	case "absolute":
		host := auth
		if r.Bool(0.3) {
			host = otherAuthority
		}
		switch r.Intn(4) {
		case 0:
			return fmt.Sprintf("rtsp://%s%s/trackID=%d", host, sc.rawPath(), i)
		case 1:
			q := ""
			if sc.HasQuery {
				q = "?" + sc.Query
			}
			return fmt.Sprintf("rtsp://%s%s%s/trackID=%d", host, sc.rawPath(), q, i)
		case 2:
			return fmt.Sprintf("rtsp://%s/other/path/track%d", host, i+1)
		default:
			return fmt.Sprintf("rtsp://%s%s?ctype=video&track=%d", host, sc.rawPath(), i)
		}
	case "query":
		return []string{fmt.Sprintf("?trackID=%d", i), fmt.Sprintf("?ctype=video%d", i), fmt.Sprintf("?stream=%d&a=b/c", i)}[r.Intn(3)]
	case "slash":
		return []string{fmt.Sprintf("/absolute/path/track%d", i+1), fmt.Sprintf("/trackID=%d", i), fmt.Sprintf("/%d", i)}[r.Intn(3)]
	}
	return []string{"", "", "*", "-absent-"}[r.Intn(4)]
}

func genCamera(r *core.Rand, sc *Scenario) {
	auth, _, _, _ := sc.hostPort()
	style := controlStyles[r.Intn(len(controlStyles))]
	mixed := r.Bool(0.3)
	sc.Controls = nil
	for i := 0; i < sc.Medias; i++ {
		st := style
		if mixed {
			st = controlStyles[r.Intn(len(controlStyles))]
		}
		sc.Controls = append(sc.Controls, genControl(r, sc, st, i))
	}
	switch r.Intn(9) {
	case 0, 1:
		sc.HasCB = false
	case 2, 3:
		sc.HasCB, sc.ContentBase = true, sc.urlNoCreds()+"/"
	case 4:
		sc.HasCB, sc.ContentBase = true, sc.urlNoCreds()
	case 5:
		sc.HasCB, sc.ContentBase = true, "rtsp://"+auth+"/other/base"+[]string{"/", ""}[r.Intn(2)]
	case 6:
		sc.HasCB, sc.ContentBase = true, []string{"/rel/base/", sc.rawPath() + "/", sc.rawPath(), "/rel/base?x=1"}[r.Intn(4)]
	case 7:
		sc.HasCB, sc.ContentBase = true, "rtsp://"+auth+sc.rawPath()+"/"
	case 8:
		sc.HasCB, sc.ContentBase, sc.OtherHost = true, "rtsp://"+otherAuthority+sc.rawPath()+"/", true
	}
	switch r.Intn(10) {
	case 0, 1:
		sc.SessControl = "*"
	case 2:
		sc.SessControl = sc.urlNoCreds()
	case 3:
		sc.SessControl = sc.urlNoCreds() + "/"
	case 4:
		sc.SessControl = "rtsp://" + auth + "/sess/ctl/"
	case 5:
		if r.Bool(0.5) {
			sc.SessControl = "rtsp://" + otherAuthority + sc.rawPath() + "/"
			sc.OtherHost = true
		}
	}
	// the camera asks for credentials only from SETUP on (hash-derived so that no other choice moves)
	if sc.User != "" && core.HS(sc.Seed, "c20.lateauth", "", 0)%100 < 35 {
		sc.LateAuth = true
	}
	if sc.SessControl != "" && sc.SessControl != "*" && !strings.HasPrefix(sc.SessControl, "rtsp://"+otherAuthority) {
		// an absolute session-level control attribute takes precedence over Content-Base
		sc.OtherHost = false
	}
}

func isAbsolute(s string) bool {
	return strings.HasPrefix(s, "rtsp://") || strings.HasPrefix(s, "rtsps://")
}

func controlStyle(c string) string {
	switch {
	case c == "" || c == "*" || c == "-absent-":
		return "none"
	case isAbsolute(c):
		return "absolute"
	case c[0] == '?':
		return "query"
	case c[0] == '/':
		return "slash"
	}
	return "relative"
}

// ---- reference resolution (from the statement's rules, RFC 2326 C.1.1) ---------------------

// refBase: base = session-level control when it is an absolute URL, else the
// Content-Base header (a value starting with '/' is relative to the scheme and
// host of the request), else the request URL.
func refBase(sc *Scenario) string {
	if sc.SessControl != "" && sc.SessControl != "*" {
		return sc.SessControl
	}
	if sc.HasCB {
		if strings.HasPrefix(sc.ContentBase, "/") {
			auth, _, _, _ := sc.hostPort()
			return "rtsp://" + auth + sc.ContentBase
		}
		return sc.ContentBase
	}
	return sc.urlNoCreds()
}

// refMediaURL: the URL a SETUP for a media with this control attribute must
// carry. assert is false where the rules are not spelled out.
func refMediaURL(baseURL, control string) (url string, assert bool) {
	switch {
	case control == "" || control == "-absent-":
		return baseURL, true
	case control == "*":
		return "", false
	case isAbsolute(control):
		return control, true // modulo the host, see sameURL
	}
	if control[0] != '?' && control[0] != '/' && !strings.HasSuffix(baseURL, "/") {
		return baseURL + "/" + control, true
	}
	return baseURL + control, true
}

// splitAuthority cuts "rtsp://authority" off an absolute URL.
func splitAuthority(u string) (authority, rest string) {
	s := strings.TrimPrefix(u, "rtsp://")
	i := strings.IndexAny(s, "/?")
	if i < 0 {
		return s, ""
	}
	return s[:i], s[i:]
}

// sameURL compares a request-line URL with the expected one. An absolute
// control URL is sent with the host of the base URL; when the base names
// another host than the request the host is not compared at all.
func sameURL(sc *Scenario, got, want string, wantAbsoluteControl bool) bool {
	ga, gr := splitAuthority(got)
	wa, wr := splitAuthority(want)
	if gr != wr {
		return false
	}
	if sc.OtherHost {
		return true
	}
	if wantAbsoluteControl {
		auth, _, _, _ := sc.hostPort()
		return ga == auth
	}
	return ga == wa
}

// ---- the scripted camera ----------------------------------------------------------------------

type camera struct {
	w    *sys.World
	sc   *Scenario
	ln   net.Listener
	mu   sync.Mutex
	cns  []net.Conn
	wg   sync.WaitGroup
	seen []string // "METHOD url" as parsed by the server side
}

func (cam *camera) sdp() []byte {
	sc := cam.sc
	var b strings.Builder
	b.WriteString("v=0\r\no=- 0 0 IN IP4 127.0.0.1\r\ns=Camera\r\nc=IN IP4 0.0.0.0\r\nt=0 0\r\n")
	if sc.SessControl != "" {
		b.WriteString("a=control:" + sc.SessControl + "\r\n")
	}
	for i := 0; i < sc.Medias; i++ {
		typ := "video"
		if i%2 == 1 {
			typ = "audio"
		}
		pt := 96
		if !sc.SamePT {
			pt += i
		}
		fmt.Fprintf(&b, "m=%s 0 RTP/AVP %d\r\n", typ, pt)
		if c := sc.Controls[i]; c != "-absent-" {
			b.WriteString("a=control:" + c + "\r\n")
		}
		fmt.Fprintf(&b, "a=rtpmap:%d private/90000\r\n", pt)
	}
	return []byte(b.String())
}

func (cam *camera) serve() {
	defer cam.wg.Done()
	for {
		nc, err := cam.ln.Accept()
		if err != nil {
			return
		}
		cam.mu.Lock()
		cam.cns = append(cam.cns, nc)
		cam.mu.Unlock()
		cam.wg.Add(1)
		go cam.handle(nc)
	}
}

func (cam *camera) close() {
	cam.ln.Close()
	cam.mu.Lock()
	for _, c := range cam.cns {
		c.Close()
	}
	cam.mu.Unlock()
	cam.wg.Wait()
}

func (cam *camera) handle(nc net.Conn) {
	defer cam.wg.Done()
	defer nc.Close()
	c := conn.NewConn(bufio.NewReader(nc), nc)
	sc := cam.sc
	setups := 0
	for {
		nc.SetReadDeadline(time.Now().Add(5 * time.Minute)) //nolint:errcheck
		what, err := c.Read()
		if err != nil {
			return
		}
		req, ok := what.(*base.Request)
		if !ok {
			continue
		}
		ustr := "*"
		if req.URL != nil {
			ustr = req.URL.String()
		}
		meth := string(req.Method)
		if sc.User != "" && sc.LateAuth && req.Method == base.Setup && req.Header["Authorization"] == nil {
			meth = "SETUP(challenged)" // answered 401 below; the client repeats it with credentials
		}
		cam.mu.Lock()
		cam.seen = append(cam.seen, meth+" "+ustr)
		cam.mu.Unlock()
		res := &base.Response{StatusCode: base.StatusOK, Header: base.Header{}}
		if cs, ok := req.Header["CSeq"]; ok {
			res.Header["CSeq"] = cs
		}
		switch req.Method {
		case base.Options:
			res.Header["Public"] = base.HeaderValue{"DESCRIBE, SETUP, PLAY, PAUSE, GET_PARAMETER, TEARDOWN"}
		case base.Describe:
			if sc.User != "" && !sc.LateAuth && req.Header["Authorization"] == nil {
				res.StatusCode = base.StatusUnauthorized
				res.Header["WWW-Authenticate"] = base.HeaderValue{`Digest realm="cam", nonce="abcdef0123456789"`, `Basic realm="cam"`}
				break
			}
			res.Header["Content-Type"] = base.HeaderValue{"application/sdp"}
			if sc.HasCB {
				res.Header["Content-Base"] = base.HeaderValue{sc.ContentBase}
			}
			res.Body = cam.sdp()
		case base.Setup:
			if sc.User != "" && sc.LateAuth && req.Header["Authorization"] == nil {
				res.StatusCode = base.StatusUnauthorized
				res.Header["WWW-Authenticate"] = base.HeaderValue{`Digest realm="cam", nonce="abcdef0123456789"`, `Basic realm="cam"`}
				break
			}
			var th headers.Transport
			if err := th.Unmarshal(req.Header["Transport"]); err != nil || th.Protocol != headers.TransportProtocolTCP {
				res.StatusCode = base.StatusUnsupportedTransport
				break
			}
			d := headers.TransportDeliveryUnicast
			out := headers.Transport{Protocol: headers.TransportProtocolTCP, Profile: th.Profile, Delivery: &d, InterleavedIDs: th.InterleavedIDs}
			if out.InterleavedIDs == nil {
				out.InterleavedIDs = &[2]int{2 * setups, 2*setups + 1}
			}
			res.Header["Transport"] = out.Marshal()
			res.Header["Session"] = base.HeaderValue{"cam12345;timeout=60"}
			setups++
		default:
			res.Header["Session"] = base.HeaderValue{"cam12345"}
		}
		buf, _ := res.Marshal()
		nc.SetWriteDeadline(time.Now().Add(5 * time.Second)) //nolint:errcheck
		if _, err := nc.Write(buf); err != nil {
			return
		}
	}
}

// ---- the run -------------------------------------------------------------------------------------

func runCamera(w *sys.World, sc *Scenario, summary *map[string]any) {
	auth, srvIP, cliIP, port := sc.hostPort()
	srvNode := w.Net.Node("srv", srvIP)
	cliNode := w.Net.Node("cli", cliIP)
	if h, _, err := net.SplitHostPort(auth); err == nil && net.ParseIP(h) == nil {
		w.Net.AddHost(h, srvIP)
	} else if err != nil {
		w.Net.AddHost(auth, srvIP)
	}
	ln, err := srvNode.Listen("tcp", net.JoinHostPort(srvIP, strconv.Itoa(port)))
	if err != nil {
		w.Fail("c20/harness listen", "%v", err)
		return
	}
	cam := &camera{w: w, sc: sc, ln: ln}
	cam.wg.Add(1)
	go cam.serve()

	tp := &wireTap{}
	completed := false
	baseURL := refBase(sc)

	w.Go("client", func() {
		c := &gortsplib.Client{Scheme: "rtsp", Host: auth}
		p := gortsplib.ProtocolTCP
		c.Protocol = &p
		sys.WireClient(c, cliNode, w.Net, tp.tap)
		c.OnDecodeError = func(error) {}
		c.OnPacketsLost = func(uint64) {}
		fail := func(step string, err error) {
			if checkRequestLines(w, sc, tp); w.Failed() {
				return
			}
			w.Fail("c20/api-error "+step, "camera answering DESCRIBE of %q with Content-Base %q (present=%v), session control %q, media controls %q: %s failed: %v",
				sc.url(), sc.ContentBase, sc.HasCB, sc.SessControl, sc.Controls, step, err)
		}
		u, err := base.ParseURL(sc.url())
		if err != nil {
			w.Fail("c20/api-error parse", "base.ParseURL(%q): %v", sc.url(), err)
			return
		}
		if err := c.Start(); err != nil {
			fail("start", err)
			return
		}
		closed := false
		defer func() {
			if !closed {
				c.Close()
			}
		}()
		d, _, err := c.Describe(u)
		if err != nil {
			fail("describe", err)
			return
		}
		if len(d.Medias) != sc.Medias {
			fail("describe", fmt.Errorf("%d medias described, %d in the SDP", len(d.Medias), sc.Medias))
			return
		}
		if sc.setupAll() {
			if err := c.SetupAll(d.BaseURL, d.Medias); err != nil {
				fail("setup", err)
				return
			}
		} else {
			for k, m := range sc.SetupOrder {
				if _, err := c.Setup(d.BaseURL, d.Medias[m], 0, 0); err != nil {
					fail("setup", fmt.Errorf("media %d (SETUP #%d): %w", m, k, err))
					return
				}
			}
		}
		if _, err := c.Play(nil); err != nil {
			fail("play", err)
			return
		}
		time.Sleep(50 * time.Millisecond)
		if _, err := c.Pause(); err != nil {
			fail("pause", err)
			return
		}
		c.Close() // sends TEARDOWN
		closed = true
		completed = true
	})

	w.Go("closer", func() {
		w.WaitDrivers("client")
		// let the TEARDOWN reach the camera
		time.Sleep(4*us(sc.Net.LatMaxUS) + 20*time.Millisecond)
		cam.close()
	})

	w.AtEnd(func() {
		if w.Failed() {
			return
		}
		reqs := checkRequestLines(w, sc, tp)
		if w.Failed() || !completed {
			return
		}
		ctx := fmt.Sprintf("stream URL %q; DESCRIBE answered with Content-Base %q (present=%v), session-level control %q, media controls %q",
			sc.urlNoCreds(), sc.ContentBase, sc.HasCB, sc.SessControl, sc.Controls)
		nSetup := 0
		seen := map[string]int{}
		skipped := false
		for ri, r := range reqs {
			if sc.LateAuth && !skipped && r.Method == "SETUP" && ri+1 < len(reqs) && reqs[ri+1].Method == "SETUP" && reqs[ri+1].URL == r.URL {
				// the first SETUP is challenged (401) and repeated with credentials: one SETUP for the oracle
				skipped = true
				w.Probe("setup_challenged_and_repeated")
				continue
			}
			seen[r.Method]++
			switch r.Method {
			case "DESCRIBE":
				if r.URL != sc.urlNoCreds() {
					w.Fail("c20/request-url describe", "DESCRIBE request line carries %q, the original URL (without user-info) is %q", r.URL, sc.urlNoCreds())
					return
				}
			case "SETUP":
				if nSetup >= len(sc.SetupOrder) {
					w.Fail("c20/request-url setup", "%s: more SETUP requests (%d) than medias set up (%d)", ctx, nSetup+1, len(sc.SetupOrder))
					return
				}
				m := sc.SetupOrder[nSetup]
				nSetup++
				want, assert := refMediaURL(baseURL, sc.Controls[m])
				if assert && !sameURL(sc, r.URL, want, isAbsolute(sc.Controls[m])) {
					w.Fail("c20/request-url setup", "%s: SETUP for media %d (control %q) carries %q, expected %q (base %q; an absolute control URL is sent to the host of the base URL)", ctx, m, sc.Controls[m], r.URL, want, baseURL)
					return
				}
			case "PLAY", "PAUSE", "TEARDOWN":
				if !sameURL(sc, r.URL, baseURL, false) {
					w.Fail("c20/request-url "+strings.ToLower(r.Method), "%s: %s carries %q, expected the base URL %q", ctx, r.Method, r.URL, baseURL)
					return
				}
			}
		}
		if nSetup != len(sc.SetupOrder) || seen["PLAY"] == 0 || seen["PAUSE"] == 0 || seen["TEARDOWN"] == 0 || seen["DESCRIBE"] == 0 {
			w.Fail("c20/harness vacuous", "the script completed but the tap saw %v (expected %d SETUPs)", seen, len(sc.SetupOrder))
			return
		}
		w.Probe("script_completed")
		w.Probe("media_identity_checked")
		*summary = map[string]any{"workload": "camera", "url": sc.url(), "content_base": sc.ContentBase, "has_cb": sc.HasCB,
			"sess_control": sc.SessControl, "controls": sc.Controls, "setup_order": sc.SetupOrder, "requests": len(reqs)}
	})
}
