package c04

import (
	"bytes"
	"fmt"
	"strings"

	"github.com/bluenviron/gortsplib/v5/pkg/base"

	"verifsim/core"
)

// overBuilt is an element beyond one documented limit.
type overBuilt struct {
	obj     any    // serialised by the real writer when non-nil
	raw     []byte // written as is otherwise
	plain   []byte // reference serialisation
	limitAt int    // offset inside plain of the byte with which the limit is exceeded
}

func buildOver(o *Over) *overBuilt {
	ob := &overBuilt{}
	bs := &bstream{s: core.Mix(o.ID)}
	hdr := base.Header{"CSeq": base.HeaderValue{"7"}}
	method := base.Method("OPTIONS")
	rawURL := "rtsp://10.0.0.1:8554/stream"
	var body []byte
	n := max(1, o.N)
	switch o.Kind {
	case "hdr_count":
		hdr = base.Header{}
		for i := 0; i < limHeaderCount+n; i++ {
			hdr[fmt.Sprintf("H%05d", i)] = base.HeaderValue{fmt.Sprintf("v%d", i%10)}
		}
	case "key_len":
		hdr["K"+genKeyStr(bs, limKeyLen+n-1)] = base.HeaderValue{"v"}
	case "val_len":
		hdr["X-Long"] = base.HeaderValue{"v" + strings.ReplaceAll(genValue(o.ID, limValueLen+n-1), " ", "_")}
	case "url_len":
		rawURL = "rtsp://10.0.0.1/" + genKeyStrAlpha(bs, limURLLen+n-16)
	case "method_len":
		b := make([]byte, limMethodLen+n-2)
		for i := range b {
			b[i] = methodChars[bs.intn(len(methodChars))]
		}
		method = base.Method("OP" + string(b))
	case "body_len":
		body = fillBytes(o.ID, limBodyLen+n, int(o.ID%4))
	case "cl_huge":
		first := "OPTIONS " + rawURL + " RTSP/1.0\r\n"
		if o.Res {
			first = "RTSP/1.0 200 OK\r\n"
		}
		ob.raw = []byte(first + "CSeq: 7\r\nContent-Length: " + o.CL + "\r\n\r\n")
		ob.limitAt = len(ob.raw)
		ob.raw = append(ob.raw, make([]byte, o.Tail)...)
		ob.plain = ob.raw
		return ob
	}
	if o.Res {
		res := &base.Response{StatusCode: base.StatusOK, Header: hdr, Body: body}
		ob.obj = res
		ob.plain, _ = res.Marshal()
	} else {
		u, err := base.ParseURL(rawURL)
		if err != nil {
			panic(err)
		}
		req := &base.Request{Method: method, URL: u, Header: hdr, Body: body}
		ob.obj = req
		ob.plain, _ = req.Marshal()
	}
	p := ob.plain
	switch o.Kind {
	case "hdr_count":
		// first line + 255 header lines are within the limit
		at := 0
		for i := 0; i < limHeaderCount+1; i++ {
			at += bytes.Index(p[at:], []byte("\r\n")) + 2
		}
		ob.limitAt = at
	case "key_len":
		ob.limitAt = bytes.Index(p, []byte("\r\nK")) + 2 + limKeyLen
	case "val_len":
		ob.limitAt = bytes.Index(p, []byte("X-Long: ")) + 8 + limValueLen
	case "url_len":
		ob.limitAt = len(method) + 1 + limURLLen
	case "method_len":
		ob.limitAt = limMethodLen
	case "body_len":
		ob.limitAt = bytes.Index(p, []byte("\r\n\r\n")) + 4
	}
	return ob
}

func genKeyStrAlpha(bs *bstream, n int) string {
	b := make([]byte, n)
	for i := range b {
		b[i] = pathChars[bs.intn(len(pathChars))]
	}
	return string(b)
}
