package c04

import (
	"fmt"
	"strings"
	"testing"

	"github.com/bluenviron/gortsplib/v5/pkg/base"

	"verifsim/core"
	"verifsim/simnet"
)

// Elem describes one element of a stream. The bulky parts (header lines, body,
// payload) are derived from ID so that the replay file stays small and removing
// one element during shrinking does not change the others.
type Elem struct {
	K    string `json:"k"`              // req | res | frm
	ID   uint64 `json:"id"`             // content seed
	M    string `json:"m,omitempty"`    // method
	U    string `json:"u,omitempty"`    // URL as handed to base.ParseURL ("*" = no URL)
	SC   int    `json:"sc,omitempty"`   // status code
	SM   string `json:"sm,omitempty"`   // status message ("" = library default)
	NH   int    `json:"nh,omitempty"`   // number of header lines (entries)
	MV   int    `json:"mv,omitempty"`   // max values per key (1..3)
	HL   int    `json:"hl,omitempty"`   // 0 short keys/values, 1 medium, 2 a few close to the limits
	B    int    `json:"b,omitempty"`    // body length
	BS   int    `json:"bs,omitempty"`   // body / payload style
	Ch   int    `json:"ch,omitempty"`   // channel
	P    int    `json:"p,omitempty"`    // payload length
	Fill int    `json:"fill,omitempty"` // 1..3 bytes of CR / LF / SP in front of the element
	// AL: one field sized exactly at its documented limit (key | val | url | method):
	// the reader may refuse it or return it unchanged (see Assumptions).
	AL string `json:"al,omitempty"`
	// NS: no standard header names (end-to-end responses: the server adds its own CSeq / Server).
	NS bool `json:"ns,omitempty"`
}

// Stream is what one end writes.
type Stream struct {
	Elems []Elem `json:"elems,omitempty"`
	// Batch: 0/1 = one Write per element, n>1 = n elements per Write, -1 = everything in one Write.
	Batch int `json:"batch,omitempty"`
	// Frag > 0: every flush is cut into several Writes of 1..Frag bytes.
	Frag int `json:"frag,omitempty"`
}

// Fault is an explicit fault configuration (never combined with the equality oracle
// beyond the elements wholly delivered before a truncation).
type Fault struct {
	Kind string `json:"kind"` // fin | rst | flip | mutate | garbage
	Dir  string `json:"dir"`  // fwd | back
	Cls  int    `json:"cls"`  // offset class
	Sel  uint64 `json:"sel"`
	N    int    `json:"n,omitempty"` // number of flips / garbage length
}

// Over describes an element beyond one documented limit.
type Over struct {
	Kind   string `json:"kind"` // hdr_count | key_len | val_len | url_len | method_len | body_len | cl_huge
	Dir    string `json:"dir"`
	Prefix int    `json:"prefix"`        // good elements in front of it (taken from the stream)
	N      int    `json:"n"`             // amount beyond the limit
	Tail   int    `json:"tail"`          // bytes that keep following
	Res    bool   `json:"res,omitempty"` // carried by a response
	ID     uint64 `json:"id"`
	CL     string `json:"cl,omitempty"` // Content-Length text for cl_huge
}

// E2EOp is one API call of the end-to-end configuration.
type E2EOp struct {
	Kind string `json:"kind"` // options | describe
	Path string `json:"path"` // path + query
	Res  Elem   `json:"res"`  // response the handler returns for describe
}

// Scenario is one C04 run.
type Scenario struct {
	Seed    uint64        `json:"seed"`
	Net     simnet.Config `json:"net"`
	Mode    string        `json:"mode"`    // roundtrip | truncate | corrupt | overlimit | e2e
	Carrier string        `json:"carrier"` // direct | http | ws
	Fwd     Stream        `json:"fwd"`     // client -> server
	Back    Stream        `json:"back"`    // server -> client
	Fault   *Fault        `json:"fault,omitempty"`
	Over    *Over         `json:"over,omitempty"`
	Ops     []E2EOp       `json:"ops,omitempty"`
	Creds   bool          `json:"creds,omitempty"`
	UA      string        `json:"ua,omitempty"`
}

var stdMethods = []string{"ANNOUNCE", "DESCRIBE", "GET_PARAMETER", "OPTIONS", "PAUSE", "PLAY", "RECORD", "SETUP", "SET_PARAMETER", "TEARDOWN"}

// method tokens outside the ten of pkg/base; all start with one of the letter pairs
// conn.Conn.Read classifies as a request (AN DE GE OP PA PL RE SE TE).
var extMethods = []string{"REDIRECT", "PLAY_NOTIFY", "GET", "SET", "TEST", "OPEN", "ANY", "DELETE", "PATCH", "DE", "OP", "SEEK", "RENEW", "PLAYX", "TEARDOWN2"}

var methodPairs = []string{"AN", "DE", "GE", "OP", "PA", "PL", "RE", "SE", "TE"}

const (
	tokenChars  = "ABCDEFGHIJKLMNOPQRSTUVWXYZabcdefghijklmnopqrstuvwxyz0123456789-_"
	methodChars = "ABCDEFGHIJKLMNOPQRSTUVWXYZ_0123456789"
	pathChars   = "abcdefghijklmnopqrstuvwxyzABCDEFGHIJKLMNOPQRSTUVWXYZ0123456789-_.~"
)

func genToken(r *core.Rand, chars string, lo, hi int) string {
	n := r.Range(lo, hi)
	var sb strings.Builder
	for i := 0; i < n; i++ {
		sb.WriteByte(chars[r.Intn(len(chars))])
	}
	return sb.String()
}

func genMethod(r *core.Rand) string {
	switch {
	case r.Bool(0.7):
		return stdMethods[r.Intn(len(stdMethods))]
	case r.Bool(0.7):
		return extMethods[r.Intn(len(extMethods))]
	default:
		return methodPairs[r.Intn(len(methodPairs))] + genToken(r, methodChars, 0, 20)
	}
}

func genHost(r *core.Rand) string {
	var h string
	switch r.Intn(6) {
	case 0, 1:
		h = fmt.Sprintf("%d.%d.%d.%d", r.Range(1, 254), r.Intn(256), r.Intn(256), r.Range(1, 254))
	case 2:
		h = []string{"[::1]", "[2001:db8::1]", "[fe80::1ff:fe23:4567:890a]", "[2001:db8:85a3:8d3:1319:8a2e:370:7348]", "[::ffff:192.0.2.128]", "[fe80::1%25eth0]"}[r.Intn(6)]
	case 3:
		h = "[" + fmt.Sprintf("%x:%x::%x", r.Range(1, 0xffff), r.Intn(0x10000), r.Range(1, 0xffff)) + "]"
	case 4:
		h = strings.ToLower(genToken(r, pathChars[:52], 1, 12)) + ".example.com"
	default:
		h = "cam-" + fmt.Sprint(r.Intn(100)) + ".local"
	}
	if r.Bool(0.6) {
		h += ":" + fmt.Sprint(r.Pick(554, 8554, 1, 65535, 8322, r.Range(1, 65535)))
	}
	return h
}

func genSeg(r *core.Rand) string {
	var sb strings.Builder
	n := r.Range(1, 12)
	for i := 0; i < n; i++ {
		switch {
		case r.Bool(0.06):
			sb.WriteString([]string{"%20", "%2F", "%C3%A9", "%25", "%3F", "%40"}[r.Intn(6)])
		case r.Bool(0.05):
			sb.WriteByte("=,;:&+$!*'()@"[r.Intn(13)])
		default:
			sb.WriteByte(pathChars[r.Intn(len(pathChars))])
		}
	}
	return sb.String()
}

func genQuery(r *core.Rand) string {
	var parts []string
	n := r.Range(1, 4)
	for i := 0; i < n; i++ {
		k := genToken(r, pathChars, 1, 8)
		v := genSeg(r)
		if r.Bool(0.1) {
			v += "/" + genSeg(r)
		}
		if r.Bool(0.1) {
			parts = append(parts, k)
		} else {
			parts = append(parts, k+"="+v)
		}
	}
	return strings.Join(parts, "&")
}

// genURL returns a URL accepted by base.ParseURL. want is the approximate total
// length (0 = ordinary).
func genURL(r *core.Rand, want int) string {
	scheme := "rtsp"
	if r.Bool(0.2) {
		scheme = "rtsps"
	}
	user := ""
	if r.Bool(0.2) {
		user = genToken(r, pathChars, 1, 8)
		if r.Bool(0.7) {
			user += ":" + genToken(r, pathChars+"!$*", 0, 10)
		}
		user += "@"
	}
	host := genHost(r)
	path := ""
	ns := r.Range(0, 4)
	for i := 0; i < ns; i++ {
		path += "/" + genSeg(r)
	}
	if r.Bool(0.2) {
		path += "/"
	}
	q := ""
	if r.Bool(0.4) {
		q = "?" + genQuery(r)
	} else if r.Bool(0.05) {
		q = "?"
	}
	if want == 0 && user == "" && r.Bool(0.04) {
		// no user-info, no path, and a query that looks like one: '@', an escape, a '/'
		path = ""
		q = "?" + genToken(r, pathChars, 1, 6) + "=" + genToken(r, pathChars, 1, 5) + "@" + genToken(r, pathChars, 0, 5) +
			[]string{"%20", "%C3%A9", "%25", "%40"}[r.Intn(4)] + genToken(r, pathChars, 0, 4) + "/" + genToken(r, pathChars, 0, 6)
	}
	if want > 0 {
		// pad the path so that the URL without user-info has exactly the wanted length
		cur := len(scheme) + 3 + len(host) + len(path) + len(q)
		if cur+2 <= want {
			path += "/" + genToken(r, pathChars, want-cur-1, want-cur-1)
		}
	}
	u := scheme + "://" + user + host + path + q
	pu, err := base.ParseURL(u)
	if err != nil {
		u = "rtsp://" + user + "10.1.2.3:8554/stream"
		pu, _ = base.ParseURL(u)
	}
	if want > 0 && len(urlNoUser(pu)) != want {
		u = "rtsp://" + user + "10.1.2.3/" + genToken(r, pathChars, want-16, want-16)
	}
	return u
}

func genMsg(r *core.Rand) string {
	if r.Bool(0.6) {
		return ""
	}
	n := r.Range(1, 60)
	var sb strings.Builder
	for i := 0; i < n; i++ {
		c := byte(r.Range(0x20, 0x7e))
		sb.WriteByte(c)
	}
	return sb.String()
}

func genStatus(r *core.Rand) int {
	switch {
	case r.Bool(0.5):
		return r.Pick(100, 200, 301, 302, 400, 401, 404, 405, 451, 454, 455, 459, 461, 500, 501, 503, 505, 551, 553)
	case r.Bool(0.6):
		return r.Range(100, 599)
	case r.Bool(0.8):
		return r.Range(600, 999)
	default:
		return r.Range(1, 99)
	}
}

// size profile: 0 tiny, 1 mixed
func genElem(r *core.Rand, prof int) Elem {
	e := Elem{ID: r.U64()}
	switch x := r.Intn(10); {
	case x < 4:
		e.K = "req"
	case x < 7:
		e.K = "res"
	default:
		e.K = "frm"
	}
	sz := func(tiny, mixed int) int {
		if prof == 0 {
			return r.Range(0, tiny)
		}
		switch r.Intn(4) {
		case 0:
			return 0
		case 1:
			return r.Range(0, 16)
		default:
			return r.Range(0, mixed)
		}
	}
	e.BS = r.Intn(4)
	switch e.K {
	case "req":
		e.M = genMethod(r)
		if r.Bool(0.06) {
			e.U = "*"
		} else {
			e.U = genURL(r, 0)
		}
	case "res":
		e.SC = genStatus(r)
		e.SM = genMsg(r)
	case "frm":
		e.Ch = r.Pick(0, 1, 2, 3, 255, 254, 0x24, 0x0d, r.Intn(256), r.Intn(256))
		e.P = sz(48, 1500)
		if r.Bool(0.1) {
			e.P = r.Pick(0, 1, 2, 3, 4)
		}
		return e
	}
	e.NH = sz(4, 24)
	e.MV = r.Range(1, 3)
	if prof == 1 && r.Bool(0.15) {
		e.HL = 1
	}
	if r.Bool(0.55) {
		e.B = sz(48, 2500)
	}
	if prof == 1 && r.Bool(0.08) {
		e.Fill = r.Range(1, 3)
	}
	return e
}

func genStream(r *core.Rand, prof, lo, hi int) Stream {
	var s Stream
	n := r.Range(lo, hi)
	for i := 0; i < n; i++ {
		s.Elems = append(s.Elems, genElem(r, prof))
	}
	s.Batch = r.Pick(0, 0, 0, 2, 3, 5, -1)
	s.Frag = r.Pick(0, 0, 0, 0, 3, 7, 64, 1500)
	return s
}

// heavy returns one element close to a documented bound.
func genHeavy(r *core.Rand) Elem {
	e := Elem{ID: r.U64(), K: "req", M: genMethod(r), U: genURL(r, 0), MV: r.Range(1, 3), BS: r.Intn(4)}
	if r.Bool(0.4) {
		e.K, e.M, e.U = "res", "", ""
		e.SC, e.SM = genStatus(r), genMsg(r)
	}
	switch r.Intn(8) {
	case 0, 1: // big body
		e.B = r.Pick(131072, 131072, 131071, 65536, 65537, r.Range(65536, 131072), r.Range(100000, 131072))
		e.NH = r.Range(0, 8)
	case 2, 7: // biggest frame
		e = Elem{ID: e.ID, K: "frm", Ch: r.Pick(0, 1, 255, r.Intn(256)), P: r.Pick(65535, 65535, 65534, r.Range(60000, 65535)), BS: r.Intn(4)}
	case 3: // header count at the bound
		e.NH = r.Pick(255, 255, 254, r.Range(200, 255))
		if r.Bool(0.5) {
			e.B = r.Range(1, 300)
		}
	case 4: // long URL
		if e.K == "req" {
			e.U = genURL(r, r.Pick(2047, 2047, 2046, r.Range(1500, 2047)))
		}
		e.NH = r.Range(0, 5)
	case 5: // keys / values close to their limits
		e.HL = 2
		e.NH = r.Range(1, 12)
	case 6: // long method
		if e.K == "req" {
			e.M = methodPairs[r.Intn(len(methodPairs))] + genToken(r, methodChars, 61, 61)
			if r.Bool(0.5) {
				e.M = e.M[:r.Range(40, 63)]
			}
		}
		e.NH = r.Range(0, 5)
	}
	return e
}

func genNet(r *core.Rand, seed uint64, prof int) simnet.Config {
	nc := simnet.Config{Seed: seed ^ 0xc04c04c04}
	nc.LatMinUS = r.Pick(10, 100, 1000)
	nc.LatMaxUS = nc.LatMinUS + r.Pick(0, 50, 500)
	switch prof {
	case 0:
		nc.ChunkMode = r.Pick(2, 2, 2, 3, 1)
		nc.ChunkMaxLen = r.Pick(4096, 4096, 512)
	case 1:
		nc.ChunkMode = r.Pick(0, 1, 1, 3, 3)
		nc.ChunkMaxLen = r.Pick(16, 64, 256)
	default:
		nc.ChunkMode = r.Pick(0, 1, 1, 3)
		nc.ChunkMaxLen = r.Pick(16, 64)
	}
	// writes that wait together travel as one byte run in a third of the runs (hash-derived so
	// that no other choice moves): e.g. the POST header of the HTTP tunnel and the first base64
	// block behind it, or two pipelined elements, then reach the reader in one read
	if x := core.HS(seed, "c04.coalesce", "", 0) % 100; x < 33 {
		nc.Coalesce = []float64{0.3, 0.7, 1}[x%3]
	}
	return nc
}

func gen(seed uint64, tier string) Scenario {
	r := core.NewRand(seed, "c04")
	sc := Scenario{Seed: seed}
	sc.Carrier = []string{"direct", "http", "ws"}[r.Intn(3)]
	x := r.Intn(100)
	switch {
	case x < 56:
		sc.Mode = "roundtrip"
	case x < 68:
		sc.Mode = "truncate"
	case x < 80:
		sc.Mode = "corrupt"
	case x < 92:
		sc.Mode = "overlimit"
	default:
		sc.Mode = "e2e"
	}
	switch sc.Mode {
	case "roundtrip":
		prof := r.Pick(0, 0, 0, 1, 1, 1, 1, 2, 2)
		sc.Net = genNet(r, seed, prof)
		switch prof {
		case 0:
			sc.Fwd = genStream(r, 0, 1, 5)
			if r.Bool(0.5) {
				sc.Back = genStream(r, 0, 1, 4)
			}
		case 1:
			sc.Fwd = genStream(r, 1, 1, 30)
			if r.Bool(0.5) {
				sc.Back = genStream(r, 1, 1, 30)
			}
			if r.Bool(0.15) {
				sc.Fwd, sc.Back = sc.Back, sc.Fwd
			}
		default:
			s := genStream(r, 1, 0, 3)
			hv := genHeavy(r)
			at := r.Intn(len(s.Elems) + 1)
			s.Elems = append(s.Elems[:at], append([]Elem{hv}, s.Elems[at:]...)...)
			if s.Frag > 0 && s.Frag < 64 {
				s.Frag = 1500
			}
			o := genStream(r, 1, 0, 3)
			if r.Bool(0.15) {
				o.Elems = append(o.Elems, genHeavy(r))
				if o.Frag > 0 && o.Frag < 64 {
					o.Frag = 1500
				}
			}
			if r.Bool(0.6) {
				sc.Fwd, sc.Back = s, o
			} else {
				sc.Fwd, sc.Back = o, s
			}
		}
		// a field sized exactly at its limit, last in its stream
		if r.Bool(0.05) {
			e := Elem{ID: r.U64(), K: "req", M: "OPTIONS", U: "rtsp://10.0.0.1:8554/s", NH: r.Range(1, 4), MV: 1}
			e.AL = []string{"key", "val", "url", "method"}[r.Intn(4)]
			switch e.AL {
			case "url":
				e.U = genURL(r, 2048)
			case "method":
				e.M = "OP" + genToken(r, methodChars, 62, 62)
			}
			if r.Bool(0.5) {
				sc.Fwd.Elems = append(sc.Fwd.Elems, e)
			} else {
				sc.Back.Elems = append(sc.Back.Elems, e)
			}
		}
	case "truncate", "corrupt":
		prof := r.Pick(0, 1, 1)
		sc.Net = genNet(r, seed, prof)
		f := &Fault{Dir: "fwd", Cls: r.Intn(8), Sel: r.U64()}
		if r.Bool(0.4) {
			f.Dir = "back"
		}
		if sc.Mode == "truncate" {
			f.Kind = "fin"
			if r.Bool(0.35) {
				f.Kind = "rst"
			}
		} else {
			f.Kind = []string{"flip", "flip", "mutate", "garbage"}[r.Intn(4)]
			f.N = r.Range(1, 3)
			if f.Kind == "garbage" {
				f.N = r.Pick(1, 2, 7, 64, 300, 2000, 9000)
			}
			// client-to-server WebSocket frames are masked with a key taken from math/rand:
			// what a flipped wire byte turns into is not a function of the scenario there
			if sc.Carrier == "ws" && f.Kind == "flip" {
				f.Dir = "back"
			}
		}
		s := genStream(r, prof, 1, 8)
		if r.Bool(0.12) {
			s.Elems = append(s.Elems, genHeavy(r))
			if s.Frag > 0 && s.Frag < 64 {
				s.Frag = 1500
			}
		}
		if f.Dir == "fwd" {
			sc.Fwd = s
		} else {
			sc.Back = s
		}
		sc.Fault = f
	case "overlimit":
		sc.Net = genNet(r, seed, r.Pick(1, 1, 2))
		o := &Over{ID: r.U64(), Dir: "fwd", Prefix: r.Range(0, 2)}
		if r.Bool(0.4) {
			o.Dir = "back"
		}
		o.Kind = []string{"hdr_count", "key_len", "val_len", "url_len", "method_len", "body_len", "cl_huge"}[r.Intn(7)]
		o.Res = r.Bool(0.4) && o.Kind != "url_len" && o.Kind != "method_len"
		switch o.Kind {
		case "hdr_count":
			o.N = r.Pick(1, 1, 2, r.Range(2, 50), r.Range(50, 6000))
		case "body_len":
			o.N = r.Pick(1, 1, 2, r.Range(2, 1000), r.Range(1000, 60000))
		case "cl_huge":
			o.CL = []string{"131073", "4294967296", "4294967295", "2147483648", "9223372036854775807", "9223372036854775808", "18446744073709551615", "18446744073709551616", "99999999999999999999999999"}[r.Intn(9)]
			o.Tail = r.Pick(0, 0, 100, r.Range(0, 100000))
		default:
			o.N = r.Pick(1, 1, 1, 2, r.Range(2, 100), r.Range(100, 100000))
		}
		s := genStream(r, 0, o.Prefix, o.Prefix)
		s.Batch, s.Frag = 0, 0
		if o.Dir == "fwd" {
			sc.Fwd = s
		} else {
			sc.Back = s
		}
		sc.Over = o
	case "e2e":
		sc.Net = genNet(r, seed, r.Pick(0, 1, 1))
		sc.Creds = r.Bool(0.3)
		if r.Bool(0.7) {
			sc.UA = genValue(r.U64(), r.Pick(1, 10, 40, 200, 2047))
		}
		n := r.Range(1, 6)
		// a long conversation on one connection: tens of kilobytes from the client (more than the
		// 30000 placeholder Content-Length of the tunnel's POST request announces); hash-derived
		// so that no other choice moves
		if x := core.HS(seed, "c04.longhaul", "", 0); x%100 < 20 {
			n = 14 + int((x>>8)%12)
			sc.UA = genValue(x>>16, []int{1500, 2047}[(x>>40)%2])
		}
		for i := 0; i < n; i++ {
			op := E2EOp{Kind: "options"}
			if r.Bool(0.6) {
				op.Kind = "describe"
			}
			op.Path = "/" + genSeg(r)
			if r.Bool(0.5) {
				op.Path += "/" + genSeg(r)
			}
			if r.Bool(0.5) {
				op.Path += "?" + genQuery(r)
			}
			if _, err := base.ParseURL("rtsp://10.0.0.1:8554" + op.Path); err != nil {
				op.Path = "/stream"
			}
			e := genElem(r, 1)
			e.K, e.M, e.U, e.P, e.Ch, e.Fill = "res", "", "", 0, 0, 0
			e.SC = r.Pick(400, 403, 404, 451, 454, 500, 503, 551, r.Range(400, 599))
			if e.SC == 401 { // would start the client's authentication exchange (C10), not a framing matter
				e.SC = 402
			}
			e.SM = genMsg(r)
			e.NS = true
			if e.MV == 0 {
				e.MV = 1
			}
			if r.Bool(0.1) {
				e.B = r.Pick(131072, r.Range(20000, 131072))
			}
			if r.Bool(0.1) {
				e.NH = r.Range(100, 250)
			}
			op.Res = e
			sc.Ops = append(sc.Ops, op)
		}
	}
	return sc
}

func cloneSc(sc Scenario) Scenario {
	c := sc
	c.Fwd.Elems = append([]Elem(nil), sc.Fwd.Elems...)
	c.Back.Elems = append([]Elem(nil), sc.Back.Elems...)
	c.Ops = append([]E2EOp(nil), sc.Ops...)
	if sc.Fault != nil {
		f := *sc.Fault
		c.Fault = &f
	}
	if sc.Over != nil {
		o := *sc.Over
		c.Over = &o
	}
	return c
}

func shrinkElem(e Elem) []Elem {
	var out []Elem
	add := func(f func(*Elem)) {
		c := e
		f(&c)
		out = append(out, c)
	}
	if e.NH > 0 {
		add(func(c *Elem) { c.NH = 0 })
		add(func(c *Elem) { c.NH /= 2 })
		add(func(c *Elem) { c.NH-- })
	}
	if e.B > 0 {
		add(func(c *Elem) { c.B = 0 })
		add(func(c *Elem) { c.B /= 2 })
		add(func(c *Elem) { c.B-- })
	}
	if e.P > 0 {
		add(func(c *Elem) { c.P = 0 })
		add(func(c *Elem) { c.P /= 2 })
		add(func(c *Elem) { c.P-- })
	}
	if e.MV > 1 {
		add(func(c *Elem) { c.MV = 1 })
	}
	if e.HL > 0 {
		add(func(c *Elem) { c.HL = 0 })
	}
	if e.Fill > 0 {
		add(func(c *Elem) { c.Fill = 0 })
	}
	if e.BS > 0 {
		add(func(c *Elem) { c.BS = 0 })
	}
	if e.SM != "" {
		add(func(c *Elem) { c.SM = "" })
	}
	if e.K == "req" && e.AL == "" {
		if e.U != "rtsp://h/p" {
			add(func(c *Elem) { c.U = "rtsp://h/p" })
		}
		if e.M != "OPTIONS" {
			add(func(c *Elem) { c.M = "OPTIONS" })
		}
	}
	if e.K == "frm" && e.Ch != 0 {
		add(func(c *Elem) { c.Ch = 0 })
	}
	return out
}

func shrink(sc Scenario) []Scenario {
	var out []Scenario
	streams := func(c *Scenario) []*Stream { return []*Stream{&c.Fwd, &c.Back} }
	// whole streams, halves, single elements
	for si := 0; si < 2; si++ {
		n := len(streams(&sc)[si].Elems)
		if n == 0 {
			continue
		}
		if sc.Mode == "roundtrip" {
			c := cloneSc(sc)
			streams(&c)[si].Elems = nil
			out = append(out, c)
		}
		if n > 1 && sc.Mode != "overlimit" {
			c := cloneSc(sc)
			streams(&c)[si].Elems = streams(&c)[si].Elems[:n/2]
			out = append(out, c)
			c = cloneSc(sc)
			streams(&c)[si].Elems = streams(&c)[si].Elems[n/2:]
			out = append(out, c)
			for i := 0; i < n; i++ {
				c = cloneSc(sc)
				s := streams(&c)[si]
				s.Elems = append(s.Elems[:i:i], s.Elems[i+1:]...)
				out = append(out, c)
			}
		}
	}
	if sc.Over != nil && sc.Over.Prefix > 0 {
		c := cloneSc(sc)
		c.Over.Prefix = 0
		c.Fwd.Elems, c.Back.Elems = nil, nil
		out = append(out, c)
	}
	if sc.Carrier != "direct" {
		c := cloneSc(sc)
		c.Carrier = "direct"
		out = append(out, c)
	}
	if sc.Net.ChunkMode != 0 {
		c := cloneSc(sc)
		c.Net.ChunkMode = 0
		out = append(out, c)
	}
	if sc.Net.Coalesce != 0 {
		c := cloneSc(sc)
		c.Net.Coalesce = 0
		out = append(out, c)
	}
	for si := 0; si < 2; si++ {
		s := streams(&sc)[si]
		if s.Batch != 0 {
			c := cloneSc(sc)
			streams(&c)[si].Batch = 0
			out = append(out, c)
		}
		if s.Frag != 0 {
			c := cloneSc(sc)
			streams(&c)[si].Frag = 0
			out = append(out, c)
		}
	}
	for si := 0; si < 2; si++ {
		for i, e := range streams(&sc)[si].Elems {
			for _, e2 := range shrinkElem(e) {
				c := cloneSc(sc)
				streams(&c)[si].Elems[i] = e2
				out = append(out, c)
			}
		}
	}
	if sc.Fault != nil && sc.Fault.N > 1 {
		c := cloneSc(sc)
		c.Fault.N = 1
		out = append(out, c)
	}
	if sc.Over != nil {
		if sc.Over.N > 1 {
			c := cloneSc(sc)
			c.Over.N = 1
			out = append(out, c)
			c = cloneSc(sc)
			c.Over.N /= 2
			out = append(out, c)
		}
		if sc.Over.Tail > 0 {
			c := cloneSc(sc)
			c.Over.Tail = 0
			out = append(out, c)
		}
		if sc.Over.Res {
			c := cloneSc(sc)
			c.Over.Res = false
			out = append(out, c)
		}
	}
	if n := len(sc.Ops); n > 0 {
		if n > 1 {
			for i := 0; i < n; i++ {
				c := cloneSc(sc)
				c.Ops = append(c.Ops[:i:i], c.Ops[i+1:]...)
				out = append(out, c)
			}
		}
		for i, op := range sc.Ops {
			for _, e2 := range shrinkElem(op.Res) {
				c := cloneSc(sc)
				c.Ops[i].Res = e2
				out = append(out, c)
			}
			if op.Path != "/s" {
				c := cloneSc(sc)
				c.Ops[i].Path = "/s"
				out = append(out, c)
			}
		}
		if sc.UA != "" {
			c := cloneSc(sc)
			c.UA = ""
			out = append(out, c)
		}
		if sc.Creds {
			c := cloneSc(sc)
			c.Creds = false
			out = append(out, c)
		}
	}
	return out
}

func run(t *testing.T, sc Scenario) *core.Result {
	if sc.Mode == "e2e" {
		return runE2E(t, sc)
	}
	return runStream(t, sc)
}

// AllProbes lists the reach probes of the family (initialised to 0 in every run).
var allProbes = []string{
	"carrier_direct", "carrier_http_tunnel", "carrier_websocket",
	"one_byte_reads", "split_in_request_line", "split_in_crlf", "split_in_frame_header",
	"split_in_base64_quantum", "split_in_base64_padding", "split_in_ws_header", "split_ws_header_payload",
	"big_body", "max_frame", "many_headers", "max_headers", "long_url", "long_key_or_value", "unknown_method", "url_with_userinfo",
	"filler_between_elements", "several_elements_per_write", "several_writes_per_element",
	"truncated_stream", "truncated_fin", "truncated_rst", "corrupted_stream", "damaged_read_error", "damaged_read_element", "damaged_read_deadline",
	"over_limit_rejected", "over_limit_memory_checked", "at_limit_refused", "at_limit_accepted",
	"end_to_end_client_server", "elements_compared",
}

func init() {
	f := core.Register("C04", gen, run, shrink)
	f.Real = []string{
		"pkg/conn (Conn.Read, WriteRequest, WriteResponse, WriteInterleavedFrame)",
		"pkg/base (Request, Response, Header, body, InterleavedFrame, URL: Marshal and Unmarshal, length-limited token readers)",
		"internal/base64streamreader and serverHTTPTunnel (server side of the HTTP tunnel, through VerifNewServerHTTPTunnel)",
		"clientTunnelHTTP (client side of the HTTP tunnel incl. its GET/POST handshake, through VerifNewClientTunnelHTTP)",
		"wsReader / wsWriter (through VerifWSReadWriter) over a real gorilla/websocket connection pair (Dialer handshake, Upgrader, framing, masking)",
		"end-to-end configuration: gortsplib.Client (Tunnel none / HTTP / WebSocket) and gortsplib.Server incl. tunnel detection, the HTTP GET/POST pairing and the WebSocket upgrade",
	}
	f.Simulated = []string{
		"stream sockets, latency and the partition of every write into delivery segments = read results (simnet, scheduler)",
		"the HTTP responder and WebSocket upgrader call on the server side of the component configurations (harness code replicating server_conn_reader.go: same 200 response, same websocket.Upgrader settings)",
		"FIN / RST truncation, wire byte flips, message mutations and garbage (harness)",
		"clock (fake), entropy",
	}
	f.Excluded = []string{
		"TLS under the carriers (rtsps, https tunnel, wss)",
		"methods whose first two letters are not one of AN DE GE OP PA PL RE SE TE: conn.Conn.Read does not classify them as requests (unknown tokens with such a prefix are generated)",
		"status codes outside 1..999, header keys/values and status messages with CR or LF, header keys that are not RFC tokens",
		"wire byte flips in the client-to-server WebSocket direction (gorilla masks with math/rand: the outcome is not a function of the scenario); that direction gets truncation, message mutation and garbage",
		"requests built with a nil Header and a non-empty Body (Marshal writes Content-Length into the caller's map and panics on a nil map: caller error, not framing)",
	}
	f.Rule = "scenario = carrier (direct | HTTP tunnel | WebSocket) x mode. roundtrip: seeded element sequences in both directions at once (1..30 elements per direction: requests with any of the 10 methods or unknown tokens, URLs with IPv4/IPv6/host names, ports, user-info, escapes, queries, '*'; responses with any 1..999 status and default or arbitrary message; 0..255 header lines with 1..3 values per key, standard keys in arbitrary case, keys/values up to the limits, empty values; bodies 0..131072; frames 0..65535 bytes on channels 0..255; optional CR/LF/SP filler in front of an element), one Write per element, several elements per Write or several Writes per element (= base64 blocks / WebSocket messages that end inside elements), scheduler chunk mode 0..3 (1-byte reads for the small profiles); three size profiles (tiny / mixed / one element at a documented bound). truncate: FIN or RST at a seeded offset class (request line, CRLF, frame header, body, element boundary +-1, last byte, uniform). corrupt: 1..3 wire byte flips, grammar-level message mutations (peers.Mutator) or pure garbage. overlimit: an element beyond one documented limit (header count, key, value, URL, method, body length, huge Content-Length) after 0..2 good ones, with more bytes following. e2e: real Client and Server over the same three carriers, OPTIONS / DESCRIBE calls with seeded URLs, User-Agent and handler responses (status, headers, body); a fifth of them long conversations (14..25 calls with a 1.5-2 KB User-Agent: tens of kilobytes from the client on one connection). URLs without user-info must keep their query verbatim through base.ParseURL (4%: no path and a query with '@', an escape and a '/'). non-trivial = at least one element was compared (roundtrip, e2e), the fault fired (truncate, corrupt) or the over-limit element was refused after the memory checks; distinct = distinct canonical event log (scenario hash + per-read outcomes)"
	f.Assumptions = []string{
		"header keys are compared case-insensitively: the reader rewrites keys to canonical MIME form (except RTP-Info, WWW-Authenticate, CSeq, KeyMgmt); generated header maps hold no two keys that differ only in case",
		"header values are compared after removing leading spaces (the reader skips any amount of SP after the colon, RFC 2616 4.2); the order of the values of one key must be preserved",
		"Content-Length is not compared (the marshaller generates it from the body, and writes it into the caller's header map); the body itself is",
		"an empty status message is compared as the library's documented default text for that code (base.StatusMessages), or as empty when the code has none",
		"URLs are compared by their string form with the user-info removed (the marshaller strips it by design, C20); URLs are built with base.ParseURL",
		"a key / value / URL / method sized exactly at the constant named as its limit (512 / 2048 / 2048 / 64 bytes) may be refused or returned unchanged: the implementation counts the delimiter, so the largest accepted sizes are 511 / 2047 / 2047 / 63; 'beyond the limit' is generated as strictly more than the constant; 255 header lines, 131072-byte bodies and 65535-byte frames must round-trip",
		"1..3 bytes of CR / LF / SP in front of a request or response are expected to be skipped (RFC 2616 4.1 robustness, implemented by the reader's one-byte resynchronisation); used in a minority of round-trip runs",
		"truncation: every element the reader returns must equal the written element of the same index (elements wholly delivered before the cut; a cut element must not be returned), the read after the cut must fail before the deadline",
		"memory bound of over-limit elements: the reader may consume the stream up to the byte where the limit is exceeded plus 64 KiB of read-ahead, and the process-wide TotalAlloc delta around that read (which includes the simulator's own copies of the bytes in flight) must stay below 24 MiB",
		"corruption / garbage: every returned element must itself respect the documented limits; what it contains is not constrained",
	}
}
