package c04

import (
	"bufio"
	"bytes"
	"encoding/json"
	"errors"
	"fmt"
	"io"
	"net"
	"os"
	"runtime"
	"sort"
	"sync"
	"testing"
	"time"

	"github.com/bluenviron/gortsplib/v5/pkg/base"
	"github.com/bluenviron/gortsplib/v5/pkg/conn"

	"verifsim/core"
	"verifsim/peers"
	"verifsim/simnet"
	"verifsim/sys"
)

const (
	readWait  = 30 * time.Second      // fault-free reads: everything in flight arrives within milliseconds
	extraWait = 20 * time.Millisecond // the read that must find nothing more
	faultWait = 2 * time.Second       // reads on damaged streams
	maxReads  = 200000
	readAhead = 64 * 1024 // what a reader may have consumed beyond the byte that exceeds a limit
	allocCap  = 24 << 20
)

// sockLog is what the wire tap saw on one socket.
type sockLog struct {
	writes   [][]byte // every Write of this socket (handshake included)
	delivers []int    // cumulative number of bytes delivered TO this socket after each segment
}

type dirState struct {
	name string
	st   *Stream
	bs   []*built
	lay  *layout
	over *overBuilt

	// reader side
	cuts     []int // cumulative plain bytes after every Read result of the carrier
	consumed int
	nRead    int
	nEqual   int
	hostile  bool // the plain stream is not the layout (mutations / garbage)

	// writer side
	nWrites     int
	nFlushes    int
	multiElem   bool // a Write carried more than one element
	multiWrite  bool // an element was spread over several Writes
	prefixRead  chan struct{}
	writerEP    *endpoint
	targets     []int // plain offsets of the fault (cut position / flipped bytes)
	armed       int
	armedAt     []int // wire offsets (relative to the data stream of the socket) that were armed
	overOutcome string
}

type recReader struct {
	r io.Reader
	d *dirState
}

func (rr *recReader) Read(p []byte) (int, error) {
	n, err := rr.r.Read(p)
	if n > 0 {
		rr.d.consumed += n
		rr.d.cuts = append(rr.d.cuts, rr.d.consumed)
	}
	return n, err
}

type harness struct {
	w  *sys.World
	sc *Scenario
	ca *carrier

	cli, srv           *endpoint
	cliReady, srvReady chan struct{}

	fwd, back *dirState

	mu       sync.Mutex
	socks    map[string]*sockLog
	rstSock  string // reader socket of the RST fault
	rstAt    int    // delivered-byte count at which the writer resets
	rstConn  *simnet.Conn
	rstFired bool

	sample map[string]any
}

func (h *harness) sock(id string) *sockLog {
	s := h.socks[id]
	if s == nil {
		s = &sockLog{}
		h.socks[id] = s
	}
	return s
}

func (h *harness) tap(ev simnet.TapEvent) {
	switch ev.Kind {
	case "tcp.write":
		h.mu.Lock()
		s := h.sock(ev.Sock)
		s.writes = append(s.writes, ev.Data)
		h.mu.Unlock()
	case "tcp.deliver":
		h.mu.Lock()
		s := h.sock(ev.Sock)
		last := 0
		if n := len(s.delivers); n > 0 {
			last = s.delivers[n-1]
		}
		s.delivers = append(s.delivers, last+len(ev.Data))
		var reset *simnet.Conn
		if h.rstConn != nil && !h.rstFired && ev.Sock == h.rstSock && last+len(ev.Data) >= h.rstAt {
			h.rstFired = true
			reset = h.rstConn
		}
		h.mu.Unlock()
		if reset != nil {
			reset.Reset() // the writer's side aborts: the reader sees ECONNRESET after the latency
			h.w.Fault("c04.rst_after_offset")
		}
	}
}

func isTimeout(err error) bool {
	if errors.Is(err, os.ErrDeadlineExceeded) {
		return true
	}
	var ne net.Error
	if errors.As(err, &ne) && ne.Timeout() {
		return true
	}
	return false
}

func (h *harness) newDir(name string, st *Stream) *dirState {
	d := &dirState{name: name, st: st, prefixRead: make(chan struct{})}
	for _, e := range st.Elems {
		d.bs = append(d.bs, build(e))
	}
	d.lay = makeLayout(d.bs)
	return d
}

// ---- fault targeting ----------------------------------------------------------------

// pickOffset chooses a plain offset by class.
func pickOffset(l *layout, cls int, sel uint64) int {
	total := len(l.plain)
	if total == 0 {
		return 0
	}
	uniform := int(sel % uint64(total))
	var msgs, frms, bodies []span
	for _, s := range l.spans {
		if s.kind == "frm" {
			frms = append(frms, s)
			if s.end-s.start > 4 {
				bodies = append(bodies, span{start: s.start + 4, end: s.end})
			}
		} else {
			msgs = append(msgs, s)
			if s.end > s.headEnd {
				bodies = append(bodies, span{start: s.headEnd, end: s.end})
			}
		}
	}
	h2 := core.Mix(sel)
	switch cls {
	case 0:
		if len(msgs) > 0 {
			s := msgs[sel%uint64(len(msgs))]
			if s.lineEnd > s.start {
				return s.start + 1 + int(h2%uint64(s.lineEnd-s.start))
			}
		}
	case 1:
		if len(msgs) > 0 {
			s := msgs[sel%uint64(len(msgs))]
			var pos []int
			for o := s.start + 1; o < s.headEnd; o++ {
				if l.plain[o-1] == '\r' && l.plain[o] == '\n' {
					pos = append(pos, o)
				}
			}
			if len(pos) > 0 {
				return pos[h2%uint64(len(pos))]
			}
		}
	case 2:
		if len(frms) > 0 {
			s := frms[sel%uint64(len(frms))]
			return s.start + 1 + int(h2%3)
		}
	case 3:
		if len(bodies) > 0 {
			s := bodies[sel%uint64(len(bodies))]
			return s.start + int(h2%uint64(s.end-s.start))
		}
	case 4:
		s := l.spans[sel%uint64(len(l.spans))]
		return s.start
	case 5:
		s := l.spans[sel%uint64(len(l.spans))]
		o := s.end + int(h2%3) - 1
		if o >= 0 && o < total {
			return o
		}
	case 7:
		return total - 1 - int(h2%uint64(min(total, 3)))
	}
	return uniform
}

// mapWire maps an offset inside the plain bytes of one carrier Write to an offset
// inside the wire bytes that Write produces.
func (h *harness) mapWire(ep *endpoint, rel, n int, sel uint64) int {
	switch {
	case ep.b64:
		o := (rel/3)*4 + int(sel%4)
		if m := (n + 2) / 3 * 4; o >= m {
			o = m - 1
		}
		return o
	case ep.ws:
		hdr := 2
		if n >= 65536 {
			hdr = 10
		} else if n >= 126 {
			hdr = 4
		}
		if ep == h.cli {
			hdr += 4
		}
		if sel%5 == 0 {
			return int((sel / 5) % uint64(hdr))
		}
		return hdr + rel
	}
	return rel
}

// beforeWrite is called with the plain range [a,z) the next carrier Write covers.
func (h *harness) beforeWrite(d *dirState, ep *endpoint, a, z int) {
	f := h.sc.Fault
	if f == nil || len(d.targets) == 0 {
		return
	}
	for i, kp := range d.targets {
		if kp < a || kp >= z || i < d.armed {
			continue
		}
		d.armed = i + 1
		rel := h.mapWire(ep, kp-a, z-a, core.H(f.Sel, "wire", uint64(i)))
		d.armedAt = append(d.armedAt, ep.wr.written()-ep.wrBase+rel)
		switch f.Kind {
		case "fin":
			ta := ep.wr.written() + rel
			if ta < 1 {
				ta = 1
			}
			ep.wr.raw.Peer().TruncateAfter = ta
		case "rst":
			h.mu.Lock()
			h.rstConn = ep.wr.raw
			h.rstSock = ep.wr.raw.Peer().ID
			h.rstAt = max(1, ep.wr.written()+rel)
			h.mu.Unlock()
		case "flip":
			x := byte(1) << (core.H(f.Sel, "bit", uint64(i)) % 8)
			if core.H(f.Sel, "xk", uint64(i))%3 == 0 {
				x = byte(1 + core.H(f.Sel, "xor", uint64(i))%255)
			}
			ep.wr.armFlip(rel, x)
		}
	}
}

// ---- writer ----------------------------------------------------------------------------

type batcher struct {
	h    *harness
	d    *dirState
	ep   *endpoint
	buf  []byte
	off  int // plain offset of buf[0]
	pend int
	err  error
}

func (b *batcher) Write(p []byte) (int, error) {
	b.buf = append(b.buf, p...)
	return len(p), nil
}

func (b *batcher) elemDone() error {
	b.pend++
	n := b.d.st.Batch
	if n < 0 {
		return nil
	}
	if n <= 1 || b.pend >= n {
		return b.flush()
	}
	return nil
}

func (b *batcher) flush() error {
	if len(b.buf) == 0 || b.err != nil {
		return b.err
	}
	if b.pend > 1 {
		b.d.multiElem = true
	}
	b.pend = 0
	data := b.buf
	b.buf = nil
	b.d.nFlushes++
	frag := b.d.st.Frag
	if frag > 0 && len(data)/frag > 120 {
		frag = len(data)/120 + 1
	}
	k := 0
	for len(data) > 0 {
		n := len(data)
		if frag > 0 {
			n = 1 + int(core.HS(b.h.sc.Seed, "frag", b.d.name, uint64(b.d.nFlushes), uint64(k))%uint64(frag))
			if n > len(data) {
				n = len(data)
			}
			if n < len(data) {
				b.d.multiWrite = true
			}
		}
		k++
		b.h.beforeWrite(b.d, b.ep, b.off, b.off+n)
		b.d.nWrites++
		if _, err := b.ep.w.Write(data[:n]); err != nil {
			b.err = err
			return err
		}
		b.off += n
		data = data[n:]
	}
	return nil
}

func (h *harness) writeElem(wc *conn.Conn, bt *batcher, b *built) error {
	if len(b.fill) > 0 {
		bt.Write(b.fill) //nolint:errcheck
	}
	var err error
	switch x := b.obj.(type) {
	case *base.Request:
		err = wc.WriteRequest(x)
	case *base.Response:
		err = wc.WriteResponse(x)
	case *base.InterleavedFrame:
		err = wc.WriteInterleavedFrame(x, make([]byte, 4+len(x.Payload)))
	}
	if err != nil {
		return err
	}
	return bt.elemDone()
}

func (h *harness) writer(d *dirState, ep *endpoint) {
	w, sc := h.w, h.sc
	d.writerEP = ep
	bt := &batcher{h: h, d: d, ep: ep}
	wc := conn.NewConn(bufio.NewReader(bytes.NewReader(nil)), bt)
	if f := sc.Fault; f != nil && f.Dir == d.name {
		n := 1
		if f.Kind == "flip" {
			n = max(1, f.N)
		}
		if f.Kind == "fin" || f.Kind == "rst" || f.Kind == "flip" {
			for i := 0; i < n; i++ {
				d.targets = append(d.targets, pickOffset(d.lay, (f.Cls+i)%8, core.H(f.Sel, "target", uint64(i))))
				w.Fault(fmt.Sprintf("c04.%s.offset_class_%d", f.Kind, (f.Cls+i)%8))
			}
			sort.Ints(d.targets)
		}
		if f.Kind == "mutate" || f.Kind == "garbage" {
			h.writeHostile(d, bt)
			return
		}
	}
	for i, b := range d.bs {
		if b.urlRewritten != "" {
			w.Fail("c04/roundtrip request-url", "%s element %d: %s", d.name, i, b.urlRewritten)
		}
		if b.err != nil {
			w.Fail("c04/harness scenario", "%s element %d: %v", d.name, i, b.err)
			return
		}
		if err := h.writeElem(wc, bt, b); err != nil {
			if sc.Mode == "roundtrip" || sc.Mode == "overlimit" {
				w.Fail("c04/roundtrip write-error", "carrier %s %s element %d: Write failed on a fault-free stream: %v", sc.Carrier, d.name, i, err)
			}
			return
		}
	}
	if err := bt.flush(); err != nil {
		if sc.Mode == "roundtrip" || sc.Mode == "overlimit" {
			w.Fail("c04/roundtrip write-error", "carrier %s %s: Write failed on a fault-free stream: %v", sc.Carrier, d.name, err)
		}
		return
	}
	if o := sc.Over; o != nil && o.Dir == d.name {
		// the element beyond the limit goes out once the reader is through with the good
		// ones, so that the memory measurement brackets exactly this element
		select {
		case <-d.prefixRead:
		case <-time.After(2 * readWait):
			return
		}
		ob := d.over
		var err error
		switch x := ob.obj.(type) {
		case *base.Request:
			err = wc.WriteRequest(x)
		case *base.Response:
			err = wc.WriteResponse(x)
		default:
			_, err = bt.Write(ob.raw)
		}
		if err == nil {
			err = bt.flush()
		}
		_ = err // the reader may have refused and closed already
	}
}

// writeHostile writes mutated serialisations or garbage through the carrier.
func (h *harness) writeHostile(d *dirState, bt *batcher) {
	f := h.sc.Fault
	d.hostile = true
	mu := &peers.Mutator{Seed: f.Sel, Ent: "c04:" + d.name}
	if f.Kind == "garbage" {
		for k := 0; k < 1+int(f.Sel%3); k++ {
			bt.Write(mu.Garbage(f.N)) //nolint:errcheck
			if mu.Chance("frame", 0.3) {
				bt.Write(mu.Frame()) //nolint:errcheck
			}
			if bt.elemDone() != nil {
				return
			}
		}
		bt.flush() //nolint:errcheck
		return
	}
	for i, b := range d.bs {
		if b.err != nil {
			continue
		}
		buf := append(append([]byte(nil), b.fill...), b.plain...)
		if b.spec.K != "frm" && (i == len(d.bs)-1 || mu.Chance("mutate", 0.5)) {
			mu.Ent = fmt.Sprintf("c04:%s:%d", d.name, i)
			out, kind := mu.Mutate(b.plain)
			h.w.Fault("c04.mut." + kind)
			buf = out
		} else if b.spec.K == "frm" && mu.Chance("frame", 0.5) {
			buf = mu.Frame()
		}
		bt.Write(buf) //nolint:errcheck
		if bt.elemDone() != nil {
			return
		}
	}
	bt.flush() //nolint:errcheck
}

// ---- reader ----------------------------------------------------------------------------

func (h *harness) reader(d *dirState, ep *endpoint) {
	sc := h.sc
	rd := conn.NewConn(bufio.NewReader(&recReader{r: ep.r, d: d}), io.Discard)
	switch sc.Mode {
	case "roundtrip":
		if h.readExact(d, ep, rd, len(d.bs)) {
			h.readNothingMore(d, ep, rd)
		}
	case "truncate":
		if sc.Fault.Dir == d.name {
			h.readDamaged(d, ep, rd, true)
		}
	case "corrupt":
		if sc.Fault.Dir == d.name {
			h.readDamaged(d, ep, rd, false)
		}
	case "overlimit":
		if sc.Over.Dir != d.name {
			return
		}
		if h.readExact(d, ep, rd, len(d.bs)) {
			h.readOver(d, ep, rd)
		}
	}
}

func (h *harness) elemProbes(b *built) {
	w := h.w
	e := b.spec
	if e.B >= 64*1024 {
		w.Probe("big_body")
	}
	if e.K == "frm" && e.P >= limPayloadLen {
		w.Probe("max_frame")
	}
	if b.lines >= 200 {
		w.Probe("many_headers")
	}
	if b.lines == limHeaderCount || (b.lines == limHeaderCount-1 && e.B > 0) {
		w.Probe("max_headers")
	}
	if e.K == "req" {
		if len(b.want.U) >= 1500 {
			w.Probe("long_url")
		}
		if req := b.obj.(*base.Request); req.URL != nil && req.URL.User != nil {
			w.Probe("url_with_userinfo")
		}
		std := false
		for _, m := range stdMethods {
			if m == e.M {
				std = true
			}
		}
		if !std {
			w.Probe("unknown_method")
		}
	}
	if e.HL == 2 {
		w.Probe("long_key_or_value")
	}
	if len(b.fill) > 0 {
		w.Probe("filler_between_elements")
	}
}

// readExact reads n elements that must equal what was written. It returns false when
// reading stopped early (violation recorded, or an at-limit element was refused).
func (h *harness) readExact(d *dirState, ep *endpoint, rd *conn.Conn, n int) bool {
	w, sc := h.w, h.sc
	for i := 0; i < n; i++ {
		b := d.bs[i]
		if b.err != nil {
			return false
		}
		ep.setReadDeadline(time.Now().Add(readWait))
		v, err := rd.Read()
		if err != nil {
			if b.spec.AL != "" {
				w.Probe("at_limit_refused")
				w.Log.Add("rd:"+d.name, "at-limit", "%d refused", i)
				return false
			}
			what := "returned an error"
			if isTimeout(err) {
				what = fmt.Sprintf("still blocked %v after the last byte was written", readWait)
			}
			w.Fail("c04/roundtrip read-error", "carrier %s %s element %d/%d (%s, %d bytes serialised, chunk mode %d): Read %s: %v", sc.Carrier, d.name, i, n, kindName[b.spec.K], len(b.plain), sc.Net.ChunkMode, what, err)
			return false
		}
		d.nRead++
		if ent, detail := diffNorm(b.want, normOf(v, false)); ent != "" {
			w.Fail("c04/roundtrip "+ent, "carrier %s %s element %d/%d (chunk mode %d, batch %d, frag %d): %s", sc.Carrier, d.name, i, n, sc.Net.ChunkMode, d.st.Batch, d.st.Frag, detail)
			return false
		}
		d.nEqual++
		w.Probe("elements_compared")
		if b.spec.AL != "" {
			w.Probe("at_limit_accepted")
		}
		h.elemProbes(b)
		w.Log.Add("rd:"+d.name, "elem", "%d %s ok", i, b.spec.K)
	}
	return true
}

func (h *harness) readNothingMore(d *dirState, ep *endpoint, rd *conn.Conn) {
	ep.setReadDeadline(time.Now().Add(extraWait))
	v, err := rd.Read()
	if err == nil {
		h.w.Fail("c04/extra element", "carrier %s %s: after the %d elements written, Read returned one more: %s", h.sc.Carrier, d.name, len(d.bs), describe(v))
	}
}

func describe(v any) string {
	n := normOf(v, false)
	switch n.K {
	case "req":
		return fmt.Sprintf("request %s %s, %d header keys, body %d bytes", shortS(n.M), shortS(n.U), len(n.H), len(n.B))
	case "res":
		return fmt.Sprintf("response %d %s, %d header keys, body %d bytes", n.SC, shortS(n.SM), len(n.H), len(n.B))
	case "frm":
		return fmt.Sprintf("frame channel %d, %d bytes", n.Ch, len(n.P))
	}
	return n.K
}

// readDamaged reads until the first error. Every Read must return before its deadline;
// every element must respect the limits; with prefix set (truncation) every element
// must equal the written one of the same index.
func (h *harness) readDamaged(d *dirState, ep *endpoint, rd *conn.Conn, prefix bool) {
	w, sc := h.w, h.sc
	for k := 0; k < maxReads; k++ {
		dl := time.Now().Add(faultWait)
		ep.setReadDeadline(dl)
		v, err := rd.Read()
		if over := time.Since(dl); over > time.Millisecond {
			w.Fail("c04/deadline read", "carrier %s %s read %d: Read returned %v after its deadline (err %v)", sc.Carrier, d.name, k, over, err)
			return
		}
		if err != nil {
			to := isTimeout(err)
			if to {
				w.Probe("damaged_read_deadline")
			} else {
				w.Probe("damaged_read_error")
			}
			w.Log.Add("rd:"+d.name, "end", "after %d elements timeout=%v", k, to)
			return
		}
		d.nRead++
		w.Probe("damaged_read_element")
		if msg := wellFormed(v); msg != "" {
			w.Fail("c04/malformed element", "carrier %s %s read %d: Read returned an element beyond the documented limits: %s (%s)", sc.Carrier, d.name, k, msg, describe(v))
			return
		}
		if prefix {
			if k >= len(d.bs) {
				w.Fail("c04/truncate extra", "carrier %s %s: Read returned element %d although %d were written: %s", sc.Carrier, d.name, k, len(d.bs), describe(v))
				return
			}
			if ent, detail := diffNorm(d.bs[k].want, normOf(v, false)); ent != "" {
				w.Fail("c04/truncate prefix", "carrier %s %s element %d/%d read from a stream cut at plain offsets %v (element spans %v): %s", sc.Carrier, d.name, k, len(d.bs), d.targets, d.lay.spans[k], detail)
				return
			}
			d.nEqual++
		}
		w.Log.Add("rd:"+d.name, "elem", "%d %s", k, normOf(v, false).K)
	}
}

// readOver reads the element that exceeds a documented limit.
func (h *harness) readOver(d *dirState, ep *endpoint, rd *conn.Conn) {
	w, sc := h.w, h.sc
	o := sc.Over
	var m0, m1 runtime.MemStats
	runtime.ReadMemStats(&m0)
	c0 := d.consumed
	close(d.prefixRead)
	ep.setReadDeadline(time.Now().Add(readWait))
	v, err := rd.Read()
	runtime.ReadMemStats(&m1)
	used := d.consumed - c0
	alloc := m1.TotalAlloc - m0.TotalAlloc
	desc := fmt.Sprintf("carrier %s %s %s (n=%d res=%v cl=%q): element of %d bytes, limit exceeded at byte %d", sc.Carrier, d.name, o.Kind, o.N, o.Res, o.CL, len(d.over.plain), d.over.limitAt)
	if err == nil {
		d.overOutcome = "accepted"
		w.Fail("c04/overlimit accepted", "%s: Read returned an element instead of an error: %s", desc, describe(v))
		return
	}
	if alloc > allocCap {
		d.overOutcome = "memory"
		w.Fail("c04/overlimit memory", "%s: %d bytes were allocated while reading it (cap %d): %v", desc, alloc, allocCap, err)
		return
	}
	if used > d.over.limitAt+readAhead {
		d.overOutcome = "consumed"
		w.Fail("c04/overlimit consumed", "%s: the reader consumed %d bytes of the stream before refusing (allowed: up to the limit + %d of read-ahead): %v", desc, used, readAhead, err)
		return
	}
	if isTimeout(err) {
		d.overOutcome = "blocked"
		w.Fail("c04/overlimit blocked", "%s: Read did not refuse it, it was still blocked %v after everything had been written: %v", desc, readWait, err)
		return
	}
	d.overOutcome = "refused"
	w.Log.Add("rd:"+d.name, "over", "refused after %d bytes", used)
	w.Probe("over_limit_rejected")
	w.Probe("over_limit_memory_checked")
}

// ---- the run ------------------------------------------------------------------------------

func scenarioHash(sc *Scenario) uint64 {
	b, _ := json.Marshal(sc)
	return core.HS(1, "c04", string(b))
}

func runStream(t *testing.T, sc Scenario) *core.Result {
	opts := sys.Options{Seed: sc.Seed, Net: sc.Net, MaxSteps: 1500000, Horizon: 10 * time.Minute}
	var h *harness
	res := sys.Run(t, opts, func(w *sys.World) {
		w.ProbeInit(allProbes...)
		h = &harness{w: w, sc: &sc, socks: map[string]*sockLog{}, cliReady: make(chan struct{}), srvReady: make(chan struct{})}
		w.Log.Add("c04", "scenario", "%x", scenarioHash(&sc))
		w.Net.AddTap(h.tap)
		srvNode := w.Net.Node("srv", "10.0.0.1")
		cliNode := w.Net.Node("cli", "10.0.0.20")
		ln, err := srvNode.Listen("tcp", srvAddr)
		if err != nil {
			w.Fail("c04/harness setup", "listen: %v", err)
			return
		}
		h.ca = &carrier{kind: sc.Carrier, cliNode: cliNode, ln: ln}
		h.fwd = h.newDir("fwd", &sc.Fwd)
		h.back = h.newDir("back", &sc.Back)
		if o := sc.Over; o != nil {
			d := h.fwd
			if o.Dir == "back" {
				d = h.back
			}
			d.over = buildOver(o)
		}
		w.Go("cli-setup", func() {
			defer close(h.cliReady)
			ep, err := h.ca.clientSide()
			if err != nil {
				w.Fail("c04/harness setup", "carrier %s client side: %v", sc.Carrier, err)
				return
			}
			h.cli = ep
		})
		w.Go("srv-setup", func() {
			defer close(h.srvReady)
			ep, err := h.ca.serverSide()
			if err != nil {
				w.Fail("c04/harness setup", "carrier %s server side: %v", sc.Carrier, err)
				return
			}
			h.srv = ep
		})
		w.Go("fwd-writer", func() {
			<-h.cliReady
			if h.cli != nil {
				h.writer(h.fwd, h.cli)
			}
		})
		w.Go("fwd-reader", func() {
			<-h.srvReady
			if h.srv != nil {
				h.reader(h.fwd, h.srv)
			}
		})
		w.Go("back-writer", func() {
			<-h.srvReady
			if h.srv != nil {
				h.writer(h.back, h.srv)
			}
		})
		w.Go("back-reader", func() {
			<-h.cliReady
			if h.cli != nil {
				h.reader(h.back, h.cli)
			}
		})
		w.Go("closer", func() {
			w.WaitDrivers("cli-setup", "srv-setup", "fwd-writer", "fwd-reader", "back-writer", "back-reader")
			h.ca.closeAll()
		})
		w.AtEnd(h.finish)
	})
	p := res.Probes
	switch sc.Mode {
	case "roundtrip":
		res.Nontrivial = p["elements_compared"] > 0
	case "truncate":
		res.Nontrivial = p["truncated_stream"] > 0
	case "corrupt":
		res.Nontrivial = p["corrupted_stream"] > 0
	case "overlimit":
		res.Nontrivial = p["over_limit_rejected"] > 0
	}
	if h != nil {
		res.Sample = h.sample
	}
	return res
}

// finish computes the reach probes from what the taps and the readers recorded.
func (h *harness) finish() {
	w, sc := h.w, h.sc
	switch sc.Carrier {
	case "direct":
		w.Probe("carrier_direct")
	case "http":
		w.Probe("carrier_http_tunnel")
	case "ws":
		w.Probe("carrier_websocket")
	}
	stats := w.Net.StatsCopy()
	if f := sc.Fault; f != nil {
		switch f.Kind {
		case "fin":
			if stats["tcp.truncate_at_offset"] > 0 {
				w.Probe("truncated_stream")
				w.Probe("truncated_fin")
			}
		case "rst":
			if h.rstFired {
				w.Probe("truncated_stream")
				w.Probe("truncated_rst")
			}
		case "flip":
			for _, d := range []*dirState{h.fwd, h.back} {
				if d.writerEP != nil && d.writerEP.wr.flipsFired() > 0 {
					w.Probe("corrupted_stream")
				}
			}
		case "mutate", "garbage":
			for _, d := range []*dirState{h.fwd, h.back} {
				if d.hostile && d.nWrites > 0 {
					w.Probe("corrupted_stream")
				}
			}
		}
	}
	total := 0
	for _, d := range []*dirState{h.fwd, h.back} {
		total += len(d.lay.plain)
		if d.multiElem {
			w.Probe("several_elements_per_write")
		}
		if d.multiWrite {
			w.Probe("several_writes_per_element")
		}
		if d.hostile || len(d.cuts) == 0 {
			continue
		}
		// the last cut is the end of what was consumed, not a split
		cuts := d.cuts[:len(d.cuts)-1]
		a, b, c := d.lay.classify(cuts)
		w.ProbeAdd("split_in_request_line", a)
		w.ProbeAdd("split_in_crlf", b)
		w.ProbeAdd("split_in_frame_header", c)
		// an element that reached the parser one byte per read
		ci := 0
		for _, s := range d.lay.spans {
			for ci < len(d.cuts) && d.cuts[ci] <= s.start {
				ci++
			}
			n := 0
			for cj := ci; cj < len(d.cuts) && d.cuts[cj] <= s.end; cj++ {
				n++
			}
			if s.end-s.start >= 8 && n == s.end-s.start {
				w.Probe("one_byte_reads")
				break
			}
		}
	}
	h.wireProbes()
	h.sample = map[string]any{"mode": sc.Mode, "carrier": sc.Carrier, "plain_bytes": total,
		"fwd":  map[string]int{"elements": len(h.fwd.bs), "equal": h.fwd.nEqual, "reads": len(h.fwd.cuts), "writes": h.fwd.nWrites},
		"back": map[string]int{"elements": len(h.back.bs), "equal": h.back.nEqual, "reads": len(h.back.cuts), "writes": h.back.nWrites}}
	if sc.Fault != nil {
		h.sample["fault_plain_offsets"] = append(append([]int(nil), h.fwd.targets...), h.back.targets...)
	}
	if sc.Over != nil {
		h.sample["over"] = h.fwd.overOutcome + h.back.overOutcome
	}
}

// wireProbes looks at where the delivery segments cut the carrier's own encoding.
func (h *harness) wireProbes() {
	w := h.w
	h.mu.Lock()
	defer h.mu.Unlock()
	for _, d := range []*dirState{h.fwd, h.back} {
		ep := d.writerEP
		if ep == nil || !(ep.b64 || ep.ws) {
			continue
		}
		wl := h.socks[ep.wr.raw.ID]
		rl := h.socks[ep.wr.raw.Peer().ID]
		if wl == nil || rl == nil {
			continue
		}
		// data writes: those after the handshake bytes
		var data [][]byte
		pos := 0
		for _, wr := range wl.writes {
			if pos >= ep.wrBase {
				data = append(data, wr)
			}
			pos += len(wr)
		}
		var cuts []int
		for _, c := range rl.delivers {
			if c > ep.wrBase {
				cuts = append(cuts, c-ep.wrBase)
			}
		}
		if ep.b64 {
			ci := 0
			start := 0
			for _, blk := range data {
				end := start + len(blk)
				padded := len(blk) >= 4 && blk[len(blk)-1] == '='
				for ci < len(cuts) && cuts[ci] <= start {
					ci++
				}
				for ; ci < len(cuts) && cuts[ci] < end; ci++ {
					if (cuts[ci]-start)%4 != 0 {
						w.Probe("split_in_base64_quantum")
						if padded && cuts[ci] > end-4 {
							w.Probe("split_in_base64_padding")
						}
					}
				}
				start = end
			}
			continue
		}
		// WebSocket: parse the frame headers of the data stream
		var all []byte
		for _, wr := range data {
			all = append(all, wr...)
		}
		ci := 0
		for p := 0; p+2 <= len(all); {
			hl := 2
			n := int(all[p+1] & 0x7f)
			switch n {
			case 126:
				if p+4 > len(all) {
					return
				}
				n = int(all[p+2])<<8 | int(all[p+3])
				hl = 4
			case 127:
				if p+10 > len(all) {
					return
				}
				n = 0
				for k := 2; k < 10; k++ {
					n = n<<8 | int(all[p+k])
				}
				hl = 10
			}
			if all[p+1]&0x80 != 0 {
				hl += 4
			}
			if n < 0 || n > len(all) { // a flipped length byte: nothing more to classify
				return
			}
			for ci < len(cuts) && cuts[ci] <= p {
				ci++
			}
			for ; ci < len(cuts) && cuts[ci] <= p+hl; ci++ {
				if cuts[ci] < p+hl {
					w.Probe("split_in_ws_header")
				} else if n > 0 {
					w.Probe("split_ws_header_payload")
				}
			}
			p += hl + n
		}
	}
}
