package c04

import (
	"bufio"
	"bytes"
	"context"
	"fmt"
	"io"
	"net"
	"net/http"
	"sync"
	"time"

	"github.com/gorilla/websocket"

	gortsplib "github.com/bluenviron/gortsplib/v5"
	"github.com/bluenviron/gortsplib/v5/pkg/base"

	"verifsim/simnet"
)

// faultConn wraps a simulated stream socket: it counts what is written and can
// flip bytes of the outgoing wire stream.
type faultConn struct {
	net.Conn
	raw   *simnet.Conn
	mu    sync.Mutex
	wrote int
	flips map[int]byte // absolute offset -> xor mask
	fired int
}

func wrapConn(c net.Conn) *faultConn {
	return &faultConn{Conn: c, raw: c.(*simnet.Conn)}
}

func (f *faultConn) Write(p []byte) (int, error) {
	f.mu.Lock()
	start := f.wrote
	f.wrote += len(p)
	var q []byte
	for off, x := range f.flips {
		if off >= start && off < start+len(p) {
			if q == nil {
				q = append([]byte(nil), p...)
			}
			q[off-start] ^= x
			delete(f.flips, off)
			f.fired++
		}
	}
	f.mu.Unlock()
	if q != nil {
		n, err := f.Conn.Write(q)
		return n, err
	}
	return f.Conn.Write(p)
}

func (f *faultConn) written() int {
	f.mu.Lock()
	defer f.mu.Unlock()
	return f.wrote
}

// armFlip flips the byte rel bytes after what has been written so far.
func (f *faultConn) armFlip(rel int, x byte) {
	f.mu.Lock()
	if f.flips == nil {
		f.flips = map[int]byte{}
	}
	f.flips[f.wrote+rel] ^= x
	f.mu.Unlock()
}

func (f *faultConn) flipsFired() int {
	f.mu.Lock()
	defer f.mu.Unlock()
	return f.fired
}

// endpoint is one end of a carrier.
type endpoint struct {
	r io.Reader
	w io.Writer
	// rd is the socket whose deliveries feed r (read deadlines, truncation);
	// wr is the socket that carries what is written into w.
	rd *faultConn
	wr *faultConn
	// wrBase is how many handshake bytes wr had carried when the carrier was ready.
	wrBase int
	// b64 says that w encodes every Write as one padded base64 block; ws that
	// it frames every Write as one WebSocket message.
	b64, ws bool
}

func (e *endpoint) setReadDeadline(t time.Time) { e.rd.raw.SetReadDeadline(t) } //nolint:errcheck

type hijackWriter struct {
	c  net.Conn
	br *bufio.Reader
	h  http.Header
}

func (w *hijackWriter) Header() http.Header         { return w.h }
func (w *hijackWriter) Write(p []byte) (int, error) { return w.c.Write(p) }
func (w *hijackWriter) WriteHeader(statusCode int) {
	res := http.Response{StatusCode: statusCode, ProtoMajor: 1, ProtoMinor: 1, Header: w.h}
	var buf bytes.Buffer
	res.Write(&buf)        //nolint:errcheck
	w.c.Write(buf.Bytes()) //nolint:errcheck
}
func (w *hijackWriter) Hijack() (net.Conn, *bufio.ReadWriter, error) {
	return w.c, bufio.NewReadWriter(w.br, bufio.NewWriter(w.c)), nil
}

// the same settings as the library's server (server_conn_reader.go)
var upgrader = websocket.Upgrader{CheckOrigin: func(*http.Request) bool { return true }}

// tunnelOK writes what the library's server answers to the GET and POST requests of a HTTP tunnel.
func tunnelOK(c net.Conn, req *http.Request) error {
	h := http.Header{}
	h.Set("Cache-Control", "no-cache")
	h.Set("Connection", "close")
	h.Set("Content-Type", "application/x-rtsp-tunnelled")
	h.Set("Pragma", "no-cache")
	res := http.Response{StatusCode: http.StatusOK, ProtoMajor: 1, ProtoMinor: req.ProtoMinor, Header: h, ContentLength: -1}
	var buf bytes.Buffer
	res.Write(&buf) //nolint:errcheck
	_, err := c.Write(buf.Bytes())
	return err
}

// carrier builds both ends. Everything blocking runs in the two setup drivers.
type carrier struct {
	kind    string
	cliNode *simnet.Node
	ln      net.Listener

	mu       sync.Mutex
	cliConns []*faultConn
	srvConns []*faultConn
	wsConns  []*websocket.Conn
}

func (c *carrier) dial(ctx context.Context, network, address string) (net.Conn, error) {
	nc, err := c.cliNode.DialContext(ctx, network, address)
	if err != nil {
		return nil, err
	}
	fc := wrapConn(nc)
	c.mu.Lock()
	c.cliConns = append(c.cliConns, fc)
	c.mu.Unlock()
	return fc, nil
}

func (c *carrier) accept() (*faultConn, error) {
	nc, err := c.ln.Accept()
	if err != nil {
		return nil, err
	}
	fc := wrapConn(nc)
	c.mu.Lock()
	c.srvConns = append(c.srvConns, fc)
	c.mu.Unlock()
	return fc, nil
}

const srvAddr = "10.0.0.1:8554"

func (c *carrier) clientSide() (*endpoint, error) {
	ctx := context.Background()
	switch c.kind {
	case "direct":
		nc, err := c.dial(ctx, "tcp", srvAddr)
		if err != nil {
			return nil, err
		}
		fc := nc.(*faultConn)
		return &endpoint{r: fc, w: fc, rd: fc, wr: fc}, nil
	case "http":
		u, _ := base.ParseURL("rtsp://" + srvAddr + "/tunnel/path?a=b")
		tun, err := gortsplib.VerifNewClientTunnelHTTP(ctx, srvAddr, false, nil, c.dial, nil, u)
		if err != nil {
			return nil, err
		}
		c.mu.Lock()
		defer c.mu.Unlock()
		if len(c.cliConns) != 2 {
			return nil, fmt.Errorf("client tunnel dialled %d connections", len(c.cliConns))
		}
		get, post := c.cliConns[0], c.cliConns[1]
		return &endpoint{r: tun, w: tun, rd: get, wr: post, wrBase: post.written(), b64: true}, nil
	case "ws":
		// as client_tunnel_websocket.go does
		d := &websocket.Dialer{Subprotocols: []string{"rtsp.onvif.org"}, NetDialContext: c.dial}
		wc, _, err := d.DialContext(ctx, "ws://"+srvAddr+"/", nil) //nolint:bodyclose
		if err != nil {
			return nil, err
		}
		r, w := gortsplib.VerifWSReadWriter(wc)
		c.mu.Lock()
		defer c.mu.Unlock()
		c.wsConns = append(c.wsConns, wc)
		fc := c.cliConns[0]
		return &endpoint{r: r, w: w, rd: fc, wr: fc, wrBase: fc.written(), ws: true}, nil
	}
	return nil, fmt.Errorf("carrier %q", c.kind)
}

func (c *carrier) serverSide() (*endpoint, error) {
	switch c.kind {
	case "direct":
		fc, err := c.accept()
		if err != nil {
			return nil, err
		}
		return &endpoint{r: fc, w: fc, rd: fc, wr: fc}, nil
	case "http":
		get, err := c.accept()
		if err != nil {
			return nil, err
		}
		br1 := bufio.NewReader(get)
		req1, err := http.ReadRequest(br1)
		if err != nil {
			return nil, fmt.Errorf("GET channel: %v", err)
		}
		if req1.Method != http.MethodGet || req1.Header.Get("Accept") != "application/x-rtsp-tunnelled" || req1.Header.Get("X-Sessioncookie") == "" {
			return nil, fmt.Errorf("GET channel: unexpected request %s %v", req1.Method, req1.Header)
		}
		if err = tunnelOK(get, req1); err != nil {
			return nil, err
		}
		post, err := c.accept()
		if err != nil {
			return nil, err
		}
		br2 := bufio.NewReader(post)
		req2, err := http.ReadRequest(br2)
		if err != nil {
			return nil, fmt.Errorf("POST channel: %v", err)
		}
		if req2.Method != http.MethodPost || req2.Header.Get("Content-Type") != "application/x-rtsp-tunnelled" ||
			req2.Header.Get("X-Sessioncookie") != req1.Header.Get("X-Sessioncookie") {
			return nil, fmt.Errorf("POST channel: unexpected request %s %v", req2.Method, req2.Header)
		}
		if err = tunnelOK(post, req2); err != nil {
			return nil, err
		}
		tun := gortsplib.VerifNewServerHTTPTunnel(post, br2, get)
		return &endpoint{r: tun, w: tun, rd: post, wr: get, wrBase: get.written()}, nil
	case "ws":
		fc, err := c.accept()
		if err != nil {
			return nil, err
		}
		br := bufio.NewReader(fc)
		req, err := http.ReadRequest(br)
		if err != nil {
			return nil, fmt.Errorf("upgrade request: %v", err)
		}
		if req.Header.Get("Upgrade") != "websocket" || req.Header.Get("Sec-WebSocket-Protocol") != "rtsp.onvif.org" {
			return nil, fmt.Errorf("unexpected upgrade request %v", req.Header)
		}
		wc, err := upgrader.Upgrade(&hijackWriter{c: fc, br: br, h: http.Header{}}, req, nil)
		if err != nil {
			return nil, err
		}
		r, w := gortsplib.VerifWSReadWriter(wc)
		c.mu.Lock()
		c.wsConns = append(c.wsConns, wc)
		c.mu.Unlock()
		return &endpoint{r: r, w: w, rd: fc, wr: fc, wrBase: fc.written(), ws: true}, nil
	}
	return nil, fmt.Errorf("carrier %q", c.kind)
}

func (c *carrier) closeAll() {
	c.ln.Close()
	c.mu.Lock()
	defer c.mu.Unlock()
	for _, fc := range c.cliConns {
		fc.Conn.Close()
	}
	for _, fc := range c.srvConns {
		fc.Conn.Close()
	}
}
