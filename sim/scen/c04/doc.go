// Package c04 holds the scenario family of property C04.
package c04
