// Package c04 decides C04 (RTSP framing round-trips for any chunking and any
// byte carrier) by stream simulation (DESIGN 3.3): the real conn.Conn writer on
// one end of a simulated stream, the real conn.Conn reader on the other end, the
// scheduler partitioning the byte stream into reads, three carriers (direct,
// HTTP tunnel = real client tunnel writer + real server tunnel / base64 stream
// reader, WebSocket = real gorilla connection pair + the library's message
// reader / writer), plus separate truncation, corruption and over-limit
// configurations and an end-to-end configuration through a real Client and Server.
package c04
