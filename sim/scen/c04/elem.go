package c04

import (
	"bytes"
	"fmt"
	"net/url"
	"sort"
	"strconv"
	"strings"

	"github.com/bluenviron/gortsplib/v5/pkg/base"

	"verifsim/core"
)

// documented limits (statement of C04; names of the constants in pkg/base).
const (
	limHeaderCount = 255
	limKeyLen      = 512
	limValueLen    = 2048
	limURLLen      = 2048
	limMethodLen   = 64
	limBodyLen     = 128 * 1024
	limPayloadLen  = 65535
)

// bstream is a cheap deterministic byte source.
type bstream struct{ s uint64 }

func (b *bstream) next() uint64 {
	b.s += 0x9e3779b97f4a7c15
	return core.Mix(b.s)
}

func (b *bstream) intn(n int) int {
	if n <= 0 {
		return 0
	}
	return int(b.next() % uint64(n))
}

// fillBytes derives n bytes from a seed. style: 0 binary, 1 text lines, 2 binary
// full of bytes that mean something to the framing ('$', "RTSP", CR LF), 3
// repeated serialised RTSP elements.
func fillBytes(seed uint64, n int, style int) []byte {
	out := make([]byte, n)
	bs := &bstream{s: core.Mix(seed ^ 0xb0d1)}
	switch style {
	case 1:
		line := []byte("a=control:trackID=0\r\nm=video 0 RTP/AVP 96\r\nc=IN IP4 0.0.0.0\r\n")
		for i := 0; i < n; i++ {
			out[i] = line[i%len(line)]
		}
		if n > 0 {
			out[bs.intn(n)] = byte('0' + bs.intn(10))
		}
	case 2:
		al := []byte("$$$RTSP/1.0 \r\n\r\nOPTIONS \x00\xff$\x00\x00\x04")
		for i := 0; i < n; i += 8 {
			v := bs.next()
			for j := 0; j < 8 && i+j < n; j++ {
				out[i+j] = al[int(byte(v>>(8*j)))%len(al)]
			}
		}
	case 3:
		msg := []byte("OPTIONS rtsp://10.0.0.1/x RTSP/1.0\r\nCSeq: 1\r\n\r\n$\x01\x00\x02ab" + "RTSP/1.0 200 OK\r\nCSeq: 1\r\nContent-Length: 3\r\n\r\nabc")
		for i := 0; i < n; i++ {
			out[i] = msg[i%len(msg)]
		}
	default:
		for i := 0; i < n; i += 8 {
			v := bs.next()
			for j := 0; j < 8 && i+j < n; j++ {
				out[i+j] = byte(v >> (8 * j))
			}
		}
	}
	return out
}

var stdKeys = []string{"CSeq", "Session", "Transport", "RTP-Info", "WWW-Authenticate", "KeyMgmt", "Content-Type", "Content-Base",
	"Range", "Public", "User-Agent", "Server", "Accept", "Authorization", "Require", "Location", "Cache-Control", "Expires", "Date",
	"Scale", "Speed", "Blocksize", "Bandwidth", "Proxy-Require", "Content-Encoding", "Content-Language", "Via", "Allow", "Unsupported", "Last-Modified"}

const keyAlphabet = "ABCDEFGHIJKLMNOPQRSTUVWXYZabcdefghijklmnopqrstuvwxyzabcdefghijklmnopqrstuvwxyz0123456789----__.!#$%&'*+^`|~"

func genKeyStr(bs *bstream, n int) string {
	b := make([]byte, n)
	for i := range b {
		b[i] = keyAlphabet[bs.intn(len(keyAlphabet))]
	}
	return string(b)
}

// genValue derives a header value of n bytes: visible ASCII, inner spaces and tabs,
// some bytes >= 0x80; never CR or LF.
func genValue(seed uint64, n int) string {
	bs := &bstream{s: core.Mix(seed ^ 0x7a1)}
	b := make([]byte, n)
	for i := range b {
		switch x := bs.intn(40); {
		case x == 0:
			b[i] = ' '
		case x == 1:
			b[i] = '\t'
		case x == 2:
			b[i] = byte(0x80 + bs.intn(0x80))
		case x == 3:
			b[i] = ":;,=\"$"[bs.intn(6)]
		default:
			b[i] = byte(0x21 + bs.intn(0x7e-0x21+1))
		}
	}
	return string(b)
}

// buildHeader derives the header map of an element: lines entries in total, spread
// over keys with 1..mv values each. No two keys are equal ignoring case, none is
// Content-Length.
func buildHeader(e Elem, lines int) base.Header {
	h := base.Header{}
	if lines <= 0 {
		return h
	}
	mv := e.MV
	if mv < 1 {
		mv = 1
	}
	seen := map[string]bool{"content-length": true}
	nearKey, nearVal := 0, 0
	total := 0
	for i := 0; total < lines; i++ {
		bs := &bstream{s: core.H(e.ID, "hdr", uint64(i))}
		var key string
		switch {
		case !e.NS && i < len(stdKeys) && bs.intn(3) == 0:
			key = stdKeys[(i+int(e.ID%uint64(len(stdKeys))))%len(stdKeys)]
			switch bs.intn(4) {
			case 0:
				key = strings.ToLower(key)
			case 1:
				key = strings.ToUpper(key)
			}
		default:
			n := 1 + bs.intn(24)
			if e.HL == 1 {
				n = 1 + bs.intn(120)
			}
			if e.HL == 2 && nearKey < 2 && bs.intn(3) == 0 {
				n = []int{limKeyLen - 1, limKeyLen - 2, 500, 400 + bs.intn(111)}[bs.intn(4)]
				nearKey++
			}
			key = genKeyStr(bs, n)
		}
		if e.AL == "key" && i == 0 {
			key = genKeyStr(bs, limKeyLen)
		}
		for seen[strings.ToLower(key)] {
			suffix := "~" + strconv.Itoa(i)
			if len(key)+len(suffix) > limKeyLen-1 {
				key = key[:limKeyLen-1-len(suffix)]
			}
			key += suffix
		}
		seen[strings.ToLower(key)] = true
		nv := 1 + bs.intn(mv)
		if total+nv > lines {
			nv = lines - total
		}
		var vals base.HeaderValue
		for j := 0; j < nv; j++ {
			var n int
			switch x := bs.intn(10); {
			case x == 0:
				n = 0
			case x < 4:
				n = 1 + bs.intn(8)
			default:
				n = 1 + bs.intn(48)
			}
			if e.HL == 1 && bs.intn(3) == 0 {
				n = bs.intn(400)
			}
			if e.HL == 2 && nearVal < 3 && bs.intn(3) == 0 {
				n = []int{limValueLen - 1, limValueLen - 2, 2000, 1500 + bs.intn(548)}[bs.intn(4)]
				nearVal++
			}
			if e.AL == "val" && i == 0 && j == 0 {
				n = limValueLen
			}
			v := genValue(bs.next(), n)
			if n > 0 && bs.intn(20) == 0 {
				v = " " + v[1:] // leading space: compared in trimmed form
			}
			if e.AL == "val" && i == 0 && j == 0 && v[0] == ' ' {
				v = "x" + v[1:]
			}
			vals = append(vals, v)
		}
		h[key] = vals
		total += nv
	}
	return h
}

// norm is the normal form elements are compared in (see f.Assumptions).
type norm struct {
	K  string
	M  string
	U  string
	SC int
	SM string
	H  map[string][]string
	B  []byte
	Ch int
	P  []byte
}

func normHeader(h base.Header) map[string][]string {
	out := map[string][]string{}
	keys := make([]string, 0, len(h))
	for k := range h {
		keys = append(keys, k)
	}
	sort.Strings(keys)
	for _, k := range keys {
		lk := strings.ToLower(k)
		if lk == "content-length" {
			continue
		}
		for _, v := range h[k] {
			out[lk] = append(out[lk], strings.TrimLeft(v, " "))
		}
	}
	return out
}

func urlNoUser(u *base.URL) string {
	if u == nil {
		return "*"
	}
	c := url.URL(*u)
	c.User = nil
	return c.String()
}

// normOf computes the normal form; written says that v is what the writer was given
// (an empty status message then stands for the documented default text).
func normOf(v any, written bool) *norm {
	switch x := v.(type) {
	case *base.Request:
		return &norm{K: "req", M: string(x.Method), U: urlNoUser(x.URL), H: normHeader(x.Header), B: x.Body}
	case *base.Response:
		sm := x.StatusMessage
		if sm == "" && written {
			sm = base.StatusMessages[x.StatusCode]
		}
		return &norm{K: "res", SC: int(x.StatusCode), SM: sm, H: normHeader(x.Header), B: x.Body}
	case *base.InterleavedFrame:
		return &norm{K: "frm", Ch: x.Channel, P: x.Payload}
	}
	return &norm{K: fmt.Sprintf("%T", v)}
}

// copyNorm detaches a normal form from buffers the library reuses.
func copyNorm(n *norm) *norm {
	c := *n
	c.P = append([]byte(nil), n.P...)
	c.B = append([]byte(nil), n.B...)
	return &c
}

func short(b []byte) string {
	if len(b) > 24 {
		return fmt.Sprintf("%q...(%d bytes)", b[:24], len(b))
	}
	return fmt.Sprintf("%q", b)
}

func shortS(s string) string {
	if len(s) > 120 {
		return fmt.Sprintf("%q...(%d bytes)", s[:120], len(s))
	}
	return fmt.Sprintf("%q", s)
}

func firstDiff(a, b []byte) int {
	n := min(len(a), len(b))
	for i := 0; i < n; i++ {
		if a[i] != b[i] {
			return i
		}
	}
	return n
}

var kindName = map[string]string{"req": "request", "res": "response", "frm": "frame"}

// diffNorm returns ("", "") when got equals want, else (entity, detail).
func diffNorm(want, got *norm) (string, string) {
	if want.K != got.K {
		return "kind", fmt.Sprintf("wrote a %s, read a %s", kindName[want.K], got.K)
	}
	ent := kindName[want.K]
	switch want.K {
	case "frm":
		if want.Ch != got.Ch {
			return ent, fmt.Sprintf("channel: wrote %d, read %d", want.Ch, got.Ch)
		}
		if !bytes.Equal(want.P, got.P) {
			return ent, fmt.Sprintf("payload: wrote %d bytes, read %d bytes, first difference at %d (wrote %s read %s)", len(want.P), len(got.P), firstDiff(want.P, got.P), short(want.P), short(got.P))
		}
		return "", ""
	case "req":
		if want.M != got.M {
			return ent, fmt.Sprintf("method: wrote %s, read %s", shortS(want.M), shortS(got.M))
		}
		if want.U != got.U {
			return ent + "-url", fmt.Sprintf("URL: wrote %s, read %s", shortS(want.U), shortS(got.U))
		}
	case "res":
		if want.SC != got.SC {
			return ent, fmt.Sprintf("status code: wrote %d, read %d", want.SC, got.SC)
		}
		if want.SM != got.SM {
			return ent, fmt.Sprintf("status message: wrote %s, read %s", shortS(want.SM), shortS(got.SM))
		}
	}
	var keys []string
	for k := range want.H {
		keys = append(keys, k)
	}
	sort.Strings(keys)
	for _, k := range keys {
		g, ok := got.H[k]
		if !ok {
			return ent, fmt.Sprintf("header %s: written with %d values, missing in what was read (%d keys written, %d read)", shortS(k), len(want.H[k]), len(want.H), len(got.H))
		}
		wv := want.H[k]
		if len(wv) != len(g) {
			return ent, fmt.Sprintf("header %s: wrote %d values, read %d", shortS(k), len(wv), len(g))
		}
		for i := range wv {
			if wv[i] != g[i] {
				return ent, fmt.Sprintf("header %s value %d: wrote %s, read %s", shortS(k), i, shortS(wv[i]), shortS(g[i]))
			}
		}
	}
	if len(got.H) != len(want.H) {
		var extra []string
		for k := range got.H {
			if _, ok := want.H[k]; !ok {
				extra = append(extra, k)
			}
		}
		sort.Strings(extra)
		return ent, fmt.Sprintf("headers: read %d keys that were not written: %.200q", len(extra), extra)
	}
	if !bytes.Equal(want.B, got.B) {
		return ent, fmt.Sprintf("body: wrote %d bytes, read %d bytes, first difference at %d (wrote %s read %s)", len(want.B), len(got.B), firstDiff(want.B, got.B), short(want.B), short(got.B))
	}
	return "", ""
}

// wellFormed checks that an element returned from a damaged stream respects the
// documented limits.
func wellFormed(v any) string {
	chk := func(h base.Header, body []byte) string {
		lines := 0
		for k, vs := range h {
			if len(k) > limKeyLen {
				return fmt.Sprintf("header key of %d bytes", len(k))
			}
			for _, val := range vs {
				lines++
				if len(val) > limValueLen {
					return fmt.Sprintf("header value of %d bytes", len(val))
				}
			}
		}
		if lines > limHeaderCount {
			return fmt.Sprintf("%d header entries", lines)
		}
		if len(body) > limBodyLen {
			return fmt.Sprintf("body of %d bytes", len(body))
		}
		return ""
	}
	switch x := v.(type) {
	case *base.Request:
		if x.Method == "" {
			return "empty method"
		}
		if len(x.Method) > limMethodLen {
			return fmt.Sprintf("method of %d bytes", len(x.Method))
		}
		return chk(x.Header, x.Body)
	case *base.Response:
		return chk(x.Header, x.Body)
	case *base.InterleavedFrame:
		if x.Channel < 0 || x.Channel > 255 {
			return fmt.Sprintf("channel %d", x.Channel)
		}
		if len(x.Payload) > limPayloadLen {
			return fmt.Sprintf("payload of %d bytes", len(x.Payload))
		}
		return ""
	case nil:
		return "nil element without error"
	}
	return fmt.Sprintf("element of type %T", v)
}

// built is a materialised element.
type built struct {
	spec  Elem
	obj   any // *base.Request | *base.Response | *base.InterleavedFrame
	want  *norm
	fill  []byte
	plain []byte // reference serialisation (layout, probes, fault targeting)
	lines int
	err   error
	// urlRewritten: base.ParseURL changed the query of a URL that carries no user-info (the query
	// is part of "the same URL"; net/url keeps it verbatim)
	urlRewritten string
}

func build(e Elem) *built {
	b := &built{spec: e}
	if e.Fill > 0 && e.K != "frm" {
		al := "\r\n "
		for i := 0; i < e.Fill && i < 3; i++ {
			b.fill = append(b.fill, al[core.H(e.ID, "fill", uint64(i))%3])
		}
		// an odd number of bytes that cannot be the start of an element
	}
	switch e.K {
	case "frm":
		p := e.P
		if p > limPayloadLen {
			p = limPayloadLen
		}
		b.obj = &base.InterleavedFrame{Channel: e.Ch & 0xff, Payload: fillBytes(e.ID, p, e.BS)}
	case "req", "res":
		blen := e.B
		if blen > limBodyLen {
			blen = limBodyLen
		}
		lines := e.NH
		maxLines := limHeaderCount
		if blen > 0 {
			maxLines-- // the marshaller adds Content-Length
		}
		if lines > maxLines {
			lines = maxLines
		}
		b.lines = lines
		hdr := buildHeader(e, lines)
		var body []byte
		if blen > 0 {
			body = fillBytes(e.ID, blen, e.BS)
		}
		if e.K == "req" {
			req := &base.Request{Method: base.Method(e.M), Header: hdr, Body: body}
			if e.U != "*" {
				u, err := base.ParseURL(e.U)
				if err != nil {
					b.err = fmt.Errorf("scenario URL %q: %v", e.U, err)
					return b
				}
				req.URL = u
				if rest, ok := strings.CutPrefix(e.U, "rtsp"); ok {
					rest = strings.TrimPrefix(strings.TrimPrefix(rest, "s"), "://")
					auth := rest
					if i := strings.IndexAny(rest, "/?"); i >= 0 {
						auth = rest[:i]
					}
					if i := strings.IndexByte(rest, '?'); i >= 0 && !strings.Contains(auth, "@") && !strings.Contains(rest, "#") && u.RawQuery != rest[i+1:] {
						b.urlRewritten = fmt.Sprintf("base.ParseURL(%q): the URL has no user-info, yet its query %q came back as %q", e.U, rest[i+1:], u.RawQuery)
					}
				}
			}
			if len(e.M) < 2 {
				b.err = fmt.Errorf("scenario method %q", e.M)
				return b
			}
			b.obj = req
		} else {
			b.obj = &base.Response{StatusCode: base.StatusCode(e.SC), StatusMessage: e.SM, Header: hdr, Body: body}
		}
	default:
		b.err = fmt.Errorf("scenario element kind %q", e.K)
		return b
	}
	b.want = normOf(b.obj, true)
	switch x := b.obj.(type) {
	case *base.Request:
		b.plain, _ = x.Marshal()
	case *base.Response:
		b.plain, _ = x.Marshal()
	case *base.InterleavedFrame:
		b.plain, _ = x.Marshal()
	}
	return b
}

// layout of the plain (carrier-independent) byte stream of one direction.
type span struct {
	start, end int // element bytes (without filler)
	kind       string
	lineEnd    int // offset of the CR that ends the first line (req/res)
	headEnd    int // first byte of the body (req/res)
}

type layout struct {
	plain []byte
	spans []span
}

func makeLayout(bs []*built) *layout {
	l := &layout{}
	for _, b := range bs {
		l.plain = append(l.plain, b.fill...)
		s := span{start: len(l.plain), kind: b.spec.K}
		l.plain = append(l.plain, b.plain...)
		s.end = len(l.plain)
		if b.spec.K != "frm" {
			if i := bytes.Index(b.plain, []byte("\r\n")); i >= 0 {
				s.lineEnd = s.start + i
			}
			if i := bytes.Index(b.plain, []byte("\r\n\r\n")); i >= 0 {
				s.headEnd = s.start + i + 4
			} else {
				s.headEnd = s.end
			}
		}
		l.spans = append(l.spans, s)
	}
	return l
}

// classify counts, for a sorted list of cut offsets into the plain stream, how many
// fall inside a first line, between CR and LF of the head, inside a frame header.
func (l *layout) classify(cuts []int) (inLine, inCRLF, inFrameHdr int) {
	si := 0
	for _, o := range cuts {
		if o <= 0 || o >= len(l.plain) {
			continue
		}
		for si < len(l.spans) && l.spans[si].end <= o {
			si++
		}
		if si >= len(l.spans) {
			break
		}
		s := l.spans[si]
		if o <= s.start {
			continue
		}
		if s.kind == "frm" {
			if o < s.start+4 {
				inFrameHdr++
			}
			continue
		}
		if o <= s.lineEnd {
			inLine++
		}
		if o < s.headEnd && l.plain[o-1] == '\r' && l.plain[o] == '\n' {
			inCRLF++
		}
	}
	return
}
