package c04

import (
	"errors"
	"fmt"
	"sync"
	"testing"
	"time"

	gortsplib "github.com/bluenviron/gortsplib/v5"
	"github.com/bluenviron/gortsplib/v5/pkg/base"
	"github.com/bluenviron/gortsplib/v5/pkg/liberrors"

	"verifsim/core"
	"verifsim/sys"
)

// e2eHandler is the server handler of the end-to-end configuration: it records
// every request the server parsed and every response it is about to serialise,
// and answers DESCRIBE with the scenario's responses.
type e2eHandler struct {
	mu       sync.Mutex
	ops      []E2EOp
	nDesc    int
	reqSeen  []*norm
	resSent  []*norm
	resBuilt []*built
}

func (h *e2eHandler) OnRequest(_ *gortsplib.ServerConn, req *base.Request) {
	h.mu.Lock()
	h.reqSeen = append(h.reqSeen, copyNorm(normOf(req, false)))
	h.mu.Unlock()
}

func (h *e2eHandler) OnResponse(_ *gortsplib.ServerConn, res *base.Response) {
	h.mu.Lock()
	h.resSent = append(h.resSent, copyNorm(normOf(res, true)))
	h.mu.Unlock()
}

func (h *e2eHandler) OnDescribe(_ *gortsplib.ServerHandlerOnDescribeCtx) (*base.Response, *gortsplib.ServerStream, error) {
	h.mu.Lock()
	defer h.mu.Unlock()
	k := 0
	for _, op := range h.ops {
		if op.Kind != "describe" {
			continue
		}
		if k == h.nDesc {
			h.nDesc++
			b := build(op.Res)
			if b.err != nil {
				return &base.Response{StatusCode: base.StatusBadRequest}, nil, nil
			}
			h.resBuilt = append(h.resBuilt, b)
			return b.obj.(*base.Response), nil, nil
		}
		k++
	}
	return &base.Response{StatusCode: base.StatusNotFound}, nil, nil
}

func tunnelOf(carrier string) gortsplib.Tunnel {
	switch carrier {
	case "http":
		return gortsplib.TunnelHTTP
	case "ws":
		return gortsplib.TunnelWebSocket
	}
	return gortsplib.TunnelNone
}

func runE2E(t *testing.T, sc Scenario) *core.Result {
	opts := sys.Options{Seed: sc.Seed, Net: sc.Net, MaxSteps: 1500000, Horizon: 10 * time.Minute}
	var sample map[string]any
	res := sys.Run(t, opts, func(w *sys.World) {
		w.ProbeInit(allProbes...)
		w.Log.Add("c04", "scenario", "%x", scenarioHash(&sc))
		srvNode := w.Net.Node("srv", "10.0.0.1")
		cliNode := w.Net.Node("cli", "10.0.0.20")
		hd := &e2eHandler{ops: sc.Ops}
		srv := &gortsplib.Server{RTSPAddress: srvAddr, Handler: hd, ReadTimeout: 10 * time.Second, WriteTimeout: 10 * time.Second}
		sys.WireServer(srv, srvNode, nil)
		if err := srv.Start(); err != nil {
			w.Fail("c04/harness setup", "Server.Start: %v", err)
			return
		}
		var cmu sync.Mutex
		var reqSent, resSeen []*norm
		c := &gortsplib.Client{Scheme: "rtsp", Host: srvAddr, Tunnel: tunnelOf(sc.Carrier), ReadTimeout: 10 * time.Second, WriteTimeout: 10 * time.Second}
		if sc.UA != "" {
			c.UserAgent = sc.UA
		}
		sys.WireClient(c, cliNode, w.Net, nil)
		c.OnRequest = func(req *base.Request) {
			cmu.Lock()
			reqSent = append(reqSent, copyNorm(normOf(req, true)))
			cmu.Unlock()
		}
		c.OnResponse = func(res *base.Response) {
			cmu.Lock()
			resSeen = append(resSeen, copyNorm(normOf(res, false)))
			cmu.Unlock()
		}
		w.Go("client", func() {
			defer srv.Close()
			if err := c.Start(); err != nil {
				w.Fail("c04/harness setup", "Client.Start: %v", err)
				return
			}
			defer c.Close()
			user := ""
			if sc.Creds {
				user = "user:pa%20ss@"
			}
			for i, op := range sc.Ops {
				u, err := base.ParseURL("rtsp://" + user + srvAddr + op.Path)
				if err != nil {
					w.Fail("c04/harness scenario", "op %d path %q: %v", i, op.Path, err)
					return
				}
				switch op.Kind {
				case "options":
					_, err = c.Options(u)
				default:
					_, _, err = c.Describe(u)
					var bad liberrors.ErrClientBadStatusCode
					if errors.As(err, &bad) {
						err = nil
					}
				}
				if err != nil {
					w.Fail("c04/e2e call", "carrier %s op %d (%s %s): %v", sc.Carrier, i, op.Kind, op.Path, err)
					return
				}
				w.Log.Add("cli", "op", "%d %s ok", i, op.Kind)
			}
			// compare what each side saw, in order
			cmu.Lock()
			hd.mu.Lock()
			defer cmu.Unlock()
			defer hd.mu.Unlock()
			if len(reqSent) != len(hd.reqSeen) {
				w.Fail("c04/e2e count", "carrier %s: the client sent %d requests, the server parsed %d", sc.Carrier, len(reqSent), len(hd.reqSeen))
				return
			}
			if len(resSeen) != len(hd.resSent) {
				w.Fail("c04/e2e count", "carrier %s: the server sent %d responses, the client parsed %d", sc.Carrier, len(hd.resSent), len(resSeen))
				return
			}
			for i := range reqSent {
				if ent, detail := diffNorm(reqSent[i], hd.reqSeen[i]); ent != "" {
					w.Fail("c04/e2e "+ent, "carrier %s request %d (chunk mode %d): %s", sc.Carrier, i, sc.Net.ChunkMode, detail)
					return
				}
				w.Probe("elements_compared")
			}
			for i := range resSeen {
				if ent, detail := diffNorm(hd.resSent[i], resSeen[i]); ent != "" {
					w.Fail("c04/e2e "+ent, "carrier %s response %d (chunk mode %d): %s", sc.Carrier, i, sc.Net.ChunkMode, detail)
					return
				}
				w.Probe("elements_compared")
			}
			for _, b := range hd.resBuilt {
				if b.spec.B >= 64*1024 {
					w.Probe("big_body")
				}
				if b.lines >= 200 {
					w.Probe("many_headers")
				}
			}
			w.Probe("end_to_end_client_server")
			switch sc.Carrier {
			case "direct":
				w.Probe("carrier_direct")
			case "http":
				w.Probe("carrier_http_tunnel")
			case "ws":
				w.Probe("carrier_websocket")
			}
			sample = map[string]any{"mode": "e2e", "carrier": sc.Carrier, "requests": len(reqSent), "responses": len(resSeen)}
		})
	})
	res.Nontrivial = res.Probes["end_to_end_client_server"] > 0
	res.Sample = sample
	_ = fmt.Sprint
	return res
}
