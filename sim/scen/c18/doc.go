// Package c18 holds the scenario family of property C18 (outbound packets
// never exceed the configured maximum size): a whole-system simulation with
// wire taps on every UDP datagram and every interleaved frame leaving a
// library endpoint, writes swept around the limit through every entry point,
// and Start() validation.
package c18
