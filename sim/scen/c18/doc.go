// Package c18 holds the scenario family of property C18.
package c18
