package c18

import (
	"bytes"
	"crypto/tls"
	"errors"
	"fmt"
	"net"
	"sort"
	"sync"
	"testing"
	"time"

	"github.com/pion/rtcp"
	"github.com/pion/rtp"

	gortsplib "github.com/bluenviron/gortsplib/v5"
	"github.com/bluenviron/gortsplib/v5/pkg/base"
	"github.com/bluenviron/gortsplib/v5/pkg/description"
	"github.com/bluenviron/gortsplib/v5/pkg/format"
	"github.com/bluenviron/gortsplib/v5/pkg/headers"
	"github.com/bluenviron/gortsplib/v5/pkg/liberrors"

	"verifsim/core"
	"verifsim/simnet"
	"verifsim/sys"
)

var probeNames = []string{
	"entry_stream_rtp", "entry_stream_rtcp", "entry_session_rtp", "entry_session_rtcp", "entry_client_rtp", "entry_client_rtcp",
	"secure", "secure_mki", "udp", "interleaved", "size_exactly_at_limit", "size_one_over_limit", "oversize_rejected",
	"within_limit_accepted", "accepted_seen_on_wire", "queue_full", "auto_rtcp_on_wire", "compound_rtcp", "largest_unit_equals_max",
	"start_rejected_max_packet_size", "start_rejected_write_queue", "start_accepted", "multicast_reader",
}

// ---- observation of what leaves the library endpoints --------------------------------

// unit is one RTP or RTCP transmission unit seen on the wire: a UDP datagram
// or the payload of an interleaved frame.
type unit struct {
	origin string // node it left from
	peer   string
	rtcp   bool
	tcp    bool
	n      int    // datagram length / frame payload length announced in the frame header
	data   []byte // datagram / frame payload (nil until a frame is complete)
}

type observer struct {
	w     *sys.World
	sc    *Scenario
	mu    sync.Mutex
	units []*unit
	maxOf map[string]int
	count map[string]int // origin/kind -> units
	cur   int            // write in progress (-1: none)
	phase string
	maxN  map[string]int // largest unit per origin
}

func newObserver(w *sys.World, sc *Scenario) *observer {
	return &observer{w: w, sc: sc, maxOf: map[string]int{}, count: map[string]int{}, cur: -1, phase: "setup", maxN: map[string]int{}}
}

func kindName(isRTCP bool) string {
	if isRTCP {
		return "rtcp"
	}
	return "rtp"
}

// add records one unit and applies oracle (a).
func (o *observer) add(u *unit) {
	o.mu.Lock()
	o.units = append(o.units, u)
	o.count[u.origin+"/"+kindName(u.rtcp)]++
	max, known := o.maxOf[u.origin]
	cur, phase := o.cur, o.phase
	if u.n > o.maxN[u.origin] {
		o.maxN[u.origin] = u.n
	}
	o.mu.Unlock()
	o.w.Log.Add("wire:"+u.origin+">"+u.peer, carrier(u), "%s %d", kindName(u.rtcp), u.n)
	if u.tcp {
		o.w.Probe("interleaved")
	} else {
		o.w.Probe("udp")
	}
	if !known {
		o.w.Fail("harness/unknown-origin node", "media traffic from unexpected node %q", u.origin)
		return
	}
	if u.n > max {
		ent, what := "udp-datagram", "UDP datagram"
		if u.tcp {
			ent, what = "interleaved-frame", "interleaved frame payload"
		}
		// Units of a client using client-managed keys that exceed the maximum by no
		// more than the 4-byte MKI get their own entity kind (a known finding can
		// then be told apart from any other excess).
		if o.sc.Secure && o.sc.MKI && u.origin != "srv" && u.n-4 <= max {
			ent = "mki " + ent
		}
		o.w.Fail("c18/max-size "+ent, "%s of %d bytes (%s) left %s towards %s, configured maximum packet size of %s is %d (secure=%v mki=%v); phase %s, write in progress: %s",
			what, u.n, kindName(u.rtcp), u.origin, u.peer, u.origin, max, o.sc.Secure, o.sc.MKI, phase, o.describeWrite(cur))
	}
}

func (o *observer) describeWrite(i int) string {
	if i < 0 || i >= len(o.sc.Writes) {
		return "none"
	}
	wr := o.sc.Writes[i]
	sz := rtpSize(wr)
	if wr.isRTCP() {
		sz = rtcpSize(wr)
	}
	return fmt.Sprintf("#%d %s %s marshalled=%d %+v", i, wr.Entry, wr.Kind, sz, wr)
}

// netTap sees every UDP datagram sent.
func (o *observer) netTap(ev simnet.TapEvent) {
	if ev.Kind != "udp.send" {
		return
	}
	from, _ := ev.From.(*net.UDPAddr)
	to, _ := ev.To.(*net.UDPAddr)
	if from == nil || to == nil {
		return
	}
	u := &unit{origin: ev.Node, peer: to.String(), n: len(ev.Data), data: ev.Data}
	switch {
	case from.Port == 8000 || to.Port == 8000 || to.Port == 8002: // 8002 / 8003: the multicast groups' ports
	case from.Port == 8001 || to.Port == 8001 || to.Port == 8003:
		u.rtcp = true
	default:
		o.w.Fail("harness/unknown-udp datagram", "UDP datagram %v -> %v is neither RTP nor RTCP of the server", from, to)
		return
	}
	o.add(u)
}

// connTap returns the write-side tap of one control connection.
func (o *observer) connTap(origin, peer string) func(data []byte) {
	var mu sync.Mutex
	var last *unit
	p := &ctlParser{}
	p.onHeader = func(ch, l int) {
		last = &unit{origin: origin, peer: peer, rtcp: ch%2 == 1, tcp: true, n: l}
		o.add(last)
	}
	p.onFrame = func(ch int, payload []byte) {
		o.mu.Lock()
		last.data = payload
		o.mu.Unlock()
	}
	p.onDesync = func(at []byte) {
		o.w.Log.Add("tap:"+origin, "desync", "%x", at)
	}
	return func(data []byte) {
		mu.Lock()
		p.feed(data)
		mu.Unlock()
	}
}

// tapConn / tapListener: plaintext (above TLS) taps with one parser per connection.
type tapConn struct {
	net.Conn
	tap func([]byte)
}

func (c *tapConn) Write(p []byte) (int, error) {
	c.tap(p)
	return c.Conn.Write(p)
}

type tapListener struct {
	net.Listener
	o *observer
}

func (l *tapListener) Accept() (net.Conn, error) {
	c, err := l.Listener.Accept()
	if err != nil {
		return nil, err
	}
	return &tapConn{Conn: c, tap: l.o.connTap("srv", c.RemoteAddr().String())}, nil
}

// wireServer is sys.WireServer plus a per-connection plaintext tap.
func wireServer(s *gortsplib.Server, nd *simnet.Node, o *observer) {
	sys.WireServer(s, nd, nil)
	if s.TLSConfig == nil {
		inner := s.Listen
		s.Listen = func(network, address string) (net.Listener, error) {
			l, err := inner(network, address)
			if err != nil {
				return nil, err
			}
			return &tapListener{Listener: l, o: o}, nil
		}
		return
	}
	inner := s.TLSListen
	s.TLSListen = func(network, laddr string, config *tls.Config) (net.Listener, error) {
		l, err := inner(network, laddr, config)
		if err != nil {
			return nil, err
		}
		return &tapListener{Listener: l, o: o}, nil
	}
}

// ---- the run -------------------------------------------------------------------------

func us(n int) time.Duration { return time.Duration(n) * time.Microsecond }

func protoOf(tr string) *gortsplib.Protocol {
	p := gortsplib.ProtocolTCP
	switch tr {
	case "udp":
		p = gortsplib.ProtocolUDP
	case "mcast":
		p = gortsplib.ProtocolUDPMulticast
	}
	return &p
}

func buildDesc(n int) *description.Session {
	d := &description.Session{}
	for i := 0; i < n; i++ {
		g := &format.Generic{PayloadTyp: uint8(96 + i), RTPMa: "private/90000"}
		if err := g.Init(); err != nil {
			panic(err)
		}
		typ := description.MediaTypeVideo
		if i%2 == 1 {
			typ = description.MediaTypeAudio
		}
		d.Medias = append(d.Medias, &description.Media{Type: typ, Formats: []format.Format{g}})
	}
	return d
}

func queueFull(err error) bool {
	var a liberrors.ErrClientWriteQueueFull
	var b liberrors.ErrServerWriteQueueFull
	return errors.As(err, &a) || errors.As(err, &b)
}

type wres struct {
	done     bool
	skipped  bool
	origin   string
	plain    int
	wire     int
	max      int
	err      error
	from     int // len(units) when the call started
	rejected bool
	// sig: the first eight bytes of the packet as marshalled (RTP: flags, payload type, sequence
	// number, timestamp = marker; RTCP: header, SSRC = marker). What identifies the packet on the
	// wire: the four marker bytes alone also turn up in reports the library writes by itself
	// (an SSRC drawn at random that ends in C1 8E in front of two zero loss fields: once in 2^16 runs)
	sig []byte
}

func run(t *testing.T, sc Scenario) *core.Result {
	opts := sys.Options{Seed: sc.Seed, Net: sc.Net, MaxSteps: 400000, Horizon: 10 * time.Minute}
	summary := map[string]any{}
	res := sys.Run(t, opts, func(w *sys.World) {
		w.ProbeInit(probeNames...)
		ob := newObserver(w, &sc)
		w.Net.AddTap(ob.netTap)
		results := make([]wres, len(sc.Writes))
		w.Go("driver", func() { drive(w, &sc, ob, results) })
		w.AtEnd(func() { finish(w, &sc, ob, results, summary) })
	})
	p := res.Probes
	res.Nontrivial = (p["oversize_rejected"] > 0 && p["accepted_seen_on_wire"] > 0) ||
		(len(sc.Writes) == 0 && p["start_rejected_max_packet_size"]+p["start_rejected_write_queue"] > 0)
	res.Sample = summary
	return res
}

func (o *observer) clientTap(origin string) sys.TapFunc {
	tap := o.connTap(origin, "10.0.0.1:8554")
	return func(node, dir string, data []byte) {
		if dir == "write" {
			tap(data)
		}
	}
}

func newClient(w *sys.World, sc *Scenario, ob *observer, name, ip string, p Peer, scheme string) *gortsplib.Client {
	node := w.Net.Node(name, ip)
	c := &gortsplib.Client{Scheme: scheme, Host: "10.0.0.1:8554", Protocol: protoOf(p.Transport),
		MaxPacketSize: p.Max, WriteQueueSize: sc.WQ}
	if sc.Secure {
		c.TLSConfig = sys.ClientTLSConfig()
	}
	c.OnDecodeError = func(error) {}
	c.OnPacketsLost = func(uint64) {}
	c.OnTransportSwitch = func(error) {}
	if sc.ReportUS == 0 {
		c.DisableRTCPSenderReports = true
		c.VerifSetPeriods(time.Hour, time.Hour, time.Second)
	} else {
		c.VerifSetPeriods(us(sc.ReportUS), us(sc.ReportUS), time.Second)
	}
	ob.mu.Lock()
	ob.maxOf[name] = effMax(p.Max)
	ob.mu.Unlock()
	sys.WireClient(c, node, w.Net, ob.clientTap(name))
	return c
}

func sessionOf(h *sys.Handler, kind, ip string) *gortsplib.ServerSession {
	var out *gortsplib.ServerSession
	for _, cb := range h.Callbacks() {
		if cb.Kind != kind || cb.Conn == nil || cb.Session == nil {
			continue
		}
		if a, ok := cb.Conn.NetConn().RemoteAddr().(*net.TCPAddr); ok && a.IP.String() == ip {
			out = cb.Session
		}
	}
	return out
}

func drive(w *sys.World, sc *Scenario, ob *observer, results []wres) {
	for i, st := range sc.Starts {
		checkStart(w, i, st)
		if w.Failed() {
			return
		}
	}
	if len(sc.Writes) == 0 {
		return
	}

	srvNode := w.Net.Node("srv", "10.0.0.1")
	h := sys.NewHandler(w)
	h.NoForward = true
	srv := &gortsplib.Server{
		RTSPAddress:    "10.0.0.1:8554",
		UDPRTPAddress:  "10.0.0.1:8000",
		UDPRTCPAddress: "10.0.0.1:8001",
		WriteQueueSize: sc.WQ,
		MaxPacketSize:  sc.SrvMax,
		Handler:        h,
	}
	for _, p := range sc.Readers {
		if p.Transport == "mcast" {
			srv.MulticastIPRange, srv.MulticastRTPPort, srv.MulticastRTCPPort = "224.1.0.0/16", 8002, 8003
			w.Probe("multicast_reader")
		}
	}
	scheme := "rtsp"
	if sc.Secure {
		srv.TLSConfig = sys.ServerTLSConfig()
		scheme = "rtsps"
		w.Probe("secure")
		if sc.MKI {
			w.Probe("secure_mki")
		}
	}
	if sc.ReportUS == 0 {
		srv.DisableRTCPSenderReports = true
		srv.VerifSetPeriods(time.Hour, time.Hour, time.Second)
	} else {
		srv.VerifSetPeriods(us(sc.ReportUS), us(sc.ReportUS), time.Second)
	}
	if sc.Secure && sc.MKI {
		srv.Handler = &mkiHandler{Handler: h, seen: map[*gortsplib.ServerConn]bool{}}
	}
	h.Server = srv
	ob.mu.Lock()
	ob.maxOf["srv"] = effMax(sc.SrvMax)
	ob.mu.Unlock()
	wireServer(srv, srvNode, ob)
	if err := srv.Start(); err != nil {
		w.Fail("c18/api-error server", "Server.Start (MaxPacketSize %d, WriteQueueSize %d): %v", sc.SrvMax, sc.WQ, err)
		return
	}
	defer srv.Close()

	desc := buildDesc(sc.Medias)
	stream := &gortsplib.ServerStream{Server: srv, Desc: desc}
	if err := stream.Initialize(); err != nil {
		w.Fail("c18/api-error server", "ServerStream.Initialize: %v", err)
		return
	}
	defer stream.Close()
	h.SetStream("/stream", stream)

	// ---- readers ----
	var readers []*gortsplib.Client
	var rdescs []*description.Session
	var rsess []*gortsplib.ServerSession
	for i, p := range sc.Readers {
		name := fmt.Sprintf("reader%d", i)
		ip := fmt.Sprintf("10.0.0.%d", 20+i)
		if p.Transport == "mcast" {
			ip = "127.0.0.1" // the client looks for a real interface with its local address (net.Interfaces)
		}
		c := newClient(w, sc, ob, name, ip, p, scheme)
		if err := c.Start(); err != nil {
			w.Fail("c18/api-error reader", "reader %d Start (MaxPacketSize %d): %v", i, p.Max, err)
			return
		}
		defer c.Close()
		u, _ := base.ParseURL(scheme + "://10.0.0.1:8554/stream")
		d, _, err := c.Describe(u)
		if err != nil {
			w.Fail("c18/api-error reader", "reader %d Describe: %v", i, err)
			return
		}
		if err = c.SetupAll(d.BaseURL, d.Medias); err != nil {
			w.Fail("c18/api-error reader", "reader %d (%s, secure=%v mki=%v) SetupAll: %v", i, p.Transport, sc.Secure, sc.MKI, err)
			return
		}
		c.OnPacketRTPAny(func(*description.Media, format.Format, *rtp.Packet) {})
		c.OnPacketRTCPAny(func(*description.Media, rtcp.Packet) {})
		if _, err = c.Play(nil); err != nil {
			w.Fail("c18/api-error reader", "reader %d (%s) Play: %v", i, p.Transport, err)
			return
		}
		ss := sessionOf(h, "play", ip)
		if ss == nil {
			w.Fail("harness/no-session reader", "no server session found for reader %d", i)
			return
		}
		readers = append(readers, c)
		rdescs = append(rdescs, d)
		rsess = append(rsess, ss)
	}

	// ---- publisher ----
	var pub *gortsplib.Client
	var pdesc *description.Session
	var psess *gortsplib.ServerSession
	if sc.Pub != nil {
		pub = newClient(w, sc, ob, "pub", "10.0.0.9", *sc.Pub, scheme)
		pdesc = buildDesc(sc.Medias)
		if sc.Secure && !(sc.Pub.PlainRTP && sc.Pub.Transport == "tcp") {
			for _, m := range pdesc.Medias {
				m.Profile = headers.TransportProfileSAVP
			}
		}
		if err := pub.StartRecording(scheme+"://10.0.0.1:8554/pub", pdesc); err != nil {
			w.Fail("c18/api-error publisher", "StartRecording (%s, secure=%v mki=%v, MaxPacketSize %d): %v", sc.Pub.Transport, sc.Secure, sc.MKI, sc.Pub.Max, err)
			return
		}
		defer pub.Close()
		psess = sessionOf(h, "record", "10.0.0.9")
		if psess == nil {
			w.Fail("harness/no-session publisher", "no server session found for the publisher")
			return
		}
	}

	ob.mu.Lock()
	ob.phase = "writes"
	ob.mu.Unlock()
	time.Sleep(us(50))

	// ---- writes ----
	for i, wr := range sc.Writes {
		r := &results[i]
		isRTCP := wr.isRTCP()
		if wr.Media < 0 || wr.Media >= sc.Medias {
			r.skipped = true
			continue
		}
		var rp *rtp.Packet
		var cp rtcp.Packet
		var plain []byte
		var err error
		if isRTCP {
			cp, err = buildRTCP(i, wr)
			if err == nil {
				plain, err = cp.Marshal()
			}
			if err == nil && len(plain) != rtcpSize(wr) {
				err = fmt.Errorf("marshalled size %d differs from the RFC 3550 size %d", len(plain), rtcpSize(wr))
			}
		} else {
			rp, err = buildRTP(sc.Seed, i, uint8(96+wr.Media), wr)
			if err == nil {
				plain, err = rp.Marshal()
			}
			if err == nil && len(plain) != rtpSize(wr) {
				err = fmt.Errorf("marshalled size %d differs from the RFC 3550 size %d", len(plain), rtpSize(wr))
			}
		}
		if err != nil {
			w.Fail("harness/packet-build write", "write %d (%+v): %v", i, wr, err)
			return
		}
		var call func() error
		switch wr.Entry {
		case "stream":
			r.origin = "srv"
			m := desc.Medias[wr.Media]
			if isRTCP {
				call = func() error { return stream.WritePacketRTCP(m, cp) }
			} else {
				call = func() error { return stream.WritePacketRTP(m, rp) }
			}
		case "session":
			if wr.Target >= len(rsess) {
				r.skipped = true
				continue
			}
			r.origin = "srv"
			ss, m := rsess[wr.Target], desc.Medias[wr.Media]
			if isRTCP {
				call = func() error { return ss.WritePacketRTCP(m, cp) }
			} else {
				call = func() error { return ss.WritePacketRTP(m, rp) }
			}
		case "session_pub":
			if psess == nil || !isRTCP {
				r.skipped = true
				continue
			}
			r.origin = "srv"
			m := psess.AnnouncedDescription().Medias[wr.Media]
			call = func() error { return psess.WritePacketRTCP(m, cp) }
		case "client":
			if pub == nil {
				r.skipped = true
				continue
			}
			r.origin = "pub"
			m := pdesc.Medias[wr.Media]
			if isRTCP {
				call = func() error { return pub.WritePacketRTCP(m, cp) }
			} else {
				call = func() error { return pub.WritePacketRTP(m, rp) }
			}
		case "client_reader":
			if wr.Target >= len(readers) || !isRTCP {
				r.skipped = true
				continue
			}
			r.origin = fmt.Sprintf("reader%d", wr.Target)
			c, m := readers[wr.Target], rdescs[wr.Target].Medias[wr.Media]
			call = func() error { return c.WritePacketRTCP(m, cp) }
		default:
			r.skipped = true
			continue
		}
		r.plain = len(plain)
		if len(plain) >= 8 {
			r.sig = append([]byte(nil), plain[:8]...)
		}
		r.wire = len(plain) + sc.overhead(wr)
		r.max = sc.originMax(wr)

		ob.mu.Lock()
		ob.cur = i
		r.from = len(ob.units)
		before := ob.count[r.origin+"/"+kindName(isRTCP)]
		ob.mu.Unlock()

		r.err = call()
		// let the write queue drain into the sockets (the clock only advances once
		// every other goroutine is blocked)
		time.Sleep(us(20) + time.Duration(core.H(sc.Seed, "settle", uint64(i))%30000))
		r.done = true

		ob.mu.Lock()
		ob.cur = -1
		after := ob.count[r.origin+"/"+kindName(isRTCP)]
		newUnits := append([]*unit(nil), ob.units[r.from:]...)
		ob.mu.Unlock()

		ep := wr.Entry
		pn := "entry_" + map[string]string{"stream": "stream", "session": "session", "session_pub": "session", "client": "client", "client_reader": "client"}[ep] + "_" + kindName(isRTCP)
		w.Probe(pn)
		if wr.Kind == "compound" {
			w.Probe("compound_rtcp")
		}
		if r.wire == r.max {
			w.Probe("size_exactly_at_limit")
		}
		if r.wire == r.max+1 {
			w.Probe("size_one_over_limit")
		}
		w.Log.Add("driver", "write", "%d %s %s plain=%d wire=%d max=%d err=%s new=%d", i, wr.Entry, wr.Kind, r.plain, r.wire, r.max, sys.ErrString(r.err), after-before)

		over := r.wire > r.max
		enc := sc.encrypted(wr)
		switch {
		case over && r.err == nil:
			w.Fail("c18/oversize-accepted "+ep, "%s: %s packet of %d bytes (%d on the wire with SRTP overhead; secure=%v mki=%v) exceeds the configured maximum %d of %s but the write returned nil; %s",
				entryName(wr), kindName(isRTCP), r.plain, r.wire, sc.Secure, sc.MKI, r.max, r.origin, ob.describeWrite(i))
			return
		case !over && r.err != nil && queueFull(r.err):
			w.Probe("queue_full")
		case !over && r.err != nil:
			w.Fail("c18/within-limit-rejected "+ep, "%s: %s packet of %d bytes (%d on the wire; secure=%v mki=%v) is within the configured maximum %d of %s but the write returned: %v; %s",
				entryName(wr), kindName(isRTCP), r.plain, r.wire, sc.Secure, sc.MKI, r.max, r.origin, r.err, ob.describeWrite(i))
			return
		case !over:
			w.Probe("within_limit_accepted")
		}
		autoRTCP := isRTCP && sc.ReportUS != 0
		if over && r.err != nil {
			r.rejected = true
			w.Probe("oversize_rejected")
			if !enc {
				if u := findMarker(newUnits, r.origin, i, r.sig); u != nil {
					w.Fail("c18/rejected-transmitted "+ep, "%s returned %q for a %d-byte %s packet (maximum %d) yet a %s of %d bytes carrying it left %s; %s",
						entryName(wr), r.err, r.plain, kindName(isRTCP), r.max, carrier(u), u.n, r.origin, ob.describeWrite(i))
					return
				}
			} else if !autoRTCP && after != before {
				w.Fail("c18/rejected-transmitted "+ep, "%s returned %q for a %d-byte %s packet (%d with SRTP overhead, maximum %d) yet %d %s unit(s) left %s during the call; %s",
					entryName(wr), r.err, r.plain, kindName(isRTCP), r.wire, r.max, after-before, kindName(isRTCP), r.origin, ob.describeWrite(i))
				return
			}
		}
		if !over && r.err == nil {
			// bookkeeping, and a self-check of the overhead model used to decide "would exceed"
			if !enc {
				if u := findMarker(newUnits, r.origin, i, r.sig); u != nil {
					w.Probe("accepted_seen_on_wire")
				}
			} else if !autoRTCP && after != before {
				w.Probe("accepted_seen_on_wire")
				for _, u := range newUnits {
					if u.origin == r.origin && u.rtcp == isRTCP && u.n != r.wire {
						w.Fail("harness/overhead-model "+ep, "accepted %s packet of %d plain bytes left %s as %d bytes, the model says %d (secure=%v mki=%v)",
							kindName(isRTCP), r.plain, r.origin, u.n, r.wire, sc.Secure, sc.MKI)
						return
					}
				}
			}
		}
		if w.Failed() {
			return
		}
		time.Sleep(time.Duration(core.H(sc.Seed, "gap", uint64(i)) % uint64(us(200))))
	}

	ob.mu.Lock()
	ob.phase = "drain"
	ob.mu.Unlock()
	time.Sleep(us(2*sc.Net.LatMaxUS+sc.Net.UDPJitUS) + us(300))
	ob.mu.Lock()
	ob.phase = "close"
	ob.mu.Unlock()
}

// mkiHandler makes the server behave like an Axis camera: the first SETUP of
// every connection is answered with 463 "Key management failure", upon which
// the client switches to client-managed keys with a master key identifier.
type mkiHandler struct {
	*sys.Handler
	mu   sync.Mutex
	seen map[*gortsplib.ServerConn]bool
}

// OnSetup implements ServerHandlerOnSetup.
func (m *mkiHandler) OnSetup(ctx *gortsplib.ServerHandlerOnSetupCtx) (*base.Response, *gortsplib.ServerStream, error) {
	m.mu.Lock()
	first := !m.seen[ctx.Conn]
	m.seen[ctx.Conn] = true
	m.mu.Unlock()
	if first {
		return &base.Response{StatusCode: base.StatusKeyManagementFailure, StatusMessage: "Key management failure"}, nil, nil
	}
	return m.Handler.OnSetup(ctx)
}

func entryName(wr Write) string {
	k := "RTP"
	if wr.isRTCP() {
		k = "RTCP"
	}
	switch wr.Entry {
	case "stream":
		return "ServerStream.WritePacket" + k
	case "session":
		return "ServerSession.WritePacket" + k + " (playing reader)"
	case "session_pub":
		return "ServerSession.WritePacket" + k + " (recording client)"
	case "client":
		return "Client.WritePacket" + k + " (recording)"
	case "client_reader":
		return "Client.WritePacket" + k + " (playing)"
	}
	return wr.Entry
}

func carrier(u *unit) string {
	if u.tcp {
		return "interleaved frame"
	}
	return "UDP datagram"
}

func findMarker(units []*unit, origin string, idx int, sig []byte) *unit {
	m := marker(idx)
	if len(sig) == 8 && bytes.Equal(sig[4:], m) {
		m = sig
	}
	for _, u := range units {
		if u.origin == origin && bytes.Contains(u.data, m) {
			return u
		}
	}
	return nil
}

// finish runs after everything was closed: late transmissions of rejected
// packets, summary, probes.
func finish(w *sys.World, sc *Scenario, ob *observer, results []wres, summary map[string]any) {
	ob.mu.Lock()
	units := append([]*unit(nil), ob.units...)
	maxN := map[string]int{}
	for k, v := range ob.maxN {
		maxN[k] = v
	}
	maxOf := map[string]int{}
	for k, v := range ob.maxOf {
		maxOf[k] = v
	}
	ob.mu.Unlock()
	rej, acc := 0, 0
	for i, r := range results {
		if !r.done {
			continue
		}
		if r.rejected {
			rej++
			if !sc.encrypted(sc.Writes[i]) && !w.Failed() {
				if u := findMarker(units[r.from:], r.origin, i, r.sig); u != nil {
					w.Fail("c18/rejected-transmitted "+sc.Writes[i].Entry, "%s returned %q for a %d-byte packet (maximum %d) yet a %s of %d bytes carrying it left %s later in the run; %s",
						entryName(sc.Writes[i]), r.err, r.plain, r.max, carrier(u), u.n, r.origin, ob.describeWrite(i))
				}
			}
		} else if r.err == nil {
			acc++
		}
	}
	// automatic RTCP: units that carry no marker of any write on plain sessions
	if !sc.Secure && sc.ReportUS != 0 {
		for _, u := range units {
			if u.rtcp && u.data != nil && !bytes.Contains(u.data, []byte{0xC1, 0x8E}) && u.n > 8 {
				w.Probe("auto_rtcp_on_wire")
			}
		}
	}
	var names []string
	for k := range maxN {
		names = append(names, k)
	}
	sort.Strings(names)
	largest := map[string]string{}
	for _, k := range names {
		largest[k] = fmt.Sprintf("%d/%d", maxN[k], maxOf[k])
		if maxN[k] == maxOf[k] {
			w.Probe("largest_unit_equals_max")
		}
	}
	summary["secure"] = sc.Secure
	summary["mki"] = sc.MKI
	summary["writes"] = len(sc.Writes)
	summary["accepted"] = acc
	summary["rejected"] = rej
	summary["units"] = len(units)
	summary["largest_unit/max"] = largest
	summary["starts"] = len(sc.Starts)
}

// checkStart is oracle (c).
func checkStart(w *sys.World, i int, st StartCase) {
	badMax := st.Max > defaultMax
	badWQ := st.WQ != 0 && !powerOfTwo(st.WQ)
	var err error
	switch st.Who {
	case "server":
		node := w.Net.Node("st-srv", "10.0.1.1")
		s := &gortsplib.Server{RTSPAddress: fmt.Sprintf("10.0.1.1:%d", 9000+i), MaxPacketSize: st.Max, WriteQueueSize: st.WQ, Handler: sys.NewHandler(w)}
		switch st.Proto {
		case "udp":
			s.UDPRTPAddress, s.UDPRTCPAddress = "10.0.1.1:8000", "10.0.1.1:8001"
		case "mcast":
			s.UDPRTPAddress, s.UDPRTCPAddress = "10.0.1.1:8000", "10.0.1.1:8001"
			s.MulticastIPRange, s.MulticastRTPPort, s.MulticastRTCPPort = "224.1.0.0/16", 8002, 8003
		}
		sys.WireServer(s, node, nil)
		err = s.Start()
		if err == nil {
			s.Close()
		}
	case "client":
		node := w.Net.Node("st-cli", "10.0.1.2")
		c := &gortsplib.Client{Scheme: "rtsp", Host: "10.0.1.1:9", MaxPacketSize: st.Max, WriteQueueSize: st.WQ}
		switch st.Proto {
		case "udp":
			p := gortsplib.ProtocolUDP
			c.Protocol = &p
		case "tcp":
			p := gortsplib.ProtocolTCP
			c.Protocol = &p
		case "mcast":
			p := gortsplib.ProtocolUDPMulticast
			c.Protocol = &p
		}
		sys.WireClient(c, node, w.Net, nil)
		err = c.Start()
		if err == nil {
			c.Close()
		}
	default:
		return
	}
	w.Log.Add("driver", "start", "%d %s max=%d wq=%d err=%s", i, st.Who, st.Max, st.WQ, sys.ErrString(err))
	switch {
	case (badMax || badWQ) && err == nil:
		what := fmt.Sprintf("MaxPacketSize %d (> %d)", st.Max, defaultMax)
		if !badMax {
			what = fmt.Sprintf("WriteQueueSize %d (not a power of two)", st.WQ)
		}
		w.Fail("c18/start-validation "+st.Who, "%s.Start() accepted %s (MaxPacketSize %d, WriteQueueSize %d)", st.Who, what, st.Max, st.WQ)
	case !badMax && !badWQ && err != nil:
		w.Fail("c18/start-accept "+st.Who, "%s.Start() rejected the valid configuration MaxPacketSize %d, WriteQueueSize %d: %v", st.Who, st.Max, st.WQ, err)
	case err != nil:
		if badMax {
			w.Probe("start_rejected_max_packet_size")
		}
		if badWQ {
			w.Probe("start_rejected_write_queue")
		}
	default:
		w.Probe("start_accepted")
	}
}

func init() {
	f := core.Register("C18", gen, run, shrink)
	f.Real = []string{"gortsplib.Server, ServerStream, ServerSession, ServerConn, Client (root package with all pkg/* and internal/* it uses)", "pion rtp/rtcp/srtp", "crypto/tls", "bufio"}
	f.Simulated = []string{"TCP and UDP sockets, listeners, port allocation (simnet through the Listen/ListenPacket/TLSListen/DialContext/DialTLSContext seams)", "clock, timers (testing/synctest fake clock)", "entropy (crypto/rand.Reader, uuid)"}
	f.Excluded = []string{
		"multicast writer entry point (server_multicast_writer_media.go): UDP-multicast is outside the simulation (pkg/multicast opens raw sockets and ignores the ListenPacket seam)",
		"HTTP and WebSocket tunnels (plain TCP and TLS control connections only)",
		"configured maxima below 32 bytes (below 22 the fixed-size SRTP firewall-opening packets cannot fit)",
		"ServerSession.WritePacketRTP towards a recording client (not a supported direction: the session has no RTP sender)",
		"Client.WritePacketRTP on an ONVIF back channel of a playing client (same code path as the recording client)",
	}
	f.Rule = "scenario = Server.MaxPacketSize x per-client MaxPacketSize (0 = default 1472, or 32..1472) x plain | rtsps+SRTP (optionally with client-managed keys + 4-byte MKI) x 1..2 playing readers (udp | interleaved tcp; 12%: one of them over UDP-multicast, i.e. the multicast writer with its own size checks and reports) x optional recording client (udp | tcp) x automatic RTCP reports off | period 0.3-3 ms x 6..24 writes, each through one entry point (ServerStream, ServerSession of a reader, ServerSession of the recording client (RTCP), recording Client, playing Client (RTCP)) with an RTP packet (12 + CSRC 0..15 + RFC 3550 / RFC 8285 extension + payload + padding) or an RTCP packet (SR, RR, SDES, APP, raw, compound SR+SDES+APP) whose size is swept around the limit (limit-2..limit+2, +-3..8, around max without overhead, random below, random above, far above) x 0..3 Start() configurations (MaxPacketSize > 1472, WriteQueueSize not a power of two, valid) x latency / chunking / UDP faults; non-trivial = at least one oversize write rejected and at least one within-limit write observed on the wire (or, for runs without writes, a Start() configuration rejected); distinct = distinct hash of the canonical event log (writes with sizes, results and unit counts)"
	f.Assumptions = []string{
		"the size that counts is the UDP datagram length / the payload length announced in the interleaved frame header, compared with the configured maximum of the endpoint the unit leaves from (server: Server.MaxPacketSize, client: Client.MaxPacketSize, 1472 when 0)",
		"'would exceed' = marshalled size + SRTP overhead of the negotiated profile AES_CM_128_HMAC_SHA1_80 (RFC 3711: 10-byte tag for SRTP, tag + 4-byte index for SRTCP, + 4-byte MKI when the client uses client-managed keys); the model is cross-checked against accepted packets on the wire (harness/overhead-model)",
		"a write within the limit must return nil or a write-queue-full error; the statement does not say so explicitly, it is the converse that keeps the oracle from being satisfied by a library that rejects everything",
		"'transmits nothing' is checked by a marker (RTP timestamp / RTCP sender SSRC) searched in every plaintext unit from that endpoint until the end of the run; on SRTP sessions by counting units of that kind from that endpoint between two quiescent points, and not at all for RTCP when automatic reports are enabled (they cannot be told apart when encrypted)",
		"Start(): WriteQueueSize 0 and MaxPacketSize 0 mean 'default' and are valid; negative values are not generated; valid configurations are expected to be accepted",
		"nothing is asserted about delivery of accepted packets (C01), about inbound sizes, or about RTSP requests/responses",
	}
}
