package c18

import (
	"bytes"
	"strconv"
	"strings"
)

// ctlParser is an incremental parser of one direction of an RTSP control
// connection (plaintext, above TLS): RTSP text messages (requests or
// responses, with a body announced by Content-Length) alternate with
// interleaved frames ('$', channel, 16-bit big-endian length, payload).
//
// onHeader is called as soon as the 4-byte header of a frame is complete (the
// announced payload length is what the peer will interpret, whatever follows);
// onFrame is called when the payload is complete.
type ctlParser struct {
	buf      []byte
	hdrSeen  bool
	desync   bool
	frames   int
	messages int
	onHeader func(channel int, length int)
	onFrame  func(channel int, payload []byte)
	onDesync func(at []byte)
}

func (p *ctlParser) feed(data []byte) {
	if p.desync {
		return
	}
	p.buf = append(p.buf, data...)
	for len(p.buf) > 0 {
		if p.buf[0] == '$' {
			if len(p.buf) < 4 {
				return
			}
			ch := int(p.buf[1])
			l := int(p.buf[2])<<8 | int(p.buf[3])
			if !p.hdrSeen {
				p.hdrSeen = true
				if p.onHeader != nil {
					p.onHeader(ch, l)
				}
			}
			if len(p.buf) < 4+l {
				return
			}
			payload := append([]byte(nil), p.buf[4:4+l]...)
			p.buf = p.buf[4+l:]
			p.hdrSeen = false
			p.frames++
			if p.onFrame != nil {
				p.onFrame(ch, payload)
			}
			continue
		}
		// text message: must start with a letter (method or "RTSP/1.0")
		c := p.buf[0]
		if !(c >= 'A' && c <= 'Z') && !(c >= 'a' && c <= 'z') {
			p.desync = true
			if p.onDesync != nil {
				n := len(p.buf)
				if n > 32 {
					n = 32
				}
				p.onDesync(p.buf[:n])
			}
			return
		}
		end := bytes.Index(p.buf, []byte("\r\n\r\n"))
		if end < 0 {
			return
		}
		head := string(p.buf[:end])
		cl := 0
		for _, line := range strings.Split(head, "\r\n")[1:] {
			k, v, ok := strings.Cut(line, ":")
			if ok && strings.EqualFold(strings.TrimSpace(k), "Content-Length") {
				n, err := strconv.Atoi(strings.TrimSpace(v))
				if err == nil && n >= 0 {
					cl = n
				}
			}
		}
		total := end + 4 + cl
		if len(p.buf) < total {
			return
		}
		p.buf = p.buf[total:]
		p.messages++
	}
}
