package c18

import (
	"encoding/binary"
	"fmt"

	"github.com/pion/rtcp"
	"github.com/pion/rtp"

	"verifsim/core"
)

// Write is one write through one entry point.
type Write struct {
	// Entry: stream (ServerStream.WritePacket*), session (ServerSession of a
	// playing reader), session_pub (ServerSession of the recording client,
	// RTCP only), client (recording Client), client_reader (playing Client,
	// RTCP only).
	Entry  string `json:"entry"`
	Target int    `json:"target,omitempty"` // reader index (session, client_reader)
	Media  int    `json:"media"`
	// Kind: rtp | sr | rr | sdes | app | raw | compound
	Kind string `json:"kind"`
	Want int    `json:"want"` // marshalled size the generator aimed at (informational)

	// RTP: 12 + 4*CSRC + extension + Payload + Pad
	CSRC    int `json:"csrc,omitempty"`
	ExtKind int `json:"ext_kind,omitempty"` // 0 none, 1 RFC 3550 generic (ExtLen multiple of 4), 2 RFC 8285 one-byte (ExtLen 1..16)
	ExtLen  int `json:"ext_len,omitempty"`
	Payload int `json:"payload,omitempty"`
	Pad     int `json:"pad,omitempty"`

	// RTCP
	Reports int   `json:"reports,omitempty"` // reception reports (sr, rr, compound)
	Ext     int   `json:"ext,omitempty"`     // profile-specific extension bytes (sr, rr)
	Texts   []int `json:"texts,omitempty"`   // sdes: one chunk per entry with one item of this length; compound: CNAME length
	Data    int   `json:"data,omitempty"`    // app / compound: application data; raw: total length
}

func (wr Write) isRTCP() bool { return wr.Kind != "rtp" }

const fill = 0x55

// marker identifies the packet of write idx inside plaintext traffic: it is
// the RTP timestamp, or the sender SSRC of the (first) RTCP packet, i.e. bytes
// 4..8 of the marshalled packet either way.
func marker(idx int) []byte {
	return []byte{0xC1, 0x8E, byte(idx >> 8), byte(idx)}
}

func marker32(idx int) uint32 { return binary.BigEndian.Uint32(marker(idx)) }

func filled(n int) []byte {
	b := make([]byte, n)
	for i := range b {
		b[i] = fill
	}
	return b
}

// rtpSize is the size of an RTP packet by RFC 3550 section 5.1 / 5.3.1 and RFC 8285.
func rtpSize(wr Write) int {
	n := 12 + 4*wr.CSRC + wr.Payload + wr.Pad
	switch wr.ExtKind {
	case 1:
		n += 4 + wr.ExtLen
	case 2:
		n += 4 + (1+wr.ExtLen+3)/4*4
	}
	return n
}

func buildRTP(seed uint64, idx int, pt uint8, wr Write) (*rtp.Packet, error) {
	pkt := &rtp.Packet{
		Header: rtp.Header{
			Version:        2,
			PayloadType:    pt,
			SequenceNumber: uint16(1000 + idx),
			Timestamp:      marker32(idx),
			Marker:         core.H(seed, "mk", uint64(idx))%2 == 0,
		},
		Payload: filled(wr.Payload),
	}
	for i := 0; i < wr.CSRC; i++ {
		pkt.Header.CSRC = append(pkt.Header.CSRC, 0x55550000|uint32(i))
	}
	switch wr.ExtKind {
	case 1:
		pkt.Header.Extension = true
		pkt.Header.ExtensionProfile = 0x5555
		if err := pkt.Header.SetExtension(0, filled(wr.ExtLen)); err != nil {
			return nil, err
		}
	case 2:
		pkt.Header.Extension = true
		pkt.Header.ExtensionProfile = rtp.ExtensionProfileOneByte
		if err := pkt.Header.SetExtension(5, filled(wr.ExtLen)); err != nil {
			return nil, err
		}
	}
	if wr.Pad > 0 {
		pkt.Header.Padding = true
		pkt.Header.PaddingSize = byte(wr.Pad)
	}
	return pkt, nil
}

func reports(n int) []rtcp.ReceptionReport {
	var out []rtcp.ReceptionReport
	for i := 0; i < n; i++ {
		out = append(out, rtcp.ReceptionReport{SSRC: 0x55550000 | uint32(i), LastSequenceNumber: 0x55555555, Jitter: 0x5555})
	}
	return out
}

func text(n int) string { return string(filled(n)) }

func sdesChunkSize(t int) int { return 4 + (2+t+1+3)/4*4 }

// rtcpSize is the size of the packet by RFC 3550 section 6.
func rtcpSize(wr Write) int {
	switch wr.Kind {
	case "sr":
		return 28 + 24*wr.Reports + wr.Ext
	case "rr":
		return 8 + 24*wr.Reports + wr.Ext
	case "sdes":
		n := 4
		for _, t := range wr.Texts {
			n += sdesChunkSize(t)
		}
		return n
	case "app":
		return 12 + (wr.Data+3)/4*4
	case "raw":
		return wr.Data
	case "compound":
		t := 0
		if len(wr.Texts) > 0 {
			t = wr.Texts[0]
		}
		return 28 + 24*wr.Reports + 4 + sdesChunkSize(t) + 12 + (wr.Data+3)/4*4
	}
	return -1
}

func buildRTCP(idx int, wr Write) (rtcp.Packet, error) {
	m := marker32(idx)
	switch wr.Kind {
	case "sr":
		return &rtcp.SenderReport{SSRC: m, NTPTime: 0x5555555555555555, RTPTime: 0x55555555, PacketCount: 1, OctetCount: 1,
			Reports: reports(wr.Reports), ProfileExtensions: filled(wr.Ext)}, nil
	case "rr":
		return &rtcp.ReceiverReport{SSRC: m, Reports: reports(wr.Reports), ProfileExtensions: filled(wr.Ext)}, nil
	case "sdes":
		sd := &rtcp.SourceDescription{}
		for i, t := range wr.Texts {
			src := 0x55550000 | uint32(i)
			if i == 0 {
				src = m
			}
			typ := rtcp.SDESNote
			if i == 0 {
				typ = rtcp.SDESCNAME
			}
			sd.Chunks = append(sd.Chunks, rtcp.SourceDescriptionChunk{Source: src,
				Items: []rtcp.SourceDescriptionItem{{Type: typ, Text: text(t)}}})
		}
		return sd, nil
	case "app":
		return &rtcp.ApplicationDefined{SubType: 1, SSRC: m, Name: "c18 ", Data: filled(wr.Data)}, nil
	case "raw":
		if wr.Data < 8 {
			return nil, fmt.Errorf("raw packet too short")
		}
		b := filled(wr.Data)
		b[0] = 0x80 | 1 // V=2, subtype 1
		b[1] = 204      // APP
		binary.BigEndian.PutUint16(b[2:], uint16((wr.Data+3)/4-1))
		copy(b[4:8], marker(idx))
		return (*rtcp.RawPacket)(&b), nil
	case "compound":
		t := 0
		if len(wr.Texts) > 0 {
			t = wr.Texts[0]
		}
		return &rtcp.CompoundPacket{
			&rtcp.SenderReport{SSRC: m, NTPTime: 0x5555555555555555, RTPTime: 0x55555555, PacketCount: 1, OctetCount: 1, Reports: reports(wr.Reports)},
			&rtcp.SourceDescription{Chunks: []rtcp.SourceDescriptionChunk{{Source: 0x55555555,
				Items: []rtcp.SourceDescriptionItem{{Type: rtcp.SDESCNAME, Text: text(t)}}}}},
			&rtcp.ApplicationDefined{SubType: 1, SSRC: 0x55555555, Name: "c18 ", Data: filled(wr.Data)},
		}, nil
	}
	return nil, fmt.Errorf("unknown kind %q", wr.Kind)
}

// ---- generator side: parameters hitting a wanted size --------------------------------

// fitRTP chooses header / extension / payload / padding summing up to want (>= 12).
func fitRTP(r *core.Rand, wr *Write, want int) {
	if want < 12 {
		want = 12
	}
	wr.Kind = "rtp"
	wr.Want = want
	wr.CSRC, wr.ExtKind, wr.ExtLen, wr.Pad, wr.Payload = 0, 0, 0, 0, 0
	if r.Bool(0.6) {
		wr.CSRC = r.Range(0, 15)
	}
	switch r.Intn(10) {
	case 0, 1, 2:
		wr.ExtKind = 1
		wr.ExtLen = 4 * r.Range(0, 8)
	case 3, 4, 5:
		wr.ExtKind = 2
		wr.ExtLen = r.Range(1, 16)
	}
	if r.Bool(0.5) {
		wr.Pad = r.Pick(1, 2, 3, 4, 7, 8, 16, 100, 255, r.Range(1, 255))
	}
	// shed optional parts until the rest fits
	for rtpSize(*wr) > want {
		switch {
		case wr.Pad > 0:
			wr.Pad = 0
		case wr.ExtKind != 0:
			wr.ExtKind, wr.ExtLen = 0, 0
		default:
			wr.CSRC = 0
		}
	}
	wr.Payload = want - rtpSize(*wr)
}

// fitRTCP chooses a packet kind and parameters of marshalled size want (exactly
// for raw packets, otherwise the nearest reachable multiple of 4).
func fitRTCP(r *core.Rand, wr *Write, want int) {
	if want < 8 {
		want = 8
	}
	wr.Reports, wr.Ext, wr.Texts, wr.Data = 0, 0, nil, 0
	kind := []string{"raw", "raw", "sr", "rr", "sdes", "app", "compound", "compound"}[r.Intn(8)]
	w4 := want / 4 * 4
	if want%4 != 0 && r.Bool(0.5) {
		w4 += 4
	}
	min := map[string]int{"raw": 8, "sr": 28, "rr": 8, "sdes": 12, "app": 12, "compound": 28 + 12 + 12}[kind]
	if w4 < min || (kind == "sdes" && w4 > 4+31*264) || w4 > 60000 {
		kind = "raw"
	}
	wr.Kind = kind
	switch kind {
	case "raw":
		wr.Data = want
	case "sr", "rr":
		base := 28
		if kind == "rr" {
			base = 8
		}
		maxN := (w4 - base) / 24
		if maxN > 31 {
			maxN = 31
		}
		wr.Reports = r.Range(0, maxN)
		if r.Bool(0.5) {
			wr.Reports = maxN
		}
		wr.Ext = w4 - base - 24*wr.Reports
	case "sdes":
		rem := w4 - 4
		for rem > 0 {
			s := rem
			if s > 264 {
				s = 264
				if rem-s < 8 {
					s = rem - 8
				}
			}
			// chunk of size s (multiple of 4, 8..264): 4 + roundup4(2+t+1) = s with t <= 255
			t := s - 9
			if t < 0 {
				t = 0
			}
			wr.Texts = append(wr.Texts, t)
			rem -= s
		}
	case "app":
		wr.Data = w4 - 12
		if k := r.Intn(4); wr.Data >= 4 && k > 0 {
			wr.Data -= k // padded back to the boundary
		}
	case "compound":
		rest := w4 - 28 - 12 - 12 // beyond the minimal SR + SDES(cname "x") + APP
		n := rest / 24
		if n > 31 {
			n = 31
		}
		wr.Reports = r.Range(0, n)
		rest -= 24 * wr.Reports
		// CNAME chunk: 4 + roundup4(3+t); t=1 is the minimal 8 counted above
		tx := rest
		if tx > 248 {
			tx = 248
		}
		tx = r.Range(0, tx/4) * 4
		wr.Texts = []int{1 + tx}
		rest -= tx
		wr.Data = rest
	}
	wr.Want = rtcpSize(*wr)
}
