package c18

import (
	"verifsim/core"
	"verifsim/simnet"
)

// Peer is one client of the run.
type Peer struct {
	Transport string `json:"transport"` // udp | tcp (interleaved)
	Max       int    `json:"max"`       // Client.MaxPacketSize (0 = default)
	// PlainRTP (recording client over tcp in a secure run): the announced medias
	// keep the RTP/AVP profile, i.e. plain RTP inside the TLS connection.
	PlainRTP bool `json:"plain_rtp,omitempty"`
}

// StartCase is one configuration handed to Start() (oracle c).
type StartCase struct {
	Who string `json:"who"` // server | client
	Max int    `json:"max"`
	WQ  int    `json:"wq"`
	// Proto: the client's forced transport protocol ("" = automatic | udp | tcp | mcast);
	// the server's multicast settings on / off for "mcast".
	Proto string `json:"proto,omitempty"`
}

// Scenario is one C18 run.
type Scenario struct {
	Seed   uint64        `json:"seed"`
	Net    simnet.Config `json:"net"`
	Secure bool          `json:"secure"` // rtsps + SRTP
	// MKI: the server answers the first SETUP of every client with 463 "Key
	// Management Failure", which makes the client switch to client-managed
	// keys with a 4-byte master key identifier in every SRTP / SRTCP packet it
	// sends (what it does with Axis cameras). Secure runs only.
	MKI      bool        `json:"mki,omitempty"`
	SrvMax   int         `json:"srv_max"` // Server.MaxPacketSize (0 = default)
	WQ       int         `json:"wq"`      // WriteQueueSize of server and clients (0 = default)
	Medias   int         `json:"medias"`
	Readers  []Peer      `json:"readers"`
	Pub      *Peer       `json:"pub,omitempty"`
	ReportUS int         `json:"report_us"` // 0: automatic RTCP reports off (period of hours); else their period
	Writes   []Write     `json:"writes"`
	Starts   []StartCase `json:"starts,omitempty"`
}

const defaultMax = 1472

func effMax(m int) int {
	if m == 0 {
		return defaultMax
	}
	return m
}

// minMax is the smallest configured maximum generated: below 22 bytes even the
// fixed-size firewall-opening SRTP packets (12+10, 8+14) cannot fit.
const minMax = 32

func pickMax(r *core.Rand) int {
	switch r.Intn(11) {
	case 0, 1:
		return 0
	case 2, 3:
		return 1472
	case 4, 5:
		return r.Range(minMax, 200)
	case 6:
		return r.Range(200, 1400)
	case 7, 8:
		return r.Range(1400, 1471)
	case 9:
		// smaller than an encrypted automatic sender / receiver report (28+14, 32+14)
		return r.Range(minMax, 48)
	}
	return r.Pick(64, 100, 128, 256, 512, 576, 1024, 1200, 1400, 1460)
}

// originMax is the configured maximum of the endpoint a write leaves from.
func (sc *Scenario) originMax(wr Write) int {
	switch wr.Entry {
	case "stream", "session", "session_pub":
		return effMax(sc.SrvMax)
	case "client":
		if sc.Pub != nil {
			return effMax(sc.Pub.Max)
		}
	case "client_reader":
		if wr.Target < len(sc.Readers) {
			return effMax(sc.Readers[wr.Target].Max)
		}
	}
	return defaultMax
}

// encrypted reports whether the session a write goes through uses SRTP.
func (sc *Scenario) encrypted(wr Write) bool {
	if !sc.Secure {
		return false
	}
	if (wr.Entry == "client" || wr.Entry == "session_pub") && sc.Pub != nil && sc.Pub.PlainRTP {
		return false
	}
	return true
}

func clientOrigin(entry string) bool { return entry == "client" || entry == "client_reader" }

// overhead is what SRTP (RFC 3711, AES_CM_128_HMAC_SHA1_80: 10-byte tag) or
// SRTCP (tag + 4-byte index) adds to a packet, plus the optional MKI.
func (sc *Scenario) overhead(wr Write) int {
	if !sc.encrypted(wr) {
		return 0
	}
	o := 10
	if wr.isRTCP() {
		o = 14
	}
	if sc.MKI && clientOrigin(wr.Entry) {
		o += 4
	}
	return o
}

func gen(seed uint64, tier string) Scenario {
	r := core.NewRand(seed, "c18")
	sc := Scenario{Seed: seed}
	sc.Secure = r.Bool(0.45)
	if mki := r.Bool(0.25); mki && sc.Secure {
		sc.MKI = true
	}
	sc.SrvMax = pickMax(r)
	sc.WQ = r.Pick(0, 8, 64, 256)
	sc.Medias = r.Range(1, 2)
	nr := r.Range(1, 2)
	for i := 0; i < nr; i++ {
		sc.Readers = append(sc.Readers, Peer{Transport: []string{"udp", "tcp"}[r.Intn(2)], Max: pickMax(r)})
	}
	// a UDP-multicast reader (at most one: it needs the loopback address); hash-derived so that no
	// other choice moves. The multicast writer has its own size checks and writes its own reports.
	if x := core.HS(seed, "c18.mcast", "", 0); len(sc.Readers) > 0 && x%100 < 12 {
		sc.Readers[int((x>>8)%uint64(len(sc.Readers)))].Transport = "mcast"
	}
	if r.Bool(0.8) {
		sc.Pub = &Peer{Transport: []string{"udp", "tcp"}[r.Intn(2)], Max: pickMax(r)}
		if plain := r.Bool(0.3); plain && sc.Secure && sc.Pub.Transport == "tcp" {
			sc.Pub.PlainRTP = true
		}
	}
	if r.Bool(0.4) {
		sc.ReportUS = r.Pick(300, 1000, 3000)
	}

	// entry points available
	type ent struct {
		name string
		both bool // RTP and RTCP
	}
	ents := []ent{{"stream", true}, {"stream", true}, {"stream", true}, {"session", true}, {"session", true}, {"client_reader", false}}
	if sc.Pub != nil {
		ents = append(ents, ent{"client", true}, ent{"client", true}, ent{"client", true}, ent{"session_pub", false})
	}
	nw := r.Range(6, 24)
	if tier == "thorough" {
		nw = r.Range(10, 40)
	}
	for i := 0; i < nw; i++ {
		e := ents[r.Intn(len(ents))]
		wr := Write{Entry: e.name, Media: r.Intn(sc.Medias)}
		if e.name == "session" || e.name == "client_reader" {
			wr.Target = r.Intn(len(sc.Readers))
		}
		isRTCP := !e.both || r.Bool(0.45)
		if isRTCP {
			wr.Kind = "raw"
		} else {
			wr.Kind = "rtp"
		}
		m := sc.originMax(wr)
		l := m - sc.overhead(wr)
		var want int
		switch x := r.Intn(100); {
		case x < 48:
			want = l + r.Pick(-2, -1, 0, 1, 2)
		case x < 58:
			want = l + r.Pick(-8, -4, -3, 3, 4, 8)
		case x < 70 && sc.encrypted(wr):
			// around the sizes a forgotten overhead would let through
			want = r.Pick(m, m-10, m-14, m-4) + r.Pick(-2, -1, 0, 1, 2)
		case x < 84:
			lo := 12
			if l-3 > lo {
				want = r.Range(lo, l-3)
			} else {
				want = lo
			}
		case x < 95:
			want = r.Range(l+3, l+300)
		default:
			want = r.Pick(1473, 1500, 2000, 4000, 10000, 66000)
		}
		if isRTCP {
			fitRTCP(r, &wr, want)
		} else {
			fitRTP(r, &wr, want)
		}
		sc.Writes = append(sc.Writes, wr)
	}

	// Start() configurations
	ns := r.Pick(0, 1, 1, 2, 3)
	for i := 0; i < ns; i++ {
		st := StartCase{Who: []string{"server", "client"}[r.Intn(2)]}
		goodMax := func() int { return r.Pick(0, 0, 1, 12, minMax, 100, 1000, 1471, 1472, 1472) }
		badMax := func() int {
			return r.Pick(1473, 1473, 1474, 1480, 1500, 2048, 9000, 65507, 65536, r.Range(1473, 100000))
		}
		goodWQ := func() int { return r.Pick(0, 0, 1, 2, 4, 8, 16, 64, 256, 512, 1024, 4096, 1<<r.Range(0, 16)) }
		badWQ := func() int {
			return r.Pick(3, 5, 6, 7, 9, 10, 12, 15, 17, 24, 100, 255, 257, 1000, 1023, 1025, 65535, (1<<r.Range(2, 16))+r.Pick(-1, 1, 2, 3))
		}
		switch r.Intn(5) {
		case 0:
			st.Max, st.WQ = badMax(), goodWQ()
		case 1:
			st.Max, st.WQ = goodMax(), badWQ()
		case 2:
			st.Max, st.WQ = badMax(), badWQ()
		default:
			st.Max, st.WQ = goodMax(), goodWQ()
		}
		// hash-derived so that no other choice moves
		st.Proto = []string{"", "", "udp", "tcp", "tcp", "mcast"}[core.HS(seed, "c18.startproto", "", uint64(i))%6]
		sc.Starts = append(sc.Starts, st)
	}

	n := simnet.Config{Seed: seed ^ 0xc18c18c18}
	n.LatMinUS = r.Pick(10, 50, 200, 1000)
	n.LatMaxUS = n.LatMinUS + r.Pick(0, 20, 200, 2000)
	n.ChunkMode = r.Pick(0, 1, 2, 3)
	n.ChunkMaxLen = r.Pick(16, 64, 200)
	if r.Bool(0.3) {
		n.UDPDrop = []float64{0, 0.02, 0.1}[r.Intn(3)]
		n.UDPDup = []float64{0, 0.02, 0.1}[r.Intn(3)]
		n.UDPReorder = []float64{0, 0.1}[r.Intn(2)]
		n.UDPJitUS = r.Pick(100, 1000)
	}
	sc.Net = n
	return sc
}

func powerOfTwo(n int) bool { return n > 0 && n&(n-1) == 0 }

func (sc Scenario) clone() Scenario {
	c := sc
	c.Readers = append([]Peer(nil), sc.Readers...)
	if sc.Pub != nil {
		p := *sc.Pub
		c.Pub = &p
	}
	c.Writes = make([]Write, len(sc.Writes))
	for i, w := range sc.Writes {
		c.Writes[i] = w
		c.Writes[i].Texts = append([]int(nil), w.Texts...)
	}
	c.Starts = append([]StartCase(nil), sc.Starts...)
	return c
}

func shrink(sc Scenario) []Scenario {
	var out []Scenario
	// Start cases are independent of the rest
	if len(sc.Starts) > 0 && len(sc.Writes) > 0 {
		c := sc.clone()
		c.Writes = nil
		out = append(out, c)
		c = sc.clone()
		c.Starts = nil
		out = append(out, c)
	}
	for i := range sc.Starts {
		if len(sc.Starts) > 1 {
			c := sc.clone()
			c.Starts = append(c.Starts[:i], c.Starts[i+1:]...)
			out = append(out, c)
		}
	}
	// fewer writes: halves, then single ones
	if n := len(sc.Writes); n > 1 {
		c := sc.clone()
		c.Writes = c.Writes[n/2:]
		out = append(out, c)
		c = sc.clone()
		c.Writes = c.Writes[:n/2]
		out = append(out, c)
		for i := range sc.Writes {
			c := sc.clone()
			c.Writes = append(c.Writes[:i], c.Writes[i+1:]...)
			out = append(out, c)
		}
	}
	// fewer peers
	if sc.Pub != nil {
		uses := false
		for _, w := range sc.Writes {
			if w.Entry == "client" || w.Entry == "session_pub" {
				uses = true
			}
		}
		if !uses {
			c := sc.clone()
			c.Pub = nil
			out = append(out, c)
		}
	}
	if len(sc.Readers) > 0 {
		for i := range sc.Readers {
			uses := false
			for _, w := range sc.Writes {
				if (w.Entry == "session" || w.Entry == "client_reader") && w.Target == i {
					uses = true
				}
			}
			if uses {
				continue
			}
			c := sc.clone()
			c.Readers = append(c.Readers[:i], c.Readers[i+1:]...)
			for k := range c.Writes {
				if c.Writes[k].Target > i {
					c.Writes[k].Target--
				}
			}
			out = append(out, c)
		}
	}
	if sc.Medias > 1 {
		c := sc.clone()
		c.Medias = 1
		for k := range c.Writes {
			c.Writes[k].Media = 0
		}
		out = append(out, c)
	}
	// simpler configuration
	if sc.SrvMax != 0 {
		c := sc.clone()
		c.SrvMax = 0
		out = append(out, c)
	}
	for i, p := range sc.Readers {
		if p.Max != 0 {
			c := sc.clone()
			c.Readers[i].Max = 0
			out = append(out, c)
		}
	}
	if sc.Pub != nil && sc.Pub.Max != 0 {
		c := sc.clone()
		c.Pub.Max = 0
		out = append(out, c)
	}
	if sc.MKI {
		c := sc.clone()
		c.MKI = false
		out = append(out, c)
	}
	if sc.Secure {
		c := sc.clone()
		c.Secure, c.MKI = false, false
		if c.Pub != nil {
			c.Pub.PlainRTP = false
		}
		out = append(out, c)
	}
	if sc.ReportUS != 0 {
		c := sc.clone()
		c.ReportUS = 0
		out = append(out, c)
	}
	if sc.WQ != 0 {
		c := sc.clone()
		c.WQ = 0
		out = append(out, c)
	}
	for i, p := range sc.Readers {
		if p.Transport != "tcp" {
			c := sc.clone()
			c.Readers[i].Transport = "tcp"
			out = append(out, c)
		}
	}
	if sc.Pub != nil && sc.Pub.Transport != "tcp" {
		c := sc.clone()
		c.Pub.Transport = "tcp"
		out = append(out, c)
	}
	if sc.Pub != nil && sc.Pub.PlainRTP {
		c := sc.clone()
		c.Pub.PlainRTP = false
		out = append(out, c)
	}
	// simpler packets
	for i, w := range sc.Writes {
		if w.Kind == "rtp" && (w.CSRC > 0 || w.ExtKind != 0 || w.Pad > 0) {
			c := sc.clone()
			n := rtpSize(w)
			c.Writes[i].CSRC, c.Writes[i].ExtKind, c.Writes[i].ExtLen, c.Writes[i].Pad = 0, 0, 0, 0
			c.Writes[i].Payload = n - 12
			out = append(out, c)
		}
		if w.isRTCP() && w.Kind != "raw" {
			if n := rtcpSize(w); n >= 8 {
				c := sc.clone()
				c.Writes[i] = Write{Entry: w.Entry, Target: w.Target, Media: w.Media, Kind: "raw", Want: n, Data: n}
				out = append(out, c)
			}
		}
	}
	// simpler network
	if sc.Net.ChunkMode != 0 {
		c := sc.clone()
		c.Net.ChunkMode = 0
		out = append(out, c)
	}
	if sc.Net.UDPDrop != 0 || sc.Net.UDPDup != 0 || sc.Net.UDPReorder != 0 {
		c := sc.clone()
		c.Net.UDPDrop, c.Net.UDPDup, c.Net.UDPReorder = 0, 0, 0
		out = append(out, c)
	}
	if sc.Net.LatMinUS > 10 || sc.Net.LatMaxUS > sc.Net.LatMinUS {
		c := sc.clone()
		c.Net.LatMinUS, c.Net.LatMaxUS = 10, 10
		out = append(out, c)
	}
	return out
}
