package c14

import (
	"encoding/binary"
	"fmt"
	"runtime/debug"
	"sync"
	"testing"
	"time"

	"github.com/bluenviron/gortsplib/v5/pkg/rtpreceiver"
	"github.com/pion/rtcp"
	"github.com/pion/rtp"

	"verifsim/core"
)

// rec is one line of the canonical event list (formatted lazily).
type rec struct {
	kind  byte // 'a' arrival, 'r' report, 'n' note
	t     int64
	j     int
	id    int
	copy  int
	seq   uint16
	nDel  int
	first int
	last  int
	lost  uint64
	a, b  uint64
	c     uint64
	note  string
}

func (r *rec) String() string {
	switch r.kind {
	case 'a':
		s := fmt.Sprintf("%d arr#%d id=%d.%d seq=%d -> delivered=%d", r.t, r.j, r.id, r.copy, r.seq, r.nDel)
		if r.nDel > 0 {
			s += fmt.Sprintf(" [id %d..%d]", r.first, r.last)
		}
		s += fmt.Sprintf(" lost=%d", r.lost)
		if r.note != "" {
			s += " " + r.note
		}
		return s
	case 'r':
		return fmt.Sprintf("%d report ext=%d(%d|%d) total_lost=%d fraction=%d %s", r.t, r.a, r.a>>16, r.a&0xFFFF, r.b, r.c, r.note)
	}
	return fmt.Sprintf("%d %s", r.t, r.note)
}

const (
	classNone    = iota
	classClean   // follow-up bound asserted
	classShort   // too few packets to assert the bound
	classUnclean // ambiguous: oracles off
)

type sim struct {
	sc    *Scenario
	pl    *plan
	buf   int
	unrel bool
	res   *core.Result
	rr    *rtpreceiver.Receiver
	start time.Time

	mu   sync.Mutex
	viol *core.Violation
	recs []rec
	sig  uint64

	// delivery history (what the application saw)
	haveLast  bool
	lastID    int
	lastSeq   uint16
	lastEpoch int
	segment   int32
	delivered uint64
	delSeg    []int32 // per source id: 1+segment of its delivery, 0 = never
	cumLost   uint64  // sum of the lost values returned
	ext       uint32
	extValid  bool
	intRecv   uint64
	intLost   uint64
	behind    int
	blind     bool
	reports   int

	// arrival history
	j            int
	arrived      []bool
	firstArr     []int32
	a1           []int32 // event index of the first overtaker, -1 = none
	maxPosBefore []int   // highest position of the incarnation that arrived before the packet's first arrival
	deadline     []bool
	qualified    []uint8
	exempt       []bool
	pending      []int
	lastDelAt    []int32 // per event: id of the last delivered packet before it
	segAt        []int32
	maxPosSeen   []int

	// restarts
	epStarted  []bool
	epFollowed []bool
	epEvents   []int
	epClass    []int
	epFirstDel []int
}

func (s *sim) fail(class, f string, a ...any) {
	if s.viol == nil {
		s.viol = core.Viol(class, f, a...)
		s.viol.Detail += fmt.Sprintf(" [event %d, mode unreliable=%v, BufferSize=%d(eff %d), start_seq=%d]", s.j, s.unrel, s.sc.Buf, s.buf, s.sc.StartSeq)
	}
}

func (s *sim) now() int64 { return int64(time.Since(s.start)) }

func (s *sim) mix(vs ...uint64) {
	h := s.sig
	for _, v := range vs {
		h = core.Mix(h ^ core.Mix(v))
	}
	s.sig = h
}

// prepare computes the scenario-only facts used by oracle 2.
func (s *sim) prepare() {
	pl := s.pl
	n := len(pl.src)
	s.arrived = make([]bool, n)
	s.firstArr = make([]int32, n)
	s.a1 = make([]int32, n)
	s.maxPosBefore = make([]int, n)
	s.deadline = make([]bool, n)
	s.qualified = make([]uint8, n)
	s.exempt = make([]bool, n)
	s.delSeg = make([]int32, n)
	s.lastDelAt = make([]int32, len(pl.arr))
	s.segAt = make([]int32, len(pl.arr))
	for i := range s.firstArr {
		s.firstArr[i] = -1
		s.a1[i] = -1
	}
	mp := make([]int, pl.epochs)
	for i := range mp {
		mp[i] = -1
	}
	for j, a := range pl.arr {
		if s.firstArr[a.id] < 0 {
			s.firstArr[a.id] = int32(j)
			e := pl.src[a.id].epoch
			s.maxPosBefore[a.id] = mp[e]
			if pl.src[a.id].pos > mp[e] {
				mp[e] = pl.src[a.id].pos
			}
		}
	}
	// first overtaker: minimum first arrival over later packets of the incarnation
	for e := 0; e < pl.epochs; e++ {
		from := 0
		if e > 0 {
			from = pl.epochLast[e-1] + 1
		}
		min := int32(-1)
		for id := pl.epochLast[e]; id >= from; id-- {
			if min >= 0 && s.firstArr[id] >= 0 && min < s.firstArr[id] {
				s.a1[id] = min
			}
			if s.firstArr[id] >= 0 && (min < 0 || s.firstArr[id] < min) {
				min = s.firstArr[id]
			}
		}
	}
	// deadline: a packet BufferSize or more positions later arrives afterwards
	for i := range mp {
		mp[i] = -1
	}
	for j := len(pl.arr) - 1; j >= 0; j-- {
		a := pl.arr[j]
		sp := pl.src[a.id]
		if s.firstArr[a.id] == int32(j) {
			s.deadline[a.id] = mp[sp.epoch] >= sp.pos+s.buf
		}
		if sp.pos > mp[sp.epoch] {
			mp[sp.epoch] = sp.pos
		}
	}
	s.maxPosSeen = make([]int, pl.epochs)
	for i := range s.maxPosSeen {
		s.maxPosSeen[i] = -1
	}
	s.epStarted = make([]bool, pl.epochs)
	s.epFollowed = make([]bool, pl.epochs)
	s.epEvents = make([]int, pl.epochs)
	s.epClass = make([]int, pl.epochs)
	s.epFirstDel = make([]int, pl.epochs)
	for i := range s.epFirstDel {
		s.epFirstDel[i] = -1
	}
}

func (s *sim) goBlind(why string) {
	if s.blind {
		return
	}
	s.blind = true
	s.res.Probes["restart_unclean"]++
	for _, id := range s.pending {
		s.exempt[id] = true
	}
	s.pending = s.pending[:0]
	s.recs = append(s.recs, rec{kind: 'n', t: s.now(), note: "oracles off: " + why})
}

// classify decides, when the first packet of a new incarnation arrives,
// whether the follow-up bound can be asserted for it.
func (s *sim) classify(e, j int) {
	if !s.unrel {
		s.epClass[e] = classClean
		return
	}
	if !s.haveLast {
		s.epClass[e] = classUnclean
		s.goBlind("restart before anything was delivered")
		return
	}
	if e > 1 && !s.epFollowed[e-1] {
		s.epClass[e] = classUnclean
		s.goBlind("previous incarnation was never followed")
		return
	}
	cnt, behind, ahead := 0, 0, 0
	for k := j; k < len(s.pl.arr) && cnt < s.buf+1; k++ {
		sp := s.pl.src[s.pl.arr[k].id]
		if sp.epoch != e {
			break
		}
		cnt++
		rel := int16(sp.seq - s.lastSeq - 1)
		if rel < 0 {
			behind++
		} else if int(rel) >= s.buf {
			ahead++
		}
	}
	switch {
	case behind != cnt && ahead != cnt:
		s.epClass[e] = classUnclean
		s.goBlind(fmt.Sprintf("restart to a position the receiver cannot tell from reordering (jump %d)", s.pl.jumps[e]))
	case cnt < s.buf+1:
		s.epClass[e] = classShort
	default:
		s.epClass[e] = classClean
	}
}

func (s *sim) exemptPending() {
	for _, id := range s.pending {
		if s.delSeg[id] == 0 {
			s.exempt[id] = true
		}
	}
	s.pending = s.pending[:0]
}

// feed hands one arrival to the receiver and checks what comes back.
func (s *sim) feed(j int, a arrival) {
	pl := s.pl
	sp := pl.src[a.id]
	e := sp.epoch
	s.j = j

	// ---- before the call: arrival-history bookkeeping -------------------
	s.mu.Lock()
	if s.haveLast {
		s.lastDelAt[j] = int32(s.lastID)
	} else {
		s.lastDelAt[j] = -1
	}
	s.segAt[j] = s.segment
	if e > 0 && !s.epStarted[e] {
		s.epStarted[e] = true
		s.res.Faults["sender.restart"]++
		s.classify(e, j)
	}
	if e > 0 && !s.epFollowed[e] {
		s.epEvents[e]++
	}
	if s.haveLast {
		if d := int16(sp.seq - s.lastSeq); d <= 0 && d != -32768 {
			s.behind++
		} else {
			s.behind = 0
		}
	}
	first := !s.arrived[a.id]
	if !first {
		s.res.Faults["link.dup"]++
	} else {
		s.arrived[a.id] = true
		if sp.pos < s.maxPosSeen[e] {
			s.res.Faults["link.reorder"]++
		} else {
			s.maxPosSeen[e] = sp.pos
		}
		if s.unrel && !s.blind {
			s.qualify(j, a.id)
			s.pending = append(s.pending, a.id)
		}
	}
	s.mu.Unlock()

	// ---- the call ---------------------------------------------------------
	pkt := &rtp.Packet{
		Header: rtp.Header{
			Version:        2,
			PayloadType:    96,
			SequenceNumber: sp.seq,
			Timestamp:      sp.ts,
			SSRC:           sp.ssrc,
		},
		Payload: make([]byte, 8),
	}
	binary.BigEndian.PutUint32(pkt.Payload[0:], uint32(a.id))
	binary.BigEndian.PutUint16(pkt.Payload[4:], uint16(a.copy))
	binary.BigEndian.PutUint16(pkt.Payload[6:], 0xC14E)
	pkts, lost := s.rr.ProcessPacket2(pkt, time.Now(), true)

	// ---- after the call ---------------------------------------------------
	s.mu.Lock()
	defer s.mu.Unlock()
	r := rec{kind: 'a', t: s.now(), j: j, id: a.id, copy: a.copy, seq: sp.seq, nDel: len(pkts), lost: lost, first: -1, last: -1}
	s.mix(uint64(a.id)<<8|uint64(a.copy), uint64(len(pkts)), lost)
	s.res.Steps++

	callSilent := false
	var skipped uint64
	for k, pk := range pkts {
		id := -1
		if pk != nil && len(pk.Payload) == 8 && binary.BigEndian.Uint16(pk.Payload[6:]) == 0xC14E {
			id = int(binary.BigEndian.Uint32(pk.Payload[0:]))
		}
		if id < 0 || id >= len(pl.src) || !s.arrived[id] || pk.SequenceNumber != pl.src[id].seq {
			if !s.blind {
				s.fail("c14/o1-integrity packet", "call returned a packet that was never handed in (index %d of %d)", k, len(pkts))
			}
			continue
		}
		d := pl.src[id]
		if k == 0 {
			r.first = id
		}
		r.last = id
		s.mix(uint64(id))
		if s.haveLast {
			diff := int16(d.seq - s.lastSeq)
			cross := d.epoch != s.lastEpoch
			back := diff <= 0
			switch {
			case cross:
				// injected restart: the step itself and what is reported
				// for it are not constrained
				callSilent = true
				s.extValid = false
				if back && s.unrel {
					s.segment++
					s.exemptPending()
					s.behind = 0
					s.res.Probes["restart_detected_backward"]++
					r.note += "restart-detected "
				}
			case s.unrel && back:
				if k == 0 && s.behind >= s.buf+1 && !s.sc.Strict {
					// BufferSize+1 consecutive stale arrivals: a restart
					// as far as a receiver can tell
					callSilent = true
					s.extValid = false
					s.segment++
					s.exemptPending()
					s.behind = 0
					s.res.Probes["stale_run_taken_as_restart"]++
					r.note += "stale-run-restart "
				} else if !s.blind {
					if id == s.lastID || s.delSeg[id] == s.segment+1 {
						s.fail("c14/o1-duplicate packet", "source packet %d (seq %d) handed to the application twice without a sender restart (previous delivery: id %d seq %d; %d consecutive stale arrivals)", id, d.seq, s.lastID, s.lastSeq, s.behind)
					} else {
						s.fail("c14/o1-order packet", "delivered seq %d (id %d) after seq %d (id %d): not increasing modulo 2^16 and no sender restart (%d consecutive stale arrivals, need %d)", d.seq, id, s.lastSeq, s.lastID, s.behind, s.buf+1)
					}
				}
			default:
				step := uint64(uint16(d.seq - s.lastSeq))
				skipped += step - 1
				s.ext += uint32(step)
				if d.seq < s.lastSeq {
					s.res.Probes["seq_wrap_crossed"]++
				}
			}
		} else {
			s.ext = uint32(d.seq)
			s.extValid = true
		}
		if s.unrel && !s.blind && s.delSeg[id] == s.segment+1 {
			s.fail("c14/o1-duplicate packet", "source packet %d (seq %d) handed to the application twice", id, d.seq)
		}
		s.delSeg[id] = s.segment + 1
		s.delivered++
		s.intRecv++
		s.haveLast, s.lastID, s.lastSeq, s.lastEpoch = true, id, d.seq, d.epoch
		if s.epFirstDel[d.epoch] < 0 {
			s.epFirstDel[d.epoch] = id
		}
		if d.epoch > 0 && !s.epFollowed[d.epoch] {
			s.epFollowed[d.epoch] = true
			s.res.Probes["restart_followed"]++
			r.note += fmt.Sprintf("followed-after-%d ", s.epEvents[d.epoch])
			if !s.blind && s.epClass[d.epoch] == classClean && s.epEvents[d.epoch] > s.buf+1 {
				s.fail("c14/o5-restart stream", "restarted sender followed only after %d packets of the new stream (bound %d)", s.epEvents[d.epoch], s.buf+1)
			}
		}
	}
	s.cumLost += lost
	s.intLost += lost
	if !callSilent && !s.blind && lost != skipped {
		s.fail("c14/o3-lost call", "call reported %d lost, but %d sequence numbers were skipped between the packets it delivered (arrival id %d seq %d, delivered ids %d..%d)", lost, skipped, a.id, sp.seq, r.first, r.last)
	}
	if len(pkts) > 1 && lost > 0 {
		s.res.Probes["reorder_buffer_flush"]++
	} else if len(pkts) > 1 {
		s.res.Probes["reorder_gap_filled"]++
	}
	if len(pkts) == 0 {
		if first {
			s.res.Probes["held_or_discarded"]++
		} else {
			s.res.Probes["dup_discarded"]++
		}
	}
	if !s.blind {
		if e > 0 && s.epClass[e] == classClean && !s.epFollowed[e] && s.epEvents[e] >= s.buf+1 {
			s.fail("c14/o5-restart stream", "restarted sender not followed after %d packets of the new stream (bound %d)", s.epEvents[e], s.buf+1)
		}
		if j == 0 && (len(pkts) == 0 || r.first != a.id) {
			s.fail("c14/o2-delivery packet", "the very first packet (id %d seq %d) was not handed to the application", a.id, sp.seq)
		}
		if s.haveLast {
			st := s.rr.Stats()
			switch {
			case st == nil:
				s.fail("c14/o4-stats receiver", "Stats() is nil after %d packets were delivered", s.delivered)
			case st.Received != s.delivered:
				s.fail("c14/o4-stats receiver", "Stats().Received=%d, packets handed to the application=%d", st.Received, s.delivered)
			case st.Lost != s.cumLost:
				s.fail("c14/o4-stats receiver", "Stats().Lost=%d, sum of reported losses=%d", st.Lost, s.cumLost)
			case st.LastSequenceNumber != s.lastSeq:
				s.fail("c14/o4-stats receiver", "Stats().LastSequenceNumber=%d, last delivered seq=%d", st.LastSequenceNumber, s.lastSeq)
			}
		}
	}
	s.recs = append(s.recs, r)
}

// qualify decides (before the call, at the first arrival of source packet p)
// whether oracle 2 applies to it. 1 = asserted, 2 = only the literal reading.
func (s *sim) qualify(j, p int) {
	sp := s.pl.src[p]
	e := sp.epoch
	fd := s.epFirstDel[e]
	if e > 0 && !s.epFollowed[e] {
		return
	}
	if fd < 0 || p <= fd {
		return
	}
	if !s.deadline[p] {
		return
	}
	if s.maxPosBefore[p] <= sp.pos {
		s.qualified[p] = 1 // arrived in order
		return
	}
	if s.maxPosBefore[p]-sp.pos > s.buf-1 {
		return
	}
	a1 := s.a1[p]
	if a1 < 0 || s.segAt[a1] != s.segment {
		return
	}
	ld := s.lastDelAt[a1]
	if ld >= 0 && s.pl.src[ld].epoch == e && s.pl.src[ld].pos == sp.pos-1 {
		s.qualified[p] = 1
	} else {
		s.qualified[p] = 2
	}
}

func (s *sim) onReport(p rtcp.Packet) {
	s.mu.Lock()
	defer s.mu.Unlock()
	s.reports++
	s.res.Probes["report_captured"]++
	rrp, ok := p.(*rtcp.ReceiverReport)
	if !ok || len(rrp.Reports) != 1 {
		if !s.blind {
			s.fail("c14/o4-report report", "WritePacketRTCP got %T without exactly one reception report", p)
		}
		return
	}
	rb := rrp.Reports[0]
	r := rec{kind: 'r', t: s.now(), a: uint64(rb.LastSequenceNumber), b: uint64(rb.TotalLost), c: uint64(rb.FractionLost)}
	s.mix(0xEE, r.a, r.b, r.c)
	defer func() {
		s.intRecv, s.intLost = 0, 0
		s.recs = append(s.recs, r)
	}()
	if s.blind || !s.haveLast {
		return
	}
	if s.intLost > 0 {
		s.res.Probes["report_with_loss"]++
	}
	if uint64(rb.TotalLost) != s.cumLost && s.cumLost <= 0xFFFFFF {
		s.fail("c14/o4-report report", "report says cumulative lost %d, history says %d", rb.TotalLost, s.cumLost)
	}
	if uint16(rb.LastSequenceNumber) != s.lastSeq {
		s.fail("c14/o4-report report", "report's highest sequence number has low bits %d, last delivered seq is %d", uint16(rb.LastSequenceNumber), s.lastSeq)
	} else if s.extValid {
		if rb.LastSequenceNumber != s.ext {
			s.fail("c14/o4-report report", "extended highest sequence number %d (cycles %d, seq %d); history gives %d (cycles %d, seq %d)",
				rb.LastSequenceNumber, rb.LastSequenceNumber>>16, rb.LastSequenceNumber&0xFFFF, s.ext, s.ext>>16, s.ext&0xFFFF)
		} else if s.ext>>16 != 0 {
			s.res.Probes["report_after_wrap"]++
		}
	} else {
		// first report after a restart: adopt the cycle count
		s.ext = rb.LastSequenceNumber
		s.extValid = true
		r.note = "rebased"
	}
	exp := s.intRecv + s.intLost
	if exp == 0 {
		if rb.FractionLost != 0 {
			s.fail("c14/o4-report report", "fraction lost %d for an interval without any packet", rb.FractionLost)
		}
	} else {
		lo := s.intLost * 256 / exp
		hi := (s.intLost*256 + exp - 1) / exp
		if hi > 255 {
			hi = 255
		}
		if f := uint64(rb.FractionLost); f < lo || f > hi {
			s.fail("c14/o4-report report", "fraction lost %d for an interval with %d delivered and %d lost (expected %d..%d)", rb.FractionLost, s.intRecv, s.intLost, lo, hi)
		}
	}
}

func (s *sim) finish() {
	s.mu.Lock()
	defer s.mu.Unlock()
	if !s.unrel {
		return
	}
	for id := range s.pl.src {
		if !s.arrived[id] {
			continue
		}
		del := s.delSeg[id] != 0
		if !del {
			s.res.Probes["arrived_not_delivered"]++
		}
		over := s.maxPosBefore[id] > s.pl.src[id].pos
		switch s.qualified[id] {
		case 1:
			if over {
				if del {
					s.res.Probes["displaced_delivered"]++
				}
			}
			if !del && !s.exempt[id] && !s.blind {
				s.j = int(s.firstArr[id])
				s.fail("c14/o2-delivery packet", "source packet %d (seq %d) arrived displaced by %d sequence positions (< BufferSize %d), first overtaken at event %d while its predecessor was the last delivered packet, and was never handed to the application",
					id, s.pl.src[id].seq, maxInt(0, s.maxPosBefore[id]-s.pl.src[id].pos), s.buf, s.a1[id])
			}
		case 2:
			if !del && !s.exempt[id] {
				if s.sc.Strict && !s.blind {
					s.j = int(s.firstArr[id])
					s.fail("c14/o2-literal packet", "source packet %d (seq %d) arrived displaced by %d sequence positions (< BufferSize %d) while an older gap was still open, and was never handed to the application",
						id, s.pl.src[id].seq, s.maxPosBefore[id]-s.pl.src[id].pos, s.buf)
				}
				s.res.Probes["o2_literal_miss"]++
				if s.res.Probes["o2_literal_miss"] == 1 {
					s.recs = append(s.recs, rec{kind: 'n', t: s.res.SimNS, note: fmt.Sprintf("literal-miss id=%d seq=%d displaced_by=%d first_overtaken_at=%d", id, s.pl.src[id].seq, s.maxPosBefore[id]-s.pl.src[id].pos, s.a1[id])})
				}
			} else if del {
				s.res.Probes["o2_literal_delivered"]++
			}
		}
	}
}

func run(t *testing.T, sc Scenario) *core.Result {
	if sc.Whole != nil {
		return runWhole(t, sc)
	}
	if sc.Conc != nil {
		return runConc(t, sc)
	}
	res := core.NewResult()
	for _, k := range []string{"seq_wrap_crossed", "reorder_buffer_flush", "reorder_gap_filled", "restart_followed", "restart_detected_backward",
		"stale_run_taken_as_restart", "report_captured", "report_with_loss", "report_after_wrap", "displaced_delivered", "o2_literal_miss", "restart_unclean", "default_buffer"} {
		res.Probes[k] = 0
	}
	pl := build(&sc)
	s := &sim{sc: &sc, pl: pl, buf: effBuf(sc.Buf), unrel: sc.Unreliable, res: res, sig: core.H(0, "c14")}
	if sc.Buf <= 0 {
		res.Probes["default_buffer"]++
	}
	s.prepare()
	res.Faults["link.drop"] += pl.drops
	res.Faults["link.burst_drop"] += pl.bursts
	period := time.Duration(maxInt(1, sc.PeriodMS)) * time.Millisecond
	gap := uint64(maxInt(1, sc.GapUS))

	var pv any
	var pstack string
	bpv, bstack, dl := core.InBubble(t, func() {
		s.start = time.Now()
		s.rr = &rtpreceiver.Receiver{
			ClockRate:            90000,
			LocalSSRC:            0x0C140C14,
			UnrealiableTransport: sc.Unreliable,
			BufferSize:           maxInt(0, sc.Buf),
			Period:               period,
			TimeNow:              time.Now,
			WritePacketRTCP:      s.onReport,
		}
		if err := s.rr.Initialize(); err != nil {
			s.fail("c14/config receiver", "Initialize failed: %v", err)
			return
		}
		func() {
			defer func() {
				if r := recover(); r != nil {
					pv = r
					pstack = string(debug.Stack())
				}
			}()
			time.Sleep(time.Microsecond) // arrivals live on odd microseconds, ticks on whole milliseconds
			for j, a := range pl.arr {
				if a.pauseMS > 0 {
					res.Faults["link.pause"]++
					time.Sleep(time.Duration(a.pauseMS) * time.Millisecond)
				}
				if h := core.H(sc.Seed, "gap", uint64(a.id), uint64(a.copy)); h&3 == 0 {
					time.Sleep(time.Duration(2*(1+(h>>8)%gap)) * time.Microsecond)
				}
				s.feed(j, a)
				if s.viol != nil {
					break
				}
			}
			if s.viol == nil {
				// let one more report out after the last packet
				time.Sleep(period + 2*time.Microsecond)
			}
		}()
		res.SimNS = int64(time.Since(s.start))
		s.rr.Close()
	})
	if pv == nil && bpv != nil {
		pv, pstack = bpv, bstack
	}
	switch {
	case pv != nil:
		res.Violation = core.PanicViolation(pv, pstack)
	case s.viol != nil:
		res.Violation = s.viol
	case dl != nil:
		res.Violation = core.Viol("c14/leak goroutine", "bubble could not end: %v", dl)
	default:
		s.finish()
		res.Violation = s.viol
	}

	nf := 0
	for k, v := range res.Faults {
		if k != "link.pause" {
			nf += v
		}
	}
	res.Nontrivial = nf > 0 && s.delivered >= uint64(s.buf+2) && s.reports > 0
	res.Sig = s.sig
	res.Sample = map[string]any{
		"unreliable": sc.Unreliable, "buf": sc.Buf, "start_seq": sc.StartSeq, "source_packets": len(pl.src), "arrivals": len(pl.arr),
		"delivered": s.delivered, "lost_reported": s.cumLost, "reports": s.reports, "incarnations": pl.epochs, "blind": s.blind,
	}
	if res.Violation != nil {
		// the 40 lines up to (and a few after) the event the violation names
		at := len(s.recs) - 1
		for i := range s.recs {
			if s.recs[i].kind == 'a' && s.recs[i].j == s.j {
				at = i
				break
			}
		}
		to := minInt(len(s.recs), at+8)
		from := maxInt(0, to-40)
		for i := from; i < to; i++ {
			res.Tail = append(res.Tail, s.recs[i].String())
		}
	}
	if core.FullLog {
		res.FullLog = make([]string, 0, len(s.recs)+1)
		for i := range s.recs {
			res.FullLog = append(res.FullLog, s.recs[i].String())
		}
		res.FullLog = append(res.FullLog, fmt.Sprintf("sig=%d delivered=%d lost=%d reports=%d", s.sig, s.delivered, s.cumLost, s.reports))
	}
	return res
}
