package c14

import (
	"bufio"
	"context"
	"fmt"
	"net"
	"strconv"
	"sync"
	"testing"
	"time"

	"github.com/pion/rtp"

	gortsplib "github.com/bluenviron/gortsplib/v5"
	"github.com/bluenviron/gortsplib/v5/pkg/base"
	"github.com/bluenviron/gortsplib/v5/pkg/conn"
	"github.com/bluenviron/gortsplib/v5/pkg/description"
	"github.com/bluenviron/gortsplib/v5/pkg/format"
	"github.com/bluenviron/gortsplib/v5/pkg/headers"

	"verifsim/core"
	"verifsim/peers"
	"verifsim/simnet"
	"verifsim/sys"
)

// Mode "whole": the receiver as the library configures it behind its two UDP entry points
// (client_format.go, server_session_format.go). An ordered, numbered RTP stream crosses the
// simulated network as UDP datagrams - lost, duplicated, delayed past their successors - and
// arrives at
//
//	side "client": a real Client that plays from a scripted server (with server ports in the SETUP
//	               answer, or - AnyPortEnable - without them / with 0-0);
//	side "server": a real Server to which a scripted publisher records.
//
// Oracles, from the statement: (1) what the application's packet callback sees has strictly
// increasing sequence numbers modulo 2^16; (3) what OnPacketsLost reports adds up to the sequence
// numbers skipped between consecutively delivered packets; (2) when the network loses nothing and
// displaces packets by far fewer positions than the reorder buffer holds, every packet from the
// first delivered one on is delivered.

// Whole is the mode-"whole" part of a Scenario.
type Whole struct {
	Side       string        `json:"side"` // client | server
	AnyPort    bool          `json:"any_port,omitempty"`
	SrvPorts   string        `json:"srv_ports,omitempty"` // yes | none | zero (side client)
	Packets    int           `json:"packets"`
	IntervalUS int           `json:"interval_us"`
	Net        simnet.Config `json:"net"`
}

func genWhole(seed uint64) Scenario {
	r := core.NewRand(seed, "c14.whole")
	sc := Scenario{Seed: seed, StartSeq: uint16(r.Intn(65536))}
	if r.Bool(0.4) {
		sc.StartSeq = uint16(65536 - r.Range(1, 120))
	}
	ws := &Whole{Side: []string{"client", "client", "server"}[r.Intn(3)], Packets: r.Range(80, 300), IntervalUS: r.Pick(1000, 2000, 5000)}
	ws.SrvPorts = "yes"
	if ws.Side == "client" && r.Bool(0.6) {
		ws.AnyPort = true
		ws.SrvPorts = []string{"yes", "none", "none", "zero"}[r.Intn(4)]
	}
	nc := simnet.Config{Seed: seed ^ 0x14141414}
	nc.LatMinUS = r.Pick(10, 100, 1000)
	nc.LatMaxUS = nc.LatMinUS + r.Pick(0, 50, 500)
	// displacement stays below ~12 positions (the receivers use the default buffer of 64)
	nc.UDPReorder = []float64{0, 0.05, 0.2, 0.4}[r.Intn(4)]
	nc.UDPDup = []float64{0, 0, 0.05, 0.2}[r.Intn(4)]
	nc.UDPJitUS = ws.IntervalUS * r.Range(1, 10)
	if r.Bool(0.4) {
		nc.UDPDrop = []float64{0.02, 0.1}[r.Intn(2)]
	}
	ws.Net = nc
	sc.Whole = ws
	return sc
}

func wholeDesc() *description.Session {
	g := &format.Generic{PayloadTyp: 96, RTPMa: "private/90000"}
	g.Init() //nolint:errcheck
	return &description.Session{Medias: []*description.Media{{Type: description.MediaTypeVideo, Formats: []format.Format{g}, Control: "trackID=0"}}}
}

// history is what the application saw.
type history struct {
	mu   sync.Mutex
	seqs []uint16
	lost uint64
	// wrong: first delivered packet whose payload is not the one that was sent under its number
	wrong string
}

// packet records a delivery. The k-th packet of the stream carries k in its first two payload
// bytes: a packet that waited in the reorder buffer must still be the packet that arrived.
func (h *history) packet(pkt *rtp.Packet, start uint16) {
	h.mu.Lock()
	h.seqs = append(h.seqs, pkt.SequenceNumber)
	k := pkt.SequenceNumber - start
	if h.wrong == "" && (len(pkt.Payload) != 4 || pkt.Payload[0] != byte(k) || pkt.Payload[1] != byte(k>>8)) {
		h.wrong = fmt.Sprintf("sequence number %d (packet #%d of the stream) was delivered with payload % x, sent with %02x %02x 03 04", pkt.SequenceNumber, k, pkt.Payload, byte(k), byte(k>>8))
	}
	h.mu.Unlock()
}
func (h *history) loss(n uint64)     { h.mu.Lock(); h.lost += n; h.mu.Unlock() }

func runWhole(t *testing.T, sc Scenario) *core.Result {
	ws := sc.Whole
	opts := sys.Options{Seed: sc.Seed, Net: ws.Net, MaxSteps: 600000, Horizon: 10 * time.Minute}
	var sample map[string]any
	res := sys.Run(t, opts, func(w *sys.World) {
		w.ProbeInit("whole_client", "whole_server", "whole_no_server_ports", "whole_reordered", "whole_lost", "whole_all_delivered", "whole_wrap")
		srvNode := w.Net.Node("srv", "10.0.0.1")
		cliNode := w.Net.Node("cli", "10.0.0.20")
		hist := &history{}
		interval := time.Duration(ws.IntervalUS) * time.Microsecond
		settle := 2*time.Duration(ws.Net.UDPJitUS+ws.Net.LatMaxUS)*time.Microsecond + 300*time.Millisecond
		send := func(pc net.PacketConn, dst net.Addr) {
			for k := 0; k < ws.Packets; k++ {
				pkt, _ := (&rtp.Packet{Header: rtp.Header{Version: 2, PayloadType: 96, SequenceNumber: sc.StartSeq + uint16(k), Timestamp: uint32(k) * 900, SSRC: 0x0a0b0c0d},
					Payload: []byte{byte(k), byte(k >> 8), 3, 4}}).Marshal()
				pc.WriteTo(pkt, dst) //nolint:errcheck
				time.Sleep(interval)
			}
		}

		switch ws.Side {
		case "client":
			w.Probe("whole_client")
			if ws.SrvPorts != "yes" {
				w.Probe("whole_no_server_ports")
			}
			ln, err := srvNode.Listen("tcp", "10.0.0.1:8554")
			if err != nil {
				w.Fail("c14/harness", "listen: %v", err)
				return
			}
			rtpSock, err1 := srvNode.ListenPacket("udp", "10.0.0.1:9000")
			rtcpSock, err2 := srvNode.ListenPacket("udp", "10.0.0.1:9001")
			if err1 != nil || err2 != nil {
				w.Fail("c14/harness", "server sockets: %v %v", err1, err2)
				return
			}
			sent := make(chan struct{})
			w.Go("fake-server", func() {
				defer ln.Close()
				defer rtpSock.Close()
				defer rtcpSock.Close()
				nc, err := ln.Accept()
				if err != nil {
					return
				}
				defer nc.Close()
				c := conn.NewConn(bufio.NewReader(nc), nc)
				var dst *net.UDPAddr
				for {
					nc.SetReadDeadline(time.Now().Add(2 * time.Minute))
					what, err := c.Read()
					if err != nil {
						return
					}
					req, ok := what.(*base.Request)
					if !ok {
						continue
					}
					res := &base.Response{StatusCode: base.StatusOK, Header: base.Header{"CSeq": req.Header["CSeq"]}}
					play := false
					switch req.Method {
					case base.Options:
						res.Header["Public"] = base.HeaderValue{"DESCRIBE, SETUP, PLAY, TEARDOWN"}
					case base.Describe:
						body, _ := wholeDesc().Marshal()
						res.Header["Content-Type"] = base.HeaderValue{"application/sdp"}
						res.Header["Content-Base"] = base.HeaderValue{"rtsp://10.0.0.1:8554/stream/"}
						res.Body = body
					case base.Setup:
						var th headers.Transport
						if th.Unmarshal(req.Header["Transport"]) != nil || th.ClientPorts == nil {
							res.StatusCode = base.StatusBadRequest
							break
						}
						uni := headers.TransportDeliveryUnicast
						out := headers.Transport{Protocol: headers.TransportProtocolUDP, Delivery: &uni, ClientPorts: th.ClientPorts}
						switch ws.SrvPorts {
						case "yes":
							out.ServerPorts = &[2]int{9000, 9001}
						case "zero":
							out.ServerPorts = &[2]int{0, 0}
						}
						res.Header["Transport"] = out.Marshal()
						res.Header["Session"] = base.HeaderValue{"whole1;timeout=60"}
						dst = &net.UDPAddr{IP: nc.RemoteAddr().(*net.TCPAddr).IP, Port: th.ClientPorts[0]}
					case base.Play:
						res.Header["Session"] = base.HeaderValue{"whole1"}
						play = dst != nil
					default:
						res.Header["Session"] = base.HeaderValue{"whole1"}
					}
					buf, _ := res.Marshal()
					nc.SetWriteDeadline(time.Now().Add(10 * time.Second))
					if _, err := nc.Write(buf); err != nil {
						return
					}
					if play {
						d := dst
						w.Go("fake-server.sender", func() {
							time.Sleep(50 * time.Millisecond) // the client has seen the answer
							send(rtpSock, d)
							time.Sleep(settle)
							close(sent)
						})
					}
					if req.Method == base.Teardown {
						return
					}
				}
			})
			w.Go("client", func() {
				p := gortsplib.ProtocolUDP
				c := &gortsplib.Client{Scheme: "rtsp", Host: "10.0.0.1:8554", Protocol: &p, AnyPortEnable: ws.AnyPort, UDPSourcePortRange: [2]uint16{20000, 20031}}
				sys.WireClient(c, cliNode, w.Net, nil)
				c.OnPacketsLost = func(n uint64) { hist.loss(n) }
				c.OnDecodeError = func(error) {}
				if err := c.Start(); err != nil {
					w.Fail("c14/harness", "Client.Start: %v", err)
					return
				}
				defer ln.Close()
				defer c.Close()
				u, _ := base.ParseURL("rtsp://10.0.0.1:8554/stream")
				d, _, err := c.Describe(u)
				if err != nil {
					w.Fail("c14/harness", "Describe: %v", err)
					return
				}
				if err := c.SetupAll(d.BaseURL, d.Medias); err != nil {
					w.Fail("c14/harness", "SetupAll (any_port=%v, server ports %s): %v", ws.AnyPort, ws.SrvPorts, err)
					return
				}
				c.OnPacketRTPAny(func(_ *description.Media, _ format.Format, pkt *rtp.Packet) { hist.packet(pkt, sc.StartSeq) })
				if _, err := c.Play(nil); err != nil {
					w.Fail("c14/harness", "Play: %v", err)
					return
				}
				select {
				case <-sent:
				case <-time.After(time.Duration(ws.Packets)*interval + settle + 30*time.Second):
					w.Fail("c14/harness", "the scripted server never finished sending")
					return
				}
				judgeWhole(w, &sc, hist)
			})

		case "server":
			w.Probe("whole_server")
			h := sys.NewHandler(w)
			srv := &gortsplib.Server{RTSPAddress: "10.0.0.1:8554", UDPRTPAddress: "10.0.0.1:8000", UDPRTCPAddress: "10.0.0.1:8001", Handler: h}
			h.Server = srv
			sys.WireServer(srv, srvNode, nil)
			if err := srv.Start(); err != nil {
				w.Fail("c14/harness", "Server.Start: %v", err)
				return
			}
			h.OnRTP = func(_ *gortsplib.ServerSession, _ *description.Media, _ format.Format, pkt *rtp.Packet) { hist.packet(pkt, sc.StartSeq) }
			h.NoForward = true
			w.Go("publisher", func() {
				defer srv.Close()
				ctx, cancel := context.WithTimeout(context.Background(), 10*time.Second)
				nc, err := cliNode.DialContext(ctx, "tcp", "10.0.0.1:8554")
				cancel()
				if err != nil {
					w.Fail("c14/harness", "dial: %v", err)
					return
				}
				defer nc.Close()
				rc := peers.NewRawConn(nc)
				rtpSock, err1 := cliNode.ListenPacket("udp", "10.0.0.20:30000")
				rtcpSock, err2 := cliNode.ListenPacket("udp", "10.0.0.20:30001")
				if err1 != nil || err2 != nil {
					w.Fail("c14/harness", "publisher sockets: %v %v", err1, err2)
					return
				}
				defer rtpSock.Close()
				defer rtcpSock.Close()
				do := func(req *base.Request) *base.Response {
					if _, err := rc.Send(req); err != nil {
						w.Fail("c14/harness", "%s: %v", req.Method, err)
						return nil
					}
					res, err := rc.ReadResponse(10 * time.Second)
					if err != nil {
						w.Fail("c14/harness", "%s: %v", req.Method, err)
						return nil
					}
					if res.StatusCode != base.StatusOK {
						w.Fail("c14/harness", "%s: status %d", req.Method, res.StatusCode)
						return nil
					}
					return res
				}
				pu, _ := base.ParseURL("rtsp://10.0.0.1:8554/pub")
				body, _ := wholeDesc().Marshal()
				if do(&base.Request{Method: base.Announce, URL: pu, Header: base.Header{"Content-Type": base.HeaderValue{"application/sdp"}}, Body: body}) == nil {
					return
				}
				uni := headers.TransportDeliveryUnicast
				rec := headers.TransportModeRecord
				th := headers.Transport{Protocol: headers.TransportProtocolUDP, Delivery: &uni, Mode: &rec, ClientPorts: &[2]int{30000, 30001}}
				su, _ := base.ParseURL("rtsp://10.0.0.1:8554/pub/trackID=0")
				res := do(&base.Request{Method: base.Setup, URL: su, Header: base.Header{"Transport": th.Marshal()}})
				if res == nil {
					return
				}
				var sx headers.Session
				if sx.Unmarshal(res.Header["Session"]) != nil {
					w.Fail("c14/harness", "SETUP answer without session")
					return
				}
				var rth headers.Transport
				if rth.Unmarshal(res.Header["Transport"]) != nil || rth.ServerPorts == nil {
					w.Fail("c14/harness", "SETUP answer without server ports")
					return
				}
				if do(&base.Request{Method: base.Record, URL: pu, Header: base.Header{"Session": base.HeaderValue{sx.Session}}}) == nil {
					return
				}
				time.Sleep(20 * time.Millisecond)
				send(rtpSock, &net.UDPAddr{IP: net.ParseIP("10.0.0.1"), Port: rth.ServerPorts[0]})
				time.Sleep(settle)
				for _, cb := range h.Callbacks() {
					if cb.Kind == "lost" {
						n, _ := strconv.ParseUint(cb.Info, 10, 64)
						hist.loss(n)
					}
				}
				judgeWhole(w, &sc, hist)
			})
		}
		sample = map[string]any{"mode": "whole", "side": ws.Side, "any_port": ws.AnyPort, "srv_ports": ws.SrvPorts, "packets": ws.Packets}
	})
	res.Nontrivial = res.Probes["whole_client"]+res.Probes["whole_server"] > 0
	res.Sample = sample
	return res
}

// judgeWhole applies the three oracles to the recorded history.
func judgeWhole(w *sys.World, sc *Scenario, hist *history) {
	ws := sc.Whole
	hist.mu.Lock()
	seqs := append([]uint16(nil), hist.seqs...)
	lost := hist.lost
	hist.mu.Unlock()
	what := fmt.Sprintf("side %s, any_port=%v, server ports %s", ws.Side, ws.AnyPort, ws.SrvPorts)
	if len(seqs) == 0 {
		if ws.Net.UDPDrop == 0 {
			w.Fail("c14/whole nothing", "%s: %d packets sent over a network that loses nothing, none was delivered", what, ws.Packets)
		}
		return
	}
	hist.mu.Lock()
	wrong := hist.wrong
	hist.mu.Unlock()
	if wrong != "" {
		w.Fail("c14/whole content", "%s: %s", what, wrong)
		return
	}
	skipped := uint64(0)
	wrapped := false
	for i := 1; i < len(seqs); i++ {
		d := int16(seqs[i] - seqs[i-1])
		if d <= 0 {
			w.Fail("c14/whole o1-order", "%s (UDP): the packet callback saw sequence number %d after %d (delivery #%d): not strictly increasing", what, seqs[i], seqs[i-1], i)
			return
		}
		if seqs[i] < seqs[i-1] {
			wrapped = true
		}
		skipped += uint64(d - 1)
	}
	if wrapped {
		w.Probe("whole_wrap")
	}
	if lost != skipped {
		w.Fail("c14/whole o3-lost", "%s: OnPacketsLost reported %d packets in total, the delivered sequence skips %d sequence numbers", what, lost, skipped)
		return
	}
	if skipped > 0 {
		w.Probe("whole_lost")
	}
	if w.Net.StatsCopy()["udp.reorder"] > 0 {
		w.Probe("whole_reordered")
	}
	if ws.Net.UDPDrop == 0 && ws.Net.UDPBurst == 0 {
		first := int(seqs[0] - sc.StartSeq)
		if want := ws.Packets - first; len(seqs) != want {
			w.Fail("c14/whole o2-displaced", "%s: the network loses nothing and displaces packets by at most %d positions (buffer 64); %d packets were sent, the first delivered one is #%d, %d were delivered instead of %d",
				what, ws.Net.UDPJitUS/ws.IntervalUS+1, ws.Packets, first, len(seqs), want)
			return
		}
		w.Probe("whole_all_delivered")
	}
}
