package c14

import (
	"fmt"
	"sync"
	"testing"
	"time"

	"github.com/pion/rtcp"
	"github.com/pion/rtp"

	"github.com/bluenviron/gortsplib/v5/pkg/rtpreceiver"

	"verifsim/core"
	"verifsim/sys"
)

// Mode "conc": receiver reports while packets are being processed. The report goroutine of the
// real Receiver (its ticker runs on the fake clock) and a packet driver run concurrently; the
// library's mutexes are the simulation-aware ones and every statement of receiver.go is a yield
// point at which the scheduler may hold the calling goroutine, also in the middle of report().
//
// Oracle ("every receiver report agrees with the history"): a report's interval figure must agree
// with the cumulative figures of the same and the previous report, which describe the same
// history - FractionLost == floor(256 * dTotalLost / dExtendedHighestSeq) between two consecutive
// reports (reliable mode: everything that arrives is delivered at once, so expected = received +
// lost = advance of the extended highest sequence number).

// Conc is the mode-"conc" part of a Scenario.
type Conc struct {
	Packets  int `json:"packets"`
	PeriodUS int `json:"period_us"`
	GapUS    int `json:"gap_us"`
	LossPM   int `json:"loss_permille"` // probability of a gap in front of a packet
	ParkPM   int `json:"park_permille"`
}

func genConc(seed uint64) Scenario {
	r := core.NewRand(seed, "c14.conc")
	sc := Scenario{Seed: seed, StartSeq: uint16(r.Intn(65536))}
	if r.Bool(0.3) {
		sc.StartSeq = uint16(65536 - r.Range(1, 50))
	}
	sc.Conc = &Conc{Packets: r.Range(40, 200), PeriodUS: r.Pick(300, 900, 2500), GapUS: r.Pick(50, 150, 400),
		LossPM: r.Pick(100, 300, 600), ParkPM: r.Pick(50, 150, 350)}
	return sc
}

func runConc(t *testing.T, sc Scenario) *core.Result {
	cs := sc.Conc
	opts := sys.Options{Seed: sc.Seed, MaxSteps: 400000, Horizon: 10 * time.Minute, MaxHold: time.Millisecond, SimLocks: true,
		Yields: map[string]core.YieldSpec{"auto:receiver:": {Prob: float64(cs.ParkPM) / 1000}}}
	var sample map[string]any
	res := sys.Run(t, opts, func(w *sys.World) {
		w.ProbeInit("conc_reports_checked", "conc_report_with_loss", "conc_packet_during_report")
		var mu sync.Mutex
		var reports []rtcp.ReceptionReport
		inReport := false
		rr := &rtpreceiver.Receiver{ClockRate: 90000, Period: time.Duration(cs.PeriodUS)*time.Microsecond + 137, LocalSSRC: 7,
			WritePacketRTCP: func(p rtcp.Packet) {
				if r, ok := p.(*rtcp.ReceiverReport); ok && len(r.Reports) == 1 {
					mu.Lock()
					reports = append(reports, r.Reports[0])
					mu.Unlock()
				}
			}}
		_ = inReport
		if err := rr.Initialize(); err != nil {
			w.Fail("c14/harness receiver", "%v", err)
			return
		}
		w.Go("packets", func() {
			seq := sc.StartSeq
			for k := 0; k < cs.Packets; k++ {
				if k > 0 && core.H(sc.Seed, "loss", uint64(k))%1000 < uint64(cs.LossPM) {
					seq += uint16(1 + core.H(sc.Seed, "lossn", uint64(k))%5)
				}
				pkt := &rtp.Packet{Header: rtp.Header{Version: 2, PayloadType: 96, SequenceNumber: seq, Timestamp: uint32(k) * 3000, SSRC: 99}, Payload: []byte{1}}
				rr.ProcessPacket2(pkt, time.Now(), true) //nolint:errcheck
				seq++
				time.Sleep(time.Duration(cs.GapUS)*time.Microsecond + time.Duration(core.H(sc.Seed, "j", uint64(k))%997))
			}
			// one more period so that a last report covers the tail
			time.Sleep(2*time.Duration(cs.PeriodUS)*time.Microsecond + time.Millisecond)
			// Close at an instant at which the report goroutine is not held at a yield point and
			// no tick is due: otherwise its select finds the ticker and the terminate channel ready
			// together and the runtime picks one at random (the end of the log would differ from
			// run to run)
			w.S.ReleaseAllYields()
			time.Sleep(3*time.Millisecond + 61*time.Nanosecond)
			rr.Close()
			mu.Lock()
			defer mu.Unlock()
			for i := 1; i < len(reports); i++ {
				p, c := reports[i-1], reports[i]
				dExp := c.LastSequenceNumber - p.LastSequenceNumber
				dLost := c.TotalLost - p.TotalLost
				want := uint8(0)
				if dExp != 0 {
					want = uint8(uint64(dLost) * 256 / uint64(dExp))
				}
				if dLost > 0 {
					w.Probe("conc_report_with_loss")
				}
				if c.FractionLost != want {
					w.Fail("c14/o4-report conc", "receiver report #%d: fraction lost %d, but between this report and the previous one the cumulative loss grew by %d while the extended highest sequence number advanced by %d (=> %d): the interval figure does not describe the same history as the cumulative ones (reports produced while packets were being processed)",
						i, c.FractionLost, dLost, dExp, want)
					return
				}
				w.Probe("conc_reports_checked")
			}
			sample = map[string]any{"mode": "conc", "packets": cs.Packets, "reports": len(reports)}
		})
	})
	res.Nontrivial = res.Probes["conc_reports_checked"] > 0
	res.Sample = sample
	_ = fmt.Sprint
	return res
}
