package c14

import "sort"

// srcPkt is one packet of the ordered source.
type srcPkt struct {
	seq   uint16
	epoch int    // sender incarnation
	pos   int    // position inside the incarnation in sequence-number space (skipped numbers count)
	ssrc  uint32 //
	ts    uint32
}

// arrival is one packet handed to the receiver.
type arrival struct {
	id      int // source packet
	copy    int // 0 = original, >0 = duplicate made by the link
	key     int64
	pauseMS int
}

// plan is the arrival history derived from a scenario (pure function of it).
type plan struct {
	src       []srcPkt
	arr       []arrival
	epochs    int
	epochLast []int // last source id of each incarnation
	jumps     []int // jump that opened each incarnation (index 0 unused)
	// faults that are part of the history (the others are counted when fed)
	drops, bursts, restarts int
}

func build(sc *Scenario) *plan {
	n := sc.N
	if n < 1 {
		n = 1
	}
	if n > maxN {
		n = maxN
	}
	p := &plan{}
	// restarts: sorted, inside the stream, one per index
	rs := append([]Restart(nil), sc.Restarts...)
	sort.SliceStable(rs, func(i, j int) bool { return rs[i].At < rs[j].At })
	restartAt := map[int]Restart{}
	for _, r := range rs {
		if r.At > 0 && r.At < n {
			if _, dup := restartAt[r.At]; !dup {
				restartAt[r.At] = r
			}
		}
	}
	dropped := make([]bool, n)
	burst := make([]int, n)
	delay := make([]int, n)
	pause := make([]int, n)
	var dups [][]int
	for _, f := range sc.Faults {
		if f.At < 0 || f.At >= n {
			continue
		}
		switch f.Kind {
		case "drop":
			if f.At > 0 {
				dropped[f.At] = true
			}
		case "burst":
			if f.At > 0 && f.N > 0 {
				burst[f.At] = minInt(maxBurst, burst[f.At]+f.N)
			}
		case "delay":
			if sc.Unreliable && f.N > 0 {
				delay[f.At] = f.N
			}
		case "dup":
			if sc.Unreliable && f.N >= 0 {
				if dups == nil {
					dups = make([][]int, n)
				}
				if len(dups[f.At]) < 8 {
					dups[f.At] = append(dups[f.At], f.N)
				}
			}
		case "pause":
			if f.N > 0 {
				pause[f.At] = minInt(60000, pause[f.At]+f.N)
			}
		}
	}

	p.src = make([]srcPkt, n)
	cur := sc.StartSeq
	epoch, pos := 0, 0
	ssrc := uint32(0x5EED0000)
	p.jumps = []int{0}
	for id := 0; id < n; id++ {
		if r, ok := restartAt[id]; ok {
			p.epochLast = append(p.epochLast, id-1)
			cur += uint16(r.Jump)
			epoch++
			pos = 0
			if r.NewSSRC {
				ssrc += 0x101
			}
			p.jumps = append(p.jumps, r.Jump)
			p.restarts++
		}
		if b := burst[id]; b > 0 {
			// one incarnation spans fewer than 2^15 sequence numbers, so that
			// any two of its packets compare unambiguously modulo 2^16
			if pos+b > maxSpan {
				b = maxInt(0, maxSpan-pos)
			}
			if b > 0 {
				cur += uint16(b)
				pos += b
				p.bursts++
			}
		}
		p.src[id] = srcPkt{seq: cur, epoch: epoch, pos: pos, ssrc: ssrc, ts: uint32(id) * 3000}
		cur++
		pos++
		if dropped[id] {
			p.drops++
		}
	}
	p.epochLast = append(p.epochLast, n-1)
	p.epochs = epoch + 1

	p.arr = make([]arrival, 0, n+8)
	for id := 0; id < n; id++ {
		last := p.epochLast[p.src[id].epoch]
		if !dropped[id] {
			a := arrival{id: id, key: 4 * int64(id), pauseMS: pause[id]}
			if delay[id] > 0 {
				a.key = 4*int64(minInt(id+delay[id], last)) + 2
			}
			p.arr = append(p.arr, a)
		}
		if dups != nil {
			for c, by := range dups[id] {
				p.arr = append(p.arr, arrival{id: id, copy: c + 1, key: 4*int64(minInt(id+by, last)) + 1})
			}
		}
	}
	sort.SliceStable(p.arr, func(i, j int) bool {
		a, b := p.arr[i], p.arr[j]
		if a.key != b.key {
			return a.key < b.key
		}
		if a.id != b.id {
			return a.id < b.id
		}
		return a.copy < b.copy
	})
	return p
}
