// Package c14 decides C14 (RTP receiver: ordered, de-duplicated delivery and
// exact loss accounting) by feeding the real rtpreceiver.Receiver with arrival
// histories produced by a simulated lossy link (DESIGN 3.9).
//
// Files: c14.go (scenario, generator, shrinker, registration), link.go (the
// simulated source and link: scenario -> arrival history), run.go (the run
// and the oracles).
package c14

import (
	"sort"

	"verifsim/core"
	"verifsim/simnet"
)

// Fault is one fate decided by the link (or, for "burst", by the link or the
// sending side) for the source packet with index At.
//
//	drop   the packet never arrives
//	burst  N consecutive sequence numbers before packet At never arrive
//	       (they are not materialised as source packets)
//	dup    one extra copy of the packet arrives N positions later (0 = right
//	       after the original position)
//	delay  the packet arrives N positions later than its place in the stream
//	pause  the link is silent for N milliseconds before packet At
type Fault struct {
	Kind string `json:"k"`
	At   int    `json:"at"`
	N    int    `json:"n,omitempty"`
}

// Restart makes the sender restart before source packet At: the sequence
// number continues at (next sequence number + Jump) modulo 2^16.
type Restart struct {
	At      int  `json:"at"`
	Jump    int  `json:"jump"`
	NewSSRC bool `json:"new_ssrc,omitempty"`
}

// Scenario is the replay file: source stream, receiver configuration and the
// explicit list of link fates.
type Scenario struct {
	Seed       uint64    `json:"seed"`
	StartSeq   uint16    `json:"start_seq"`
	N          int       `json:"n"`   // number of source packets
	Buf        int       `json:"buf"` // Receiver.BufferSize, 0 = library default
	Unreliable bool      `json:"unreliable"`
	PeriodMS   int       `json:"period_ms"`
	GapUS      int       `json:"gap_us"` // scale of the idle time between arrivals
	Faults     []Fault   `json:"faults,omitempty"`
	Restarts   []Restart `json:"restarts,omitempty"`
	// Conc (mode conc, see conc.go): reports produced while packets are being processed.
	Conc *Conc `json:"conc,omitempty"`
	// Whole (mode whole, see whole.go): the receiver behind the library's UDP entry points.
	Whole *Whole `json:"whole,omitempty"`
	// Strict selects the literal reading of the statement (never set by the
	// generator; used to replay the two observations listed in Assumptions):
	// only injected restarts excuse a backward step or a repeated delivery, and
	// every packet displaced by fewer than BufferSize positions must be
	// delivered even when an older loss is still unresolved.
	Strict bool `json:"strict,omitempty"`
}

const (
	maxN     = 8000
	maxBurst = 30000
	maxSpan  = 24000 // bursts are shortened so that an incarnation stays below maxSpan+maxN < 2^15 sequence numbers
)

func effBuf(b int) int {
	if b <= 0 {
		return 64 // documented default of Receiver.BufferSize
	}
	return b
}

func gen(seed uint64, tier string) Scenario {
	// a twelfth of the runs: reports concurrent with packets (hash-derived so that no other choice moves)
	if core.HS(seed, "c14.conc", "", 0)%12 == 0 {
		return genConc(seed)
	}
	// a tenth: the receiver as the client and the server configure it, datagrams over the simulated network
	if core.HS(seed, "c14.whole", "", 0)%10 == 0 {
		return genWhole(seed)
	}
	r := core.NewRand(seed, "c14")
	sc := Scenario{Seed: seed}
	sc.Unreliable = r.Bool(0.7)
	bufs := []int{0, 1, 1, 2, 2, 4, 4, 4, 8, 8, 8, 16, 16, 16, 32, 32, 64, 64, 128, 256, 512}
	sc.Buf = bufs[r.Intn(len(bufs))]
	b := effBuf(sc.Buf)

	// epochs (sender incarnations)
	nEp := 1
	switch u := r.Float(); {
	case u < 0.45:
	case u < 0.8:
		nEp = 2
	default:
		nEp = 3
	}
	type span struct{ from, to int }
	var eps []span
	n := 0
	for e := 0; e < nEp; e++ {
		l := r.Range(2*b+8, 4*b+120)
		if r.Bool(0.15) {
			l = r.Range(3, 2*b+8) // short incarnation
		}
		eps = append(eps, span{n, n + l})
		n += l
	}
	tail := b + 2 + r.Intn(8)
	n += tail
	if n > maxN {
		n = maxN
	}
	sc.N = n

	// start sequence number: every wrap position is reachable
	switch u := r.Float(); {
	case u < 0.45:
		sc.StartSeq = uint16(65536 - r.Intn(n+1)) // wrap inside the run
	case u < 0.55:
		sc.StartSeq = []uint16{0, 1, 65535, 65534, 32767, 32768, 0x0FFF, 0xF000}[r.Intn(8)]
	default:
		sc.StartSeq = uint16(r.Intn(65536))
	}

	// swarm: which fault kinds are enabled in this run and how dense they are
	pDrop, pDup, pDelay := 0.0, 0.0, 0.0
	nBurst, nBlock, nPause := 0, 0, 0
	if r.Bool(0.6) {
		pDrop = r.Float() * 0.05
	}
	if r.Bool(0.6) {
		nBurst = r.Range(1, 3)
	}
	if sc.Unreliable {
		if r.Bool(0.6) {
			pDup = r.Float() * 0.06
		}
		if r.Bool(0.7) {
			pDelay = r.Float() * 0.08
		}
		if r.Bool(0.25) {
			nBlock = r.Range(1, 2)
		}
	}
	if r.Bool(0.3) {
		nPause = r.Range(1, 2)
	}
	body := n - tail
	if body < 1 {
		body = 1
	}
	delayBy := func() int {
		switch u := r.Float(); {
		case u < 0.2:
			return r.Range(1, 3)
		case u < 0.7:
			return r.Range(1, maxInt(1, b-1)) // below the buffer size: must survive
		case u < 0.8:
			return b - 1 + r.Intn(3) // around the limit
		default:
			return r.Range(b, 2*b+2) // beyond the buffer
		}
	}
	for i := 1; i < body; i++ {
		if pDrop > 0 && r.Bool(pDrop) {
			sc.Faults = append(sc.Faults, Fault{Kind: "drop", At: i})
		}
		if pDup > 0 && r.Bool(pDup) {
			k := 1
			if r.Bool(0.2) {
				k = r.Range(2, 4) // several copies
			}
			for j := 0; j < k; j++ {
				by := 0
				if r.Bool(0.6) {
					by = r.Intn(2*b + 2)
				}
				sc.Faults = append(sc.Faults, Fault{Kind: "dup", At: i, N: by})
			}
		}
		if pDelay > 0 && r.Bool(pDelay) {
			sc.Faults = append(sc.Faults, Fault{Kind: "delay", At: i, N: delayBy()})
		}
	}
	for k := 0; k < nBurst; k++ {
		ln := 0
		switch u := r.Float(); {
		case u < 0.5:
			ln = r.Range(2, maxInt(2, b))
		case u < 0.8:
			ln = r.Range(b, 3*b+10)
		case u < 0.95:
			ln = r.Range(100, 5000)
		default:
			ln = r.Range(5000, maxBurst)
		}
		sc.Faults = append(sc.Faults, Fault{Kind: "burst", At: r.Range(1, body), N: ln})
	}
	for k := 0; k < nBlock; k++ {
		// a block of consecutive packets takes a slower path and arrives
		// together, later
		m := r.Range(2, maxInt(2, 2*b))
		if m > 200 {
			m = 200
		}
		at := r.Range(1, body)
		by := r.Range(1, b+4)
		for j := 0; j < m && at+j < body; j++ {
			sc.Faults = append(sc.Faults, Fault{Kind: "delay", At: at + j, N: m - j + by})
		}
	}

	// restarts
	for e := 1; e < nEp; e++ {
		at := eps[e].from
		if at >= body {
			break
		}
		var jump int
		far := 4*b + 300
		switch u := r.Float(); {
		case u < 0.5: // backwards, far away
			jump = -r.Range(far, 32000)
		case u < 0.85: // forwards, far away
			jump = r.Range(far, 32000-b)
		case u < 0.93: // close to half the sequence space
			jump = []int{-32768, -32767, 32767, 32766, -32768 + b, 32767 - b}[r.Intn(6)]
		default: // near the old position: ambiguous with reordering
			jump = r.Range(-2*b-2, 2*b+2)
		}
		sc.Restarts = append(sc.Restarts, Restart{At: at, Jump: jump, NewSSRC: r.Bool(0.5)})
	}

	// report ticker and pacing: the run spans a handful of report periods
	sc.PeriodMS = r.Pick(5, 10, 20, 50, 100)
	periods := r.Range(2, 10)
	sc.GapUS = maxInt(2, sc.PeriodMS*1000*periods*4/maxInt(1, n))
	for k := 0; k < nPause; k++ {
		sc.Faults = append(sc.Faults, Fault{Kind: "pause", At: r.Range(1, n-1), N: r.Range(1, 3*sc.PeriodMS)})
	}
	sort.SliceStable(sc.Faults, func(i, j int) bool { return sc.Faults[i].At < sc.Faults[j].At })
	return sc
}

func maxInt(a, b int) int {
	if a > b {
		return a
	}
	return b
}

func minInt(a, b int) int {
	if a < b {
		return a
	}
	return b
}

func shrink(sc Scenario) []Scenario {
	if sc.Whole != nil {
		var out []Scenario
		if sc.Whole.Packets > 30 {
			c := sc
			ww := *sc.Whole
			ww.Packets /= 2
			c.Whole = &ww
			out = append(out, c)
		}
		for _, f := range []func(*simnet.Config){func(n *simnet.Config) { n.UDPDup = 0 }, func(n *simnet.Config) { n.UDPDrop = 0 }, func(n *simnet.Config) { n.UDPReorder = 0 }} {
			c := sc
			ww := *sc.Whole
			before := ww.Net
			f(&ww.Net)
			if ww.Net != before {
				c.Whole = &ww
				out = append(out, c)
			}
		}
		return out
	}
	if sc.Conc != nil {
		var out []Scenario
		if sc.Conc.Packets > 20 {
			c := sc
			cc := *sc.Conc
			cc.Packets /= 2
			c.Conc = &cc
			out = append(out, c)
		}
		return out
	}
	var out []Scenario
	clone := func() Scenario {
		c := sc
		c.Faults = append([]Fault(nil), sc.Faults...)
		c.Restarts = append([]Restart(nil), sc.Restarts...)
		return c
	}
	cut := func(n int) Scenario {
		c := clone()
		c.N = n
		c.Faults = c.Faults[:0]
		for _, f := range sc.Faults {
			if f.At < n {
				c.Faults = append(c.Faults, f)
			}
		}
		c.Restarts = c.Restarts[:0]
		for _, r := range sc.Restarts {
			if r.At < n {
				c.Restarts = append(c.Restarts, r)
			}
		}
		return c
	}
	// drop all faults / all restarts / halves of the fault list
	if len(sc.Faults) > 0 && len(sc.Restarts) > 0 {
		c := clone()
		c.Faults = nil
		out = append(out, c)
		c = clone()
		c.Restarts = nil
		out = append(out, c)
	}
	if len(sc.Faults) > 1 {
		h := len(sc.Faults) / 2
		c := clone()
		c.Faults = c.Faults[:h]
		out = append(out, c)
		c = clone()
		c.Faults = c.Faults[h:]
		out = append(out, c)
	}
	// shorter stream
	for _, n := range []int{sc.N / 2, sc.N * 3 / 4, sc.N - 1} {
		if n >= 1 && n < sc.N {
			out = append(out, cut(n))
		}
	}
	// cut the head: remove the first k source packets
	for _, k := range []int{sc.N / 2, sc.N / 4, 1} {
		if k < 1 || k >= sc.N {
			continue
		}
		c := clone()
		c.N = sc.N - k
		c.Faults = c.Faults[:0]
		for _, f := range sc.Faults {
			if f.At >= k {
				f.At -= k
				c.Faults = append(c.Faults, f)
			}
		}
		c.Restarts = c.Restarts[:0]
		for _, r := range sc.Restarts {
			if r.At > k {
				r.At -= k
				c.Restarts = append(c.Restarts, r)
			}
		}
		out = append(out, c)
	}
	// single restarts, single faults
	for i := range sc.Restarts {
		c := clone()
		c.Restarts = append(c.Restarts[:i], c.Restarts[i+1:]...)
		out = append(out, c)
	}
	if len(sc.Faults) <= 64 {
		for i := range sc.Faults {
			c := clone()
			c.Faults = append(c.Faults[:i], c.Faults[i+1:]...)
			out = append(out, c)
		}
	}
	// smaller magnitudes
	for i, f := range sc.Faults {
		if f.N > 1 && len(sc.Faults) <= 64 {
			c := clone()
			c.Faults[i].N = f.N / 2
			out = append(out, c)
			c = clone()
			c.Faults[i].N = f.N - 1
			out = append(out, c)
		}
	}
	for i, r := range sc.Restarts {
		if r.NewSSRC {
			c := clone()
			c.Restarts[i].NewSSRC = false
			out = append(out, c)
		}
		for _, j := range []int{-20000, 20000} {
			if r.Jump != j {
				c := clone()
				c.Restarts[i].Jump = j
				out = append(out, c)
			}
		}
	}
	// simpler parameters
	if b := effBuf(sc.Buf); b > 1 {
		c := clone()
		c.Buf = b / 2
		out = append(out, c)
	}
	if sc.Buf == 0 {
		c := clone()
		c.Buf = 64
		out = append(out, c)
	}
	for _, s := range []uint16{0, 65530, 1000} {
		if sc.StartSeq != s {
			c := clone()
			c.StartSeq = s
			out = append(out, c)
		}
	}
	if sc.PeriodMS < 1000 {
		c := clone()
		c.PeriodMS = 1000
		out = append(out, c)
	}
	if sc.GapUS > 2 {
		c := clone()
		c.GapUS = 2
		out = append(out, c)
	}
	return out
}

func init() {
	f := core.Register("C14", gen, run, shrink)
	f.Real = []string{
		"pkg/rtpreceiver.Receiver (Initialize, ProcessPacket2, Stats, Close, its report goroutine and time.Ticker on the fake clock)",
		"mode whole (a tenth of the runs): gortsplib.Client playing over UDP from a scripted server (client_format.go creates the receiver), gortsplib.Server recording over UDP from a scripted publisher (server_session_format.go does)",
		"pion/rtp.Packet, pion/rtcp.ReceiverReport",
	}
	f.Simulated = []string{
		"ordered RTP source (start sequence number, sender restarts with a jump of the sequence number and optionally a new SSRC)",
		"lossy link: single drops, loss bursts (skipped sequence numbers), duplication (extra copies arriving 0..2*BufferSize+1 positions later), bounded displacement (single packets and blocks arriving later than their place), silences; reliable mode: no duplication and no displacement",
		"mode whole: scripted server / publisher (harness code on pkg/base + pkg/conn), UDP datagrams over simnet with loss, duplication and displacement by up to ~10 positions",
		"time: arrivals are separated by seeded idle times on the fake clock of a synctest bubble; the receiver's report ticker fires between arrivals",
	}
	f.Excluded = []string{
		"BufferSize that is not a power of two",
		"loss bursts of 2^15 or more sequence numbers (in 16-bit arithmetic they are a jump backwards) and sender incarnations spanning 2^15 or more sequence numbers (a late packet would compare as ahead)",
		"displacement or duplication across a sender restart (a packet of the old incarnation arriving after the first packet of the new one)",
		"jitter, SSRC fields, sender-report fields of the receiver report, PacketNTP (C15)",
		"sender reports (ProcessSenderReport is not called)",
	}
	f.Rule = "scenario = mode (unreliable 70% / reliable) x BufferSize (0=default, 1..512 powers of two) x start sequence number (45% chosen so that the 65535->0 wrap falls at a uniformly chosen position inside the run, 10% edge values, else uniform over all 65536) x 1..3 sender incarnations (restart jump far backwards / far forwards / about half the sequence space / near) x explicit per-packet link fates (drop, burst, dup, delay, block delay, pause; each kind enabled per run with its own density) x report period 5..100 ms and pacing; a twelfth: reports concurrent with packets; a tenth: whole-system mode (side client/server x AnyPortEnable x SETUP answer with / without / zero server ports x network loss, duplication, displacement; oracles: strictly increasing callbacks, OnPacketsLost total = skipped numbers, everything delivered when nothing is lost); a tail of BufferSize+2.. undisturbed packets ends the run. A run is non-trivial when at least one link fault or restart fired, at least BufferSize+2 packets were delivered and at least one receiver report was captured. Two runs are distinct when the hash of their (arrival, deliveries, lost) event sequence and captured reports differs."
	f.Assumptions = []string{
		"'detected sender restart' is read with the statement's own bound: BufferSize+1 consecutive arrivals that are all at or behind the last delivered sequence number are a restart as far as any receiver can tell, so a backward step of the delivered sequence (or a repeated delivery) at such an arrival is accepted, whether the scenario injected a restart or the run of stale packets was made of duplicates and late packets; a backward step anywhere else is a violation (a scenario with \"strict\": true accepts only injected restarts: with BufferSize 1 two extra copies of one packet are then reported as a duplicate delivery)",
		"oracle 2 (displaced packet is delivered) is asserted for a packet P only when (a) the incarnation it belongs to is already being followed (an earlier packet of it was delivered; for the first incarnation: P is not the very first arrival's predecessor), (b) every packet that overtook P lies within BufferSize-1 sequence numbers of P, (c) when P was first overtaken the receiver had delivered P's immediate predecessor, i.e. P's lateness was the only open gap, (d) at least one packet BufferSize or more sequence numbers after P arrives later in the same incarnation (so the receiver had to decide), (e) no (accepted) restart detection happened between P being overtaken and P being delivered. Packets that are late while an older loss is still unresolved are counted in probe o2_literal_miss when dropped and reported only in scenarios with \"strict\": true (BufferSize 4, packet k lost, packet k+1 arriving after k+4: the receiver flushes at k+4 and then discards k+1 although it is displaced by 3 < 4 positions)",
		"packets waiting in the reorder buffer when a restart is detected may be discarded (the statement's exception for restarts is taken to cover them)",
		"what is reported as lost by the call that crosses an injected restart or an accepted restart detection is not constrained; Stats().Lost and TotalLost are compared with the sum of the values returned by ProcessPacket2, and that sum with the skipped sequence numbers on every other call",
		"the cycle count of the extended highest sequence number after a restart is not constrained: the first report after a restart is only checked in its low 16 bits and re-bases the model",
		"fraction lost: floor or ceiling of 256*lost/(received+lost) over the interval since the previous captured report are both accepted; an interval without deliveries must report 0",
		"Stats().Received is read as the number of packets handed to the application",
		"the follow-up bound after a restart (BufferSize+1) counts arrival events of the new incarnation, duplicates included, and is asserted only when the first BufferSize+1 arrivals of the new incarnation are all behind, or all at least BufferSize ahead of, the last delivered packet; other restarts (near the old position, about half the space away) switch all oracles but 'no panic' off for the rest of the run (probe restart_unclean)",
		"arrival instants never coincide with a tick of the report ticker (arrivals at odd microseconds, periods in whole milliseconds)",
	}
}
