// Package c14 holds the scenario family of property C14.
package c14
