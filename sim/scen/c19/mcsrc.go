package c19

import (
	"bufio"
	"encoding/binary"
	"net"
	"sync"
	"testing"
	"time"

	"github.com/pion/rtcp"
	"github.com/pion/rtp"

	gortsplib "github.com/bluenviron/gortsplib/v5"
	"github.com/bluenviron/gortsplib/v5/pkg/base"
	"github.com/bluenviron/gortsplib/v5/pkg/conn"
	"github.com/bluenviron/gortsplib/v5/pkg/description"
	"github.com/bluenviron/gortsplib/v5/pkg/format"
	"github.com/bluenviron/gortsplib/v5/pkg/headers"

	"verifsim/core"
	"verifsim/simnet"
	"verifsim/sys"
)

// Workload "mcsrc": a reading client with the UDP-multicast transport against a scripted,
// well-behaved multicast camera whose SETUP answer names the source of the group traffic
// (Transport: ...;multicast;destination=G;port=5000-5001;source=S with S another host than the
// RTSP server, as relays do; in a third of the runs no source= is given and the RTSP server's
// address is the source). The negotiated peer is (S, group port): its datagrams must be
// delivered; valid RTP for the session and RTCP sender reports sent to the group from anywhere
// else - the RTSP server's own address when S names another host, S with another port, other
// hosts - must be ignored by callbacks and statistics.
func runMcsrc(t *testing.T, sc Scenario) *core.Result {
	opts := sys.Options{Seed: sc.Seed, Net: sc.Net, MaxSteps: 300000, Horizon: 5 * time.Minute}
	var summary map[string]any
	res := sys.Run(t, opts, func(w *sys.World) {
		w.ProbeInit("mcsrc_runs", "mcsrc_source_named", "mcsrc_legit_delivered", "mcsrc_forged_sent", "mcsrc_stats_match", "legit_packets_delivered", "spoofed_datagrams_delivered_to_socket")
		w.Probe("mcsrc_runs")
		srvNode := w.Net.Node("srv", "10.0.0.1")
		relayNode := w.Net.Node("relay", "10.0.0.9")
		cliNode := w.Net.Node("cli", "127.0.0.1") // the client needs a real interface with its local address
		spoofNode := w.Net.Node("spoofer", "10.0.0.66")
		_ = relayNode
		srcIP := "10.0.0.1"
		if sc.SrcNamed {
			srcIP = "10.0.0.9"
			w.Probe("mcsrc_source_named")
		}
		const group = "224.1.0.9"

		ln, err := srvNode.Listen("tcp", "10.0.0.1:8554")
		if err != nil {
			w.Fail("c19/harness", "listen: %v", err)
			return
		}
		playing := make(chan struct{})
		var playOnce sync.Once
		var cmu sync.Mutex
		var conns []net.Conn
		w.Go("camera", func() {
			for {
				nc, err := ln.Accept()
				if err != nil {
					return
				}
				cmu.Lock()
				conns = append(conns, nc)
				cmu.Unlock()
				c := conn.NewConn(bufio.NewReader(nc), nc)
				for {
					nc.SetReadDeadline(time.Now().Add(2 * time.Minute)) //nolint:errcheck
					what, err := c.Read()
					if err != nil {
						break
					}
					req, ok := what.(*base.Request)
					if !ok {
						continue
					}
					res := &base.Response{StatusCode: base.StatusOK, Header: base.Header{"CSeq": req.Header["CSeq"]}}
					switch req.Method {
					case base.Options:
						res.Header["Public"] = base.HeaderValue{"DESCRIBE, SETUP, PLAY, PAUSE, GET_PARAMETER, TEARDOWN"}
					case base.Describe:
						body, _ := mkDesc().Marshal()
						res.Header["Content-Type"] = base.HeaderValue{"application/sdp"}
						res.Header["Content-Base"] = base.HeaderValue{"rtsp://10.0.0.1:8554/stream/"}
						res.Body = body
					case base.Setup:
						var th headers.Transport
						if err := th.Unmarshal(req.Header["Transport"]); err != nil || th.Delivery == nil || *th.Delivery != headers.TransportDeliveryMulticast {
							res.StatusCode = base.StatusUnsupportedTransport
							break
						}
						deliv := headers.TransportDeliveryMulticast
						grp := group
						ttl := uint(127)
						out := headers.Transport{Protocol: headers.TransportProtocolUDP, Profile: th.Profile, Delivery: &deliv, Destination2: &grp, Ports: &[2]int{5000, 5001}, TTL: &ttl}
						if sc.SrcNamed {
							s := srcIP
							out.Source2 = &s
						}
						res.Header["Transport"] = out.Marshal()
						res.Header["Session"] = base.HeaderValue{"c19mcsrc;timeout=60"}
					case base.Play:
						res.Header["Session"] = base.HeaderValue{"c19mcsrc"}
					default:
						res.Header["Session"] = base.HeaderValue{"c19mcsrc"}
					}
					if err := c.WriteResponse(res); err != nil {
						break
					}
					if req.Method == base.Play {
						playOnce.Do(func() { close(playing) })
					}
				}
				nc.Close()
			}
		})

		// wire tap: what reached the reader's group sockets, by source
		var tmu sync.Mutex
		legitBytes, forgedSeen := 0, 0
		w.Net.AddTap(func(ev simnet.TapEvent) {
			if ev.Kind != "udp.deliver" || ev.Node != "cli" {
				return
			}
			from := ev.From.(*net.UDPAddr)
			to := ev.To.(*net.UDPAddr)
			forged := len(ev.Data) >= 16 && binary.BigEndian.Uint32(ev.Data[12:]) == spoofMagic || (len(ev.Data) >= 8 && ev.Data[1] == 200 && binary.BigEndian.Uint32(ev.Data[4:]) == spoofMagic)
			tmu.Lock()
			if forged {
				forgedSeen++
			} else if from.IP.String() == srcIP && from.Port == to.Port {
				legitBytes += len(ev.Data)
			}
			tmu.Unlock()
		})

		var mu sync.Mutex
		var got []int
		p := gortsplib.ProtocolUDPMulticast
		c := &gortsplib.Client{Scheme: "rtsp", Host: "10.0.0.1:8554", Protocol: &p}
		sys.WireClient(c, cliNode, w.Net, nil)
		c.OnPacketsLost = func(uint64) {}
		c.OnDecodeError = func(error) {}
		sent := 0
		w.Go("legit", func() {
			defer playOnce.Do(func() { close(playing) })
			if err := c.Start(); err != nil {
				w.Fail("c19/api-error client", "%v", err)
				return
			}
			defer c.Close()
			u, _ := base.ParseURL("rtsp://10.0.0.1:8554/stream")
			d, _, err := c.Describe(u)
			if err != nil {
				w.Fail("c19/api-error client", "Describe: %v", err)
				return
			}
			if err := c.SetupAll(d.BaseURL, d.Medias); err != nil {
				w.Fail("c19/api-error client", "SetupAll (multicast, source named: %v): %v", sc.SrcNamed, err)
				return
			}
			c.OnPacketRTPAny(func(_ *description.Media, _ format.Format, pkt *rtp.Packet) {
				mu.Lock()
				defer mu.Unlock()
				if len(pkt.Payload) >= 8 && binary.BigEndian.Uint32(pkt.Payload) == spoofMagic {
					w.Fail("c19/spoofed-media delivered", "a forged RTP packet sent to the multicast group from a source other than the negotiated one (%s:5000; source named in the SETUP answer: %v) reached the packet callback", srcIP, sc.SrcNamed)
					return
				}
				if len(pkt.Payload) >= 8 && binary.BigEndian.Uint32(pkt.Payload) == legitMagic {
					got = append(got, int(binary.BigEndian.Uint32(pkt.Payload[4:])))
				}
			})
			c.OnPacketRTCPAny(func(_ *description.Media, pkt rtcp.Packet) {
				if sr, ok := pkt.(*rtcp.SenderReport); ok && sr.SSRC == spoofMagic {
					w.Fail("c19/spoofed-media delivered", "a forged RTCP sender report sent to the multicast group from a source other than the negotiated one reached the client's RTCP callback")
				}
			})
			if _, err := c.Play(nil); err != nil {
				w.Fail("c19/api-error client", "Play: %v", err)
				return
			}
			// the negotiated source feeds the group
			sock, err := spoofNode.ListenPacket("udp", ":5556")
			if err != nil {
				return
			}
			defer sock.Close()
			us := sock.(*simnet.UDPSock)
			src := &net.UDPAddr{IP: net.ParseIP(srcIP), Port: 5000}
			dst := &net.UDPAddr{IP: net.ParseIP(group), Port: 5000}
			for k := 0; k < sc.Packets; k++ {
				b, _ := (&rtp.Packet{Header: rtp.Header{Version: 2, PayloadType: 96, SequenceNumber: uint16(1000 + k), Timestamp: uint32(k * 1800), SSRC: 0x12345678}, Payload: payload(legitMagic, k)}).Marshal()
				us.WriteFromTo(b, src, dst) //nolint:errcheck
				sent++
				time.Sleep(20 * time.Millisecond)
			}
			time.Sleep(200 * time.Millisecond)
			mu.Lock()
			ngot := len(got)
			mu.Unlock()
			if ngot != sent {
				w.Fail("c19/negotiated-source ignored", "%d RTP packets were sent to the group from the negotiated source %s:5000 (source named in the SETUP answer: %v) over a network that loses nothing; %d reached the packet callback", sent, srcIP, sc.SrcNamed, ngot)
				return
			}
			w.Probe("mcsrc_legit_delivered")
			w.Probe("legit_packets_delivered")
			tmu.Lock()
			lb, fs := legitBytes, forgedSeen
			tmu.Unlock()
			if inb := c.Stats().Session.InboundBytes; inb != uint64(lb) {
				w.Fail("c19/spoofed-media counted", "the session's inbound byte counter is %d but %d bytes arrived from the negotiated source (forged datagrams reaching the group sockets: %d)", inb, lb, fs)
				return
			}
			w.Probe("mcsrc_stats_match")
		})

		w.Go("spoofer", func() {
			<-playing
			if w.Failed() {
				return
			}
			sock, err := spoofNode.ListenPacket("udp", ":5555")
			if err != nil {
				return
			}
			defer sock.Close()
			us := sock.(*simnet.UDPSock)
			seq := uint16(1000 + sc.Packets/2)
			start := time.Now()
			for _, sp := range sc.Spoofs {
				if d := ms(sp.AtMS) - time.Since(start); d > 0 {
					time.Sleep(d)
				}
				port := 5000
				if sp.Target == "rtcp" {
					port = 5001
				}
				dst := &net.UDPAddr{IP: net.ParseIP(group), Port: port}
				var from *net.UDPAddr
				switch sp.Src {
				case "rtsp-server":
					// the RTSP server's own address with the group port: the negotiated source only when
					// the SETUP answer named no other
					if !sc.SrcNamed {
						from = &net.UDPAddr{IP: net.ParseIP("10.0.0.66"), Port: port}
					} else {
						from = &net.UDPAddr{IP: net.ParseIP("10.0.0.1"), Port: port}
					}
				case "same-ip-other-port":
					from = &net.UDPAddr{IP: net.ParseIP(srcIP), Port: port + 2}
				case "other-ip-same-port":
					from = &net.UDPAddr{IP: net.ParseIP("10.0.0.66"), Port: port}
				default:
					from = &net.UDPAddr{IP: net.ParseIP("10.0.0.66"), Port: 5555}
				}
				for k := 0; k < sp.Count; k++ {
					var b []byte
					if sp.Target == "rtp" {
						b, _ = (&rtp.Packet{Header: rtp.Header{Version: 2, PayloadType: 96, SequenceNumber: seq, Timestamp: uint32(seq) * 1800, SSRC: 0x12345678}, Payload: payload(spoofMagic, k)}).Marshal()
						seq++
					} else {
						b, _ = (&rtcp.SenderReport{SSRC: spoofMagic, NTPTime: 1 << 40, RTPTime: 1234}).Marshal()
					}
					us.WriteFromTo(b, from, dst) //nolint:errcheck
					w.Probe("mcsrc_forged_sent")
					time.Sleep(3 * time.Millisecond)
				}
			}
		})

		w.Go("closer", func() {
			w.WaitDrivers("legit", "spoofer")
			ln.Close()
			cmu.Lock()
			for _, nc := range conns {
				nc.Close()
			}
			cmu.Unlock()
		})

		w.AtEnd(func() {
			if w.Failed() {
				return
			}
			tmu.Lock()
			fs := forgedSeen
			tmu.Unlock()
			if fs > 0 {
				w.ProbeAdd("spoofed_datagrams_delivered_to_socket", fs)
			}
			summary = map[string]any{"workload": "mcsrc", "source_named": sc.SrcNamed, "sent": sent, "forged_reached_socket": fs}
		})
	})
	res.Nontrivial = res.Probes["mcsrc_legit_delivered"] > 0 && res.Probes["spoofed_datagrams_delivered_to_socket"] > 0
	res.Sample = summary
	return res
}
