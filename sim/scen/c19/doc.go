// Package c19 holds the scenario family of property C19.
package c19
