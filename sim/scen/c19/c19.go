// Package c19 decides C19 (media and control are bound to the negotiated peer)
// by whole-system simulation with a spoofing node and an intruding control
// connection (DESIGN 3.14).
package c19

import (
	"context"
	"encoding/binary"
	"fmt"
	"net"
	"sort"
	"strings"
	"sync"
	"testing"
	"time"

	"github.com/pion/rtcp"
	"github.com/pion/rtp"

	gortsplib "github.com/bluenviron/gortsplib/v5"
	"github.com/bluenviron/gortsplib/v5/pkg/base"
	"github.com/bluenviron/gortsplib/v5/pkg/description"
	"github.com/bluenviron/gortsplib/v5/pkg/format"

	"verifsim/core"
	"verifsim/peers"
	"verifsim/simnet"
	"verifsim/sys"
)

// Spoof is one burst of forged datagrams.
type Spoof struct {
	AtMS   int    `json:"at_ms"`
	Target string `json:"target"` // rtp | rtcp (of the side that receives media: the client when playing, the server when recording)
	Src    string `json:"src"`    // reader-ip-other-port (mcast: the reader's address with a port other than the negotiated one, to the group) | other-ip | other-ip-same-port | same-ip-other-port | mapped-other-ip | v6-prefix | v6-compat | v6-nat64 (IPv6 addresses built from the bytes of the negotiated IPv4 one)
	Count  int    `json:"count"`
}

// Intrusion is one foreign control request carrying the stolen session id.
type Intrusion struct {
	State  string `json:"state"`  // after which step of the legitimate client: setup | play | pause
	From   string `json:"from"`   // other-ip | same-ip
	Method string `json:"method"` // OPTIONS | GET_PARAMETER | PLAY | PAUSE | TEARDOWN | SETUP | RECORD
}

// Scenario is one C19 run.
type Scenario struct {
	Seed       uint64        `json:"seed"`
	Net        simnet.Config `json:"net"`
	Role       string        `json:"role"`      // play | record
	Transport  string        `json:"transport"` // udp | tcp | mcast (UDP-multicast reader; play only)
	AnyPort    bool          `json:"any_port"`
	Spoofs     []Spoof       `json:"spoofs"`
	Intrusions []Intrusion   `json:"intrusions"`
	VanishAtMS int           `json:"vanish_at_ms"` // the legitimate peer disappears silently (0 = never)
	// QuietAtMS (play over udp): the negotiated source stops sending at this instant while the spoofer
	// goes on from the server's address with another port (and from other addresses): the reading
	// client must report its UDP timeout on time (0 = never).
	QuietAtMS int `json:"quiet_at_ms,omitempty"`
	IdleMS    int `json:"idle_ms"`
	ReadMS    int `json:"read_ms"`
	CheckMS   int `json:"check_ms"`
	Packets   int `json:"packets"`
	// Workload "mcsrc" (mcsrc.go): multicast reader against a scripted camera whose SETUP answer names
	// the source of the group traffic (SrcNamed) or leaves it to the RTSP server's address.
	Workload string `json:"workload,omitempty"`
	SrcNamed bool   `json:"src_named,omitempty"`
}

func gen(seed uint64, tier string) Scenario {
	r := core.NewRand(seed, "c19")
	sc := Scenario{Seed: seed}
	sc.Role = []string{"play", "record"}[r.Intn(2)]
	sc.Transport = []string{"udp", "udp", "tcp"}[r.Intn(3)]
	sc.AnyPort = sc.Role == "play" && sc.Transport == "udp" && r.Bool(0.25)
	sc.IdleMS = r.Pick(4000, 8000, 15000)
	sc.ReadMS = r.Pick(2000, 4000, 10000)
	sc.CheckMS = r.Pick(200, 500, 1000)
	sc.Packets = r.Range(20, 60)
	if sc.Transport == "udp" {
		n := r.Range(1, 5)
		for i := 0; i < n; i++ {
			sp := Spoof{AtMS: r.Range(50, 1500), Count: r.Range(1, 20)}
			sp.Target = []string{"rtp", "rtp", "rtcp"}[r.Intn(3)]
			sp.Src = []string{"other-ip", "other-ip-same-port", "same-ip-other-port", "mapped-other-ip"}[r.Intn(4)]
			// hash-derived so that no other choice of the scenario moves
			if x := core.HS(seed, "c19.v6src", "", uint64(len(sc.Spoofs))); x%100 < 30 {
				sp.Src = []string{"v6-prefix", "v6-compat", "v6-nat64"}[(x>>8)%3]
			}
			sc.Spoofs = append(sc.Spoofs, sp)
		}
		if r.Bool(0.4) {
			sc.VanishAtMS = r.Range(300, 1500)
			// the spoofer keeps sending while the legitimate peer is gone
			for i := 0; i < 3; i++ {
				sc.Spoofs = append(sc.Spoofs, Spoof{AtMS: sc.VanishAtMS + r.Range(100, sc.ReadMS+sc.IdleMS), Target: []string{"rtp", "rtcp"}[r.Intn(2)],
					Src: []string{"other-ip-same-port", "same-ip-other-port", "other-ip"}[r.Intn(3)], Count: r.Range(5, 30)})
			}
		}
	}
	ni := r.Range(0, 4)
	for i := 0; i < ni; i++ {
		in := Intrusion{}
		in.State = []string{"setup", "play", "play", "pause"}[r.Intn(4)]
		in.From = []string{"other-ip", "other-ip", "same-ip"}[r.Intn(3)]
		in.Method = []string{"OPTIONS", "GET_PARAMETER", "PLAY", "PAUSE", "TEARDOWN", "SETUP", "RECORD"}[r.Intn(7)]
		sc.Intrusions = append(sc.Intrusions, in)
	}
	n := simnet.Config{Seed: seed ^ 0x19191919}
	n.LatMinUS = r.Pick(10, 100, 1000)
	n.LatMaxUS = n.LatMinUS + r.Pick(0, 50, 500)
	n.ChunkMode = r.Pick(0, 1, 3)
	n.ChunkMaxLen = 256
	// hash-derived so that no other choice moves
	if x := core.HS(seed, "c19.quiet", "", 0); sc.Role == "play" && sc.Transport == "udp" && sc.VanishAtMS == 0 && x%100 < 25 {
		sc.QuietAtMS = 300 + int((x>>8)%900)
		if sc.ReadMS > 4000 {
			sc.ReadMS = 4000 // the server's next sender report (10 s period) must not fall into the window
		}
		for i := 0; i < 3; i++ {
			sc.Spoofs = append(sc.Spoofs, Spoof{AtMS: sc.QuietAtMS + 100 + i*sc.ReadMS/3, Count: sc.ReadMS/3/3 + 1,
				Target: []string{"rtp", "rtcp"}[(x>>(16+uint(i)))%2], Src: []string{"same-ip-other-port", "same-ip-other-port", "other-ip-same-port"}[(x>>(24+uint(i)))%3]})
		}
	}
	n.UDPIPv6Form = r.Bool(0.3) // sources reported in 16-byte (IPv4-mapped) form
	// a UDP-multicast reader (hash-derived so that no other choice moves): forged datagrams go to the
	// group, where both the reader's and the server's multicast listeners see them; some come from the
	// reader's own address with a port other than the negotiated one (the server's side of the binding)
	if x := core.HS(seed, "c19.mcast", "", 0); sc.Role == "play" && sc.Transport == "udp" && !sc.AnyPort && sc.QuietAtMS == 0 && x%100 < 55 {
		sc.Transport = "mcast"
		for i := range sc.Spoofs {
			if y := core.HS(seed, "c19.mcast.src", "", uint64(i)); y%100 < 40 {
				sc.Spoofs[i].Src = "reader-ip-other-port"
				if (y>>8)%3 != 0 {
					sc.Spoofs[i].Target = "rtcp"
				}
			}
		}
	}
	sc.Net = n
	// the scripted multicast camera (hash-derived so that no other seed's scenario moves)
	if x := core.HS(seed, "c19.mcsrc", "", 0); x%100 < 8 {
		sc = Scenario{Seed: seed, Net: n, Role: "play", Transport: "mcast", Workload: "mcsrc", IdleMS: sc.IdleMS, ReadMS: sc.ReadMS, CheckMS: sc.CheckMS, Packets: sc.Packets}
		sc.SrcNamed = (x>>8)%3 != 0
		ns := 2 + int((x>>12)%4)
		for i := 0; i < ns; i++ {
			y := core.HS(seed, "c19.mcsrc.spoof", "", uint64(i))
			sc.Spoofs = append(sc.Spoofs, Spoof{AtMS: 20 + int(y%uint64(sc.Packets*20)), Count: 1 + int((y>>16)%12),
				Target: []string{"rtp", "rtp", "rtcp"}[(y>>24)%3], Src: []string{"rtsp-server", "rtsp-server", "same-ip-other-port", "other-ip-same-port", "other-ip"}[(y>>32)%5]})
		}
		sort.Slice(sc.Spoofs, func(i, j int) bool { return sc.Spoofs[i].AtMS < sc.Spoofs[j].AtMS })
	}
	return sc
}

func ms(n int) time.Duration { return time.Duration(n) * time.Millisecond }

func mkDesc() *description.Session {
	g := &format.Generic{PayloadTyp: 96, RTPMa: "private/90000"}
	g.Init() //nolint:errcheck
	return &description.Session{Medias: []*description.Media{{Type: description.MediaTypeVideo, Formats: []format.Format{g}, Control: "trackID=0"}}}
}

const legitMagic = 0xC0190001
const spoofMagic = 0xBAD0BAD0

func payload(magic uint32, c int) []byte {
	p := make([]byte, 12)
	binary.BigEndian.PutUint32(p[0:], magic)
	binary.BigEndian.PutUint32(p[4:], uint32(c))
	return p
}

func run(t *testing.T, sc Scenario) *core.Result {
	if sc.Workload == "mcsrc" {
		return runMcsrc(t, sc)
	}
	opts := sys.Options{Seed: sc.Seed, Net: sc.Net, MaxSteps: 600000, Horizon: 20 * time.Minute}
	var summary map[string]any
	res := sys.Run(t, opts, func(w *sys.World) {
		w.ProbeInit("spoofed_datagrams_delivered_to_socket", "legit_packets_delivered", "intrusion_rejected", "intrusion_other_ip", "intrusion_same_ip_other_conn",
			"legit_peer_vanished", "source_went_quiet", "client_timed_out_despite_spoofer", "session_expired_despite_spoofer", "ipv6_form_sources", "any_port", "stats_match_legit_traffic", "multicast_reader", "server_multicast_stats_match", "spoof_from_reader_ip_other_port")
		since := func() time.Duration { return time.Since(w.Log.Start()) }
		srvNode := w.Net.Node("srv", "10.0.0.1")
		h := sys.NewHandler(w)
		srv := &gortsplib.Server{RTSPAddress: "10.0.0.1:8554", UDPRTPAddress: "10.0.0.1:8000", UDPRTCPAddress: "10.0.0.1:8001", Handler: h,
			// (odd nanoseconds: two deadlines derived from the same instant never fall on the same
			// fake-clock tick, where the runtime would order their timers arbitrarily)
			IdleTimeout: ms(sc.IdleMS) + 257, ReadTimeout: ms(sc.ReadMS) + 131}
		mcast := sc.Transport == "mcast"
		udpLike := sc.Transport == "udp" || mcast
		cliIP := "10.0.0.20"
		if mcast {
			srv.MulticastIPRange, srv.MulticastRTPPort, srv.MulticastRTCPPort = "224.1.0.0/16", 8002, 8003
			cliIP = "127.0.0.1" // the client needs a real interface with its local address (net.Interfaces)
			w.Probe("multicast_reader")
		}
		srv.VerifSetPeriods(10*time.Second, 10*time.Second, ms(sc.CheckMS)+61)
		h.Server = srv
		sys.WireServer(srv, srvNode, nil)
		if err := srv.Start(); err != nil {
			w.Fail("c19/api-error server", "%v", err)
			return
		}
		desc := mkDesc()
		stream := &gortsplib.ServerStream{Server: srv, Desc: desc}
		if err := stream.Initialize(); err != nil {
			w.Fail("c19/api-error server", "%v", err)
			return
		}
		h.SetStream("/stream", stream)
		if sc.Net.UDPIPv6Form {
			w.Probe("ipv6_form_sources")
		}
		if sc.AnyPort {
			w.Probe("any_port")
		}

		cliNode := w.Net.Node("cli", cliIP)
		spoofNode := w.Net.Node("spoofer", "10.0.0.66")
		intruderNode := w.Net.Node("intruder", "10.0.0.77")

		// bytes of legitimate / forged datagrams that reached a media socket of the receiving side
		var tmu sync.Mutex
		legitBytes, forgedSeen := 0, 0
		recvNode := "cli"
		legitSrcIP := "10.0.0.1"
		if sc.Role == "record" {
			recvNode, legitSrcIP = "srv", "10.0.0.20"
		}
		// (mcast) bytes that reached the server's multicast listeners from the reader's negotiated address and port
		srvLegitBytes, srvForgedSeen := 0, 0
		w.Net.AddTap(func(ev simnet.TapEvent) {
			if ev.Kind != "udp.deliver" {
				return
			}
			from := ev.From.(*net.UDPAddr)
			forged := len(ev.Data) >= 16 && binary.BigEndian.Uint32(ev.Data[12:]) == spoofMagic || (len(ev.Data) >= 8 && ev.Data[1] == 200 && binary.BigEndian.Uint32(ev.Data[4:]) == spoofMagic)
			if mcast && ev.Node == "srv" {
				to := ev.To.(*net.UDPAddr)
				tmu.Lock()
				if forged {
					srvForgedSeen++
				} else if from.IP.String() == cliIP && from.Port == to.Port {
					srvLegitBytes += len(ev.Data)
				}
				tmu.Unlock()
			}
			if ev.Node != recvNode {
				return
			}
			tmu.Lock()
			if len(ev.Data) >= 16 && binary.BigEndian.Uint32(ev.Data[12:]) == spoofMagic || (len(ev.Data) >= 8 && ev.Data[1] == 200 && binary.BigEndian.Uint32(ev.Data[4:]) == spoofMagic) {
				forgedSeen++
			} else if from.IP.String() == legitSrcIP {
				legitBytes += len(ev.Data)
			}
			tmu.Unlock()
		})

		var mu sync.Mutex
		var got []int
		spoofDelivered := false
		onPkt := func(pkt *rtp.Packet) {
			mu.Lock()
			defer mu.Unlock()
			if len(pkt.Payload) >= 8 && binary.BigEndian.Uint32(pkt.Payload) == spoofMagic {
				spoofDelivered = true
				w.Fail("c19/spoofed-media delivered", "a forged RTP packet (valid for the session but sent from another source) reached the packet callback (role %s, any-port %v)", sc.Role, sc.AnyPort)
				return
			}
			if len(pkt.Payload) >= 8 && binary.BigEndian.Uint32(pkt.Payload) == legitMagic {
				got = append(got, int(binary.BigEndian.Uint32(pkt.Payload[4:])))
			}
		}
		h.OnRTP = func(_ *gortsplib.ServerSession, _ *description.Media, _ format.Format, pkt *rtp.Packet) { onPkt(pkt) }
		h.OnRTCP = func(_ *gortsplib.ServerSession, _ *description.Media, pkt rtcp.Packet) {
			if sr, ok := pkt.(*rtcp.SenderReport); ok && sr.SSRC == spoofMagic {
				w.Fail("c19/spoofed-media delivered", "a forged RTCP sender report reached the session's RTCP callback")
			}
		}
		// reading sessions have an RTCP callback too (receiver reports of the reader; over UDP-multicast
		// they arrive at the multicast listener of the media, where forged ones arrive as well)
		h.PlayStatus = func(ss *gortsplib.ServerSession) base.StatusCode {
			if ss.State() == gortsplib.ServerSessionStatePrePlay {
				ss.OnPacketRTCPAny(func(m *description.Media, pkt rtcp.Packet) { h.OnRTCP(ss, m, pkt) })
			}
			return 0
		}

		p := gortsplib.ProtocolTCP
		if sc.Transport == "udp" {
			p = gortsplib.ProtocolUDP
		} else if mcast {
			p = gortsplib.ProtocolUDPMulticast
		}
		c := &gortsplib.Client{Scheme: "rtsp", Host: "10.0.0.1:8554", Protocol: &p, AnyPortEnable: sc.AnyPort}
		if sc.QuietAtMS > 0 {
			c.ReadTimeout = ms(sc.ReadMS) + 173
			c.VerifSetPeriods(10*time.Second, 10*time.Second, ms(sc.CheckMS)+67)
		}
		sys.WireClient(c, cliNode, w.Net, nil)
		c.OnPacketsLost = func(uint64) {}
		c.OnDecodeError = func(error) {}

		var sess *gortsplib.ServerSession
		findSession := func() *gortsplib.ServerSession {
			for _, cb := range h.Callbacks() {
				if cb.Kind == "session.open" {
					return cb.Session
				}
			}
			return nil
		}
		sessClosed := func() (bool, time.Duration, error) {
			for _, cb := range h.Callbacks() {
				if cb.Kind == "session.close" && cb.Session == sess {
					return true, cb.T, cb.Err
				}
			}
			return false, 0, nil
		}

		// ---- intrusions -----------------------------------------------------------
		intrude := func(state string) {
			if sess == nil {
				sess = findSession()
			}
			if sess == nil {
				return
			}
			for i, in := range sc.Intrusions {
				if in.State != state {
					continue
				}
				streamingTCP := sc.Transport == "tcp" && (sess.State() == gortsplib.ServerSessionStatePlay || sess.State() == gortsplib.ServerSessionStateRecord)
				if in.From == "same-ip" && !streamingTCP {
					continue // the same address on another connection may drive a session that is not interleaved
				}
				node := intruderNode
				if in.From == "same-ip" {
					node = cliNode
					w.Probe("intrusion_same_ip_other_conn")
				} else {
					w.Probe("intrusion_other_ip")
				}
				before := sess.State()
				nmed := len(sess.Medias())
				ncon := len(sess.Conns())
				ctx, cancel := context.WithTimeout(context.Background(), 10*time.Second)
				nc, err := node.DialContext(ctx, "tcp", "10.0.0.1:8554")
				cancel()
				if err != nil {
					w.Fail("c19/alive server", "intruder cannot connect: %v", err)
					return
				}
				rc := peers.NewRawConn(nc)
				path := "/stream"
				if sc.Role == "record" {
					path = "/pub"
				}
				u, _ := base.ParseURL("rtsp://10.0.0.1:8554" + path)
				req := &base.Request{Method: base.Method(in.Method), URL: u, Header: base.Header{"Session": base.HeaderValue{sess.VerifSecretID()}}}
				if in.Method == "SETUP" {
					req.URL, _ = base.ParseURL("rtsp://10.0.0.1:8554" + path + "/trackID=0")
					req.Header["Transport"] = base.HeaderValue{"RTP/AVP/TCP;unicast;interleaved=4-5"}
				}
				rc.Send(req) //nolint:errcheck
				resp, rerr := rc.ReadResponse(5 * time.Second)
				rc.Close()
				time.Sleep(5 * time.Millisecond)
				if rerr == nil && resp.StatusCode >= 200 && resp.StatusCode < 300 {
					w.Fail("c19/intrusion accepted", "intrusion %d: %s with the stolen session id from %s (session %s over %s) was answered %d", i, in.Method, in.From, before, sc.Transport, resp.StatusCode)
					return
				}
				if closed, _, cerr := sessClosed(); closed {
					w.Fail("c19/intrusion disturbed", "intrusion %d: %s from %s ended the session (%v)", i, in.Method, in.From, cerr)
					return
				}
				if st := sess.State(); st != before || len(sess.Medias()) != nmed {
					w.Fail("c19/intrusion disturbed", "intrusion %d: %s from %s changed the session: state %s -> %s, medias %d -> %d", i, in.Method, in.From, before, st, nmed, len(sess.Medias()))
					return
				}
				// ... and its set of connections: the refused connection is gone and must not stay attached
				// to the session (a session over TCP lives as long as it has connections)
				for k := 0; len(sess.Conns()) > ncon && k < 40; k++ {
					time.Sleep(5 * time.Millisecond)
				}
				if n := len(sess.Conns()); n > ncon {
					w.Fail("c19/intrusion disturbed", "intrusion %d: %s from %s: the session had %d connection(s) before, %d after the refused connection was closed", i, in.Method, in.From, ncon, n)
					return
				}
				w.Probe("intrusion_rejected")
			}
		}

		// ---- legitimate peer ----------------------------------------------------------
		established := make(chan struct{})
		var estOnce sync.Once
		vanishedAt := time.Duration(0)
		lastLegit := time.Duration(0)
		sent := 0
		w.Go("legit", func() {
			defer estOnce.Do(func() { close(established) })
			if err := c.Start(); err != nil {
				w.Fail("c19/api-error client", "%v", err)
				return
			}
			defer c.Close()
			interval := 20 * time.Millisecond
			if sc.Role == "play" {
				u, _ := base.ParseURL("rtsp://10.0.0.1:8554/stream")
				d, _, err := c.Describe(u)
				if err != nil {
					w.Fail("c19/api-error client", "Describe: %v", err)
					return
				}
				if err := c.SetupAll(d.BaseURL, d.Medias); err != nil {
					w.Fail("c19/api-error client", "SetupAll: %v", err)
					return
				}
				c.OnPacketRTPAny(func(_ *description.Media, _ format.Format, pkt *rtp.Packet) { onPkt(pkt) })
				c.OnPacketRTCPAny(func(_ *description.Media, pkt rtcp.Packet) {
					if sr, ok := pkt.(*rtcp.SenderReport); ok && sr.SSRC == spoofMagic {
						w.Fail("c19/spoofed-media delivered", "a forged RTCP sender report reached the client's RTCP callback")
					}
				})
				intrude("setup")
				if _, err := c.Play(nil); err != nil {
					w.Fail("c19/api-error client", "Play: %v", err)
					return
				}
				estOnce.Do(func() { close(established) })
				intrude("play")
				// the server-side writer feeds the stream
				for k := 0; k < sc.Packets; k++ {
					if sc.VanishAtMS > 0 && since() > ms(sc.VanishAtMS) {
						break
					}
					if sc.QuietAtMS > 0 && since() > ms(sc.QuietAtMS) {
						break
					}
					lastLegit = since()
					stream.WritePacketRTP(desc.Medias[0], &rtp.Packet{Header: rtp.Header{Version: 2, PayloadType: 96, SequenceNumber: uint16(1000 + k), Timestamp: uint32(k * 1800)}, Payload: payload(legitMagic, k)}) //nolint:errcheck
					sent++
					time.Sleep(interval)
				}
			} else {
				u, _ := base.ParseURL("rtsp://10.0.0.1:8554/pub")
				pd := mkDesc()
				if _, err := c.Announce(u, pd); err != nil {
					w.Fail("c19/api-error client", "Announce: %v", err)
					return
				}
				if err := c.SetupAll(u, pd.Medias); err != nil {
					w.Fail("c19/api-error client", "SetupAll: %v", err)
					return
				}
				intrude("setup")
				if _, err := c.Record(); err != nil {
					w.Fail("c19/api-error client", "Record: %v", err)
					return
				}
				estOnce.Do(func() { close(established) })
				intrude("play")
				for k := 0; k < sc.Packets; k++ {
					if sc.VanishAtMS > 0 && since() > ms(sc.VanishAtMS) {
						break
					}
					if err := c.WritePacketRTP(pd.Medias[0], &rtp.Packet{Header: rtp.Header{Version: 2, PayloadType: 96, SequenceNumber: uint16(1000 + k), Timestamp: uint32(k * 1800)}, Payload: payload(legitMagic, k)}); err == nil {
						sent++
					}
					lastLegit = since()
					time.Sleep(interval)
				}
			}
			if sc.QuietAtMS > 0 && sc.Role == "play" {
				// the negotiated source has gone quiet, the spoofer goes on: the client must give up
				// ReadTimeout (+ one check period) after the last packet of the negotiated source
				w.Probe("source_went_quiet")
				done := make(chan error, 1)
				go func() { done <- c.Wait() }()
				limit := ms(sc.ReadMS) + ms(sc.CheckMS) + 2*time.Second
				select {
				case err := <-done:
					w.Log.Add("cli", "wait", "%v", err)
					w.Probe("client_timed_out_despite_spoofer")
				case <-time.After(limit):
					w.Fail("c19/timeout client-refreshed", "the negotiated source sent its last packet at t=%v; %v later (ReadTimeout %v + check period %v + 2 s) the reading client has still not reported a timeout while forged datagrams (from the server's address with another port / from another address) keep arriving",
						lastLegit, limit, ms(sc.ReadMS), ms(sc.CheckMS))
				}
				return
			}
			if sc.VanishAtMS > 0 {
				// the legitimate peer disappears without a word; the spoofer goes on
				w.Net.Vanish("cli")
				vanishedAt = since()
				w.Probe("legit_peer_vanished")
				timeout := ms(sc.IdleMS)
				if sc.Role == "record" {
					timeout = ms(sc.ReadMS)
				}
				time.Sleep(timeout + ms(sc.CheckMS) + 3*time.Second)
				return
			}
			time.Sleep(100 * time.Millisecond)
			// statistics of the session count the negotiated peer's traffic only
			if udpLike {
				tmu.Lock()
				lb := legitBytes
				slb, sfs := srvLegitBytes, srvForgedSeen
				tmu.Unlock()
				if mcast {
					// the server's side: forged datagrams sent to the group also reach the server's multicast
					// listeners; the reader's session counts what came from the reader's negotiated address and port
					if s0 := findSession(); s0 != nil {
						if st := s0.Stats(); st.InboundBytes != uint64(slb) {
							w.Fail("c19/spoofed-media counted", "the multicast reader's session on the server counts %d inbound bytes but %d bytes arrived at the server's multicast listeners from the reader's negotiated address and port (forged datagrams reaching them: %d)", st.InboundBytes, slb, sfs)
							return
						}
						w.Probe("server_multicast_stats_match")
					}
				}
				var inb uint64
				if sc.Role == "play" {
					inb = c.Stats().Session.InboundBytes
				} else if s0 := findSession(); s0 != nil {
					inb = s0.Stats().InboundBytes
				}
				if inb != uint64(lb) {
					w.Fail("c19/spoofed-media counted", "the session's inbound byte counter is %d but %d bytes arrived from the negotiated peer (forged datagrams reaching the socket: %d)", inb, lb, forgedSeen)
					return
				}
				w.Probe("stats_match_legit_traffic")
			}
			if _, err := c.Pause(); err != nil {
				w.Fail("c19/api-error client", "Pause after the intrusions / spoofing: %v", err)
				return
			}
			intrude("pause")
		})

		// ---- spoofer -------------------------------------------------------------------
		w.Go("spoofer", func() {
			<-established
			if w.Failed() || !udpLike {
				return
			}
			sock, err := spoofNode.ListenPacket("udp", ":5555")
			if err != nil {
				return
			}
			defer sock.Close()
			us := sock.(*simnet.UDPSock)
			// the media sockets of the receiving side and the legitimate source ports
			var dstRTP, dstRTCP, legitRTP, legitRTCP *net.UDPAddr
			if sc.Role == "play" {
				socks := w.Net.UDPSockets("cli")
				if len(socks) < 2 {
					return
				}
				a0 := socks[0].LocalAddr().(*net.UDPAddr)
				a1 := socks[1].LocalAddr().(*net.UDPAddr)
				if a0.Port > a1.Port {
					a0, a1 = a1, a0
				}
				dstRTP, dstRTCP = a0, a1
				legitRTP = &net.UDPAddr{IP: net.ParseIP("10.0.0.1"), Port: 8000}
				legitRTCP = &net.UDPAddr{IP: net.ParseIP("10.0.0.1"), Port: 8001}
				if mcast {
					// the reader's sockets are bound to the group: what is sent there reaches the reader's and
					// the server's multicast listeners alike
					if !a0.IP.IsMulticast() || !a1.IP.IsMulticast() {
						w.Fail("c19/harness", "the multicast reader's sockets are %v and %v", a0, a1)
						return
					}
					legitRTP.Port, legitRTCP.Port = a0.Port, a1.Port
				}
			} else {
				dstRTP = &net.UDPAddr{IP: net.ParseIP("10.0.0.1"), Port: 8000}
				dstRTCP = &net.UDPAddr{IP: net.ParseIP("10.0.0.1"), Port: 8001}
				socks := w.Net.UDPSockets("cli")
				if len(socks) < 2 {
					return
				}
				a0 := socks[0].LocalAddr().(*net.UDPAddr)
				a1 := socks[1].LocalAddr().(*net.UDPAddr)
				if a0.Port > a1.Port {
					a0, a1 = a1, a0
				}
				legitRTP, legitRTCP = a0, a1
			}
			seq := uint16(1000 + sc.Packets/2)
			start := time.Now()
			for k0, sp := range sc.Spoofs {
				if d := ms(sp.AtMS) - time.Since(start); d > 0 {
					time.Sleep(d)
				}
				dst, legit := dstRTP, legitRTP
				if sp.Target == "rtcp" {
					dst, legit = dstRTCP, legitRTCP
				}
				var from *net.UDPAddr
				switch sp.Src {
				case "reader-ip-other-port":
					// (mcast) the reader's own address, but not the port the reader was registered with
					from = &net.UDPAddr{IP: net.ParseIP(cliIP), Port: legit.Port + 2 + 2*(k0%3)}
					w.Probe("spoof_from_reader_ip_other_port")
				case "other-ip":
					from = &net.UDPAddr{IP: net.ParseIP("10.0.0.66"), Port: 5555}
				case "other-ip-same-port":
					from = &net.UDPAddr{IP: net.ParseIP("10.0.0.66"), Port: legit.Port}
				case "same-ip-other-port":
					if sc.AnyPort {
						// explicitly relaxed: any port of the negotiated address is accepted by design
						from = &net.UDPAddr{IP: net.ParseIP("10.0.0.66"), Port: legit.Port}
					} else {
						from = &net.UDPAddr{IP: legit.IP, Port: legit.Port + 2}
					}
				case "mapped-other-ip":
					from = &net.UDPAddr{IP: net.ParseIP("::ffff:10.0.0.66"), Port: legit.Port}
				case "v6-prefix", "v6-compat", "v6-nat64":
					// IPv6 addresses that merely contain the bytes of the negotiated IPv4 address
					// (aabb:ccdd::, ::a.b.c.d, 64:ff9b::a.b.c.d), with the negotiated port: other hosts
					v4 := legit.IP.To4()
					ip := make(net.IP, 16)
					switch sp.Src {
					case "v6-prefix":
						copy(ip, v4)
					case "v6-compat":
						copy(ip[12:], v4)
					default:
						copy(ip, []byte{0, 0x64, 0xff, 0x9b})
						copy(ip[12:], v4)
					}
					from = &net.UDPAddr{IP: ip, Port: legit.Port}
				}
				for k := 0; k < sp.Count; k++ {
					var b []byte
					if sp.Target == "rtp" {
						// perfectly valid RTP for the session: right payload type, plausible next sequence number
						pl := payload(spoofMagic, k)
						b, _ = (&rtp.Packet{Header: rtp.Header{Version: 2, PayloadType: 96, SequenceNumber: seq, Timestamp: uint32(seq) * 1800, SSRC: 0x12345678}, Payload: pl}).Marshal()
						seq++
					} else {
						b, _ = (&rtcp.SenderReport{SSRC: spoofMagic, NTPTime: 1 << 40, RTPTime: 1234}).Marshal()
					}
					us.WriteFromTo(b, from, dst) //nolint:errcheck
					time.Sleep(3 * time.Millisecond)
				}
			}
		})

		w.Go("closer", func() {
			w.WaitDrivers("legit", "spoofer")
			stream.Close()
			srv.Close()
		})

		w.AtEnd(func() {
			if w.Failed() {
				return
			}
			if sess == nil {
				sess = findSession()
			}
			mu.Lock()
			ngot := len(got)
			mu.Unlock()
			tmu.Lock()
			fs := forgedSeen
			tmu.Unlock()
			if fs > 0 {
				w.ProbeAdd("spoofed_datagrams_delivered_to_socket", fs)
			}
			if ngot > 0 {
				w.Probe("legit_packets_delivered")
			}
			_ = spoofDelivered
			// a silent legitimate peer plus an active spoofer expires as it would alone
			if sc.VanishAtMS > 0 && sess != nil && udpLike {
				closed, at, cerr := sessClosed()
				timeout := ms(sc.IdleMS)
				last := vanishedAt
				if sc.Role == "record" {
					timeout = ms(sc.ReadMS)
					if lastLegit > 0 {
						last = lastLegit
					}
				}
				limit := last + timeout + ms(sc.CheckMS) + 2*time.Second
				if !closed || at > limit || (cerr != nil && !strings.Contains(cerr.Error(), "timed out")) {
					w.Fail("c19/spoofer-kept-alive session", "the legitimate peer went silent at t=%v; with forged traffic still flowing the session closed at t=%v (%v, closed=%v); bound %v", last, at, cerr, closed, limit)
					return
				}
				w.Probe("session_expired_despite_spoofer")
			}
			summary = map[string]any{"role": sc.Role, "transport": sc.Transport, "legit_delivered": ngot, "sent": sent, "forged_reached_socket": fs}
		})
	})
	res.Nontrivial = res.Probes["legit_packets_delivered"] > 0 && (res.Probes["spoofed_datagrams_delivered_to_socket"] > 0 || res.Probes["intrusion_rejected"] > 0)
	res.Sample = summary
	_ = fmt.Sprint
	return res
}

func shrink(sc Scenario) []Scenario {
	var out []Scenario
	clone := func() Scenario {
		c := sc
		c.Spoofs = append([]Spoof(nil), sc.Spoofs...)
		c.Intrusions = append([]Intrusion(nil), sc.Intrusions...)
		return c
	}
	for i := range sc.Spoofs {
		c := clone()
		c.Spoofs = append(c.Spoofs[:i], c.Spoofs[i+1:]...)
		out = append(out, c)
	}
	for i := range sc.Intrusions {
		c := clone()
		c.Intrusions = append(c.Intrusions[:i], c.Intrusions[i+1:]...)
		out = append(out, c)
	}
	for i, sp := range sc.Spoofs {
		if sp.Count > 1 {
			c := clone()
			c.Spoofs[i].Count = 1
			out = append(out, c)
		}
	}
	if sc.VanishAtMS != 0 {
		c := clone()
		c.VanishAtMS = 0
		out = append(out, c)
	}
	if sc.Net.UDPIPv6Form {
		c := clone()
		c.Net.UDPIPv6Form = false
		out = append(out, c)
	}
	if sc.Net.ChunkMode != 0 {
		c := clone()
		c.Net.ChunkMode = 0
		out = append(out, c)
	}
	if sc.Packets > 10 {
		c := clone()
		c.Packets = sc.Packets / 2
		out = append(out, c)
	}
	return out
}

func init() {
	f := core.Register("C19", gen, run, shrink)
	f.Real = []string{"gortsplib.Server (serverUDPListener, ServerSession, ServerConn), gortsplib.Client (clientUDPListener)"}
	f.Simulated = []string{"UDP/TCP sockets incl. forged source addresses (simnet.WriteFromTo) and IPv4-mapped source forms", "clock (fake)", "spoofing node and intruding control connections (harness code)"}
	f.Excluded = []string{"pkg/multicast's raw-socket platform files (stand-in binding the group address through the ListenPacket seam)", "IP-layer zones"}
	f.Rule = "scenario = role (play | record) x transport (udp | tcp | UDP-multicast reader: forged datagrams go to the group and reach the reader's and the server's multicast listeners, sources incl. the reader's address with another port) x AnyPortEnable x source-address form (4-byte | IPv4-mapped 16-byte) x 1..8 bursts of forged datagrams (valid RTP for the session / RTCP sender reports) to the receiving side's RTP or RTCP port from {another IP, another IP with the legitimate port, the legitimate IP with another port, the IPv4-mapped form of another IP} x 0..4 foreign control requests carrying the stolen session id (7 methods) from another IP, or from the same IP on another connection while the session streams interleaved, in the set-up / streaming / paused states x optional silent disappearance of the legitimate peer while the spoofer goes on; non-trivial = legitimate packets were delivered and forged datagrams reached a media socket or an intrusion was judged; distinct = distinct canonical event log; 8% of the runs use the workload mcsrc instead: a multicast reader against a scripted, well-behaved multicast camera whose SETUP answer names the source of the group traffic (another host than the RTSP server) or not, packets from the negotiated source must all arrive, forged ones from the RTSP server's address / the source with another port / other hosts must not reach callbacks or statistics"
	f.Assumptions = []string{
		"with AnyPortEnable the source port is relaxed by design: only forged datagrams from another IP are asserted there",
		"a request from the creating IP on another connection is only asserted to fail while the session streams over an interleaved connection",
		"when the SETUP answer of a multicast session names a source= host, that host (with the group port) is the negotiated peer; otherwise the RTSP server's address is",
		"the expiry bound for a silent legitimate peer is last legitimate activity + IdleTimeout (play) / ReadTimeout (record) + one check period + 2 s",
	}
}
