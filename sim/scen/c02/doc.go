// Package c02 holds the scenario family of property C02.
package c02
