package c02

import (
	"fmt"
	"net"
	"strings"
	"testing"
	"time"

	"github.com/pion/rtcp"
	"github.com/pion/rtp"

	gortsplib "github.com/bluenviron/gortsplib/v5"
	"github.com/bluenviron/gortsplib/v5/pkg/base"
	"github.com/bluenviron/gortsplib/v5/pkg/description"
	"github.com/bluenviron/gortsplib/v5/pkg/format"
	"github.com/bluenviron/gortsplib/v5/pkg/headers"

	"verifsim/core"
	"verifsim/peers"
	"verifsim/simnet"
	"verifsim/sys"
)

func genExpiryImpl(seed uint64, r *core.Rand) Scenario {
	sc := Scenario{Seed: seed, Kind: "expiry", Handler: "full", UDP: true, Medias: 1}
	e := &Expiry{}
	e.Peer = []string{"live", "live", "silent", "silent", "keepalive-only", "media-only"}[r.Intn(6)]
	e.Role = []string{"play", "record"}[r.Intn(2)]
	e.Transport = []string{"udp", "tcp"}[r.Intn(2)]
	if r.Bool(0.35) {
		// shipped defaults
		e.IdleMS, e.ReadMS, e.CheckMS, e.ReportMS = 60000, 10000, 1000, 10000
	} else {
		e.IdleMS = r.Pick(6000, 8000, 15000, 30000, 120000)
		e.ReadMS = r.Pick(2000, 3000, 5000, 10000, 20000)
		e.CheckMS = r.Pick(200, 500, 1000, 2000)
		e.ReportMS = r.Pick(1000, 2000, 5000, 10000)
	}
	e.Horizon = r.Range(3, 5)
	// hash-derived so that no other choice moves
	if x := core.HS(seed, "c02.tunnel", "", 0); e.Peer == "live" && e.Transport == "tcp" && x%100 < 40 {
		e.Tunnel = []string{"http", "http", "ws"}[(x>>8)%3]
	}
	sc.Exp = e
	nc := simnet.Config{Seed: seed ^ 0x2020203}
	nc.LatMinUS = r.Pick(10, 1000, 20000)
	nc.LatMaxUS = nc.LatMinUS + r.Pick(0, 500, 20000)
	nc.ChunkMode = r.Pick(0, 1, 3)
	nc.ChunkMaxLen = 500
	sc.Net = nc
	return sc
}

func ms(n int) time.Duration { return time.Duration(n) * time.Millisecond }

// expectation derived from the statement: a peer that keeps following the
// protocol (keep-alive requests, RTCP reports or media, as applicable to the
// transport) is never expired; a silent one is closed within the configured
// timeout plus one check period. Returns (mustSurvive, mustExpire, timeout).
func expectation(e *Expiry) (survive, expire bool, timeout time.Duration) {
	switch e.Peer {
	case "live":
		return true, false, 0
	case "silent":
		if e.Role == "record" {
			return false, true, ms(e.ReadMS)
		}
		return false, true, ms(e.IdleMS)
	case "keepalive-only":
		// keep-alive requests keep a reading session alive on every transport, and keep
		// the control connection of an interleaved session busy; for a UDP publisher that
		// sends no media the statement is not explicit: silent
		if e.Role == "record" {
			// a publisher that sends keep-alives but no media: whether that counts as
			// "following the protocol" is not explicit in the statement: silent
			return false, false, 0
		}
		return true, false, 0
	case "media-only":
		// media (record) or RTCP receiver reports (UDP play) without keep-alive requests
		if e.Role == "record" {
			return true, false, 0
		}
		if e.Transport == "udp" {
			return true, false, 0
		}
		return false, false, 0 // RTCP frames on an interleaved play connection: not explicit
	}
	return false, false, 0
}

func runExpiryImpl(t *testing.T, sc Scenario) *core.Result {
	e := sc.Exp
	horizon := time.Duration(e.Horizon) * ms(e.IdleMS)
	opts := sys.Options{Seed: sc.Seed, Net: sc.Net, MaxSteps: 2000000, Horizon: horizon + 10*time.Minute}
	var summary map[string]any
	res := sys.Run(t, opts, func(w *sys.World) {
		w.ProbeInit("expiry_live_survived", "expiry_silent_expired", "expiry_half_silent_survived", "expiry_not_asserted", "keepalive_sent", "shipped_defaults")
		if e.IdleMS == 60000 && e.ReadMS == 10000 {
			w.Probe("shipped_defaults")
		}
		srvNode := w.Net.Node("srv", "10.0.0.1")
		h := sys.NewHandler(w)
		srv := &gortsplib.Server{RTSPAddress: "10.0.0.1:8554", UDPRTPAddress: "10.0.0.1:8000", UDPRTCPAddress: "10.0.0.1:8001", Handler: h,
			IdleTimeout: ms(e.IdleMS), ReadTimeout: ms(e.ReadMS)}
		srv.VerifSetPeriods(ms(e.ReportMS), ms(e.ReportMS), ms(e.CheckMS))
		h.Server = srv
		sys.WireServer(srv, srvNode, nil)
		if err := srv.Start(); err != nil {
			w.Fail("c02/api-error server", "Server.Start: %v", err)
			return
		}
		desc := mkDesc(1)
		stream := &gortsplib.ServerStream{Server: srv, Desc: desc}
		if err := stream.Initialize(); err != nil {
			w.Fail("c02/api-error server", "stream: %v", err)
			return
		}
		h.SetStream("/stream", stream)
		cli := w.Net.Node("cli", "10.0.0.20")
		writeEvery := 100 * time.Millisecond
		if horizon > 120*time.Second {
			writeEvery = 400 * time.Millisecond
		}
		stop := make(chan struct{})
		w.Go("writer", func() {
			i := 0
			for {
				select {
				case <-stop:
					return
				default:
				}
				stream.WritePacketRTP(desc.Medias[0], &rtp.Packet{Header: rtp.Header{Version: 2, PayloadType: 96, SequenceNumber: uint16(i), Timestamp: uint32(i * 9000)}, Payload: []byte{1, 2, 3, 4}}) //nolint:errcheck
				i++
				time.Sleep(writeEvery)
			}
		})

		var established time.Duration // simulated instant at which PLAY / RECORD completed
		var lastActivity time.Duration
		var clientDied error
		var sessID string
		since := func() time.Duration { return time.Since(w.Log.Start()) }

		w.Go("peer", func() {
			defer close(stop)
			if e.Peer == "live" {
				c := &gortsplib.Client{Scheme: "rtsp", Host: "10.0.0.1:8554", Protocol: protoOf(e.Transport)}
				switch e.Tunnel {
				case "http":
					c.Tunnel = gortsplib.TunnelHTTP
					w.Probe("live_peer_http_tunnel")
				case "ws":
					c.Tunnel = gortsplib.TunnelWebSocket
					w.Probe("live_peer_ws_tunnel")
				}
				sys.WireClient(c, cli, w.Net, nil)
				c.OnPacketsLost = func(uint64) {}
				c.OnDecodeError = func(error) {}
				c.OnRequest = func(req *base.Request) {
					if established > 0 && (req.Method == base.Options || req.Method == base.GetParameter) {
						w.Probe("keepalive_sent")
					}
				}
				u, _ := base.ParseURL("rtsp://10.0.0.1:8554/stream")
				if err := c.Start(); err != nil {
					w.Fail("c02/api-error client", "Start: %v", err)
					return
				}
				defer c.Close()
				var medias []*description.Media
				if e.Role == "play" {
					d, _, err := c.Describe(u)
					if err != nil {
						w.Fail("c02/api-error client", "Describe: %v", err)
						return
					}
					if err := c.SetupAll(d.BaseURL, d.Medias); err != nil {
						w.Fail("c02/api-error client", "SetupAll: %v", err)
						return
					}
					c.OnPacketRTPAny(func(*description.Media, format.Format, *rtp.Packet) {})
					if _, err := c.Play(nil); err != nil {
						w.Fail("c02/api-error client", "Play: %v", err)
						return
					}
				} else {
					pu, _ := base.ParseURL("rtsp://10.0.0.1:8554/pub")
					pd := mkDesc(1)
					if _, err := c.Announce(pu, pd); err != nil {
						w.Fail("c02/api-error client", "Announce: %v", err)
						return
					}
					if err := c.SetupAll(pu, pd.Medias); err != nil {
						w.Fail("c02/api-error client", "SetupAll: %v", err)
						return
					}
					if _, err := c.Record(); err != nil {
						w.Fail("c02/api-error client", "Record: %v", err)
						return
					}
					medias = pd.Medias
				}
				established = since()
				died := make(chan error, 1)
				go func() { died <- c.Wait() }()
				end := time.Now().Add(horizon)
				i := 0
				for time.Now().Before(end) {
					select {
					case err := <-died:
						clientDied = err
						return
					default:
					}
					if e.Role == "record" {
						c.WritePacketRTP(medias[0], &rtp.Packet{Header: rtp.Header{Version: 2, PayloadType: 96, SequenceNumber: uint16(i), Timestamp: uint32(i * 9000)}, Payload: []byte{5, 6, 7, 8}}) //nolint:errcheck
						i++
					}
					time.Sleep(writeEvery)
				}
				// Close is deferred; give the Wait goroutine its end
				go func() { <-died }()
				return
			}

			// ---- scripted peer -------------------------------------------------------
			ctx, cancel := ctxTimeout(10 * time.Second)
			nc, err := cli.DialContext(ctx, "tcp", "10.0.0.1:8554")
			cancel()
			if err != nil {
				w.Fail("c02/alive server", "dial: %v", err)
				return
			}
			rc := peers.NewRawConn(nc)
			defer rc.Close()
			do := func(req *base.Request) *base.Response {
				if sessID != "" {
					if req.Header == nil {
						req.Header = base.Header{}
					}
					req.Header["Session"] = base.HeaderValue{sessID}
				}
				if _, err := rc.Send(req); err != nil {
					return nil
				}
				res, err := rc.ReadResponse(20 * time.Second)
				if err != nil {
					return nil
				}
				if v, ok := res.Header["Session"]; ok {
					var sx headers.Session
					if sx.Unmarshal(v) == nil {
						sessID = sx.Session
					}
				}
				return res
			}
			must := func(what string, res *base.Response) bool {
				if res == nil || !isOK(res) {
					w.Fail("c02/api-error scripted-peer", "%s failed: %v", what, res)
					return false
				}
				return true
			}
			var rtpSock, rtcpSock net.PacketConn
			if e.Transport == "udp" {
				// (a legal pair that is not consecutive in half of the runs: client_port=36000-36011)
				rtcpPort := 36001
				if core.HS(sc.Seed, "c02.rtcpport", "", 0)%2 == 0 {
					rtcpPort = 36011
				}
				rtpSock, _ = cli.ListenPacket("udp", ":36000")
				rtcpSock, _ = cli.ListenPacket("udp", fmt.Sprintf(":%d", rtcpPort))
				defer rtpSock.Close()
				defer rtcpSock.Close()
			}
			trh := headers.Transport{Delivery: ptrOf(headers.TransportDeliveryUnicast)}
			if e.Transport == "udp" {
				trh.Protocol = headers.TransportProtocolUDP
				trh.ClientPorts = &[2]int{36000, rtcpSock.LocalAddr().(*net.UDPAddr).Port}
			} else {
				trh.Protocol = headers.TransportProtocolTCP
				trh.InterleavedIDs = &[2]int{0, 1}
			}
			playURL, _ := base.ParseURL("rtsp://10.0.0.1:8554/stream")
			pubURL, _ := base.ParseURL("rtsp://10.0.0.1:8554/pub")
			ctl := playURL
			if e.Role == "play" {
				if !must("DESCRIBE", do(&base.Request{Method: base.Describe, URL: playURL})) {
					return
				}
				su, _ := base.ParseURL("rtsp://10.0.0.1:8554/stream/trackID=0")
				if !must("SETUP", do(&base.Request{Method: base.Setup, URL: su, Header: base.Header{"Transport": trh.Marshal()}})) {
					return
				}
				if !must("PLAY", do(&base.Request{Method: base.Play, URL: playURL})) {
					return
				}
			} else {
				ctl = pubURL
				pd := mkDesc(1)
				body, _ := pd.Marshal()
				if !must("ANNOUNCE", do(&base.Request{Method: base.Announce, URL: pubURL, Header: base.Header{"Content-Type": base.HeaderValue{"application/sdp"}}, Body: body})) {
					return
				}
				trh.Mode = ptrOf(headers.TransportModeRecord)
				su, _ := base.ParseURL("rtsp://10.0.0.1:8554/pub/trackID=0")
				if !must("SETUP", do(&base.Request{Method: base.Setup, URL: su, Header: base.Header{"Transport": trh.Marshal()}})) {
					return
				}
				if !must("RECORD", do(&base.Request{Method: base.Record, URL: pubURL})) {
					return
				}
			}
			established = since()
			lastActivity = established
			end := time.Now().Add(horizon)
			keepEvery := ms(e.IdleMS) / 3
			mediaEvery := writeEvery
			if e.Role == "play" {
				mediaEvery = ms(e.ReportMS) // receiver reports
				if mediaEvery > ms(e.IdleMS)/3 {
					mediaEvery = ms(e.IdleMS) / 3
				}
			} else if mediaEvery > ms(e.ReadMS)/3 {
				mediaEvery = ms(e.ReadMS) / 3
			}
			nextKeep := time.Now().Add(keepEvery)
			nextMedia := time.Now().Add(mediaEvery)
			seq := uint16(0)
			srvRTP := &net.UDPAddr{IP: net.ParseIP("10.0.0.1"), Port: 8000}
			srvRTCP := &net.UDPAddr{IP: net.ParseIP("10.0.0.1"), Port: 8001}
			for time.Now().Before(end) {
				now := time.Now()
				if e.Peer == "keepalive-only" && !now.Before(nextKeep) {
					nextKeep = now.Add(keepEvery)
					if res := do(&base.Request{Method: base.Options, URL: ctl}); res == nil {
						return // the server closed the connection: judged by the oracle below
					}
					w.Probe("keepalive_sent")
					lastActivity = since()
				}
				if e.Peer == "media-only" && !now.Before(nextMedia) {
					nextMedia = now.Add(mediaEvery)
					var payload []byte
					ch := 0
					if e.Role == "record" {
						payload, _ = (&rtp.Packet{Header: rtp.Header{Version: 2, PayloadType: 96, SequenceNumber: seq, Timestamp: uint32(seq) * 9000, SSRC: 0x1234}, Payload: []byte{9, 9, 9, 9}}).Marshal()
						seq++
					} else {
						payload, _ = (&rtcp.ReceiverReport{SSRC: 0x4321}).Marshal()
						ch = 1
					}
					if e.Transport == "udp" {
						if ch == 0 {
							rtpSock.WriteTo(payload, srvRTP) //nolint:errcheck
						} else {
							rtcpSock.WriteTo(payload, srvRTCP) //nolint:errcheck
						}
					} else {
						fr := base.InterleavedFrame{Channel: ch, Payload: payload}
						buf, _ := fr.Marshal()
						if rc.WriteRaw(buf) != nil {
							return
						}
					}
					lastActivity = since()
				}
				time.Sleep(50 * time.Millisecond)
			}
		})

		w.Go("closer", func() {
			w.WaitDrivers("peer", "writer")
			stream.Close()
			srv.Close()
		})

		w.AtEnd(func() {
			if w.Failed() {
				return
			}
			survive, expire, timeout := expectation(e)
			// the session of the peer: the first one opened
			var closeT time.Duration = -1
			var closeErr error
			var sess *gortsplib.ServerSession
			for _, cb := range h.Callbacks() {
				if cb.Kind == "session.open" && sess == nil {
					sess = cb.Session
				}
				if cb.Kind == "session.close" && cb.Session == sess && closeT < 0 {
					closeT, closeErr = cb.T, cb.Err
				}
			}
			if sess == nil || established == 0 {
				return
			}
			endOfWatch := established + horizon
			timedOut := closeErr != nil && (strings.Contains(closeErr.Error(), "timed out") || strings.Contains(closeErr.Error(), "timeout") || strings.Contains(closeErr.Error(), "not in use"))
			budget := 4*time.Duration(sc.Net.LatMaxUS)*time.Microsecond + 2*time.Second
			switch {
			case survive:
				if closeT >= 0 && closeT < endOfWatch-time.Second && (timedOut || e.Peer != "live") {
					w.Fail("c02/expiry live-peer-expired", "peer %q (%s over %s) kept following the protocol but its session was closed at t=%v (%v), %v after it was established; idle=%v read=%v check=%v report=%v",
						e.Peer, e.Role, e.Transport, closeT, closeErr, closeT-established, ms(e.IdleMS), ms(e.ReadMS), ms(e.CheckMS), ms(e.ReportMS))
					return
				}
				if clientDied != nil && e.Peer == "live" {
					w.Fail("c02/expiry live-peer-expired", "the live client (%s over %s) terminated during the watch: %v", e.Role, e.Transport, clientDied)
					return
				}
				if e.Peer == "live" {
					w.Probe("expiry_live_survived")
				} else {
					w.Probe("expiry_half_silent_survived")
				}
			case expire:
				limit := lastActivity + timeout + ms(e.CheckMS) + budget
				if closeT < 0 || closeT > limit {
					w.Fail("c02/expiry silent-peer-kept", "silent peer (%s over %s): last protocol activity at t=%v, session closed at t=%v (%v); bound = last activity + timeout %v + check period %v + budget %v = %v",
						e.Role, e.Transport, lastActivity, closeT, closeErr, timeout, ms(e.CheckMS), budget, limit)
					return
				}
				w.Probe("expiry_silent_expired")
			default:
				w.Probe("expiry_not_asserted")
			}
			summary = map[string]any{"peer": e.Peer, "role": e.Role, "transport": e.Transport, "idle_ms": e.IdleMS, "read_ms": e.ReadMS,
				"closed_at": fmt.Sprint(closeT), "close_err": fmt.Sprint(closeErr), "horizon": fmt.Sprint(horizon)}
		})
	})
	res.Nontrivial = res.Probes["expiry_live_survived"]+res.Probes["expiry_silent_expired"]+res.Probes["expiry_half_silent_survived"] > 0
	res.Sample = summary
	return res
}

func shrinkExpiryImpl(sc Scenario) []Scenario {
	var out []Scenario
	clone := func() Scenario {
		c := sc
		e := *sc.Exp
		c.Exp = &e
		return c
	}
	if sc.Exp.Horizon > 3 {
		c := clone()
		c.Exp.Horizon = 3
		out = append(out, c)
	}
	if sc.Exp.Tunnel != "" {
		c := clone()
		c.Exp.Tunnel = ""
		out = append(out, c)
	}
	if sc.Net.ChunkMode != 0 {
		c := clone()
		c.Net.ChunkMode = 0
		out = append(out, c)
	}
	if sc.Net.LatMaxUS > 10 {
		c := clone()
		c.Net.LatMinUS, c.Net.LatMaxUS = 10, 10
		out = append(out, c)
	}
	if sc.Exp.IdleMS != 60000 || sc.Exp.ReadMS != 10000 {
		c := clone()
		c.Exp.IdleMS, c.Exp.ReadMS, c.Exp.CheckMS, c.Exp.ReportMS = 60000, 10000, 1000, 10000
		out = append(out, c)
	}
	return out
}

func protoOf(tr string) *gortsplib.Protocol {
	p := gortsplib.ProtocolTCP
	if tr == "udp" {
		p = gortsplib.ProtocolUDP
	}
	return &p
}
