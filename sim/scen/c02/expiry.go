package c02

import (
	"testing"

	"verifsim/core"
)

// Expiry is the expiry workload (filled in by expiry_impl.go).
type Expiry struct {
	Peer      string `json:"peer"`      // live | silent | silent-control | silent-media
	Role      string `json:"role"`      // play | record
	Transport string `json:"transport"` // udp | tcp
	// Tunnel (live peer over tcp): "" | http | ws - the real client runs through the HTTP or WebSocket tunnel
	Tunnel string `json:"tunnel,omitempty"`
	IdleMS    int    `json:"idle_ms"`
	ReadMS    int    `json:"read_ms"`
	CheckMS   int    `json:"check_ms"`
	ReportMS  int    `json:"report_ms"`
	Horizon   int    `json:"horizon_x"` // multiples of the idle timeout
}

func genExpiry(seed uint64, r *core.Rand) Scenario     { return genExpiryImpl(seed, r) }
func runExpiry(t *testing.T, sc Scenario) *core.Result { return runExpiryImpl(t, sc) }
func shrinkExpiry(sc Scenario) []Scenario              { return shrinkExpiryImpl(sc) }
