// Package c02 decides C02 (server sessions follow the RTSP state machine; one
// response per request; expiry) by whole-system simulation with a scripted raw
// client (request sequences) and with live / silent peers on the fake clock
// (DESIGN 3.2).
package c02

import (
	"context"
	"fmt"
	"net"
	"sort"
	"strings"
	"sync/atomic"
	"testing"
	"time"

	"github.com/pion/rtp"

	gortsplib "github.com/bluenviron/gortsplib/v5"
	"github.com/bluenviron/gortsplib/v5/pkg/base"
	"github.com/bluenviron/gortsplib/v5/pkg/description"
	"github.com/bluenviron/gortsplib/v5/pkg/format"
	"github.com/bluenviron/gortsplib/v5/pkg/headers"

	"verifsim/core"
	"verifsim/peers"
	"verifsim/simnet"
	"verifsim/sys"
)

// Req is one scripted request.
type Req struct {
	Conn   int    `json:"conn"`
	Method string `json:"method"`
	Sess   string `json:"sess"`           // none | right | wrong
	Tr     string `json:"tr,omitempty"`   // SETUP: udp | tcp
	Pipe   bool   `json:"pipe,omitempty"` // do not wait for the response before sending the next request
}

// Scenario is one C02 run.
type Scenario struct {
	Seed    uint64        `json:"seed"`
	Kind    string        `json:"kind"` // seq | expiry
	Net     simnet.Config `json:"net"`
	Handler string        `json:"handler"`
	UDP     bool          `json:"udp"` // server offers UDP
	Medias  int           `json:"medias"`
	Reqs    []Req         `json:"reqs,omitempty"`
	// RefuseReplay: the application refuses (457) a PLAY that arrives for a session which is already
	// playing (a seek it does not support). The session must go on exactly as before - over TCP the
	// interleaved frames must keep coming.
	RefuseReplay bool `json:"refuse_replay,omitempty"`
	// expiry workload
	Exp *Expiry `json:"expiry,omitempty"`
}

var methods = []string{"OPTIONS", "DESCRIBE", "ANNOUNCE", "SETUP", "SETUP", "SETUP", "PLAY", "PLAY", "RECORD", "RECORD", "PAUSE", "TEARDOWN", "GET_PARAMETER", "SET_PARAMETER"}

func gen(seed uint64, tier string) Scenario {
	r := core.NewRand(seed, "c02")
	if r.Bool(0.3) {
		return genExpiry(seed, r)
	}
	sc := genSeq(seed, r)
	// a play conversation over TCP in which the application refuses a PLAY sent while playing
	// (hash-derived so that no other choice moves)
	if x := core.HS(seed, "c02.refusereplay", "", 0); x%100 < 8 {
		sc.RefuseReplay = true
		sc.Handler = "full"
		sc.Reqs = nil
		for i := 0; i < sc.Medias; i++ {
			sc.Reqs = append(sc.Reqs, Req{Conn: 0, Method: "SETUP", Sess: "right", Tr: "tcp"})
		}
		sc.Reqs = append(sc.Reqs, Req{Conn: 0, Method: "PLAY", Sess: "right", Tr: "tcp"})
		for i := 0; i < 1+int((x>>8)%3); i++ {
			sc.Reqs = append(sc.Reqs, Req{Conn: 0, Method: []string{"PLAY", "OPTIONS", "GET_PARAMETER"}[(x>>(16+4*uint(i)))%3], Sess: "right", Tr: "tcp"})
		}
		sc.Reqs = append(sc.Reqs, Req{Conn: 0, Method: "PLAY", Sess: "right", Tr: "tcp"}, Req{Conn: 0, Method: "OPTIONS", Sess: "right", Tr: "tcp"})
	}
	return sc
}

func genSeq(seed uint64, r *core.Rand) Scenario {
	sc := Scenario{Seed: seed, Kind: "seq"}
	sc.Handler = sys.HandlerKinds[r.Intn(len(sys.HandlerKinds))]
	if r.Bool(0.5) {
		sc.Handler = "full"
	}
	sc.UDP = r.Bool(0.7)
	sc.Medias = r.Range(1, 3)
	n := r.Range(1, 12)
	if r.Bool(0.08) {
		n = r.Range(13, 40)
	}
	// half of the sequences are biased towards a plausible conversation so that
	// deep states are reached; the rest is uniform
	biased := r.Bool(0.6)
	var plan []string
	if biased {
		if r.Bool(0.5) {
			plan = []string{"OPTIONS", "DESCRIBE"}
			for i := 0; i < sc.Medias; i++ {
				plan = append(plan, "SETUP")
			}
			plan = append(plan, "PLAY", "PAUSE", "PLAY", "TEARDOWN")
		} else {
			plan = []string{"OPTIONS", "ANNOUNCE"}
			for i := 0; i < sc.Medias; i++ {
				plan = append(plan, "SETUP")
			}
			plan = append(plan, "RECORD", "PAUSE", "RECORD", "TEARDOWN")
		}
	}
	twoConns := r.Bool(0.25)
	tr := "tcp"
	if r.Bool(0.5) {
		tr = "udp"
	}
	for i := 0; i < n; i++ {
		q := Req{}
		if biased && i < len(plan) && r.Bool(0.8) {
			q.Method = plan[i]
		} else {
			q.Method = methods[r.Intn(len(methods))]
		}
		switch u := r.Float(); {
		case u < 0.78:
			q.Sess = "right"
		case u < 0.9:
			q.Sess = "none"
		default:
			q.Sess = "wrong"
		}
		if twoConns && r.Bool(0.3) {
			q.Conn = 1
		}
		q.Tr = tr
		if r.Bool(0.1) {
			q.Tr = []string{"udp", "tcp"}[r.Intn(2)]
		}
		q.Pipe = r.Bool(0.15)
		sc.Reqs = append(sc.Reqs, q)
	}
	nc := simnet.Config{Seed: seed ^ 0x2020202}
	nc.LatMinUS = r.Pick(10, 100, 1000)
	nc.LatMaxUS = nc.LatMinUS + r.Pick(0, 50, 500)
	nc.ChunkMode = r.Pick(0, 1, 2, 3)
	nc.ChunkMaxLen = 2000
	// writes that wait together may travel as one byte run (pipelined requests, a response and
	// the frames behind it); hash-derived so that no other choice moves
	if x := core.HS(seed, "c02.coalesce", "", 0) % 100; x < 30 {
		nc.Coalesce = []float64{0.3, 0.7, 1}[x%3]
	}
	sc.Net = nc
	return sc
}

// ---- reference model (written from the statement / RFC 2326, not from checkState tables) ----

type sessModel struct {
	id        string
	state     string // initial | prePlay | play | preRecord | record
	alive     bool
	tr        string
	conns     map[int]bool // connections certainly belonging to the session (created it, or had a request for it succeed)
	maybe     map[int]bool // connections that addressed it with a request that failed or was not implemented
	uncertain bool         // only "maybe" connections are left: the oracle is silent about whether it ended
	setup     int          // number of medias set up
	ptr       *gortsplib.ServerSession
	streamOn  int // conn that started streaming (tcp)
	endReason string
}

type outcome int

const (
	expOK outcome = iota
	expErr
	expEither
)

func streaming(s *sessModel) bool { return s.state == "play" || s.state == "record" }

type model struct {
	nBadTrack int
	impl     map[base.Method]bool
	udp      bool
	medias   int
	connSess map[int]*sessModel
	sessions []*sessModel
	nextPort int
}

// port returns a fresh even client port: UDP port pairs are a resource, not a
// state-machine matter, so every SETUP gets its own.
func (m *model) port() int {
	m.nextPort += 2
	return 35000 + m.nextPort
}

func (m *model) dump() string {
	var b strings.Builder
	for i, s := range m.sessions {
		fmt.Fprintf(&b, "[#%d id=%.6s state=%s alive=%v tr=%s conns=%v maybe=%v uncertain=%v setup=%d ptr=%v] ", i, s.id, s.state, s.alive, s.tr, keys(s.conns), keys(s.maybe), s.uncertain, s.setup, s.ptr != nil)
	}
	return b.String()
}

func (m *model) byID(id string) *sessModel {
	for _, s := range m.sessions {
		if s.id == id && id != "" {
			return s
		}
	}
	return nil
}

// connGone: the connection went away; sessions that lose their last connection
// end unless they are streaming over UDP.
func (m *model) connGone(k int) {
	delete(m.connSess, k)
	for _, s := range m.sessions {
		if !s.alive || (!s.conns[k] && !s.maybe[k]) {
			continue
		}
		delete(s.conns, k)
		delete(s.maybe, k)
		if s.tr == "tcp" && streaming(s) && s.streamOn == k && (len(s.conns) > 0 || len(s.maybe) > 0) {
			// the connection carrying the interleaved media is gone while another
			// connection still refers to the session: the statement does not say
			// whether the session survives (its writer fails on the dead connection)
			s.uncertain = true
			s.streamOn = -1 // a reconnection reuses the index but is another connection
			continue
		}
		if len(s.conns) == 0 && !(s.tr == "udp" && streaming(s)) {
			if len(s.maybe) == 0 {
				s.alive = false
				s.endReason = "last connection gone"
			} else {
				// whether a connection whose request for the session failed counts as one of
				// "its connections" is not fixed by the statement
				s.uncertain = true
			}
		}
	}
}

func mkDesc(n int) *description.Session {
	d := &description.Session{}
	for i := 0; i < n; i++ {
		g := &format.Generic{PayloadTyp: uint8(96 + i), RTPMa: "private/90000"}
		g.Init() //nolint:errcheck
		d.Medias = append(d.Medias, &description.Media{Type: description.MediaTypeVideo, Formats: []format.Format{g},
			Control: fmt.Sprintf("trackID=%d", i)})
	}
	return d
}

func isOK(res *base.Response) bool { return res.StatusCode >= 200 && res.StatusCode < 300 }

func run(t *testing.T, sc Scenario) *core.Result {
	if sc.Kind == "expiry" {
		return runExpiry(t, sc)
	}
	opts := sys.Options{Seed: sc.Seed, Net: sc.Net, MaxSteps: 300000, Horizon: 10 * time.Minute}
	var summary map[string]any
	res := sys.Run(t, opts, func(w *sys.World) {
		w.ProbeInit("media_continues_after_refused_request", "reached_play", "reached_record", "reached_preRecord", "reached_prePlay", "illegal_request_rejected", "conn_closed_after_error",
			"session_ended_by_teardown", "conn_kept_after_teardown", "session_ended_last_conn", "session_survives_conn_udp", "pipelined_batch", "two_conns",
			"wrong_session_id", "not_implemented", "either_outcome", "unsupported_transport")
		srvNode := w.Net.Node("srv", "10.0.0.1")
		h := sys.NewHandler(w)
		srv := &gortsplib.Server{RTSPAddress: "10.0.0.1:8554", Handler: sys.WrapHandler(sc.Handler, h), IdleTimeout: 600 * time.Second}
		if sc.UDP {
			srv.UDPRTPAddress, srv.UDPRTCPAddress = "10.0.0.1:8000", "10.0.0.1:8001"
		}
		h.Server = srv
		sys.WireServer(srv, srvNode, nil)
		if err := srv.Start(); err != nil {
			w.Fail("c02/api-error server", "Server.Start: %v", err)
			return
		}
		desc := mkDesc(sc.Medias)
		stream := &gortsplib.ServerStream{Server: srv, Desc: desc}
		if err := stream.Initialize(); err != nil {
			w.Fail("c02/api-error server", "stream: %v", err)
			return
		}
		h.SetStream("/stream", stream)
		if sc.RefuseReplay {
			h.PlayStatus = func(ss *gortsplib.ServerSession) base.StatusCode {
				if ss.State() == gortsplib.ServerSessionStatePlay {
					return base.StatusInvalidRange
				}
				return 0
			}
		}
		cli := w.Net.Node("cli", "10.0.0.20")

		var writing atomic.Bool
		nPackets := 40
		if sc.RefuseReplay {
			nPackets = 600
		}
		w.Go("writer", func() {
			writing.Store(true)
			defer writing.Store(false)
			for i := 0; i < nPackets; i++ {
				for _, m := range desc.Medias {
					stream.WritePacketRTP(m, &rtp.Packet{Header: rtp.Header{Version: 2, PayloadType: m.Formats[0].PayloadType(), SequenceNumber: uint16(i)}, Payload: []byte{1, 2, 3, 4}}) //nolint:errcheck
				}
				time.Sleep(3 * time.Millisecond)
			}
		})

		m := &model{impl: sys.Implements(sc.Handler), udp: sc.UDP, medias: sc.Medias, connSess: map[int]*sessModel{}}
		nreq := 0
		w.Go("client", func() {
			type pendingCheck struct {
				frames int
				what   string
			}
			pendingMedia := map[int]pendingCheck{}
			conns := map[int]*peers.RawConn{}
			ports := map[int]int{}
			knownID := "" // the id of the most recent session this client learnt
			settle := 4*time.Duration(sc.Net.LatMaxUS)*time.Microsecond + 5*time.Millisecond

			getConn := func(k int) *peers.RawConn {
				if c, ok := conns[k]; ok && !c.Closed {
					return c
				}
				ctx, cancel := ctxTimeout(10 * time.Second)
				defer cancel()
				nc, err := cli.DialContext(ctx, "tcp", "10.0.0.1:8554")
				if err != nil {
					w.Fail("c02/alive server", "cannot connect to the server: %v", err)
					return nil
				}
				c := peers.NewRawConn(nc)
				conns[k] = c
				ports[k] = nc.LocalAddr().(*net.TCPAddr).Port
				return c
			}
			serverClosed := func(k int) bool {
				p := ports[k]
				for _, cb := range h.Callbacks() {
					if cb.Kind == "conn.close" && cb.Conn.NetConn().RemoteAddr().(*net.TCPAddr).Port == p {
						return true
					}
				}
				return false
			}
			sessClosed := func(s *sessModel) (bool, error) {
				for _, cb := range h.Callbacks() {
					if cb.Kind == "session.close" && cb.Session == s.ptr {
						return true, cb.Err
					}
				}
				return false, nil
			}
			bindPtr := func(s *sessModel) {
				if s.ptr != nil || s.id == "" {
					return
				}
				for _, cb := range h.Callbacks() {
					if cb.Kind == "session.open" && cb.Session.VerifSecretID() == s.id {
						s.ptr = cb.Session
					}
				}
			}
			// newest session opened on the server that the model does not know yet
			adoptNew := func(s *sessModel) {
				if s.ptr != nil {
					return
				}
				known := map[*gortsplib.ServerSession]bool{}
				for _, x := range m.sessions {
					if x.ptr != nil {
						known[x.ptr] = true
					}
				}
				for _, cb := range h.Callbacks() {
					if cb.Kind == "session.open" && !known[cb.Session] {
						s.ptr = cb.Session
						s.id = cb.Session.VerifSecretID()
						return
					}
				}
			}
			stateName := func(st gortsplib.ServerSessionState) string { return st.String() }

			type sent struct {
				k     int
				q     Req
				cseq  string
				tgt   *sessModel
				fresh bool // tgt was created for this request
				exp   outcome
				onOK  func()
				note  string
				mediaCheck bool
			}

			verifyStates := func(after string) bool {
				time.Sleep(settle)
				for _, s := range m.sessions {
					bindPtr(s)
					if s.ptr == nil {
						continue
					}
					closed, cerr := sessClosed(s)
					if s.alive && s.uncertain {
						if closed {
							s.alive = false
							s.endReason = "ended (uncertain connection set)"
						}
						continue
					}
					if s.alive && closed {
						w.Fail("c02/session-end premature", "after %s: session %s (model state %s, transport %q, conns %v) was closed by the server (%v) although the model keeps it alive", after, s.id, s.state, s.tr, keys(s.conns), cerr)
						return false
					}
					if !s.alive && !closed {
						w.Fail("c02/session-end missing", "after %s: session %s should have ended (%s) but no OnSessionClose was delivered; model: %s", after, s.id, s.endReason, m.dump())
						return false
					}
					if s.alive {
						if got := stateName(s.ptr.State()); got != s.state {
							w.Fail("c02/state mismatch", "after %s: ServerSession.State()=%s, RFC 2326 model predicts %s", after, got, s.state)
							return false
						}
					}
				}
				return true
			}

			i := 0
			for i < len(sc.Reqs) && !w.Failed() {
				// a batch: requests up to and including the first one without Pipe, on one connection
				k := sc.Reqs[i].Conn
				j := i
				for j < len(sc.Reqs)-1 && sc.Reqs[j].Pipe && sc.Reqs[j+1].Conn == k {
					j++
				}
				batch := sc.Reqs[i : j+1]
				i = j + 1
				if len(batch) > 1 {
					w.Probe("pipelined_batch")
				}
				if k == 1 {
					w.Probe("two_conns")
				}
				// the server may have closed this connection in the meantime (e.g. it closes the
				// other connections of a session that was torn down): then the client reconnects
				if cc, okc := conns[k]; okc && !cc.Closed && serverClosed(k) {
					cc.Close()
					m.connGone(k)
				}
				c := getConn(k)
				if c == nil {
					return
				}
				var sents []sent
				// Build and send. The model is advanced optimistically per request in order,
				// on a copy of the decision inputs, then confirmed against the responses.
				for _, q := range batch {
					nreq++
					req, s := buildRequest(m, q, k, knownID, sc, desc)
					if req == nil {
						continue
					}
					cs, err := c.Send(req)
					w.Log.Add("cli", "request", "c%d %s %s sess=%v exp=%d (%s)", k, req.Method, req.URL, req.Header["Session"], s.exp, s.note)
					if err != nil {
						// the server closed the connection under us
						break
					}
					s.k, s.q, s.cseq = k, q, cs
					sents = append(sents, sent{k: k, q: q, cseq: cs, tgt: s.tgt, fresh: s.fresh, exp: s.exp, onOK: s.onOK, note: s.note, mediaCheck: s.mediaCheck})
					// apply the prediction now so that the next pipelined request is judged in the right state
					if s.exp == expOK && s.onOK != nil {
						s.onOK()
					}
					if s.exp != expOK {
						// an error may make the server close the connection, and an unpredictable
						// outcome cannot be pipelined past: stop the batch here
						break
					}
				}
				// read the responses: one per request, in order, echoing CSeq
				closedMid := false
				teardownOKLast := false
				for idx, s := range sents {
					res, err := c.ReadResponse(20 * time.Second)
					if err != nil {
						// no response: legitimate only if the server closed the connection after an error response
						time.Sleep(settle)
						if idx > 0 && serverClosed(k) {
							closedMid = true
							// requests after the close were never processed: undo their optimistic effects is
							// not possible in general, so pipelined batches only continue after predicted successes
							break
						}
						if serverClosed(k) && idx == 0 {
							// the connection had been closed by the server before this batch (after an earlier error)
							closedMid = true
							break
						}
						w.Fail("c02/response missing", "request %d (%s, CSeq %s) got no response: %v (connection closed by server: %v)", idx, s.q.Method, s.cseq, err, serverClosed(k))
						return
					}
					if got := res.Header["CSeq"]; len(got) != 1 || got[0] != s.cseq {
						w.Fail("c02/response cseq", "response to %s carries CSeq %v, request had %s (responses out of order or CSeq not echoed)", s.q.Method, got, s.cseq)
						return
					}
					ok := isOK(res)
					if pc, has := pendingMedia[k]; has {
						delete(pendingMedia, k)
						if c.Frames == pc.frames {
							w.Fail("c02/refused-request media", "%s; the session is still in state play, but no interleaved frame arrived on its connection during the following 80 ms (until the next response was read) although the stream is written every 3 ms", pc.what)
							return
						}
						w.Probe("media_continues_after_refused_request")
					}
					w.Log.Add("cli", "response", "c%d %d %s sess=%v", k, res.StatusCode, res.StatusMessage, res.Header["Session"])
					teardownOKLast = ok && s.exp == expOK && s.q.Method == "TEARDOWN" && idx == len(sents)-1
					switch s.exp {
					case expOK:
						if !ok {
							w.Fail("c02/legal-request rejected", "%s (%s) was answered %d %s although it is legal in model state; sequence so far: %s", s.q.Method, s.note, res.StatusCode, res.StatusMessage, describe(sc.Reqs[:i]))
							return
						}
					case expErr:
						if strings.Contains(s.note, "[unknown-id]") {
							w.Probe("wrong_session_id")
						}
						if ok {
							w.Fail("c02/illegal-request accepted", "%s (%s) was answered %d although the model says it must be refused", s.q.Method, s.note, res.StatusCode)
							return
						}
						w.Probe("illegal_request_rejected")
						if s.mediaCheck && writing.Load() {
							// a refused request changes nothing: the stream's packets keep arriving. They are
							// counted while the next response on this connection is read (reading with a short
							// deadline instead could stop in the middle of a frame and lose the framing).
							time.Sleep(80 * time.Millisecond)
							if writing.Load() {
								pendingMedia[k] = pendingCheck{frames: c.Frames, what: fmt.Sprintf("%s (%s) was refused with %d", s.q.Method, s.note, res.StatusCode)}
							}
						}
					case expEither:
						w.Probe("either_outcome")
						if ok && s.onOK != nil {
							s.onOK()
						}
					}
					// learn the session id
					if v, okh := res.Header["Session"]; okh {
						var sx headers.Session
						if sx.Unmarshal(v) == nil {
							knownID = sx.Session
							if s.tgt != nil && s.tgt.id == "" {
								if ex := m.byID(sx.Session); ex != nil && ex != s.tgt {
									// the request was served by an existing session, no new one was opened
									for x, sm := range m.sessions {
										if sm == s.tgt {
											m.sessions = append(m.sessions[:x], m.sessions[x+1:]...)
											break
										}
									}
									if ex.maybe == nil {
										ex.maybe = map[int]bool{}
									}
									ex.maybe[s.k] = true
									if m.connSess[s.k] == s.tgt {
										delete(m.connSess, s.k)
									}
								} else {
									s.tgt.id = sx.Session
								}
							}
						}
					}
					if s.tgt != nil && s.tgt.id == "" {
						time.Sleep(settle)
						adoptNew(s.tgt)
					}
					if s.q.Method == "ANNOUNCE" && s.fresh && ok {
						// the ANNOUNCE response carries no Session header: the client has no id yet
						knownID = ""
					}
					if s.q.Method == "SETUP" && res.StatusCode == base.StatusUnsupportedTransport {
						w.Probe("unsupported_transport")
					}
					if res.StatusCode == base.StatusNotImplemented {
						w.Probe("not_implemented")
					}
				}
				// did the server close the connection?
				time.Sleep(settle)
				if teardownOKLast && !closedMid && serverClosed(k) {
					// the connection that carried a successful TEARDOWN stays usable: the next request on it
					// is owed a response like any other ("exactly one response per request")
					w.Fail("c02/conn closed-after-teardown", "the server closed connection c%d right after answering 200 to TEARDOWN on it; sequence: %s", k, describe(sc.Reqs[:i]))
					return
				}
				if teardownOKLast {
					w.Probe("conn_kept_after_teardown")
				}
				if serverClosed(k) || closedMid {
					w.Probe("conn_closed_after_error")
					if cc := conns[k]; cc != nil {
						cc.Close()
					}
					m.connGone(k)
				}
				if !verifyStates(describe(batch)) {
					return
				}
				for _, s := range m.sessions {
					switch s.state {
					case "play":
						w.Probe("reached_play")
					case "record":
						w.Probe("reached_record")
					case "preRecord":
						w.Probe("reached_preRecord")
					case "prePlay":
						w.Probe("reached_prePlay")
					}
				}
			}
			if w.Failed() {
				return
			}
			// the client goes away: sessions end unless streaming over UDP
			var ks []int
			for k := range conns {
				ks = append(ks, k)
			}
			sort.Ints(ks)
			for _, k := range ks {
				if !conns[k].Closed {
					conns[k].Close()
					time.Sleep(settle)
					m.connGone(k)
				}
			}
			for _, s := range m.sessions {
				if s.alive {
					w.Probe("session_survives_conn_udp")
				} else if s.endReason == "teardown" {
					w.Probe("session_ended_by_teardown")
				} else {
					w.Probe("session_ended_last_conn")
				}
			}
			if !verifyStates("client connections closed") {
				return
			}
			// no sequence makes a later well-formed request on a fresh connection fail
			ctx, cancel := ctxTimeout(10 * time.Second)
			defer cancel()
			nc, err := cli.DialContext(ctx, "tcp", "10.0.0.1:8554")
			if err != nil {
				w.Fail("c02/alive server", "fresh connection refused after the sequence: %v", err)
				return
			}
			fc := peers.NewRawConn(nc)
			u, _ := base.ParseURL("rtsp://10.0.0.1:8554/stream")
			fc.Send(&base.Request{Method: base.Options, URL: u}) //nolint:errcheck
			res, err := fc.ReadResponse(20 * time.Second)
			if err != nil || !isOK(res) {
				w.Fail("c02/alive server", "OPTIONS on a fresh connection after the sequence failed: %v %v", err, res)
			}
			fc.Close()
		})

		w.Go("closer", func() {
			w.WaitDrivers("client", "writer")
			stream.Close()
			srv.Close()
		})

		w.AtEnd(func() {
			if w.Failed() {
				return
			}
			opens := map[*gortsplib.ServerSession]int{}
			closes := map[*gortsplib.ServerSession]int{}
			for _, cb := range h.Callbacks() {
				if cb.Kind == "session.open" {
					opens[cb.Session]++
				}
				if cb.Kind == "session.close" {
					closes[cb.Session]++
				}
			}
			for s, n := range opens {
				if n != 1 || closes[s] != 1 {
					w.Fail("c02/session-end exactly-once", "session %s: %d OnSessionOpen, %d OnSessionClose", s.VerifSecretID(), n, closes[s])
					return
				}
			}
			summary = map[string]any{"requests": nreq, "sessions": len(opens), "handler": sc.Handler, "sequence": describe(sc.Reqs)}
		})
	})
	res.Nontrivial = len(sc.Reqs) >= 2 && (res.Faults["tcp.chunk1"]+res.Faults["tcp.chunkN"] > 0 || res.Probes["pipelined_batch"] > 0)
	res.Sample = summary
	return res
}

func ctxTimeout(d time.Duration) (context.Context, context.CancelFunc) {
	return context.WithTimeout(context.Background(), d)
}

func keys(m map[int]bool) []int {
	var out []int
	for k := range m {
		out = append(out, k)
	}
	sort.Ints(out)
	return out
}

func describe(rs []Req) string {
	var b strings.Builder
	for _, q := range rs {
		fmt.Fprintf(&b, "%s[c%d,%s", q.Method, q.Conn, q.Sess)
		if q.Method == "SETUP" {
			b.WriteString("," + q.Tr)
		}
		if q.Pipe {
			b.WriteString(",pipe")
		}
		b.WriteString("] ")
	}
	return b.String()
}

type built struct {
	k     int
	q     Req
	cseq  string
	tgt   *sessModel
	fresh bool
	exp   outcome
	onOK  func()
	note  string
	// mediaCheck: after the answer the interleaved frames of the session must keep coming on this connection
	mediaCheck bool
}

// buildRequest turns a scripted request into wire form and asks the model what
// must happen. The model is written from the statement: which methods are
// legal in which state, what state follows, when a session ends.
func buildRequest(m *model, q Req, k int, knownID string, sc Scenario, desc *description.Session) (*base.Request, *built) {
	b := &built{}
	method := base.Method(q.Method)
	req := &base.Request{Method: method, Header: base.Header{}}
	playURL, _ := base.ParseURL("rtsp://10.0.0.1:8554/stream")
	pubURL, _ := base.ParseURL("rtsp://10.0.0.1:8554/pub")
	req.URL = playURL

	// ---- which session does the request address? -----------------------------------
	var tgt *sessModel
	hdr := q.Sess
	if hdr == "right" && knownID == "" {
		hdr = "none"
	}
	attached := m.connSess[k]
	if attached != nil && !attached.alive {
		attached = nil
	}
	switch hdr {
	case "wrong":
		req.Header["Session"] = base.HeaderValue{"deadbeefdeadbeefdeadbeefdeadbeef"}
	case "right":
		req.Header["Session"] = base.HeaderValue{knownID}
		tgt = m.byID(knownID)
		if tgt != nil && !tgt.alive {
			tgt = nil
			b.note = "session id of an ended session"
			hdr = "stale"
		}
	}

	impl := func(mm base.Method) bool { return m.impl[mm] }
	set := func(exp outcome, note string, onOK func()) {
		b.exp, b.onOK = exp, onOK
		if b.note == "" {
			b.note = note
		} else {
			b.note += "; " + note
		}
	}
	attach := func(s *sessModel) {
		s.conns[k] = true
		s.uncertain = false
		m.connSess[k] = s
	}

	// a wrong / stale id addresses no session: error, nothing changes. Exception the statement
	// does not cover: ANNOUNCE/SETUP are allowed to create a session; with a bogus id we stay silent.
	if hdr == "wrong" || hdr == "stale" {
		b.note += "[unknown-id]"
		switch method {
		case base.Describe:
			if impl(base.Describe) {
				set(expEither, "DESCRIBE with unknown session id", nil)
			} else {
				set(expErr, "DESCRIBE not implemented", nil)
			}
		case base.Announce, base.Setup:
			// may or may not create a session: do not generate (the statement is about well-formed conversations)
			req.Method = base.Options
			set(expErr, "OPTIONS with unknown session id", nil)
		default:
			set(expErr, string(method)+" with unknown session id", nil)
		}
		return req, b
	}
	// a session other than the one this connection already carries: silent
	// (a server may refuse it because of the binding, or serve it as if there were no binding: when
	// it answers 200 the transition of the addressed session is the ordinary one)
	soften := ""
	if tgt != nil && attached != nil && tgt != attached {
		soften = "addresses another session than the one bound to this connection"
	}
	// ... or may carry: a connection that addressed another live session before, with a request that
	// failed, may or may not be bound to it (the library binds it; the statement does not say)
	if tgt != nil && soften == "" {
		for _, x := range m.sessions {
			if x != tgt && x.alive && x.maybe[k] {
				soften = "this connection addressed another live session before (with a request that failed)"
				break
			}
		}
	}
	if soften != "" {
		defer func() {
			if b.exp == expOK {
				b.exp = expEither
			}
			b.note += "; " + soften
		}()
	}
	if tgt == nil && hdr == "none" {
		switch method {
		case base.Announce, base.Setup:
			tgt = attached
			if tgt == nil {
				// A header-less ANNOUNCE/SETUP on a connection that has already addressed a
				// session (with a request that failed) is ambiguous - new session or that
				// one? The statement does not say: do not generate it.
				for _, x := range m.sessions {
					if x.alive && x.maybe[k] {
						req.Method = base.Options
						set(expOK, "OPTIONS (ambiguous header-less "+q.Method+" avoided)", nil)
						return req, b
					}
				}
			}
		}
	}
	// interleaved sessions are bound to their connection (C19): silent here
	foreignConn := tgt != nil && tgt.tr == "tcp" && streaming(tgt) && tgt.streamOn != k
	// any request that addresses a live session makes its connection one of the session's
	// connections, whatever the outcome ("a session ends when its last connection goes away")
	if tgt != nil {
		if tgt.maybe == nil {
			tgt.maybe = map[int]bool{}
		}
		tgt.maybe[k] = true
	}

	switch method {
	case base.Options:
		if tgt != nil && foreignConn {
			set(expEither, "OPTIONS for an interleaved session from another connection", nil)
		} else {
			t := tgt
			set(expOK, "OPTIONS is always legal", func() {
				if t != nil {
					attach(t)
				}
			})
		}
	case base.Describe:
		if impl(base.Describe) {
			set(expOK, "DESCRIBE of an existing path", nil)
		} else {
			set(expErr, "DESCRIBE not implemented by the application", nil)
		}
	case base.GetParameter:
		switch {
		case tgt != nil && foreignConn:
			set(expEither, "GET_PARAMETER from another connection", nil)
		case tgt != nil:
			t := tgt
			set(expOK, "GET_PARAMETER in a session (keep-alive)", func() { attach(t) })
		case impl(base.GetParameter):
			set(expOK, "GET_PARAMETER outside a session", nil)
		default:
			set(expErr, "GET_PARAMETER not implemented by the application", nil)
		}
	case base.SetParameter:
		switch {
		case !impl(base.SetParameter):
			if tgt != nil {
				set(expEither, "SET_PARAMETER not implemented", nil)
			} else {
				set(expErr, "SET_PARAMETER not implemented by the application", nil)
			}
		case tgt != nil && foreignConn:
			set(expEither, "SET_PARAMETER from another connection", nil)
		default:
			t := tgt
			set(expOK, "SET_PARAMETER", func() {
				if t != nil {
					attach(t)
				}
			})
		}
	case base.Announce:
		req.URL = pubURL
		pd := mkDesc(sc.Medias)
		body, _ := pd.Marshal()
		req.Header["Content-Type"] = base.HeaderValue{"application/sdp"}
		req.Body = body
		switch {
		case !impl(base.Announce):
			set(expErr, "ANNOUNCE not implemented by the application", nil)
		case tgt == nil:
			s := &sessModel{state: "initial", alive: false, conns: map[int]bool{}}
			b.tgt, b.fresh = s, true
			set(expOK, "ANNOUNCE opens a session (initial -> preRecord)", func() {
				s.alive = true
				s.state = "preRecord"
				m.sessions = append(m.sessions, s)
				attach(s)
			})
			return req, b
		case tgt.state == "initial":
			t := tgt
			set(expOK, "ANNOUNCE from initial", func() { t.state = "preRecord"; attach(t) })
		default:
			set(expErr, "ANNOUNCE is only legal in the initial state (now "+tgt.state+")", nil)
		}
	case base.Setup:
		trh := headers.Transport{Delivery: ptrOf(headers.TransportDeliveryUnicast)}
		tr := q.Tr
		if tgt != nil && tgt.tr != "" {
			tr = tgt.tr // keep the session's transport: changing it is not a state-machine question
		}
		if tr == "udp" {
			trh.Protocol = headers.TransportProtocolUDP
			p0 := m.port()
			trh.ClientPorts = &[2]int{p0, p0 + 1}
			// "RTP/AVP;client_port=a-b": no unicast / multicast token at all (client ports say unicast)
			if core.HS(sc.Seed, "c02.nodelivery", "", uint64(k)*131+uint64(p0))%5 == 0 {
				trh.Delivery = nil
			}
		} else {
			trh.Protocol = headers.TransportProtocolTCP
		}
		nset := 0
		if tgt != nil {
			nset = tgt.setup
		}
		if nset >= sc.Medias && tgt != nil && !foreignConn && !streaming(tgt) && (tgt.state == "prePlay" || tgt.state == "initial") &&
			core.HS(sc.Seed, "c02.badtrack", "", uint64(m.nBadTrack))%100 < 40 && impl(base.Setup) && !(tr == "udp" && !m.udp) {
			// a SETUP for a media that does not exist (index = number of medias, or beyond): an error,
			// nothing changes
			m.nBadTrack++
			idx := sc.Medias + []int{0, 0, 1, 7, 99}[core.HS(sc.Seed, "c02.badtrackidx", "", uint64(m.nBadTrack))%5]
			req.URL, _ = base.ParseURL(fmt.Sprintf("rtsp://10.0.0.1:8554/stream/trackID=%d", idx))
			if tr == "tcp" {
				trh.InterleavedIDs = &[2]int{2 * idx, 2*idx + 1}
			}
			req.Header["Transport"] = trh.Marshal()
			set(expErr, fmt.Sprintf("SETUP for media %d of a stream with %d medias", idx, sc.Medias), nil)
			return req, b
		}
		if nset >= sc.Medias {
			// every media is set up already: not a state question, send a neutral request instead
			req.Method = base.Options
			t := tgt
			if t != nil && foreignConn {
				set(expEither, "OPTIONS from another connection", nil)
			} else {
				set(expOK, "OPTIONS (all medias already set up)", func() {
					if t != nil {
						attach(t)
					}
				})
			}
			return req, b
		}
		record := tgt != nil && (tgt.state == "preRecord" || tgt.state == "record")
		if record {
			trh.Mode = ptrOf(headers.TransportModeRecord)
			req.URL, _ = base.ParseURL(fmt.Sprintf("rtsp://10.0.0.1:8554/pub/trackID=%d", nset))
		} else {
			req.URL, _ = base.ParseURL(fmt.Sprintf("rtsp://10.0.0.1:8554/stream/trackID=%d", nset))
		}
		if tr == "tcp" {
			trh.InterleavedIDs = &[2]int{2 * nset, 2*nset + 1}
		}
		req.Header["Transport"] = trh.Marshal()
		unsupported := tr == "udp" && !m.udp
		switch {
		case !impl(base.Setup):
			set(expErr, "SETUP not implemented by the application", nil)
		case tgt == nil:
			s := &sessModel{state: "initial", conns: map[int]bool{}}
			b.tgt, b.fresh = s, true
			if unsupported {
				// refused, but a session may have been opened for it: it exists in the initial state
				set(expErr, "SETUP with a transport the server does not offer", nil)
				s.alive = true
				m.sessions = append(m.sessions, s)
				attach(s)
				return req, b
			}
			set(expOK, "SETUP opens a session (initial -> prePlay)", func() {
				s.alive = true
				s.state = "prePlay"
				s.tr = tr
				s.setup = 1
				m.sessions = append(m.sessions, s)
				attach(s)
			})
			return req, b
		case foreignConn:
			set(expEither, "SETUP from another connection", nil)
		case streaming(tgt):
			set(expEither, "SETUP while streaming (RFC allows, servers may refuse)", nil)
		case unsupported:
			set(expErr, "SETUP with a transport the server does not offer", nil)
		default:
			t := tgt
			set(expOK, "SETUP in "+tgt.state, func() {
				if t.state == "initial" {
					t.state = "prePlay"
				}
				t.tr = tr
				t.setup++
				attach(t)
			})
		}
	case base.Play:
		switch {
		case hdr == "none":
			set(expErr, "PLAY without Session header", nil)
		case !impl(base.Play):
			set(expErr, "PLAY not implemented by the application", nil)
		case tgt == nil:
			set(expErr, "PLAY without a session", nil)
		case foreignConn:
			set(expEither, "PLAY from another connection", nil)
		case tgt.state == "play" && sc.RefuseReplay:
			set(expErr, "PLAY while playing, which the application refuses (457)", nil)
			b.mediaCheck = tgt.tr == "tcp" && tgt.streamOn == k
		case tgt.state == "prePlay" || tgt.state == "play":
			t := tgt
			set(expOK, "PLAY in "+tgt.state, func() {
				if t.state != "play" {
					t.streamOn = k
				}
				t.state = "play"
				attach(t)
			})
		default:
			set(expErr, "PLAY is illegal in "+tgt.state, nil)
		}
	case base.Record:
		req.URL = pubURL
		switch {
		case hdr == "none":
			set(expErr, "RECORD without Session header", nil)
		case !impl(base.Record):
			set(expErr, "RECORD not implemented by the application", nil)
		case tgt == nil:
			set(expErr, "RECORD without a session", nil)
		case foreignConn:
			set(expEither, "RECORD from another connection", nil)
		case tgt.state == "preRecord" && tgt.setup == sc.Medias:
			t := tgt
			set(expOK, "RECORD in preRecord with all medias set up", func() { t.state = "record"; t.streamOn = k; attach(t) })
		case tgt.state == "preRecord":
			set(expErr, "RECORD before every announced media is set up", nil)
		case tgt.state == "record":
			set(expEither, "RECORD while recording", nil)
		default:
			set(expErr, "RECORD is illegal in "+tgt.state, nil)
		}
	case base.Pause:
		if tgt != nil && (tgt.state == "preRecord" || tgt.state == "record") {
			req.URL = pubURL
		}
		switch {
		case hdr == "none":
			set(expErr, "PAUSE without Session header", nil)
		case !impl(base.Pause):
			set(expErr, "PAUSE not implemented by the application", nil)
		case tgt == nil:
			set(expErr, "PAUSE without a session", nil)
		case foreignConn:
			set(expEither, "PAUSE from another connection", nil)
		case tgt.state == "initial":
			set(expErr, "PAUSE is illegal in initial", nil)
		default:
			t := tgt
			set(expOK, "PAUSE in "+tgt.state, func() {
				switch t.state {
				case "play":
					t.state = "prePlay"
				case "record":
					t.state = "preRecord"
				}
				attach(t)
			})
		}
	case base.Teardown:
		switch {
		case hdr == "none":
			set(expErr, "TEARDOWN without Session header", nil)
		case tgt == nil:
			set(expErr, "TEARDOWN without a session", nil)
		case foreignConn:
			set(expEither, "TEARDOWN from another connection", func() {})
		default:
			t := tgt
			set(expOK, "TEARDOWN ends the session", func() {
				t.alive = false
				t.endReason = "teardown"
				delete(t.conns, k)
				if m.connSess[k] == t {
					delete(m.connSess, k)
				}
			})
		}
	}
	if b.tgt == nil {
		b.tgt = tgt
	}
	if b.exp == expEither && tgt != nil && b.onOK == nil {
		// outcome unknown: the oracle is silent about what follows for this session
		t := tgt
		b.onOK = func() {}
		_ = t
	}
	return req, b
}

func ptrOf[T any](v T) *T { return &v }

func shrink(sc Scenario) []Scenario {
	if sc.Kind == "expiry" {
		return shrinkExpiry(sc)
	}
	var out []Scenario
	clone := func() Scenario {
		c := sc
		c.Reqs = append([]Req(nil), sc.Reqs...)
		return c
	}
	for i := range sc.Reqs {
		if len(sc.Reqs) > 1 {
			c := clone()
			c.Reqs = append(c.Reqs[:i], c.Reqs[i+1:]...)
			out = append(out, c)
		}
	}
	for i, q := range sc.Reqs {
		if q.Pipe {
			c := clone()
			c.Reqs[i].Pipe = false
			out = append(out, c)
		}
		if q.Conn != 0 {
			c := clone()
			c.Reqs[i].Conn = 0
			out = append(out, c)
		}
		if q.Sess != "right" {
			c := clone()
			c.Reqs[i].Sess = "right"
			out = append(out, c)
		}
	}
	if sc.Handler != "full" {
		c := clone()
		c.Handler = "full"
		out = append(out, c)
	}
	if sc.Medias > 1 {
		c := clone()
		c.Medias = 1
		out = append(out, c)
	}
	if sc.Net.ChunkMode != 0 {
		c := clone()
		c.Net.ChunkMode = 0
		out = append(out, c)
	}
	return out
}

func init() {
	f := core.Register("C02", gen, run, shrink)
	f.Real = []string{"gortsplib.Server, ServerConn, ServerSession, ServerStream (and, in the expiry workload, gortsplib.Client as the live peer)", "pkg/base, pkg/conn, pkg/headers, pkg/description (also used by the scripted client to encode its requests)"}
	f.Simulated = []string{"TCP and UDP sockets (simnet)", "clock, timers, deadlines (fake clock)", "the scripted raw client and the silent peers (harness code)"}
	f.Excluded = []string{"UDP-multicast transport", "TLS (state machine and expiry are independent of it; C17 covers the secure profile)"}
	f.Rule = "seq: request sequence of length 1..12 (8%: 13..40) over the 10 methods x {no / right / wrong Session header} on 1..2 connections, 15% pipelined, 60% biased towards a plausible play or record conversation, for 5 handler subsets and UDP on/off, under every chunking mode; expiry: sessions in PLAY/RECORD over UDP/TCP with a live real client or a peer silent on control, media or both, seeded timeouts and check periods, horizon 3-5 idle timeouts. Non-trivial = >= 2 requests and a chunked delivery or a pipelined batch (seq) / a timeout-driven event or a keep-alive observed (expiry); distinct = distinct canonical event log"
	f.Assumptions = []string{
		"the model predicts success/error classes, not status codes; it is silent (either outcome accepted, state then taken from the response) for: RECORD while recording, SETUP while streaming, requests for an interleaved session from another connection (C19), requests naming another session than the one bound to the connection, DESCRIBE carrying an unknown session id, SET_PARAMETER in a session when the application does not implement it",
		"requests are well formed: SETUP uses the next media not yet set up and keeps the session's transport; semantic inconsistencies (duplicate SETUP, transport change, path change) are not generated",
		"a request that gets no response is accepted only when the server had closed the connection after answering an earlier request of the same batch with an error",
	}
}
