// Package c15 holds the scenario family of property C15.
package c15
