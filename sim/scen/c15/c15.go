// Package c15 decides C15 (timestamps: 64-bit PTS continuation and NTP
// mapping) by simulating writer -> rtpsender.Sender -> link -> rtpreceiver.Receiver
// + rtptime.GlobalDecoder on the fake clock of one bubble.
//
// The writer of every track owns an exact 64-bit timeline (tick index K) and
// a linear association K <-> wall time. Everything the oracles expect is
// derived from that timeline and from the statement of C15; nothing is read
// back from the library except the values under test (PTS, PacketNTP, the
// sender reports travelling over the link).
package c15

import (
	"container/heap"
	"fmt"
	"math/big"
	"sync"
	"sync/atomic"
	"testing"
	"testing/synctest"
	"time"

	"github.com/pion/rtcp"
	"github.com/pion/rtp"

	"github.com/bluenviron/gortsplib/v5/pkg/ntp"
	"github.com/bluenviron/gortsplib/v5/pkg/rtpreceiver"
	"github.com/bluenviron/gortsplib/v5/pkg/rtpsender"
	"github.com/bluenviron/gortsplib/v5/pkg/rtptime"

	"verifsim/core"
)

// ---- scenario ------------------------------------------------------------------

// Pkt is one RTP packet of a track.
type Pkt struct {
	// N is the packet's identity (stable under shrinking; keys the hash-derived choices).
	N int `json:"n"`
	// K is the position of the packet on the writer's exact 64-bit timeline, in
	// clock ticks. The 32-bit RTP timestamp is uint32(TS0 + K).
	K int64 `json:"k"`
	// B marks a packet whose PTS differs from its DTS (B-frame): it is written
	// out of presentation order and is not a time anchor.
	B bool `json:"b,omitempty"`
	// G places the write instant of a B packet between its predecessor and the
	// next PTS==DTS packet (1/65536 units).
	G uint16 `json:"g,omitempty"`
}

// Track is one track of the writer.
type Track struct {
	Rate      int    `json:"rate"`
	TS0       uint32 `json:"ts0"`
	StartNS   int64  `json:"start_ns"` // bubble-relative instant of K == 0
	Pkts      []Pkt  `json:"pkts"`
	SndPerNS  int64  `json:"snd_period_ns"`
	RcvPerNS  int64  `json:"rcv_period_ns"`
	PktDelay  int64  `json:"pkt_delay_max_ns"`
	SRDelay   int64  `json:"sr_delay_max_ns"`
	SndLinger int64  `json:"snd_linger_ns"` // the sender stays open this long after its last packet
	// StepNS != 0: the absolute time the writer associates with its timestamps is corrected by
	// StepNS (forwards or backwards: the source's clock was set) from the packet with identity StepN
	// on - a PTS==DTS packet. The writer's own system clock (what its Sender reads between
	// packets) runs on undisturbed.
	StepN  int   `json:"step_n,omitempty"`
	StepNS int64 `json:"step_ns,omitempty"`
}

// stepOf returns the correction that applies to packet i of a track.
func stepOf(tr *Track, i int) int64 {
	if tr.StepNS != 0 && tr.Pkts[i].N >= tr.StepN {
		return tr.StepNS
	}
	return 0
}

// Scenario is one C15 run.
type Scenario struct {
	Seed uint64 `json:"seed"`
	// BaseUnixNS is the wall-clock instant (Unix ns) that the TimeNow of the
	// components shows when the bubble starts.
	BaseUnixNS int64   `json:"base_unix_ns"`
	Tracks     []Track `json:"tracks"`
	// Conc (mode conc, see conc.go): concurrent callers of one Receiver.
	Conc *Conc `json:"conc,omitempty"`
	// Whole (mode whole, see whole.go): writer -> server -> network -> client, several formats in one media.
	Whole *Whole `json:"whole,omitempty"`
}

const (
	maxStep = int64(1)<<31 - 1
	// first instant of NTP era 1: 2036-02-07 06:28:16 UTC
	eraEndUnix = int64(1)<<32 - 2208988800
	// Longest time between two time anchors of a track (see Assumptions).
	maxGapS = 250000
)

var eraEndNS = eraEndUnix * 1e9

// floorDivNS returns floor(k * 1e9 / rate) without overflow.
func floorDivNS(k int64, rate int64) int64 {
	q, r := k/rate, k%rate
	if r < 0 {
		q--
		r += rate
	}
	return q*1e9 + r*1e9/rate
}

// writeTimes returns the bubble-relative write instant of every packet of a track.
func writeTimes(tr *Track) []int64 {
	n := len(tr.Pkts)
	w := make([]int64, n)
	rate := int64(tr.Rate)
	next := make([]int64, n) // write instant of the next PTS==DTS packet at or after i, -1 if none
	nx := int64(-1)
	for i := n - 1; i >= 0; i-- {
		if !tr.Pkts[i].B {
			nx = tr.StartNS + floorDivNS(tr.Pkts[i].K, rate)
		}
		next[i] = nx
	}
	for i := 0; i < n; i++ {
		p := tr.Pkts[i]
		if !p.B {
			w[i] = next[i]
			continue
		}
		var prev int64
		switch {
		case i > 0:
			prev = w[i-1]
		case next[i] >= 0:
			prev = next[i]
		default:
			prev = tr.StartNS
		}
		nt := next[i]
		if nt < prev {
			nt = prev
		}
		d := nt - prev
		w[i] = prev + (d>>16)*int64(p.G) + ((d&0xFFFF)*int64(p.G))>>16
	}
	return w
}

func trackEndNS(tr *Track) int64 {
	w := writeTimes(tr)
	end := tr.StartNS
	for _, x := range w {
		if x > end {
			end = x
		}
	}
	return end
}

// validate says whether a scenario is inside the quantifier of C15 (and inside
// the bounds of this family). Shrinking may produce scenarios that are not.
func validate(sc *Scenario) error {
	if len(sc.Tracks) < 1 || len(sc.Tracks) > 3 {
		return fmt.Errorf("1..3 tracks")
	}
	var end int64
	for ti := range sc.Tracks {
		tr := &sc.Tracks[ti]
		if tr.Rate < 1 || tr.Rate > 8000000 {
			return fmt.Errorf("track %d: clock rate %d", ti, tr.Rate)
		}
		if len(tr.Pkts) < 1 || len(tr.Pkts) > 400 {
			return fmt.Errorf("track %d: packet count", ti)
		}
		if tr.SndPerNS < int64(time.Millisecond) || tr.RcvPerNS < int64(time.Millisecond) {
			return fmt.Errorf("track %d: period", ti)
		}
		if tr.StartNS < 0 || tr.PktDelay < 0 || tr.SRDelay < 0 || tr.SndLinger < 0 {
			return fmt.Errorf("track %d: negative time", ti)
		}
		lastDTS := int64(-1)
		for i, p := range tr.Pkts {
			if i > 0 {
				d := p.K - tr.Pkts[i-1].K
				if d > maxStep || d < -maxStep {
					return fmt.Errorf("track %d: |step| >= 2^31 at %d", ti, i)
				}
			}
			if p.K > int64(1)<<40 || p.K < -(int64(1)<<40) {
				return fmt.Errorf("track %d: K out of bounds", ti)
			}
			if !p.B {
				if p.K < 0 || p.K < lastDTS {
					return fmt.Errorf("track %d: PTS==DTS packets must move forward in time", ti)
				}
				if lastDTS >= 0 && (p.K-lastDTS)/int64(tr.Rate) > maxGapS {
					return fmt.Errorf("track %d: anchors too far apart", ti)
				}
				lastDTS = p.K
			}
		}
		e := trackEndNS(tr) + tr.PktDelay + tr.SRDelay + tr.SndLinger
		if e > end {
			end = e
		}
		// firings of the tickers stay bounded
		dur := trackEndNS(tr) - tr.StartNS
		if (dur+tr.SndLinger)/tr.SndPerNS > 2000 || (dur+tr.PktDelay)/tr.RcvPerNS > 2000 {
			return fmt.Errorf("track %d: too many ticker firings", ti)
		}
	}
	if sc.BaseUnixNS < 0 || sc.BaseUnixNS+end+int64(time.Second) >= eraEndNS {
		return fmt.Errorf("instants outside 1970..2036-02-07")
	}
	for ti := range sc.Tracks {
		if st := sc.Tracks[ti].StepNS; st != 0 {
			if sc.BaseUnixNS+st < 0 || sc.BaseUnixNS+end+st+int64(time.Second) >= eraEndNS {
				return fmt.Errorf("track %d: corrected instants outside 1970..2036-02-07", ti)
			}
		}
	}
	return nil
}

// ---- generator -----------------------------------------------------------------

func u64n(r *core.Rand, n int64) int64 {
	if n <= 0 {
		return 0
	}
	return int64(r.U64() % uint64(n))
}

// rng returns a value in [lo,hi].
func rng(r *core.Rand, lo, hi int64) int64 {
	if hi <= lo {
		return lo
	}
	return lo + u64n(r, hi-lo+1)
}

func genRate(r *core.Rand) int {
	if r.Bool(0.5) {
		return r.Pick(8000, 16000, 44100, 48000, 90000)
	}
	switch r.Intn(5) {
	case 0:
		return r.Range(1, 100)
	case 1:
		return r.Range(101, 7999)
	case 2:
		return r.Range(8001, 100000)
	case 3:
		return r.Range(100001, 1000000)
	default:
		return r.Range(1000001, 4000000)
	}
}

func genTrack(r *core.Rand) Track {
	tr := Track{Rate: genRate(r)}
	rate := int64(tr.Rate)
	capStep := maxStep
	if c := rate * maxGapS; c < capStep {
		capStep = c
	}
	class := "frame"
	switch u := r.Float(); {
	case u < 0.35:
	case u < 0.50:
		class = "jitter"
	case u < 0.65:
		class = "big"
	case u < 0.80:
		class = "huge"
	default:
		class = "mixed"
	}
	np := r.Range(2, 40)
	switch class {
	case "big":
		np = r.Range(2, 20)
	case "huge":
		np = r.Range(2, 12)
	}
	if r.Bool(0.04) {
		np = 1
	}
	frame := rate / int64(r.Range(5, 60))
	if frame < 1 {
		frame = 1
	}
	step := func() int64 {
		c := class
		if c == "mixed" {
			c = []string{"frame", "frame", "jitter", "big", "huge"}[r.Intn(5)]
		}
		var f int64
		switch c {
		case "frame":
			f = frame
			if r.Bool(0.1) {
				f = 0 // several packets of one frame share a timestamp
			}
		case "jitter":
			f = rng(r, 0, rate)
		case "big":
			f = rng(r, 1<<24, 1<<30)
		default:
			if r.Bool(0.5) {
				f = rng(r, maxStep-1000, maxStep)
			} else {
				f = rng(r, 1<<30, maxStep)
			}
		}
		if f > capStep {
			f = capStep - u64n(r, capStep/8+1)
		}
		return f
	}
	bRate := 0.0
	if r.Bool(0.45) {
		bRate = 0.15 + 0.4*r.Float()
	}
	n := 0
	add := func(k int64, b bool) {
		p := Pkt{N: n, K: k, B: b}
		if b {
			p.G = uint16(r.Intn(65536))
			if r.Bool(0.3) {
				p.G = 0
			}
		}
		tr.Pkts = append(tr.Pkts, p)
		n++
	}
	// packets before the first time anchor
	if bRate > 0 && r.Bool(0.3) {
		for i := r.Range(1, 2); i > 0; i-- {
			add(rng(r, -frame*4, frame*4), true)
		}
	}
	var dts int64
	add(0, false)
	lastBack := int64(0) // distance of the last packet behind dts
	prevStep := frame * 4
	for len(tr.Pkts) < np {
		if bRate > 0 && prevStep > 1 && r.Bool(bRate) {
			for i := r.Range(1, 2); i > 0 && len(tr.Pkts) < np; i-- {
				b := rng(r, 1, prevStep-1)
				add(dts-b, true)
				lastBack = b
			}
			continue
		}
		f := step()
		if f+lastBack > maxStep {
			f = maxStep - lastBack
		}
		dts += f
		add(dts, false)
		lastBack = 0
		if f > 1 {
			prevStep = f
		}
	}
	// initial RTP timestamp
	switch u := r.Float(); {
	case u < 0.45:
		tr.TS0 = uint32(r.U64())
	case u < 0.6:
		tr.TS0 = []uint32{0, 1, 0xFFFFFFFF, 0xFFFFFFFE, 0x7FFFFFFF, 0x80000000, 0x80000001}[r.Intn(7)]
	default:
		// close enough to 2^32 for the run to cross it
		span := dts
		if span < 2 {
			span = 2
		}
		if span > 1<<32-1 {
			span = 1<<32 - 1
		}
		tr.TS0 = uint32((int64(1) << 32) - rng(r, 1, span))
	}
	durNS := floorDivNS(dts, rate)
	mean := durNS / int64(len(tr.Pkts))
	pickDelay := func() int64 {
		switch r.Intn(6) {
		case 0, 1:
			return 0
		case 2:
			return int64(time.Millisecond)
		case 3:
			return int64(100 * time.Millisecond)
		case 4:
			return mean / 2
		default:
			return mean * 3
		}
	}
	tr.PktDelay = pickDelay()
	tr.SRDelay = pickDelay()
	pickPeriod := func(maxFirings int64) int64 {
		var p int64
		if r.Bool(0.5) {
			p = int64([]time.Duration{10 * time.Millisecond, 100 * time.Millisecond, time.Second, 5 * time.Second,
				10 * time.Second, time.Minute, 10 * time.Minute, time.Hour}[r.Intn(8)])
		} else {
			p = int64(float64(durNS) * (0.02 + 1.5*r.Float()))
		}
		if m := (durNS + 3*mean) / maxFirings; p < m {
			p = m
		}
		if p < int64(time.Millisecond) {
			p = int64(time.Millisecond)
		}
		return p
	}
	tr.SndPerNS = pickPeriod(60)
	tr.RcvPerNS = pickPeriod(25)
	if r.Bool(0.5) {
		tr.SndLinger = rng(r, 0, tr.SndPerNS)
	}
	return tr
}

func gen(seed uint64, tier string) Scenario {
	// a tenth of the runs: concurrent callers of one Receiver (hash-derived so that no other
	// choice moves)
	if core.HS(seed, "c15.conc", "", 0)%100 < 10 {
		return genConc(seed)
	}
	// 6%: the mapping between a server-side writer and a reading client
	if core.HS(seed, "c15.whole", "", 0)%100 < 6 {
		return genWhole(seed)
	}
	r := core.NewRand(seed, "c15")
	sc := Scenario{Seed: seed}
	nt := 1
	switch u := r.Float(); {
	case u < 0.3:
	case u < 0.7:
		nt = 2
	default:
		nt = 3
	}
	for i := 0; i < nt; i++ {
		sc.Tracks = append(sc.Tracks, genTrack(r))
	}
	if r.Bool(0.5) {
		sc.Tracks[0].StartNS = rng(r, 0, int64(time.Second))
	}
	end0 := trackEndNS(&sc.Tracks[0])
	dur0 := end0 - sc.Tracks[0].StartNS
	for i := 1; i < nt; i++ {
		switch u := r.Float(); {
		case u < 0.1:
			sc.Tracks[i].StartNS = sc.Tracks[0].StartNS // same instant
		case u < 0.2:
			sc.Tracks[i].StartNS = rng(r, 0, sc.Tracks[0].StartNS) // may even lead
		default:
			sc.Tracks[i].StartNS = sc.Tracks[0].StartNS + rng(r, 0, dur0+dur0/5+int64(time.Millisecond))
		}
	}
	var end int64
	for i := range sc.Tracks {
		tr := &sc.Tracks[i]
		if e := trackEndNS(tr) + tr.PktDelay + tr.SRDelay + tr.SndLinger; e > end {
			end = e
		}
	}
	hi := eraEndNS - end - int64(2*time.Second)
	y2000 := int64(946684800) * 1e9
	switch u := r.Float(); {
	case u < 0.55:
		sc.BaseUnixNS = rng(r, 0, hi)
	case u < 0.65:
		sc.BaseUnixNS = rng(r, 0, hi/1e9) * 1e9 // whole second
	case u < 0.72:
		sc.BaseUnixNS = rng(r, 0, hi/1e9-1)*1e9 + 999999999 - rng(r, 0, 3)
	case u < 0.80:
		sc.BaseUnixNS = rng(r, 0, int64(24*time.Hour)) // first day of 1970
		if r.Bool(0.3) {
			sc.BaseUnixNS = 0
		}
	case u < 0.90:
		sc.BaseUnixNS = hi - rng(r, 0, int64(24*time.Hour)) // last day of NTP era 0
		if r.Bool(0.3) {
			sc.BaseUnixNS = hi
		}
	default:
		sc.BaseUnixNS = y2000 + rng(r, -int64(24*time.Hour), int64(24*time.Hour))
	}
	if sc.BaseUnixNS > hi {
		sc.BaseUnixNS = hi
	}
	if sc.BaseUnixNS < 0 {
		sc.BaseUnixNS = 0
	}
	// a correction of the writer's absolute time in the middle of a track (hash-derived so that no
	// other choice moves)
	if x := core.HS(seed, "c15.step", "", 0); x%100 < 15 {
		tr := &sc.Tracks[int((x>>8)%uint64(len(sc.Tracks)))]
		var cands []int
		for i := 1; i < len(tr.Pkts); i++ {
			if !tr.Pkts[i].B {
				cands = append(cands, i)
			}
		}
		if len(cands) > 0 {
			i := cands[int((x>>16)%uint64(len(cands)))]
			st := []int64{int64(time.Millisecond), int64(time.Second), 37*int64(time.Second) + 13, int64(time.Hour), 3 * int64(24*time.Hour)}[(x>>32)%5]
			if (x>>40)%3 != 0 {
				st = -st // mostly backwards
			}
			if sc.BaseUnixNS+st >= 0 && sc.BaseUnixNS+end+st+int64(2*time.Second) < eraEndNS {
				tr.StepN, tr.StepNS = tr.Pkts[i].N, st
			}
		}
	}
	return sc
}

// ---- simulation ----------------------------------------------------------------

// decTrack is the track handed to the GlobalDecoder.
type decTrack struct{ rate int }

func (d *decTrack) ClockRate() int { return d.rate }

// PTSEqualsDTS reads the flag the writer put into the first payload byte.
func (d *decTrack) PTSEqualsDTS(p *rtp.Packet) bool { return len(p.Payload) > 0 && p.Payload[0] == 1 }

type capd struct {
	sr *rtcp.SenderReport
	at int64 // bubble-relative capture instant
}

type anchor struct {
	pts int64
	at  int64
	ok  bool
}

type trk struct {
	i    int
	spec *Track
	obj  *decTrack
	snd  *rtpsender.Sender
	rcv  *rtpreceiver.Receiver
	w    []int64
	pkts []*rtp.Packet

	sndOpen, rcvOpen bool
	opened           bool
	ssrc             uint32
	rr               atomic.Int64

	mu   sync.Mutex
	caps []capd

	nCap         int   // reports captured so far
	capAtWrite   []int // reports captured before packet i was written
	writtenAtCap []int // packets written before report j was captured
	capNS        []int64
	written      int
	delivered    int
	srDelivered  int
	lastPktDeliv int64
	lastSRDeliv  int64
	lastSRCapNS  int64
	srProcessed  bool
	capStep      []int64 // correction in force at the sender when report j was captured
	srStep       int64   // ... of the report processed last

	// PTS continuation
	accepted bool
	pts0, k0 int64
	prevTS   uint32
	litSum   int64
	lastAny  anchor
	lastDTS  anchor
}

const (
	evWrite = iota
	evDeliver
	evReport
	evCloseSnd
)

type ev struct {
	at   int64
	seq  int
	kind int
	tr   int
	idx  int
	sr   *rtcp.SenderReport
}

type evq []*ev

func (q evq) Len() int { return len(q) }
func (q evq) Less(i, j int) bool {
	if q[i].at != q[j].at {
		return q[i].at < q[j].at
	}
	return q[i].seq < q[j].seq
}
func (q evq) Swap(i, j int) { q[i], q[j] = q[j], q[i] }
func (q *evq) Push(x any)   { *q = append(*q, x.(*ev)) }
func (q *evq) Pop() any {
	o := *q
	n := len(o)
	x := o[n-1]
	*q = o[:n-1]
	return x
}

type sim struct {
	sc     *Scenario
	res    *core.Result
	viol   *core.Violation
	log    []string
	sig    uint64
	start  time.Time
	offset time.Duration
	q      evq
	seq    int
	work   int // pending events other than report deliveries
	tracks []*trk
	leader *trk
	dec    *rtptime.GlobalDecoder
	notify chan struct{}

	ptsChecks, ntpChecks, lateChecks, rtChecks int
	before2000, after2030                      bool
	lateDev                                    float64 // largest deviation seen by oracle 2, in ticks of the late track
}

func (s *sim) now() int64 { return int64(time.Since(s.start)) }

func (s *sim) wall() time.Time { return time.Now().Add(s.offset) }

func (s *sim) logf(f string, a ...any) {
	l := fmt.Sprintf(f, a...)
	s.sig = core.HS(s.sig, "l", l)
	s.log = append(s.log, l)
}

func (s *sim) fail(class, f string, a ...any) {
	if s.viol == nil {
		s.viol = core.Viol(class, f, a...)
	}
}

func (s *sim) push(e *ev) {
	e.seq = s.seq
	s.seq++
	if e.kind != evReport {
		s.work++
	}
	heap.Push(&s.q, e)
}

// instant returns the exact writer instant of tick k of a track rounded down to ns (Unix ns).
func (s *sim) instantNS(t *trk, k int64) int64 {
	return s.sc.BaseUnixNS + t.spec.StartNS + floorDivNS(k, int64(t.spec.Rate))
}

// checkNTPRoundTrip is oracle 4: Decode(Encode(t)) is within 1 ns of t.
func (s *sim) checkNTPRoundTrip(what string, ns int64) {
	if ns < 0 || ns >= eraEndNS {
		return // outside 1970..2036: outside the quantifier
	}
	if ns < 946684800*1e9 {
		s.before2000 = true
	}
	if ns >= 1893456000*1e9 {
		s.after2030 = true
	}
	t := time.Unix(0, ns)
	v := ntp.Encode(t)
	back := ntp.Decode(v).UnixNano()
	s.rtChecks++
	if d := back - ns; d > 1 || d < -1 {
		s.fail("c15/ntp-roundtrip instant", "%s: ntp.Decode(ntp.Encode(%d ns = %s)) = %d ns, off by %d ns (encoded 0x%016x)",
			what, ns, t.UTC().Format(time.RFC3339Nano), back, d, v)
	}
}

func (s *sim) simulate() {
	sc := s.sc
	s.start = time.Now()
	s.offset = time.Unix(0, sc.BaseUnixNS).Sub(s.start)
	s.notify = make(chan struct{}, 1)
	s.dec = &rtptime.GlobalDecoder{}
	s.dec.Initialize()

	for i := range sc.Tracks {
		spec := &sc.Tracks[i]
		t := &trk{i: i, spec: spec, obj: &decTrack{rate: spec.Rate}, w: writeTimes(spec)}
		t.capAtWrite = make([]int, len(spec.Pkts))
		ssrc := uint32(core.H(sc.Seed, "c15.ssrc", uint64(i)))
		seq0 := uint16(core.H(sc.Seed, "c15.seq0", uint64(i)))
		for j, p := range spec.Pkts {
			flag := byte(1)
			if p.B {
				flag = 0
			}
			t.pkts = append(t.pkts, &rtp.Packet{
				Header: rtp.Header{
					Version:        2,
					PayloadType:    96,
					SequenceNumber: seq0 + uint16(j),
					Timestamp:      spec.TS0 + uint32(uint64(p.K)),
					SSRC:           ssrc,
				},
				Payload: []byte{flag, byte(p.N), byte(p.N >> 8)},
			})
		}
		t.ssrc = ssrc
		s.tracks = append(s.tracks, t)
		for j := range spec.Pkts {
			s.push(&ev{at: t.w[j], kind: evWrite, tr: i, idx: j})
		}
	}

	const maxSteps = 20000
	for s.viol == nil && s.res.Steps < maxSteps {
		synctest.Wait()
		s.drain()
		if s.work == 0 {
			break
		}
		e := s.q[0]
		now := s.now()
		if e.at > now {
			tm := time.NewTimer(time.Duration(e.at - now))
			select {
			case <-tm.C:
			case <-s.notify:
				tm.Stop()
			}
			continue
		}
		heap.Pop(&s.q)
		if e.kind != evReport {
			s.work--
		}
		s.res.Steps++
		s.handle(e)
	}
	if s.res.Steps >= maxSteps {
		s.fail("c15/harness steps", "run did not finish in %d steps", maxSteps)
	}
	synctest.Wait()
	s.closeAll()
	s.res.SimNS = s.now()
}

// open creates the Sender and the Receiver of a track (at the instant of its
// first packet, so that their tickers do not run while the track does not exist).
func (s *sim) open(t *trk) bool {
	spec := t.spec
	t.snd = &rtpsender.Sender{
		ClockRate: spec.Rate,
		Period:    time.Duration(spec.SndPerNS),
		TimeNow:   s.wall,
		WritePacketRTCP: func(p rtcp.Packet) {
			sr, ok := p.(*rtcp.SenderReport)
			if !ok {
				return
			}
			t.mu.Lock()
			t.caps = append(t.caps, capd{sr: sr, at: s.now()})
			t.mu.Unlock()
			select {
			case s.notify <- struct{}{}:
			default:
			}
		},
	}
	t.snd.Initialize()
	t.sndOpen = true
	t.rcv = &rtpreceiver.Receiver{
		ClockRate:       spec.Rate,
		LocalSSRC:       t.ssrc ^ 0x5a5a5a5a,
		Period:          time.Duration(spec.RcvPerNS),
		TimeNow:         s.wall,
		WritePacketRTCP: func(rtcp.Packet) { t.rr.Add(1) },
	}
	if err := t.rcv.Initialize(); err != nil {
		s.fail("c15/config receiver", "Receiver.Initialize: %v", err)
		return false
	}
	t.rcvOpen = true
	t.opened = true
	return true
}

func (s *sim) closeAll() {
	for _, t := range s.tracks {
		if t.sndOpen {
			t.snd.Close()
			t.sndOpen = false
		}
		if t.rcvOpen {
			t.rcv.Close()
			t.rcvOpen = false
		}
	}
}

// drain moves captured sender reports onto the link (track order, capture order).
func (s *sim) drain() {
	for _, t := range s.tracks {
		t.mu.Lock()
		caps := t.caps
		t.caps = nil
		t.mu.Unlock()
		for _, c := range caps {
			j := t.nCap
			t.nCap++
			t.writtenAtCap = append(t.writtenAtCap, t.written)
			t.capNS = append(t.capNS, c.at)
			cs := int64(0)
			for k := t.written - 1; k >= 0; k-- {
				if !t.spec.Pkts[k].B { // the Sender's reference is the last PTS==DTS packet
					cs = stepOf(t.spec, k)
					break
				}
			}
			t.capStep = append(t.capStep, cs)
			s.res.Probes["report_captured"]++
			var d int64
			if t.spec.SRDelay > 0 {
				d = int64(core.H(s.sc.Seed, "c15.srdelay", uint64(t.i), uint64(j)) % uint64(t.spec.SRDelay+1))
			}
			if d > 0 {
				s.res.Faults["link.delay"]++
			}
			at := c.at + d
			if at < t.lastSRDeliv { // reports are never reordered among themselves
				at = t.lastSRDeliv
			}
			t.lastSRDeliv = at
			s.logf("C t=%d tr=%d j=%d rtp=%d ntp=%016x deliver=%d", c.at, t.i, j, c.sr.RTPTime, c.sr.NTPTime, at)
			// the report's own instant (the sender's clock at capture) is an instant the run visits
			s.checkNTPRoundTrip("report instant", s.sc.BaseUnixNS+c.at)
			s.push(&ev{at: at, kind: evReport, tr: t.i, idx: j, sr: c.sr})
		}
	}
}

func (s *sim) handle(e *ev) {
	t := s.tracks[e.tr]
	switch e.kind {
	case evWrite:
		s.write(t, e.idx)
	case evDeliver:
		s.deliver(t, e.idx)
	case evReport:
		if !t.rcvOpen {
			s.logf("S t=%d tr=%d j=%d dropped", s.now(), t.i, e.idx)
			return
		}
		if t.delivered < t.writtenAtCap[e.idx] {
			s.res.Faults["link.report_before_packet"]++ // overtook a packet written before it
		}
		t.rcv.ProcessSenderReport(e.sr, s.wall())
		t.srDelivered = e.idx + 1
		t.srProcessed = true
		t.lastSRCapNS = t.capNS[e.idx]
		if t.capStep[e.idx] != t.srStep {
			s.res.Probes["report_after_time_correction"]++
		}
		t.srStep = t.capStep[e.idx]
		s.res.Probes["report_processed"]++
		s.logf("S t=%d tr=%d j=%d", s.now(), t.i, e.idx)
	case evCloseSnd:
		if t.sndOpen {
			t.snd.Close()
			t.sndOpen = false
			s.logf("X t=%d tr=%d sender closed", s.now(), t.i)
		}
	}
}

func (s *sim) write(t *trk, i int) {
	p := t.spec.Pkts[i]
	pkt := t.pkts[i]
	now := s.now()
	if !t.opened && !s.open(t) {
		return
	}
	// The instant the writer associates with this packet's timestamp. For a
	// time anchor it is the writer's clock right now (the packet is written at
	// the instant of its tick, rounded down to ns); for a B packet it is the
	// instant of its tick on the same line.
	var ntpT time.Time
	step := stepOf(t.spec, i)
	if step != 0 {
		s.res.Faults["writer.time_corrected"]++
	}
	if p.B {
		ntpT = time.Unix(0, s.instantNS(t, p.K)+step)
	} else {
		ntpT = s.wall()
		if got, want := ntpT.UnixNano(), s.instantNS(t, p.K); got != want {
			s.fail("c15/harness clock", "track %d packet %d written at %d, association says %d", t.i, i, got, want)
		}
		ntpT = ntpT.Add(time.Duration(step))
	}
	s.checkNTPRoundTrip("packet instant", ntpT.UnixNano())
	t.capAtWrite[i] = t.nCap
	t.snd.ProcessPacket(pkt, ntpT, !p.B)
	t.written++
	var d int64
	if t.spec.PktDelay > 0 {
		d = int64(core.H(s.sc.Seed, "c15.pktdelay", uint64(t.i), uint64(p.N)) % uint64(t.spec.PktDelay+1))
	}
	if d > 0 {
		s.res.Faults["link.delay"]++
	}
	at := now + d
	if at < t.lastPktDeliv { // the packets of a track stay in order
		at = t.lastPktDeliv
	}
	t.lastPktDeliv = at
	s.logf("W t=%d tr=%d i=%d n=%d ts=%d k=%d b=%v deliver=%d", now, t.i, i, p.N, pkt.Timestamp, p.K, p.B, at)
	s.push(&ev{at: at, kind: evDeliver, tr: t.i, idx: i})
	if i == len(t.spec.Pkts)-1 {
		s.push(&ev{at: now + t.spec.SndLinger, kind: evCloseSnd, tr: t.i})
	}
	if i > 0 {
		prev := t.spec.Pkts[i-1]
		if p.K < prev.K {
			s.res.Probes["backward_step"]++
		}
		a := (int64(t.spec.TS0) + prev.K) >> 32
		b := (int64(t.spec.TS0) + p.K) >> 32
		if a != b {
			s.res.Probes["ts_wrapped_2_32"]++
		}
	}
}

func (s *sim) deliver(t *trk, i int) {
	p := t.spec.Pkts[i]
	pkt := t.pkts[i]
	now := s.now()
	rate := int64(t.spec.Rate)
	if t.srDelivered < t.capAtWrite[i] {
		s.res.Faults["link.report_after_packet"]++ // a report captured before this packet is still in flight
	}
	out, _ := t.rcv.ProcessPacket2(pkt, s.wall(), !p.B)
	t.delivered++
	if len(out) != 1 || out[0] != pkt {
		// reliable mode hands every packet through; nothing of C15 can be checked otherwise
		s.fail("c15/harness receiver", "track %d: reliable receiver returned %d packets", t.i, len(out))
		return
	}

	// ---- PTS ----
	pts, ok := s.dec.Decode(t.obj, pkt)
	switch {
	case !ok:
		if t.accepted {
			s.res.Probes["decode_refused_after_accept"]++
		} else {
			s.res.Probes["decode_refused_before_anchor"]++
		}
	case !t.accepted:
		t.accepted = true
		t.pts0, t.k0 = pts, p.K
		t.prevTS = pkt.Timestamp
		if s.leader == nil {
			s.leader = t
		} else {
			s.checkLate(t, pts, now)
		}
	default:
		// oracle 1: 64-bit continuation. The writer's timeline K is the
		// continuation by construction (|step| < 2^31); the literal sum of
		// the signed 32-bit differences must agree with it.
		t.litSum += int64(int32(pkt.Timestamp - t.prevTS))
		t.prevTS = pkt.Timestamp
		want := p.K - t.k0
		if t.litSum != want {
			s.fail("c15/harness timeline", "track %d: sum of int32 differences %d != timeline difference %d", t.i, t.litSum, want)
		}
		s.ptsChecks++
		if got := pts - t.pts0; got != want {
			s.fail("c15/pts-continuation track",
				"track %d (rate %d, ts0 %d) packet i=%d n=%d ts=%d: PTS %d - first PTS %d = %d, but the signed 32-bit differences accumulated since the first decoded packet sum to %d (off by %d)",
				t.i, rate, t.spec.TS0, i, p.N, pkt.Timestamp, pts, t.pts0, got, want, got-want)
		}
	}
	if ok {
		t.lastAny = anchor{pts: pts, at: now, ok: true}
		if !p.B {
			t.lastDTS = t.lastAny
		}
	}

	// ---- NTP ----
	ntpT, ok2 := t.rcv.PacketNTP(pkt.Timestamp)
	ntpNS := int64(0)
	if ok2 {
		ntpNS = ntpT.UnixNano()
	}
	if t.srProcessed {
		// position of the last processed report on the track's timeline (ticks)
		x := float64(t.lastSRCapNS-t.spec.StartNS) / 1e9 * float64(rate)
		dist := float64(p.K) - x
		switch {
		case dist >= float64(maxStep-4) || dist <= -float64(maxStep-4):
			// a 32-bit timestamp that far from the report is ambiguous
			s.res.Probes["ntp_silent_ambiguous"]++
		case !ok2:
			s.fail("c15/packet-ntp track", "track %d packet i=%d: PacketNTP unavailable although a sender report was processed", t.i, i)
		case stepOf(t.spec, i) != t.srStep:
			// the packet was written before (after) a correction of the writer's absolute time, the
			// report processed last was produced after (before) it: they are on different lines
			s.res.Probes["ntp_silent_other_line"]++
		default:
			s.ntpChecks++
			if p.B {
				s.res.Probes["ntp_checked_on_b_packet"]++
			}
			// exact: |got - (base + start + K/rate s)| <= 1 tick + 3 ns
			g := big.NewInt(ntpNS - s.sc.BaseUnixNS - t.spec.StartNS - t.srStep)
			g.Mul(g, big.NewInt(rate))
			if t.srStep != 0 {
				s.res.Probes["ntp_checked_after_time_correction"]++
			}
			e := big.NewInt(p.K)
			e.Mul(e, big.NewInt(1e9))
			g.Sub(g, e) // (got - want) * rate, in ns*ticks/s
			tol := big.NewInt(1e9 + 3*rate)
			if new(big.Int).Abs(g).Cmp(tol) > 0 {
				want := s.instantNS(t, p.K) + t.srStep
				s.fail("c15/packet-ntp track",
					"track %d (rate %d) packet i=%d n=%d ts=%d k=%d b=%v: PacketNTP = %d ns (%s), writer's instant for this timestamp = %d ns (%s): off by %d ns, allowed %d ns (one tick) + 3 ns; last report captured at bubble t=%d",
					t.i, rate, i, p.N, pkt.Timestamp, p.K, p.B, ntpNS, ntpT.UTC().Format(time.RFC3339Nano),
					want, time.Unix(0, want).UTC().Format(time.RFC3339Nano), ntpNS-want, (int64(1e9)+rate-1)/rate, t.lastSRCapNS)
			}
			s.checkNTPRoundTrip("packet NTP", ntpNS)
		}
	}
	s.logf("D t=%d tr=%d i=%d pts=%d/%v ntp=%d/%v", now, t.i, i, pts, ok, ntpNS, ok2)
	if t.delivered == len(t.spec.Pkts) {
		// synchronous: no event of this instant can still need the receiver except reports, which are dropped
		t.rcv.Close()
		t.rcvOpen = false
		s.logf("X t=%d tr=%d receiver closed rr=%d", now, t.i, t.rr.Load())
	}
}

// checkLate is oracle 2: the first PTS of a track that starts later lies on
// the leading track's timeline.
func (s *sim) checkLate(x *trk, got int64, now int64) {
	l := s.leader
	if !l.lastAny.ok {
		return
	}
	s.lateChecks++
	s.res.Probes["late_track_started"]++
	rx, rl := int64(x.spec.Rate), int64(l.spec.Rate)
	pos := func(a anchor) *big.Rat {
		// (pts/rl + elapsed) * rx, in ticks of x
		p := new(big.Rat).SetFrac(new(big.Int).Mul(big.NewInt(a.pts), big.NewInt(rx)), big.NewInt(rl))
		e := new(big.Rat).SetFrac(new(big.Int).Mul(big.NewInt(now-a.at), big.NewInt(rx)), big.NewInt(1e9))
		return p.Add(p, e)
	}
	lo := pos(l.lastAny)
	hi := lo
	if l.lastDTS.ok && l.lastDTS != l.lastAny {
		s.res.Probes["late_track_anchor_ambiguous"]++
		o := pos(l.lastDTS)
		if o.Cmp(lo) < 0 {
			lo = o
		} else {
			hi = o
		}
	}
	g := new(big.Rat).SetInt64(got)
	dev := new(big.Rat)
	switch {
	case g.Cmp(lo) < 0:
		dev.Sub(lo, g)
	case g.Cmp(hi) > 0:
		dev.Sub(g, hi)
	}
	leadTick := new(big.Rat).SetFrac64(rx, rl) // one tick of the leading clock, in ticks of x
	strict := new(big.Rat).Add(big.NewRat(1, 1), leadTick)
	tol := new(big.Rat).Add(big.NewRat(2, 1), leadTick)
	if dev.Cmp(strict) > 0 {
		s.res.Probes["late_track_off_more_than_one_tick_each"]++
	}
	if d, _ := dev.Float64(); d > s.lateDev {
		s.lateDev = d
	}
	if dev.Cmp(tol) > 0 {
		lof, _ := lo.Float64()
		hif, _ := hi.Float64()
		s.fail("c15/late-track timeline",
			"track %d (rate %d) first decoded at bubble t=%d with PTS %d; leading track %d (rate %d) last PTS %d at t=%d (last PTS==DTS packet: PTS %d at t=%d): its timeline is at %.3f..%.3f ticks of track %d; allowed deviation 2 ticks + one leading tick",
			x.i, rx, now, got, l.i, rl, l.lastAny.pts, l.lastAny.at, l.lastDTS.pts, l.lastDTS.at, lof, hif, x.i)
	}
}

// ---- run -----------------------------------------------------------------------

var probeNames = []string{
	"ts_wrapped_2_32", "ts_wrapped_3plus_in_track", "backward_step", "late_track_started", "late_track_anchor_ambiguous",
	"late_track_off_more_than_one_tick_each", "report_captured", "report_processed", "instant_before_2000",
	"instant_after_2030", "decode_refused_before_anchor", "decode_refused_after_accept", "ntp_silent_ambiguous",
	"ntp_checked_on_b_packet", "invalid_scenario", "report_after_time_correction", "ntp_silent_other_line", "ntp_checked_after_time_correction",
}

func run(t *testing.T, sc Scenario) *core.Result {
	if sc.Conc != nil {
		return runConc(t, sc)
	}
	if sc.Whole != nil {
		return runWhole(t, sc)
	}
	res := core.NewResult()
	for _, p := range probeNames {
		res.Probes[p] = 0
	}
	for _, f := range []string{"link.delay", "link.report_before_packet", "link.report_after_packet"} {
		res.Faults[f] = 0
	}
	if err := validate(&sc); err != nil {
		res.Probes["invalid_scenario"]++
		res.Sample = map[string]any{"invalid": err.Error()}
		return res
	}
	s := &sim{sc: &sc, res: res}
	pv, stack, dl := core.InBubble(t, s.simulate)
	if pv != nil {
		s.viol = core.PanicViolation(pv, stack)
	} else if dl != nil && s.viol == nil {
		s.viol = core.Viol("c15/leak goroutine", "bubble could not end: %v", dl)
	}
	if s.before2000 {
		res.Probes["instant_before_2000"]++
	}
	if s.after2030 {
		res.Probes["instant_after_2030"]++
	}
	type tsum struct {
		Rate    int `json:"rate"`
		Pkts    int `json:"pkts"`
		Reports int `json:"reports"`
		Wraps   int `json:"wraps"`
	}
	var ts []tsum
	for i := range sc.Tracks {
		tr := &sc.Tracks[i]
		wraps := 0
		for j := 1; j < len(tr.Pkts); j++ {
			if (int64(tr.TS0)+tr.Pkts[j-1].K)>>32 != (int64(tr.TS0)+tr.Pkts[j].K)>>32 {
				wraps++
			}
		}
		if wraps >= 3 {
			res.Probes["ts_wrapped_3plus_in_track"]++
		}
		n := 0
		if i < len(s.tracks) {
			n = s.tracks[i].nCap
		}
		ts = append(ts, tsum{tr.Rate, len(tr.Pkts), n, wraps})
	}
	res.Violation = s.viol
	res.Sig = s.sig
	res.Nontrivial = s.ptsChecks > 0 && s.ntpChecks > 0
	res.Sample = map[string]any{
		"base": time.Unix(0, sc.BaseUnixNS).UTC().Format(time.RFC3339Nano), "tracks": ts,
		"pts_checks": s.ptsChecks, "ntp_checks": s.ntpChecks, "late_checks": s.lateChecks, "roundtrip_checks": s.rtChecks,
		"late_max_dev_ticks": s.lateDev,
	}
	if s.viol != nil {
		n := len(s.log)
		if n > 60 {
			n = 60
		}
		res.Tail = append([]string(nil), s.log[len(s.log)-n:]...)
	}
	if core.FullLog {
		res.FullLog = s.log
	}
	return res
}

// ---- shrink --------------------------------------------------------------------

func clone(sc Scenario) Scenario {
	c := sc
	c.Tracks = make([]Track, len(sc.Tracks))
	for i, t := range sc.Tracks {
		c.Tracks[i] = t
		c.Tracks[i].Pkts = append([]Pkt(nil), t.Pkts...)
	}
	return c
}

func shrink(sc Scenario) []Scenario {
	if sc.Whole != nil {
		return nil
	}
	if sc.Conc != nil {
		var out []Scenario
		if sc.Conc.Reports > 2 {
			c := sc
			cc := *sc.Conc
			cc.Reports = 2
			c.Conc = &cc
			out = append(out, c)
		}
		if sc.Conc.Queries > 10 {
			c := sc
			cc := *sc.Conc
			cc.Queries /= 2
			c.Conc = &cc
			out = append(out, c)
		}
		return out
	}
	var out []Scenario
	add := func(c Scenario) {
		if validate(&c) == nil {
			out = append(out, c)
		}
	}
	// drop whole tracks
	if len(sc.Tracks) > 1 {
		for i := range sc.Tracks {
			c := clone(sc)
			c.Tracks = append(c.Tracks[:i], c.Tracks[i+1:]...)
			add(c)
		}
	}
	// halve the packets of a track (tail, then head)
	for i, t := range sc.Tracks {
		if n := len(t.Pkts); n > 2 {
			c := clone(sc)
			c.Tracks[i].Pkts = c.Tracks[i].Pkts[:(n+1)/2]
			add(c)
			c = clone(sc)
			c.Tracks[i].Pkts = c.Tracks[i].Pkts[n/2:]
			add(c)
		}
	}
	// drop single packets
	for i, t := range sc.Tracks {
		if len(t.Pkts) <= 1 || len(t.Pkts) > 24 {
			continue
		}
		for j := range t.Pkts {
			c := clone(sc)
			c.Tracks[i].Pkts = append(c.Tracks[i].Pkts[:j], c.Tracks[i].Pkts[j+1:]...)
			add(c)
		}
	}
	// no link delays, no linger, aligned starts, no time correction
	for i, t := range sc.Tracks {
		if t.StepNS != 0 {
			c := clone(sc)
			c.Tracks[i].StepNS, c.Tracks[i].StepN = 0, 0
			add(c)
		}
		if t.PktDelay != 0 {
			c := clone(sc)
			c.Tracks[i].PktDelay = 0
			add(c)
		}
		if t.SRDelay != 0 {
			c := clone(sc)
			c.Tracks[i].SRDelay = 0
			add(c)
		}
		if t.SndLinger != 0 {
			c := clone(sc)
			c.Tracks[i].SndLinger = 0
			add(c)
		}
		if t.StartNS != 0 {
			c := clone(sc)
			c.Tracks[i].StartNS = 0
			add(c)
		}
	}
	// fewer reports
	for i, t := range sc.Tracks {
		if t.SndPerNS < int64(24*time.Hour) {
			c := clone(sc)
			c.Tracks[i].SndPerNS = t.SndPerNS * 4
			add(c)
		}
		if t.RcvPerNS < int64(24*time.Hour) {
			c := clone(sc)
			c.Tracks[i].RcvPerNS = t.RcvPerNS * 4
			add(c)
		}
	}
	// simpler parameters
	for i, t := range sc.Tracks {
		if t.TS0 != 0 {
			c := clone(sc)
			c.Tracks[i].TS0 = 0
			add(c)
		}
		// B packets in the middle of their slot
		for j, p := range t.Pkts {
			if p.B && p.G != 0 {
				c := clone(sc)
				c.Tracks[i].Pkts[j].G = 0
				add(c)
			}
		}
	}
	if y2000 := int64(946684800) * 1e9; sc.BaseUnixNS != y2000 {
		c := clone(sc)
		c.BaseUnixNS = y2000
		add(c)
	}
	if sc.BaseUnixNS%1e9 != 0 {
		c := clone(sc)
		c.BaseUnixNS -= sc.BaseUnixNS % 1e9
		add(c)
	}
	return out
}

func init() {
	f := core.Register("C15", gen, run, shrink)
	f.Real = []string{
		"pkg/rtptime.GlobalDecoder (one per run, shared by all tracks)",
		"pkg/rtpsender.Sender (one per track, its own goroutine and ticker on the fake clock; produces the sender reports)",
		"pkg/rtpreceiver.Receiver (one per track, reliable mode; ProcessPacket2, ProcessSenderReport, PacketNTP; its ticker runs)",
		"pkg/ntp Encode/Decode (inside Sender/Receiver and called directly for the round trip)",
		"pion/rtcp.SenderReport values as produced by the Sender (handed over as values, not marshalled)",
		"mode whole (6% of the runs): gortsplib.Server, ServerStream (WritePacketRTPWithNTP), ServerSession, gortsplib.Client (PacketNTP), i.e. the wiring of sender and receiver in server_stream*.go, server_session*.go, client_media.go, client_format.go, with reports marshalled and carried as RTCP",
	}
	f.Simulated = []string{
		"writer: per track an exact 64-bit tick timeline K, RTP timestamp uint32(TS0+K), linear association instant(K) = base + start + K/rate; a PTS==DTS packet is written at the instant of its tick (rounded down to ns) with NTP = the writer's clock (the same clock as Sender.TimeNow); a B packet (PTS!=DTS) is written later than its tick with NTP = instant(K)",
		"link: every RTP packet and every sender report gets an independent hash-derived delay in [0,max]; packets of a track stay in order, reports of a track stay in order, packets and reports overtake each other freely",
		"wall clock: Sender.TimeNow and Receiver.TimeNow are the fake clock plus a scenario offset that places the run anywhere in 1970-01-01 .. 2036-02-07 (NTP era 0); the GlobalDecoder reads the fake clock itself (it only uses differences)",
		"mode whole: TCP / UDP sockets (simnet), the application on both sides (a writer per format, a reader that queries PacketNTP)",
		"time: one driver goroutine with an event queue ordered by (instant, insertion); tickers of Sender/Receiver fire on the fake clock; the driver waits for quiescence (synctest.Wait) before every event",
	}
	f.Excluded = []string{
		"client.go / server_session.go glue that wires these components (covered by the whole-system families)",
		"unreliable-transport reordering in the Receiver (C10 family)",
		"RTCP marshalling of the report",
		"clock rate 0 (Decode/PacketNTP refuse it by contract)",
		"instants in NTP era 1 (after 2036-02-07 06:28:16 UTC) and before 1970",
		"sender reports reordered among themselves",
	}
	f.Rule = "scenario = 1..3 tracks x clock rate (8000/16000/44100/48000/90000 or arbitrary 1..4e6) x initial timestamp (uniform, edge values, or just below 2^32) x step class (frame cadence incl. repeated timestamps / jitter / 2^24..2^30 / up to 2^31-1 / mixed) x optional B packets (backward steps, PTS!=DTS, also before the first anchor) x start offset of tracks 2,3 x sender/receiver report period x max link delay for packets and for reports (independent) x optional correction of the writer's absolute time in the middle of a track (+-1 ms .. 3 days, mostly backwards; checks resume with the first report produced after it) x wall-clock base in 1970..2036 (uniform, whole seconds, .999999999, first day of 1970, last day of NTP era 0, around 2000). 6% of the runs are the whole-system mode (whole.go): a server-side writer with WritePacketRTPWithNTP, one media with 2..3 formats (own clock rate, SSRC, sender reports and absolute time line each; later formats start 50..1500 ms into the stream), a reading Client over tcp / udp that asks Client.PacketNTP for every packet. A run is non-trivial when at least one PTS difference and at least one PacketNTP value were checked. Distinct = distinct hash of the complete event log (writes, report captures, deliveries with the decoded PTS and NTP values)."
	f.Assumptions = []string{
		"GlobalDecoder.Decode returns the PTS in ticks of the track's clock rate (its doc comment names no unit; the returned values of the first track start at 0 and move by exactly the timestamp difference), so oracle 1 is exact: PTS(n) - PTS(first decoded packet of the track) == K(n) - K(first), where K is the writer's 64-bit timeline; the harness also checks that K differences equal the literal sum of int32(ts[i]-ts[i-1]) over the decoded packets",
		"packets for which Decode returns false (packets with PTS!=DTS before the track's first PTS==DTS packet) are outside oracle 1; a refusal after a track was accepted is only counted (probe decode_refused_after_accept), the statement does not speak about it",
		"the PTS of the very first packet of the leading track is not constrained by the statement (the code uses 0); silent",
		"oracle 2 (late track): the statement gives no tolerance. Expected position = leading PTS/leading rate + wall time elapsed at the decoder since that leading packet, converted to ticks of the new track; allowed deviation = 2 ticks of the new track (two quantities - the rescaled PTS and the elapsed time - are each expressed in whole ticks) + one tick of the leading clock. When the most recent leading packet was a B packet the statement does not say which packet anchors the timeline: any value between the positions derived from the last leading packet and from the last leading PTS==DTS packet is accepted (probe late_track_anchor_ambiguous). Deviations above one tick of each clock are counted in probe late_track_off_more_than_one_tick_each without being violations",
		"oracle 3 tolerance: one clock tick + 1 ns NTP rounding (statement) + 1 ns because the writer's association is handed to the Sender as a time.Time (ns) + 1 ns because PacketNTP returns a time.Time (ns); compared exactly (math/big) against base + start + K/rate",
		"oracle 3 is silent when the packet's tick is 2^31-4 or more ticks away from the instant of the last processed report (a 32-bit timestamp is ambiguous there; probe ntp_silent_ambiguous), and before the first report has been processed; PacketNTP returning false after a report was processed is a violation",
		"oracle 3 needs the report's (RTP,NTP) pair to lie on the writer's line: the writer's NTP for PTS==DTS packets is the Sender's own TimeNow clock at write time, and two consecutive time anchors of a track are at most 250000 s apart so that float64 arithmetic in the report extrapolation cannot move the pair by more than 0.1 ns (generator bound, not an oracle constant)",
		"oracle 4 is asserted in the direction Decode(Encode(t)) for every instant the run visits inside 1970..2036-02-07 (writer instants of all packets, report capture instants, PacketNTP results); the reverse composition on arbitrary 64-bit NTP values is not asserted because time.Time cannot represent 2^-32 s",
		"the Receiver of a track is closed right after its last packet, the Sender after its last packet plus a linger; reports still in flight for a closed receiver are dropped",
	}
}
