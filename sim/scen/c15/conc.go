package c15

import (
	"fmt"
	"math"
	"sync"
	"testing"
	"time"

	"github.com/pion/rtcp"
	"github.com/pion/rtp"

	"github.com/bluenviron/gortsplib/v5/pkg/ntp"
	"github.com/bluenviron/gortsplib/v5/pkg/rtpreceiver"

	"verifsim/core"
	"verifsim/sys"
)

// Mode "conc": the Receiver's NTP mapping under concurrent callers. With UDP transports sender
// reports and RTP packets of one format are processed by different goroutines, so PacketNTP and
// Stats run while ProcessSenderReport / ProcessPacket2 are in progress. Here three driver
// goroutines call the real Receiver concurrently; the library's mutexes are the simulation-aware
// ones and every statement of receiver.go is a yield point at which the scheduler may park the
// calling goroutine (seeded probability), also in the middle of a critical section.
//
// Oracle (statement: "PacketNTP maps a timestamp to the writer's absolute time"): every
// PacketNTP result must be the mapping of ONE sender report that can have been current during
// the call - the last one whose processing had completed when the call began, or one whose
// processing overlapped the call - never a mixture of two reports.

// Conc is the mode-"conc" part of a Scenario.
type Conc struct {
	Rate     int   `json:"rate"`
	Reports  int   `json:"reports"`
	Queries  int   `json:"queries"`
	DriftTk  int   `json:"drift_ticks"` // RTP ticks by which consecutive reports deviate from the nominal clock
	GapUS    int   `json:"gap_us"`      // pause between two reports
	QGapUS   int   `json:"query_gap_us"`
	ParkProb int   `json:"park_permille"`
	TS0      int64 `json:"ts0"`
}

func genConc(seed uint64) Scenario {
	r := core.NewRand(seed, "c15.conc")
	sc := Scenario{Seed: seed, BaseUnixNS: int64(r.Range(1, 2000000000)) * 1e9}
	sc.Conc = &Conc{
		Rate:     r.Pick(8000, 48000, 90000, 90000),
		Reports:  r.Range(3, 12),
		Queries:  r.Range(20, 80),
		DriftTk:  r.Pick(900, 4500, 45000, -4500),
		GapUS:    r.Pick(200, 1000, 3000),
		QGapUS:   r.Pick(50, 200, 700),
		ParkProb: r.Pick(50, 150, 400),
		TS0:      int64(r.Pick(0, 1000, 4294960000, r.Intn(1<<31))),
	}
	return sc
}

func runConc(t *testing.T, sc Scenario) *core.Result {
	cs := sc.Conc
	opts := sys.Options{Seed: sc.Seed, MaxSteps: 400000, Horizon: 10 * time.Minute, MaxHold: 2 * time.Millisecond, SimLocks: true,
		Yields: map[string]core.YieldSpec{"auto:receiver:": {Prob: float64(cs.ParkProb) / 1000}}}
	var sample map[string]any
	res := sys.Run(t, opts, func(w *sys.World) {
		w.ProbeInit("conc_queries_checked", "conc_query_overlapped_report", "conc_not_yet_mapped")
		base := time.Unix(0, sc.BaseUnixNS)
		start := time.Now()
		now := func() time.Time { return base.Add(time.Since(start)) }
		rr := &rtpreceiver.Receiver{ClockRate: cs.Rate, Period: 50 * time.Millisecond, TimeNow: now,
			WritePacketRTCP: func(rtcp.Packet) {}}
		if err := rr.Initialize(); err != nil {
			w.Fail("c15/harness receiver", "%v", err)
			return
		}
		type rep struct {
			ntpT        time.Time
			rtpT        uint32
			begin, done uint64 // global sequence numbers around ProcessSenderReport (done 0 = in progress)
		}
		var mu sync.Mutex
		var reps []*rep
		w.Go("reports", func() {
			for k := 0; k < cs.Reports; k++ {
				r := &rep{ntpT: base.Add(time.Duration(k+1) * time.Second), rtpT: uint32(cs.TS0 + int64(k)*int64(cs.Rate+cs.DriftTk))}
				mu.Lock()
				reps = append(reps, r)
				r.begin = w.Log.NextG()
				mu.Unlock()
				rr.ProcessSenderReport(&rtcp.SenderReport{SSRC: 1, NTPTime: ntp.Encode(r.ntpT), RTPTime: r.rtpT}, now())
				mu.Lock()
				r.done = w.Log.NextG()
				mu.Unlock()
				// (ns jitter: wake-ups of different drivers never coincide, see DESIGN 2.2)
				time.Sleep(time.Duration(cs.GapUS)*time.Microsecond + time.Duration(core.H(sc.Seed, "jr", uint64(k))%997))
			}
		})
		w.Go("packets", func() {
			// the packet path runs as well (it shares the mutex); in order, reliable mode
			for k := 0; k < cs.Queries; k++ {
				pkt := &rtp.Packet{Header: rtp.Header{Version: 2, PayloadType: 96, SequenceNumber: uint16(100 + k), Timestamp: uint32(cs.TS0 + int64(k)*100), SSRC: 1}, Payload: []byte{1}}
				rr.ProcessPacket2(pkt, now(), true) //nolint:errcheck
				rr.Stats()
				time.Sleep(time.Duration(cs.QGapUS)*time.Microsecond + time.Duration(core.H(sc.Seed, "jp", uint64(k))%991))
			}
		})
		w.Go("queries", func() {
			tick := time.Duration(math.Ceil(1e9 / float64(cs.Rate)))
			for q := 0; q < cs.Queries && !w.Failed(); q++ {
				ts := uint32(cs.TS0 + int64(core.H(sc.Seed, "qts", uint64(q))%uint64(cs.Rate*4)))
				g0 := w.Log.NextG()
				got, ok := rr.PacketNTP(ts)
				g1 := w.Log.NextG()
				mu.Lock()
				// admissible reports: from the last one completed before the call began onwards,
				// as far as they had begun before the call returned
				first := -1
				for i, r := range reps {
					if r.done != 0 && r.done < g0 {
						first = i
					}
				}
				var cands []*rep
				for i, r := range reps {
					if i >= first && i >= 0 && r.begin < g1 {
						cands = append(cands, r)
					}
				}
				noneYet := first < 0
				mu.Unlock()
				if !ok {
					if !noneYet {
						w.Fail("c15/packet-ntp conc", "PacketNTP(%d) reported no mapping although a sender report had been processed before the call", ts)
					}
					w.Probe("conc_not_yet_mapped")
				} else {
					match := false
					var wants []string
					for _, r := range cands {
						want := r.ntpT.Add(time.Duration(int64(int32(ts-r.rtpT)) * int64(time.Second) / int64(cs.Rate)))
						wants = append(wants, want.UTC().Format(time.RFC3339Nano))
						if d := got.Sub(want); d <= tick+time.Microsecond && d >= -tick-time.Microsecond {
							match = true
						}
					}
					if !match {
						w.Fail("c15/packet-ntp conc", "PacketNTP(%d) = %s while sender reports were being processed concurrently: it is the mapping of none of the %d reports that can have been current during the call (%v) - a mixture of two reports",
							ts, got.UTC().Format(time.RFC3339Nano), len(cands), wants)
						return
					}
					if len(cands) > 1 {
						w.Probe("conc_query_overlapped_report")
					}
					w.Probe("conc_queries_checked")
				}
				time.Sleep(time.Duration(cs.QGapUS)*time.Microsecond + time.Duration(core.H(sc.Seed, "jq", uint64(q))%983))
			}
		})
		w.Go("closer", func() {
			w.WaitDrivers("reports", "packets", "queries")
			rr.Close()
			sample = map[string]any{"mode": "conc", "rate": cs.Rate, "reports": cs.Reports, "queries": cs.Queries}
		})
	})
	res.Nontrivial = res.Probes["conc_queries_checked"] > 0
	res.Sample = sample
	_ = fmt.Sprint
	return res
}
