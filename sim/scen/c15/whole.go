package c15

import (
	"fmt"
	"sync"
	"testing"
	"time"

	"github.com/pion/rtp"

	gortsplib "github.com/bluenviron/gortsplib/v5"
	"github.com/bluenviron/gortsplib/v5/pkg/base"
	"github.com/bluenviron/gortsplib/v5/pkg/description"
	"github.com/bluenviron/gortsplib/v5/pkg/format"

	"verifsim/core"
	"verifsim/simnet"
	"verifsim/sys"
)

// Mode "whole": the NTP mapping as the library wires it between a server-side writer and a reading
// client (server_stream*.go -> rtpsender -> RTCP over the simulated network -> client_media.go ->
// rtpreceiver). One media with two or three formats (payload types), each with its own clock rate,
// its own SSRC, its own sender reports and - on purpose - its own absolute time line (the lines of
// two formats are a year apart, so that a report that reaches the wrong format is visible); the
// formats start at different instants. The writer uses ServerStream.WritePacketRTPWithNTP; the
// reader asks Client.PacketNTP for every packet it is handed.
//
// Oracle, from the statement: whenever PacketNTP has an answer for a packet, the answer is the
// instant the writer associated with that packet's timestamp, to within one tick plus rounding. (It
// may have no answer: before the format's first sender report has arrived.)

// Whole is the mode-"whole" part of a Scenario.
type Whole struct {
	Transport string        `json:"transport"` // tcp | udp
	Formats   []WholeFormat `json:"formats"`
	ReportMS  int           `json:"report_ms"`
	Net       simnet.Config `json:"net"`
}

// WholeFormat is one payload type of the media.
type WholeFormat struct {
	Rate       int    `json:"rate"`
	TS0        uint32 `json:"ts0"`
	StartMS    int    `json:"start_ms"`
	Packets    int    `json:"packets"`
	IntervalMS int    `json:"interval_ms"`
}

func genWhole(seed uint64) Scenario {
	r := core.NewRand(seed, "c15.whole")
	sc := Scenario{Seed: seed, BaseUnixNS: int64(r.Range(946684800, 1893456000)) * 1e9}
	ws := &Whole{Transport: []string{"tcp", "udp"}[r.Intn(2)], ReportMS: r.Pick(50, 100, 300)}
	nf := r.Range(2, 3)
	for i := 0; i < nf; i++ {
		f := WholeFormat{Rate: r.Pick(8000, 44100, 48000, 90000), TS0: uint32(r.U64()), Packets: r.Range(20, 60), IntervalMS: r.Pick(10, 20, 40)}
		if r.Bool(0.3) {
			f.TS0 = uint32(1<<32 - uint64(r.Range(1, 200000)))
		}
		if i > 0 {
			f.StartMS = r.Range(50, 1500) // a format that stays silent for a while
		}
		ws.Formats = append(ws.Formats, f)
	}
	nc := simnet.Config{Seed: seed ^ 0x15151515}
	nc.LatMinUS = r.Pick(10, 100, 1000)
	nc.LatMaxUS = nc.LatMinUS + r.Pick(0, 50, 500)
	nc.ChunkMode = r.Pick(0, 1, 3)
	nc.ChunkMaxLen = 256
	ws.Net = nc
	sc.Whole = ws
	return sc
}

const yearNS = int64(365 * 24 * time.Hour)

func runWhole(t *testing.T, sc Scenario) *core.Result {
	ws := sc.Whole
	opts := sys.Options{Seed: sc.Seed, Net: ws.Net, MaxSteps: 600000, Horizon: 10 * time.Minute}
	var sample map[string]any
	res := sys.Run(t, opts, func(w *sys.World) {
		w.ProbeInit("whole_tcp", "whole_udp", "whole_ntp_checked", "whole_ntp_not_yet", "whole_late_format_checked")
		w.Probe("whole_" + ws.Transport)
		srvNode := w.Net.Node("srv", "10.0.0.1")
		cliNode := w.Net.Node("cli", "10.0.0.20")
		h := sys.NewHandler(w)
		srv := &gortsplib.Server{RTSPAddress: "10.0.0.1:8554", UDPRTPAddress: "10.0.0.1:8000", UDPRTCPAddress: "10.0.0.1:8001", Handler: h}
		srv.VerifSetPeriods(time.Duration(ws.ReportMS)*time.Millisecond, time.Duration(ws.ReportMS)*time.Millisecond, time.Second)
		h.Server = srv
		sys.WireServer(srv, srvNode, nil)
		if err := srv.Start(); err != nil {
			w.Fail("c15/harness", "Server.Start: %v", err)
			return
		}
		var fs []format.Format
		for i, f := range ws.Formats {
			g := &format.Generic{PayloadTyp: uint8(96 + i), RTPMa: fmt.Sprintf("private/%d", f.Rate)}
			if err := g.Init(); err != nil {
				w.Fail("c15/harness", "format: %v", err)
				srv.Close()
				return
			}
			fs = append(fs, g)
		}
		desc := &description.Session{Medias: []*description.Media{{Type: description.MediaTypeVideo, Formats: fs}}}
		stream := &gortsplib.ServerStream{Server: srv, Desc: desc}
		if err := stream.Initialize(); err != nil {
			w.Fail("c15/harness", "ServerStream.Initialize: %v", err)
			srv.Close()
			return
		}
		h.SetStream("/stream", stream)

		// the writer's association: tick k of format i <-> base_i + k/rate
		baseOf := func(i int) int64 { return sc.BaseUnixNS + int64(i)*yearNS }
		var mu sync.Mutex
		checked, notYet, late := 0, 0, 0
		playing := make(chan struct{})
		allWritten := make(chan struct{})

		w.Go("client", func() {
			defer srv.Close()
			defer stream.Close()
			p := gortsplib.ProtocolTCP
			if ws.Transport == "udp" {
				p = gortsplib.ProtocolUDP
			}
			c := &gortsplib.Client{Scheme: "rtsp", Host: "10.0.0.1:8554", Protocol: &p}
			sys.WireClient(c, cliNode, w.Net, nil)
			c.OnPacketsLost = func(uint64) {}
			c.OnDecodeError = func(error) {}
			if err := c.Start(); err != nil {
				w.Fail("c15/harness", "Client.Start: %v", err)
				return
			}
			defer c.Close()
			u, _ := base.ParseURL("rtsp://10.0.0.1:8554/stream")
			d, _, err := c.Describe(u)
			if err != nil {
				w.Fail("c15/harness", "Describe: %v", err)
				return
			}
			if err := c.SetupAll(d.BaseURL, d.Medias); err != nil {
				w.Fail("c15/harness", "SetupAll: %v", err)
				return
			}
			c.OnPacketRTPAny(func(m *description.Media, _ format.Format, pkt *rtp.Packet) {
				i := int(pkt.PayloadType) - 96
				if i < 0 || i >= len(ws.Formats) {
					return
				}
				f := ws.Formats[i]
				got, ok := c.PacketNTP(m, pkt)
				mu.Lock()
				defer mu.Unlock()
				if !ok {
					notYet++
					return
				}
				k := int64(int32(pkt.Timestamp - f.TS0)) // the streams are short: no ambiguity
				want := baseOf(i) + floorDivNS(k, int64(f.Rate))
				tol := int64(1e9)/int64(f.Rate) + 1 + 3
				if d := got.UnixNano() - want; d > tol || d < -tol {
					w.Fail("c15/packet-ntp whole", "%s, format %d (payload type %d, rate %d, starts %d ms into the stream): Client.PacketNTP for timestamp %d = %s, the writer associated %s with it: off by %d ns (allowed %d)",
						ws.Transport, i, pkt.PayloadType, f.Rate, f.StartMS, pkt.Timestamp, got.UTC().Format(time.RFC3339Nano), time.Unix(0, want).UTC().Format(time.RFC3339Nano), d, tol)
					return
				}
				checked++
				if f.StartMS > 0 {
					late++
				}
			})
			if _, err := c.Play(nil); err != nil {
				w.Fail("c15/harness", "Play: %v", err)
				return
			}
			close(playing)
			<-allWritten
			time.Sleep(300 * time.Millisecond)
			mu.Lock()
			w.ProbeAdd("whole_ntp_checked", checked)
			w.ProbeAdd("whole_ntp_not_yet", notYet)
			w.ProbeAdd("whole_late_format_checked", late)
			sample = map[string]any{"mode": "whole", "transport": ws.Transport, "formats": len(ws.Formats), "checked": checked, "not_yet": notYet}
			mu.Unlock()
		})
		w.Go("writer", func() {
			defer close(allWritten)
			select {
			case <-playing:
			case <-time.After(30 * time.Second):
				return
			}
			var wg sync.WaitGroup
			for i, f := range ws.Formats {
				i, f := i, f
				wg.Add(1)
				w.Go(fmt.Sprintf("writer.%d", i), func() {
					defer wg.Done()
					time.Sleep(time.Duration(f.StartMS) * time.Millisecond)
					ticks := int64(f.Rate) * int64(f.IntervalMS) / 1000
					for k := 0; k < f.Packets; k++ {
						pkt := &rtp.Packet{Header: rtp.Header{Version: 2, PayloadType: uint8(96 + i), SequenceNumber: uint16(100 + k),
							Timestamp: f.TS0 + uint32(int64(k)*ticks)}, Payload: []byte{1, byte(k), 3, 4}}
						ntpT := time.Unix(0, baseOf(i)+floorDivNS(int64(k)*ticks, int64(f.Rate)))
						stream.WritePacketRTPWithNTP(desc.Medias[0], pkt, ntpT) //nolint:errcheck
						time.Sleep(time.Duration(f.IntervalMS) * time.Millisecond)
					}
				})
			}
			wg.Wait()
		})
	})
	res.Nontrivial = res.Probes["whole_ntp_checked"] > 0
	res.Sample = sample
	return res
}
