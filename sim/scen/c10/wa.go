package c10

import (
	"net"
	"strings"
	"sync"
	"testing"
	"time"

	gortsplib "github.com/bluenviron/gortsplib/v5"
	"github.com/bluenviron/gortsplib/v5/pkg/base"

	"verifsim/core"
	"verifsim/sys"
)

type authRec struct {
	Method  base.Method
	URL     string
	HasAuth bool
	Scheme  int // scheme of the Authorization header, -1 none/unknown
	OK      bool
}

// headerScheme classifies an Authorization header value the client sent.
func headerScheme(v base.HeaderValue) int {
	if len(v) != 1 {
		return -1
	}
	s := v[0]
	switch {
	case strings.HasPrefix(s, "Basic "):
		return mBasic
	case strings.HasPrefix(s, "Digest "):
		if strings.Contains(strings.ToUpper(s), "SHA-256") {
			return mSHA256
		}
		return mMD5
	}
	return -1
}

func schemeName(m int) string {
	if m < 0 || m > 2 {
		return "none"
	}
	return schemeNames[m]
}

func perturbCred(s string, variant int) string {
	rs := []rune(s)
	switch variant % 4 {
	case 0:
		return s + "x"
	case 1:
		if len(rs) > 1 {
			return string(rs[:len(rs)-1])
		}
		return s + "y"
	case 2:
		sw := swapCase(s)
		if sw != s {
			return sw
		}
		return "X" + s
	default:
		if s == "intruder" {
			return "intruder2"
		}
		return "intruder"
	}
}

func swapCase(s string) string {
	rs := []rune(s)
	for i, c := range rs {
		switch {
		case c >= 'a' && c <= 'z':
			rs[i] = c - 32
			return string(rs)
		case c >= 'A' && c <= 'Z':
			rs[i] = c + 32
			return string(rs)
		}
	}
	return s
}

func settleOf(sc *Scenario) time.Duration {
	return 4*time.Duration(sc.Net.LatMaxUS)*time.Microsecond + 5*time.Millisecond
}

// runA: real Client with credentials in the URL against a real Server whose
// handler calls VerifyCredentials.
func runA(t *testing.T, sc Scenario) *core.Result {
	opts := sys.Options{Seed: sc.Seed, Net: sc.Net, MaxSteps: 300000, Horizon: 10 * time.Minute}
	var summary map[string]any
	decisions := 0
	res := sys.Run(t, opts, func(w *sys.World) {
		commonProbes(w, &sc)
		srvNode := w.Net.Node("srv", "10.0.0.1")
		h := sys.NewHandler(w)
		// the application reports authentication failures wrapped in a third of the runs
		h.WrapAuthErr = core.HS(sc.Seed, "c10.wrapautherr", "", 0)%3 == 0
		srv := &gortsplib.Server{RTSPAddress: "10.0.0.1:8554", Handler: h, AuthMethods: verifyMethods(sc.Methods), IdleTimeout: 600 * time.Second}
		h.Server = srv
		var amu sync.Mutex
		var authLog []authRec
		h.Auth = func(conn *gortsplib.ServerConn, req *base.Request) bool {
			ok := conn.VerifyCredentials(req, sc.User, sc.Pass)
			rec := authRec{Method: req.Method, URL: req.URL.String(), HasAuth: len(req.Header["Authorization"]) > 0,
				Scheme: headerScheme(req.Header["Authorization"]), OK: ok}
			amu.Lock()
			authLog = append(authLog, rec)
			amu.Unlock()
			w.Log.Add("srv:auth", "verify", "%s auth=%v scheme=%s ok=%v", req.Method, rec.HasAuth, schemeName(rec.Scheme), ok)
			return ok
		}
		sys.WireServer(srv, srvNode, nil)
		if err := srv.Start(); err != nil {
			w.Fail("c10/api-error server", "Server.Start: %v", err)
			return
		}
		plain, err := base.ParseURL(sc.URL)
		if err != nil {
			w.Fail("c10/harness url", "generated URL %q does not parse: %v", sc.URL, err)
			srv.Close()
			return
		}
		var stream *gortsplib.ServerStream
		if !sc.Record {
			stream = &gortsplib.ServerStream{Server: srv, Desc: mkDesc(sc.Medias, false)}
			if err := stream.Initialize(); err != nil {
				w.Fail("c10/api-error server", "stream: %v", err)
				srv.Close()
				return
			}
			h.SetStream(plain.Path, stream)
		}
		cliUser, cliPass := sc.User, sc.Pass
		switch sc.Wrong {
		case "user":
			cliUser = perturbCred(sc.User, int(core.H(sc.Seed, "wronguser")%4))
		case "pass":
			cliPass = perturbCred(sc.Pass, int(core.H(sc.Seed, "wrongpass")%4))
		}
		cli := w.Net.Node("cli", "10.0.0.20")

		var cmu sync.Mutex
		var statuses []base.StatusCode
		lastScheme := -1
		var reqMethods []string

		w.Go("client", func() {
			u, full, err := credURL(sc.URL, cliUser, cliPass)
			if err != nil {
				w.Fail("c10/harness url", "URL with credentials %q does not parse: %v", full, err)
				return
			}
			if pw, _ := u.User.Password(); u.User.Username() != cliUser || pw != cliPass {
				w.Fail("c10/harness url", "credentials do not survive the URL %q: got %q / %q", full, u.User.Username(), pw)
				return
			}
			tcp := gortsplib.ProtocolTCP
			c := &gortsplib.Client{Scheme: "rtsp", Host: "10.0.0.1:8554", Protocol: &tcp}
			sys.WireClient(c, cli, w.Net, nil)
			c.OnRequest = func(req *base.Request) {
				cmu.Lock()
				reqMethods = append(reqMethods, string(req.Method))
				if s := headerScheme(req.Header["Authorization"]); s >= 0 {
					lastScheme = s
				}
				cmu.Unlock()
				w.Log.Add("cli", "request", "%s %s auth=%s", req.Method, req.URL.CloneWithoutCredentials(), schemeName(headerScheme(req.Header["Authorization"])))
			}
			c.OnResponse = func(res *base.Response) {
				cmu.Lock()
				statuses = append(statuses, res.StatusCode)
				cmu.Unlock()
				w.Log.Add("cli", "response", "%d", res.StatusCode)
			}
			if err := c.Start(); err != nil {
				w.Fail("c10/api-error client", "Client.Start: %v", err)
				return
			}
			defer c.Close()
			usedScheme := func() string {
				cmu.Lock()
				defer cmu.Unlock()
				return schemeName(lastScheme)
			}
			saw401 := func() bool {
				cmu.Lock()
				defer cmu.Unlock()
				for _, s := range statuses {
					if s == base.StatusUnauthorized {
						return true
					}
				}
				return false
			}
			step := func(what string, err error) bool {
				if sc.Wrong != "" {
					return err == nil
				}
				if err != nil {
					amu.Lock()
					al := append([]authRec(nil), authLog...)
					amu.Unlock()
					w.Fail("c10/complete "+usedScheme(), "workload A: %s with the right credentials (user %q, password %q, url %s, enabled %v) failed: %v; server-side VerifyCredentials calls: %+v",
						what, sc.User, sc.Pass, sc.URL, schemeList(sc.Methods), err, al)
					return false
				}
				return true
			}
			first := "DESCRIBE"
			var ferr error
			if sc.Record {
				first = "ANNOUNCE"
				desc := mkDesc(sc.Medias, false)
				_, ferr = c.Announce(u, desc)
				if step(first, ferr) && sc.Wrong == "" {
					if !step("SETUP", c.SetupAll(u, desc.Medias)) {
						return
					}
					_, err := c.Record()
					if !step("RECORD", err) {
						return
					}
				}
			} else {
				d, _, err := c.Describe(u)
				ferr = err
				if sc.DescribeOnly {
					w.Probe("empty_path_url")
				}
				if step(first, ferr) && sc.Wrong == "" && !sc.DescribeOnly {
					if !step("SETUP", c.SetupAll(d.BaseURL, d.Medias)) {
						return
					}
					_, err := c.Play(nil)
					if !step("PLAY", err) {
						return
					}
				}
			}
			if w.Failed() {
				return
			}
			if sc.Wrong != "" {
				// soundness through the library's own Sender: a wrong user / password is refused
				if ferr == nil {
					w.Fail("c10/sound client-"+sc.Wrong, "workload A: %s succeeded although the client used %s %q / %q and the server expects %q / %q (enabled %v)",
						first, sc.Wrong, cliUser, cliPass, sc.User, sc.Pass, schemeList(sc.Methods))
					return
				}
				if !strings.Contains(ferr.Error(), "401") {
					w.Fail("c10/sound client-"+sc.Wrong, "workload A: %s with a wrong %s failed, but not with status 401: %v", first, sc.Wrong, ferr)
					return
				}
				time.Sleep(settleOf(&sc))
				closed := false
				for _, cb := range h.Callbacks() {
					if cb.Kind == "conn.close" {
						closed = true
					}
				}
				if !closed {
					w.Fail("c10/close wrong-credentials", "workload A: the server answered 401 to wrong credentials (%s) but did not end the connection", sc.Wrong)
					return
				}
				w.Probe("client_wrong_credentials_rejected")
				w.Probe("conn_closed_after_wrong_credentials")
				decisions++
				return
			}
			if !saw401() {
				w.Fail("c10/challenge missing", "workload A: the conversation succeeded without any 401 although the application demands credentials")
				return
			}
			time.Sleep(settleOf(&sc))
		})

		w.Go("closer", func() {
			w.WaitDrivers("client")
			if stream != nil {
				stream.Close()
			}
			srv.Close()
		})

		w.AtEnd(func() {
			if w.Failed() {
				return
			}
			amu.Lock()
			al := append([]authRec(nil), authLog...)
			amu.Unlock()
			nOK, nSetup := 0, 0
			schemes := map[int]bool{}
			for _, a := range al {
				if sc.Wrong != "" {
					if a.OK {
						w.Fail("c10/sound client-"+sc.Wrong, "workload A: VerifyCredentials returned true for %s although the client used a wrong %s", a.Method, sc.Wrong)
						return
					}
					continue
				}
				if a.HasAuth && !a.OK {
					w.Fail("c10/complete "+schemeName(a.Scheme), "workload A: VerifyCredentials returned false for %s %s carrying credentials the client computed from the right user %q / password %q (enabled %v)",
						a.Method, a.URL, sc.User, sc.Pass, schemeList(sc.Methods))
					return
				}
				if a.OK {
					nOK++
					schemes[a.Scheme] = true
					if a.Method == base.Setup {
						nSetup++
					}
				}
			}
			if sc.Wrong == "" {
				// DESCRIBE|ANNOUNCE + one SETUP per media + PLAY|RECORD were authorised
				want := sc.Medias + 2
				if sc.DescribeOnly {
					want = 1
				}
				if nOK < want {
					w.Fail("c10/complete handler", "workload A: only %d requests were authorised, expected %d; log %+v", nOK, want, al)
					return
				}
				decisions += nOK
				w.Probe("valid_accepted")
				w.ProbeAdd("setup_track_url", nSetup)
				for m := range schemes {
					if m >= 0 {
						w.Probe(methodProbe(m))
					}
				}
				if strings.Contains(sc.Pass, ":") {
					w.Probe("password_with_colon")
				}
			}
			cmu.Lock()
			summary = map[string]any{"workload": "A", "requests": strings.Join(reqMethods, " "), "statuses": statuses, "authorised": nOK, "wrong": sc.Wrong}
			cmu.Unlock()
		})
	})
	res.Nontrivial = decisions > 0
	res.Sample = summary
	return res
}

func schemeList(ms []int) []string {
	var out []string
	for _, m := range ms {
		out = append(out, schemeName(m))
	}
	return out
}

var _ = net.IPv4
