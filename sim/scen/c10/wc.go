package c10

import (
	"context"
	"errors"
	"fmt"
	"net"
	"regexp"
	"strings"
	"sync"
	"testing"
	"time"

	gortsplib "github.com/bluenviron/gortsplib/v5"
	"github.com/bluenviron/gortsplib/v5/pkg/base"
	"github.com/bluenviron/gortsplib/v5/pkg/headers"

	"verifsim/core"
	"verifsim/peers"
	"verifsim/sys"
)

var trackSuffix = regexp.MustCompile(`/trackID=[0-9]+$`)

// setupBaseForms returns the two digest-uri values the documented SETUP
// compatibility rule allows besides the request URL itself: the stream base
// URL with and without the trailing slash. ok=false when the URL carries no
// track suffix.
func setupBaseForms(wire string) (withSlash, without string, ok bool) {
	loc := trackSuffix.FindStringIndex(wire)
	if loc == nil {
		return "", "", false
	}
	return wire[:loc[0]+1], wire[:loc[0]], true
}

// absPath is the abs_path form of a request URL (RFC 2617 3.2.2).
func absPath(wire string) string {
	rest := strings.TrimPrefix(wire, "rtsp://")
	i := strings.IndexByte(rest, '/')
	if i < 0 {
		return "/"
	}
	return rest[i:]
}

// acceptable lists every digest-uri the statement lets the server accept for a request.
func acceptable(method, wire string) map[string]bool {
	out := map[string]bool{wire: true, absPath(wire): true}
	if method == "SETUP" {
		if a, b, ok := setupBaseForms(wire); ok {
			out[a], out[b] = true, true
		}
	}
	return out
}

// wrongURI returns a digest-uri that differs from everything acceptable.
func wrongURI(method, wire string, variant int) string {
	acc := acceptable(method, wire)
	var cand string
	switch variant % 8 {
	case 0:
		cand = wire + "x"
	case 1:
		cand = strings.Replace(wire, "10.0.0.1:8554", "10.0.0.2:8554", 1)
	case 2:
		// a proper prefix: the parent "directory" (beyond the SETUP base forms)
		cand = wire
		for k := 0; k < 3; k++ {
			t := strings.TrimSuffix(cand, "/")
			i := strings.LastIndexByte(t, '/')
			if i < len("rtsp://10.0.0.1:8554") {
				break
			}
			cand = t[:i+1]
			if !acc[cand] {
				break
			}
		}
	case 3:
		cand = wire[:len(wire)-1]
	case 4:
		if loc := trackSuffix.FindStringIndex(wire); loc != nil {
			cand = wire[:loc[0]] + "/trackID=7"
			if cand == wire {
				cand = wire[:loc[0]] + "/trackID=8"
			}
		} else {
			cand = wire + "/trackID=0"
		}
	case 5:
		// another path in abs_path form, or nothing but the server root (a prefix of every URL)
		if strings.HasSuffix(wire, "0") {
			cand = "/other"
		} else {
			cand = "rtsp://10.0.0.1:8554/"
		}
	case 6:
		// the query stripped (a prefix) or another query
		if i := strings.IndexByte(wire, '?'); i >= 0 && method != "SETUP" {
			cand = wire[:i]
		} else if i >= 0 {
			cand = wire + "&z=1"
		} else {
			cand = wire + "?z=1"
		}
	default:
		cand = "rtsp://10.0.0.1:8554" + strings.ToUpper(absPath(wire))
	}
	if cand == "" || acc[cand] {
		cand = wire + "x"
	}
	return cand
}

func otherMethod(method string, variant int) string {
	all := []string{"OPTIONS", "DESCRIBE", "ANNOUNCE", "SETUP", "PLAY", "RECORD", "PAUSE", "TEARDOWN", "GET", "describe"}
	m := all[variant%len(all)]
	if m == method {
		m = all[(variant+1)%len(all)]
	}
	return m
}

func wrongRealm(realm string, variant int) string {
	switch variant % 4 {
	case 0:
		return realm + "x"
	case 1:
		if sw := swapCase(realm); sw != realm {
			return sw
		}
		return "other"
	case 2:
		if len(realm) > 1 {
			return realm[:len(realm)-1]
		}
		return "other"
	default:
		return "other realm"
	}
}

func wrongNonce(nonce string, variant int) string {
	switch variant % 4 {
	case 0:
		return nonce + "0"
	case 1:
		if len(nonce) > 1 {
			return nonce[:len(nonce)-1]
		}
		return "00"
	case 2:
		if len(nonce) > 0 {
			last := nonce[len(nonce)-1]
			repl := byte('0')
			if last == '0' {
				repl = '1'
			}
			return nonce[:len(nonce)-1] + string(repl)
		}
		return "0"
	default:
		if sw := swapCase(nonce); sw != nonce {
			return sw
		}
		return "00000000000000000000000000000000"
	}
}

func ctxTimeout(d time.Duration) (context.Context, context.CancelFunc) {
	return context.WithTimeout(context.Background(), d)
}

// runC: scripted raw client with its own credentials implementation against a real Server.
// offersOf is nil-safe (a pre-emptive Basic request is sent before any challenge).
func offersOf(ch *challenge) any {
	if ch == nil {
		return "none yet"
	}
	return ch.offers
}

func runC(t *testing.T, sc Scenario) *core.Result {
	opts := sys.Options{Seed: sc.Seed, Net: sc.Net, MaxSteps: 300000, Horizon: 10 * time.Minute}
	var summary map[string]any
	decisions := 0
	res := sys.Run(t, opts, func(w *sys.World) {
		commonProbes(w, &sc)
		srvNode := w.Net.Node("srv", "10.0.0.1")
		h := sys.NewHandler(w)
		// the application reports authentication failures wrapped in a third of the runs
		h.WrapAuthErr = core.HS(sc.Seed, "c10.wrapautherr", "", 0)%3 == 0
		srv := &gortsplib.Server{RTSPAddress: "10.0.0.1:8554", Handler: h, AuthMethods: verifyMethods(sc.Methods), IdleTimeout: 600 * time.Second}
		h.Server = srv
		var amu sync.Mutex
		var authLog []authRec
		h.Auth = func(conn *gortsplib.ServerConn, req *base.Request) bool {
			ok := conn.VerifyCredentials(req, sc.User, sc.Pass)
			amu.Lock()
			authLog = append(authLog, authRec{Method: req.Method, URL: req.URL.String(), HasAuth: len(req.Header["Authorization"]) > 0, OK: ok})
			amu.Unlock()
			w.Log.Add("srv:auth", "verify", "%s auth=%v ok=%v", req.Method, len(req.Header["Authorization"]) > 0, ok)
			return ok
		}
		lastAuth := func() (authRec, int) {
			amu.Lock()
			defer amu.Unlock()
			if len(authLog) == 0 {
				return authRec{}, 0
			}
			return authLog[len(authLog)-1], len(authLog)
		}
		sys.WireServer(srv, srvNode, nil)
		if err := srv.Start(); err != nil {
			w.Fail("c10/api-error server", "Server.Start: %v", err)
			return
		}
		plain, err := base.ParseURL(sc.URL)
		if err != nil {
			w.Fail("c10/harness url", "generated URL %q does not parse: %v", sc.URL, err)
			srv.Close()
			return
		}
		baseWire := plain.String()
		var stream *gortsplib.ServerStream
		if !sc.Record {
			stream = &gortsplib.ServerStream{Server: srv, Desc: mkDesc(sc.Medias, false)}
			if err := stream.Initialize(); err != nil {
				w.Fail("c10/api-error server", "stream: %v", err)
				srv.Close()
				return
			}
			h.SetStream(plain.Path, stream)
		}
		cli := w.Net.Node("cli", "10.0.0.20")
		settle := settleOf(&sc)
		var trace []string

		w.Go("client", func() {
			dial := func() (*peers.RawConn, int) {
				ctx, cancel := ctxTimeout(10 * time.Second)
				defer cancel()
				nc, err := cli.DialContext(ctx, "tcp", "10.0.0.1:8554")
				if err != nil {
					w.Fail("c10/harness dial", "cannot connect: %v", err)
					return nil, 0
				}
				return peers.NewRawConn(nc), nc.LocalAddr().(*net.TCPAddr).Port
			}
			c, port := dial()
			if c == nil {
				return
			}
			defer c.Close()
			serverClosed := func(p int) bool {
				for _, cb := range h.Callbacks() {
					if cb.Kind == "conn.close" && cb.Conn.NetConn().RemoteAddr().(*net.TCPAddr).Port == p {
						return true
					}
				}
				return false
			}

			var ch *challenge
			sessID := ""
			prevNone := false // the previous step was a request without credentials

			buildReq := func(st Step) (*base.Request, string) {
				req := &base.Request{Method: base.Method(st.Method), Header: base.Header{}}
				u := plain
				switch st.Method {
				case "DESCRIBE":
					req.Header["Accept"] = base.HeaderValue{"application/sdp"}
				case "ANNOUNCE":
					body, _ := mkDesc(sc.Medias, true).Marshal()
					req.Header["Content-Type"] = base.HeaderValue{"application/sdp"}
					req.Body = body
				case "SETUP":
					su, err := base.ParseURL(fmt.Sprintf("%s/trackID=%d", baseWire, st.Track))
					if err != nil {
						w.Fail("c10/harness url", "SETUP URL does not parse: %v", err)
						return nil, ""
					}
					u = su
					deliv := headers.TransportDeliveryUnicast
					th := headers.Transport{Protocol: headers.TransportProtocolTCP, Delivery: &deliv, InterleavedIDs: &[2]int{2 * st.Track, 2*st.Track + 1}}
					if sc.Record {
						mode := headers.TransportModeRecord
						th.Mode = &mode
					}
					req.Header["Transport"] = th.Marshal()
				}
				if sessID != "" && st.Method != "DESCRIBE" && st.Method != "ANNOUNCE" {
					req.Header["Session"] = base.HeaderValue{sessID}
				}
				req.URL = u
				return req, u.String()
			}

			// authorization builds the header for a step; perturbed steps change one thing.
			authorization := func(st Step, wire string) (hdr string, valid string, desc string) {
				fUser, cUser := sc.User, sc.User
				pass := sc.Pass
				scheme := st.Scheme
				var realm, nonce string
				if scheme != mBasic {
					if o := ch.find(scheme); o != nil {
						realm, nonce = o.Realm, o.Nonce
					} else {
						realm, nonce = ch.anyRealmNonce()
					}
				}
				fRealm, cRealm := realm, realm
				fNonce, cNonce := nonce, nonce
				cMethod := st.Method
				fURI, cURI := wire, wire
				switch st.URIForm {
				case "base_slash":
					if a, _, ok := setupBaseForms(wire); ok {
						fURI, cURI = a, a
					}
				case "base":
					if _, b, ok := setupBaseForms(wire); ok {
						fURI, cURI = b, b
					}
				case "abs_path":
					fURI, cURI = absPath(wire), absPath(wire)
				}
				fAlg, cAlg := scheme, scheme
				tamper := 0
				build := func() string {
					if scheme == mBasic {
						return basicCredentials(fUser, pass)
					}
					resp := digestResponse(cAlg, cUser, cRealm, pass, cNonce, cMethod, cURI)
					flip := func(i int) {
						b := []byte(resp)
						if b[i] == '0' {
							b[i] = '1'
						} else {
							b[i] = '0'
						}
						resp = string(b)
					}
					switch tamper {
					case 1:
						flip(len(resp) - 1)
					case 2:
						flip(0)
					case 3:
						flip(len(resp) / 2)
					case 4:
						resp = resp[:len(resp)-1]
					case 5:
						resp += "0"
					}
					return digestFields{User: fUser, Realm: fRealm, Nonce: fNonce, URI: fURI, Alg: fAlg, AlgForm: st.AlgForm, Response: resp}.header()
				}
				valid = build()
				if st.Cred != "perturb" {
					return valid, valid, "valid " + schemeName(scheme)
				}
				mode := st.Mode
				if scheme == mBasic {
					mode = "both" // Basic has no separate response
				}
				apply := func(right, wrong string) (f, c string) {
					switch mode {
					case "field":
						return wrong, right
					case "resp":
						return right, wrong
					}
					return wrong, wrong
				}
				switch st.Perturb {
				case "user":
					wu := perturbCred(sc.User, st.Variant)
					fUser, cUser = apply(sc.User, wu)
					desc = fmt.Sprintf("user %q instead of %q (%s)", wu, sc.User, mode)
				case "pass":
					switch st.Variant % 6 {
					case 4:
						pass = sc.Pass + ":"
					case 5:
						if i := strings.IndexByte(sc.Pass, ':'); i > 0 {
							pass = sc.Pass[:i]
						} else {
							pass = perturbCred(sc.Pass, 1)
						}
					default:
						pass = perturbCred(sc.Pass, st.Variant)
					}
					desc = fmt.Sprintf("password %q instead of %q", pass, sc.Pass)
				case "realm":
					wr := wrongRealm(realm, st.Variant)
					fRealm, cRealm = apply(realm, wr)
					desc = fmt.Sprintf("realm %q instead of %q (%s)", wr, realm, mode)
				case "nonce":
					wn := wrongNonce(nonce, st.Variant)
					if st.Variant%8 >= 4 {
						// the nonce the same server issued on another connection
						if c2, _ := dial(); c2 != nil {
							r2 := &base.Request{Method: base.Describe, URL: plain, Header: base.Header{}}
							if _, err := c2.Send(r2); err == nil {
								if res2, err := c2.ReadResponse(20 * time.Second); err == nil {
									for _, v := range res2.Header["WWW-Authenticate"] {
										if o, err := parseChallenge(v); err == nil && o.HasNonce && o.Nonce != nonce {
											wn = o.Nonce
											w.Probe("nonce_of_other_connection")
										}
									}
								}
							}
							c2.Close()
						}
					}
					fNonce, cNonce = apply(nonce, wn)
					desc = fmt.Sprintf("nonce %q instead of %q (%s)", wn, nonce, mode)
				case "method":
					cMethod = otherMethod(st.Method, st.Variant)
					desc = fmt.Sprintf("response computed for method %s, request is %s", cMethod, st.Method)
				case "algorithm":
					other := mMD5
					if scheme == mMD5 {
						other = mSHA256
					}
					if st.Variant%2 == 0 {
						cAlg = other // the field names the enabled algorithm, the response uses the other
					} else {
						fAlg = other // the response uses the enabled algorithm, the field names the other
					}
					desc = fmt.Sprintf("algorithm field %s, response computed with %s", schemeName(fAlg), schemeName(cAlg))
				case "uri":
					wu := wrongURI(st.Method, wire, st.Variant)
					fURI, cURI = apply(wire, wu)
					desc = fmt.Sprintf("uri %q instead of %q (%s)", wu, wire, mode)
				case "response":
					tamper = st.Variant%5 + 1
					desc = fmt.Sprintf("response digest tampered (variant %d)", tamper)
				case "scheme":
					desc = fmt.Sprintf("valid %s credentials although only %v are enabled", schemeName(scheme), schemeList(sc.Methods))
				}
				return build(), valid, desc
			}

			checkChallenge := func(res *base.Response, st Step) bool {
				var offers []offer
				for _, v := range res.Header["WWW-Authenticate"] {
					o, err := parseChallenge(v)
					if err != nil {
						w.Fail("c10/challenge syntax", "WWW-Authenticate value %q is not a challenge: %v", v, err)
						return false
					}
					offers = append(offers, o)
				}
				got := map[int]int{}
				for _, o := range offers {
					got[o.Scheme]++
					if o.Scheme < 0 {
						w.Fail("c10/challenge methods", "the 401 to %s offers %q, which is none of the enabled methods %v", st.Method, o.Raw, schemeList(sc.Methods))
						return false
					}
					if !o.HasRealm || (o.Scheme != mBasic && (!o.HasNonce || o.Nonce == "")) {
						w.Fail("c10/challenge syntax", "challenge %q lacks realm or nonce", o.Raw)
						return false
					}
				}
				for m := 0; m < 3; m++ {
					if enabled(sc.Methods, m) != (got[m] > 0) {
						w.Fail("c10/challenge methods", "the 401 to %s offers %v but the enabled methods are %v (%s enabled=%v offered=%v)",
							st.Method, res.Header["WWW-Authenticate"], schemeList(sc.Methods), schemeName(m), enabled(sc.Methods, m), got[m] > 0)
						return false
					}
				}
				ch = &challenge{offers: offers}
				w.Probe("challenge_checked")
				return true
			}

			for i, st := range sc.Steps {
				if w.Failed() {
					return
				}
				req, wire := buildReq(st)
				if req == nil {
					return
				}
				label := fmt.Sprintf("step %d %s", i, st.Method)
				var hdr, validHdr, what string
				if st.Cred != "none" {
					if ch == nil && !(st.Preempt && st.Scheme == mBasic) {
						w.Fail("c10/harness script", "credentials before any challenge")
						return
					}
					if st.Preempt {
						w.Probe("preemptive_basic")
					}
					hdr, validHdr, what = authorization(st, wire)
					if w.Failed() {
						return
					}
					if st.Cred == "perturb" && st.Perturb != "scheme" && hdr == validHdr {
						w.Fail("c10/harness script", "%s: the perturbation %s/%s/%d is a no-op", label, st.Perturb, st.Mode, st.Variant)
						return
					}
					req.Header["Authorization"] = base.HeaderValue{hdr}
				} else {
					what = "no credentials"
					switch st.Useless {
					case "bearer":
						req.Header["Authorization"] = base.HeaderValue{"Bearer dGhpcyBpcyBub3QgcnRzcA=="}
					case "empty-basic":
						req.Header["Authorization"] = base.HeaderValue{"Basic Og=="}
					case "empty-digest":
						req.Header["Authorization"] = base.HeaderValue{`Digest username="", realm="x", nonce="y", uri="` + wire + `", response="00000000000000000000000000000000"`}
					}
					if st.Useless != "" {
						what = "no usable credentials (" + st.Useless + ")"
						w.Probe("useless_authorization_header")
					}
				}
				_, nBefore := lastAuth()
				if _, err := c.Send(req); err != nil {
					if prevNone {
						w.Fail("c10/keep challenge", "%s: the connection is unusable after a 401 to a request without credentials: %v", label, err)
					} else {
						w.Fail("c10/flow send", "%s: cannot send: %v", label, err)
					}
					return
				}
				w.Log.Add("cli", "request", "%s %s [%s]", st.Method, wire, what)
				trace = append(trace, fmt.Sprintf("%s[%s%s]", st.Method, st.Cred, map[bool]string{true: ":" + st.Perturb, false: ""}[st.Perturb != ""]))
				res, err := c.ReadResponse(20 * time.Second)
				if err != nil {
					if prevNone {
						w.Fail("c10/keep challenge", "%s: no response on the connection after a 401 to a request without credentials: %v (server closed it: %v)", label, err, serverClosed(port))
					} else {
						w.Fail("c10/flow response", "%s (%s): no response: %v", label, what, err)
					}
					return
				}
				w.Log.Add("cli", "response", "%d %s www=%d", res.StatusCode, res.StatusMessage, len(res.Header["WWW-Authenticate"]))
				if prevNone {
					w.Probe("conn_kept_after_challenge")
					decisions++
				}
				prevNone = false
				if v, ok := res.Header["Session"]; ok {
					var sx headers.Session
					if sx.Unmarshal(v) == nil {
						sessID = sx.Session
					}
				}
				la, nAfter := lastAuth()

				switch st.Cred {
				case "none":
					if res.StatusCode != base.StatusUnauthorized {
						w.Fail("c10/challenge status", "%s without credentials was answered %d %s although the application reported an authentication failure", label, res.StatusCode, res.StatusMessage)
						return
					}
					if !checkChallenge(res, st) {
						return
					}
					time.Sleep(settle)
					if serverClosed(port) {
						if st.Useless != "" {
							return // challenged as required; the fate of the connection is not asserted for such headers
						}
						w.Fail("c10/keep challenge", "%s: the server ended the connection after challenging a request without credentials", label)
						return
					}
					prevNone = true

				case "valid":
					relaxed := st.URIForm != ""
					if res.StatusCode == base.StatusUnauthorized || (nAfter > nBefore && !la.OK) {
						if relaxed {
							// compatibility forms: acceptance is not asserted
							if st.URIForm == "abs_path" {
								w.Probe("uri_abs_path_form_rejected")
							} else {
								w.Probe("setup_base_url_form_rejected")
							}
							return
						}
						w.Fail("c10/complete "+schemeName(st.Scheme), "workload C: %s %s with valid %s credentials built by the harness from RFC 7617/2617/7616 (user %q, password %q, algorithm form %q) was refused with %d; Authorization: %q; challenge: %+v",
							label, wire, schemeName(st.Scheme), sc.User, sc.Pass, st.AlgForm, res.StatusCode, hdr, offersOf(ch))
						return
					}
					if nAfter == nBefore {
						w.Fail("c10/flow handler", "%s: the application was not consulted (status %d)", label, res.StatusCode)
						return
					}
					if res.StatusCode != base.StatusOK {
						w.Fail("c10/flow status", "%s %s: accepted credentials but status %d %s", label, wire, res.StatusCode, res.StatusMessage)
						return
					}
					decisions++
					w.Probe("valid_accepted")
					w.Probe(methodProbe(st.Scheme))
					if strings.Contains(sc.Pass, ":") {
						w.Probe("password_with_colon")
					}
					if st.Method == "SETUP" && !relaxed {
						w.Probe("setup_track_url")
					}
					if st.Scheme == mMD5 && st.AlgForm == "absent" {
						w.Probe("algorithm_absent_md5")
					}
					switch st.URIForm {
					case "abs_path":
						w.Probe("uri_abs_path_form_accepted")
					case "base", "base_slash":
						w.Probe("setup_base_url_form_accepted")
					}

				case "perturb":
					ent := st.Perturb
					if ent == "scheme" {
						ent = "scheme_not_enabled"
					}
					if res.StatusCode != base.StatusUnauthorized || (nAfter > nBefore && la.OK) {
						w.Fail("c10/sound "+ent, "workload C: %s %s with a perturbed %s authorization (%s) was not refused: status %d %s, VerifyCredentials=%v; enabled %v; Authorization: %q; the valid one would be %q",
							label, wire, schemeName(st.Scheme), what, res.StatusCode, res.StatusMessage, la.OK, schemeList(sc.Methods), hdr, validHdr)
						return
					}
					w.Probe("perturb_" + ent)
					decisions++
					// the server ends the connection
					_, rerr := c.ReadResponse(settle + 2*time.Second)
					timedOut := false
					var ne net.Error
					if errors.As(rerr, &ne) && ne.Timeout() {
						timedOut = true
					}
					time.Sleep(settle)
					if rerr == nil || timedOut || !serverClosed(port) {
						w.Fail("c10/close wrong-credentials", "workload C: %s with wrong credentials (%s) was answered 401 but the server kept the connection (read after the response: %v; OnConnClose delivered: %v); Authorization: %q",
							label, what, rerr, serverClosed(port), hdr)
						return
					}
					w.Probe("conn_closed_after_wrong_credentials")
					return
				}
			}
		})

		w.Go("closer", func() {
			w.WaitDrivers("client")
			if stream != nil {
				stream.Close()
			}
			srv.Close()
		})

		w.AtEnd(func() {
			if w.Failed() {
				return
			}
			summary = map[string]any{"workload": "C", "steps": strings.Join(trace, " "), "enabled": schemeList(sc.Methods)}
		})
	})
	res.Nontrivial = decisions > 0 && res.Probes["challenge_checked"] > 0
	res.Sample = summary
	return res
}
