package c10

import (
	"bufio"
	"strings"
	"testing"
	"time"

	gortsplib "github.com/bluenviron/gortsplib/v5"
	"github.com/bluenviron/gortsplib/v5/pkg/auth"
	"github.com/bluenviron/gortsplib/v5/pkg/base"
	"github.com/bluenviron/gortsplib/v5/pkg/conn"
	"github.com/bluenviron/gortsplib/v5/pkg/headers"

	"verifsim/core"
	"verifsim/sys"
)

// runB: real Client against a scripted server that challenges with an
// arbitrary realm / nonce / method list and checks the retried requests with
// auth.Verify.
func runB(t *testing.T, sc Scenario) *core.Result {
	opts := sys.Options{Seed: sc.Seed, Net: sc.Net, MaxSteps: 300000, Horizon: 10 * time.Minute}
	var summary map[string]any
	verified := 0
	res := sys.Run(t, opts, func(w *sys.World) {
		commonProbes(w, &sc)
		srvNode := w.Net.Node("srv", "10.0.0.1")
		ln, err := srvNode.Listen("tcp", "10.0.0.1:8554")
		if err != nil {
			w.Fail("c10/harness listen", "%v", err)
			return
		}
		methods := verifyMethods(sc.Methods)
		challenged := 0
		var seen []string
		usedSchemes := map[int]bool{}

		w.Go("server", func() {
			nc, err := ln.Accept()
			if err != nil {
				return
			}
			defer nc.Close()
			c := conn.NewConn(bufio.NewReader(nc), nc)
			reply := func(req *base.Request, res *base.Response) bool {
				if res.Header == nil {
					res.Header = base.Header{}
				}
				res.Header["CSeq"] = req.Header["CSeq"]
				nc.SetWriteDeadline(time.Now().Add(10 * time.Second)) //nolint:errcheck
				return c.WriteResponse(res) == nil
			}
			for {
				nc.SetReadDeadline(time.Now().Add(60 * time.Second)) //nolint:errcheck
				what, err := c.Read()
				if err != nil {
					return
				}
				req, ok := what.(*base.Request)
				if !ok {
					continue
				}
				seen = append(seen, string(req.Method))
				w.Log.Add("srv", "request", "%s %s auth=%s", req.Method, req.URL, schemeName(headerScheme(req.Header["Authorization"])))
				if req.Method == base.Options {
					if !reply(req, &base.Response{StatusCode: base.StatusOK, Header: base.Header{"Public": base.HeaderValue{"DESCRIBE, ANNOUNCE, SETUP, PLAY, RECORD, TEARDOWN"}}}) {
						return
					}
					continue
				}
				if req.Method == base.Teardown {
					reply(req, &base.Response{StatusCode: base.StatusOK})
					continue
				}
				if _, has := req.Header["Authorization"]; !has {
					challenged++
					if challenged > 3 {
						w.Fail("c10/complete-challenge retry", "workload B: the client keeps sending %s without credentials after %d challenges", req.Method, challenged-1)
						return
					}
					if !reply(req, &base.Response{StatusCode: base.StatusUnauthorized,
						Header: base.Header{"WWW-Authenticate": auth.GenerateWWWAuthenticate(methods, sc.Realm, sc.Nonce)}}) {
						return
					}
					continue
				}
				sch := headerScheme(req.Header["Authorization"])
				if verr := auth.Verify(req, sc.User, sc.Pass, methods, sc.Realm, sc.Nonce); verr != nil {
					w.Fail("c10/complete-challenge "+schemeName(sch), "workload B: auth.Verify refused the %s request the client computed from the right credentials (user %q, password %q) for the challenge realm=%q nonce=%q methods=%v: %v; request URL %s; Authorization %q",
						req.Method, sc.User, sc.Pass, sc.Realm, sc.Nonce, schemeList(sc.Methods), verr, req.URL, req.Header["Authorization"])
					reply(req, &base.Response{StatusCode: base.StatusUnauthorized})
					return
				}
				verified++
				usedSchemes[sch] = true
				if req.Method == base.Setup {
					w.Probe("setup_track_url")
				}
				switch req.Method {
				case base.Describe:
					body, _ := mkDesc(sc.Medias, true).Marshal()
					if !reply(req, &base.Response{StatusCode: base.StatusOK, Header: base.Header{
						"Content-Base": base.HeaderValue{req.URL.String() + "/"},
						"Content-Type": base.HeaderValue{"application/sdp"},
					}, Body: body}) {
						return
					}
				case base.Setup:
					var th headers.Transport
					if err := th.Unmarshal(req.Header["Transport"]); err != nil {
						reply(req, &base.Response{StatusCode: base.StatusBadRequest})
						return
					}
					deliv := headers.TransportDeliveryUnicast
					oh := headers.Transport{Protocol: headers.TransportProtocolTCP, Delivery: &deliv, InterleavedIDs: th.InterleavedIDs}
					if !reply(req, &base.Response{StatusCode: base.StatusOK, Header: base.Header{
						"Transport": oh.Marshal(),
						"Session":   headers.Session{Session: "c10session"}.Marshal(),
					}}) {
						return
					}
				default: // ANNOUNCE, PLAY, RECORD, anything else
					if !reply(req, &base.Response{StatusCode: base.StatusOK, Header: base.Header{"Session": headers.Session{Session: "c10session"}.Marshal()}}) {
						return
					}
				}
			}
		})

		cli := w.Net.Node("cli", "10.0.0.20")
		w.Go("client", func() {
			u, full, err := credURL(sc.URL, sc.User, sc.Pass)
			if err != nil {
				w.Fail("c10/harness url", "URL with credentials %q does not parse: %v", full, err)
				return
			}
			tcp := gortsplib.ProtocolTCP
			c := &gortsplib.Client{Scheme: "rtsp", Host: "10.0.0.1:8554", Protocol: &tcp}
			sys.WireClient(c, cli, w.Net, nil)
			if err := c.Start(); err != nil {
				w.Fail("c10/api-error client", "Client.Start: %v", err)
				return
			}
			defer c.Close()
			fail := func(what string, err error) {
				// a refusal by auth.Verify was already reported by the server side with the details
				if w.Failed() {
					return
				}
				w.Fail("c10/complete-challenge client", "workload B: %s failed at the client: %v (challenge realm=%q nonce=%q methods=%v, user %q, password %q)", what, err, sc.Realm, sc.Nonce, schemeList(sc.Methods), sc.User, sc.Pass)
			}
			if sc.Record {
				desc := mkDesc(sc.Medias, false)
				if _, err := c.Announce(u, desc); err != nil {
					fail("ANNOUNCE", err)
					return
				}
				if err := c.SetupAll(u, desc.Medias); err != nil {
					fail("SETUP", err)
					return
				}
				if _, err := c.Record(); err != nil {
					fail("RECORD", err)
					return
				}
			} else {
				d, _, err := c.Describe(u)
				if err != nil {
					fail("DESCRIBE", err)
					return
				}
				if sc.DescribeOnly {
					w.Probe("empty_path_url")
					return
				}
				if err := c.SetupAll(d.BaseURL, d.Medias); err != nil {
					fail("SETUP", err)
					return
				}
				if _, err := c.Play(nil); err != nil {
					fail("PLAY", err)
					return
				}
			}
		})

		w.Go("closer", func() {
			w.WaitDrivers("client")
			ln.Close()
		})

		w.AtEnd(func() {
			if w.Failed() {
				return
			}
			want := sc.Medias + 2
			if sc.DescribeOnly {
				want = 1
			}
			if verified < want {
				w.Fail("c10/complete-challenge handler", "workload B: only %d requests carried credentials, expected %d (requests seen: %v)", verified, want, seen)
				return
			}
			w.Probe("valid_accepted")
			for m := range usedSchemes {
				if m >= 0 {
					w.Probe(methodProbe(m))
				}
			}
			if strings.Contains(sc.Pass, ":") {
				w.Probe("password_with_colon")
			}
			summary = map[string]any{"workload": "B", "requests": strings.Join(seen, " "), "verified": verified, "realm": sc.Realm, "nonce": sc.Nonce}
		})
	})
	res.Nontrivial = verified > 0
	res.Sample = summary
	return res
}
