// Package c10 decides C10 (authentication is complete for right credentials
// and sound against wrong ones) by whole-system simulation with three
// sub-workloads:
//
//	A  real Client (credentials in the URL)  <-> real Server (VerifyCredentials)
//	B  real Client                           <-> scripted server issuing arbitrary
//	                                             challenges, checked with auth.Verify
//	C  scripted raw client with its own RFC 2617/7616/7617 implementation
//	                                         <-> real Server: challenge, acceptance,
//	                                             single-field perturbations, connection fate
package c10

import (
	"fmt"
	"net/url"
	"strings"
	"testing"

	"github.com/bluenviron/gortsplib/v5/pkg/auth"
	"github.com/bluenviron/gortsplib/v5/pkg/base"
	"github.com/bluenviron/gortsplib/v5/pkg/description"
	"github.com/bluenviron/gortsplib/v5/pkg/format"

	"verifsim/core"
	"verifsim/simnet"
	"verifsim/sys"
)

// verification methods, in the scenario's own numbering
const (
	mBasic  = 0
	mMD5    = 1
	mSHA256 = 2
)

var schemeNames = []string{"basic", "digest-md5", "digest-sha256"}

// Step is one scripted request of workload C.
type Step struct {
	Method string `json:"method"` // DESCRIBE | ANNOUNCE | SETUP | PLAY | RECORD
	Track  int    `json:"track,omitempty"`
	Cred   string `json:"cred"`   // none | valid | perturb
	Scheme int    `json:"scheme"` // scheme the Authorization header is built for
	// URIForm (valid digest requests): "" = the request URL; base_slash / base =
	// the documented SETUP compatibility forms; abs_path = path?query only.
	URIForm string `json:"uri_form,omitempty"`
	// AlgForm: how the algorithm parameter is written: token (algorithm=MD5),
	// quoted (algorithm="MD5"), absent (MD5 only: RFC 2617 default).
	AlgForm string `json:"alg_form,omitempty"`
	// Perturb: user | pass | realm | nonce | method | algorithm | uri | response | scheme
	Perturb string `json:"perturb,omitempty"`
	// Mode (user, realm, nonce, uri): field = only the header field is changed,
	// resp = only the response is computed from the wrong value, both = both.
	Mode    string `json:"mode,omitempty"`
	Variant int    `json:"variant,omitempty"`
	// Preempt: valid Basic credentials sent before any challenge on the connection.
	Preempt bool `json:"preempt,omitempty"`
	// Useless (cred none): the request carries an Authorization header that provides no usable
	// credentials - "bearer" (a scheme the server does not know), "empty-basic" (Basic with an empty
	// user name and password), "empty-digest" (Digest with an empty user name). It must be challenged
	// like a request without the header; what happens to the connection is not asserted.
	Useless string `json:"useless,omitempty"`
}

// Scenario is one C10 run.
type Scenario struct {
	Seed    uint64        `json:"seed"`
	Kind    string        `json:"kind"` // A | B | C
	Net     simnet.Config `json:"net"`
	Methods []int         `json:"methods"` // enabled verification methods, in order
	User    string        `json:"user"`
	Pass    string        `json:"pass"`
	URL     string        `json:"url"` // stream URL without credentials
	Medias  int           `json:"medias"`
	Record  bool          `json:"record"`
	// DescribeOnly: the conversation stops after DESCRIBE (URLs with an empty path: the
	// authentication decision is checked, what the server does with such a path is not).
	DescribeOnly bool `json:"describe_only,omitempty"`
	// A: the client uses a wrong user / pass ("" = right credentials)
	Wrong string `json:"wrong,omitempty"`
	// B: the challenge
	Realm string `json:"realm,omitempty"`
	Nonce string `json:"nonce,omitempty"`
	// C
	Steps []Step `json:"steps,omitempty"`
}

var probeNames = []string{
	"method_basic", "method_digest_md5", "method_digest_sha256", "password_with_colon", "setup_track_url",
	"perturb_user", "perturb_pass", "perturb_realm", "perturb_nonce", "perturb_method", "perturb_algorithm", "perturb_uri",
	"perturb_scheme_not_enabled", "perturb_response", "conn_kept_after_challenge", "conn_closed_after_wrong_credentials",
	"workload_a", "workload_b", "workload_c", "preemptive_basic", "empty_path_url", "useless_authorization_header", "record_flow", "client_wrong_credentials_rejected",
	"challenge_checked", "valid_accepted", "setup_base_url_form_accepted", "setup_base_url_form_rejected",
	"uri_abs_path_form_accepted", "uri_abs_path_form_rejected", "nonce_of_other_connection", "algorithm_absent_md5",
	"url_with_query", "url_with_escapes", "url_at_then_percent", "unicode_credentials",
}

func methodProbe(m int) string {
	return []string{"method_basic", "method_digest_md5", "method_digest_sha256"}[m]
}

func verifyMethods(ms []int) []auth.VerifyMethod {
	var out []auth.VerifyMethod
	for _, m := range ms {
		switch m {
		case mBasic:
			out = append(out, auth.VerifyMethodBasic)
		case mMD5:
			out = append(out, auth.VerifyMethodDigestMD5)
		default:
			out = append(out, auth.VerifyMethodDigestSHA256)
		}
	}
	return out
}

func enabled(ms []int, m int) bool {
	for _, x := range ms {
		if x == m {
			return true
		}
	}
	return false
}

func mkDesc(n int, control bool) *description.Session {
	d := &description.Session{}
	for i := 0; i < n; i++ {
		g := &format.Generic{PayloadTyp: uint8(96 + i), RTPMa: "private/90000"}
		g.Init() //nolint:errcheck
		m := &description.Media{Type: description.MediaTypeVideo, Formats: []format.Format{g}}
		if control {
			m.Control = fmt.Sprintf("trackID=%d", i)
		}
		d.Medias = append(d.Medias, m)
	}
	return d
}

// credURL returns the stream URL with credentials, the way an application
// writes it: as a string that goes through base.ParseURL.
func credURL(raw, user, pass string) (*base.URL, string, error) {
	u, err := base.ParseURL(raw)
	if err != nil {
		return nil, "", err
	}
	u.User = url.UserPassword(user, pass)
	if pass == "" && len(user)%2 == 0 {
		u.User = url.User(user) // "user@host": no colon, no password component at all
	}
	full := u.String()
	u2, err := base.ParseURL(full)
	if err != nil {
		return nil, full, err
	}
	return u2, full, nil
}

func hasNonASCII(s string) bool {
	for i := 0; i < len(s); i++ {
		if s[i] >= 0x80 {
			return true
		}
	}
	return false
}

func run(t *testing.T, sc Scenario) *core.Result {
	var res *core.Result
	switch sc.Kind {
	case "A":
		res = runA(t, sc)
	case "B":
		res = runB(t, sc)
	default:
		res = runC(t, sc)
	}
	return res
}

func commonProbes(w *sys.World, sc *Scenario) {
	w.ProbeInit(probeNames...)
	w.Probe("workload_" + strings.ToLower(sc.Kind))
	if sc.Record {
		w.Probe("record_flow")
	}
	if strings.Contains(sc.URL, "?") {
		w.Probe("url_with_query")
	}
	if strings.Contains(sc.URL, "%") {
		w.Probe("url_with_escapes")
	}
	if i := strings.Index(sc.URL, "@"); i >= 0 && strings.Contains(sc.URL[i:], "%") {
		w.Probe("url_at_then_percent")
	}
	if hasNonASCII(sc.User) || hasNonASCII(sc.Pass) {
		w.Probe("unicode_credentials")
	}
}

func shrink(sc Scenario) []Scenario {
	var out []Scenario
	clone := func() Scenario {
		c := sc
		c.Methods = append([]int(nil), sc.Methods...)
		c.Steps = append([]Step(nil), sc.Steps...)
		return c
	}
	// C: drop challenge-only steps after the first, simplify forms
	for i, st := range sc.Steps {
		if i > 0 && st.Cred == "none" {
			c := clone()
			c.Steps = append(c.Steps[:i], c.Steps[i+1:]...)
			out = append(out, c)
		}
	}
	for i, st := range sc.Steps {
		if st.URIForm != "" {
			c := clone()
			c.Steps[i].URIForm = ""
			out = append(out, c)
		}
		if st.AlgForm != "quoted" && st.AlgForm != "" {
			c := clone()
			c.Steps[i].AlgForm = "quoted"
			out = append(out, c)
		}
		if st.Variant != 0 {
			c := clone()
			c.Steps[i].Variant = 0
			out = append(out, c)
		}
	}
	if sc.Medias > 1 {
		c := clone()
		c.Medias = 1
		var steps []Step
		for _, st := range c.Steps {
			if st.Method == "SETUP" && st.Track > 0 {
				continue
			}
			steps = append(steps, st)
		}
		c.Steps = steps
		out = append(out, c)
	}
	if len(sc.Methods) > 1 {
		for i := range sc.Methods {
			c := clone()
			c.Methods = append(c.Methods[:i], c.Methods[i+1:]...)
			out = append(out, c)
		}
	}
	if sc.User != "user" {
		c := clone()
		c.User = "user"
		out = append(out, c)
	}
	if sc.Pass != "pass" {
		c := clone()
		c.Pass = "pass"
		out = append(out, c)
		if strings.Contains(sc.Pass, ":") && sc.Pass != "pa:ss" {
			c := clone()
			c.Pass = "pa:ss"
			out = append(out, c)
		}
	}
	if sc.URL != "rtsp://10.0.0.1:8554/stream" {
		c := clone()
		c.URL = "rtsp://10.0.0.1:8554/stream"
		out = append(out, c)
		if i := strings.Index(sc.URL, "?"); i >= 0 {
			c := clone()
			c.URL = sc.URL[:i]
			out = append(out, c)
		}
	}
	if sc.Kind == "B" {
		if sc.Realm != "realm" {
			c := clone()
			c.Realm = "realm"
			out = append(out, c)
		}
		if sc.Nonce != "abcdef" {
			c := clone()
			c.Nonce = "abcdef"
			out = append(out, c)
		}
	}
	if sc.Record {
		c := clone()
		c.Record = false
		if sc.Kind != "C" {
			out = append(out, c)
		}
	}
	if sc.Net.ChunkMode != 0 {
		c := clone()
		c.Net.ChunkMode = 0
		out = append(out, c)
	}
	if sc.Net.LatMinUS != 10 || sc.Net.LatMaxUS != 10 {
		c := clone()
		c.Net.LatMinUS, c.Net.LatMaxUS = 10, 10
		out = append(out, c)
	}
	return out
}

func init() {
	f := core.Register("C10", gen, run, shrink)
	f.Real = []string{
		"pkg/auth (Verify, Sender, GenerateWWWAuthenticate, GenerateNonce), pkg/headers (Authorization, Authenticate), pkg/base, pkg/conn",
		"gortsplib.Server / ServerConn (VerifyCredentials, handleAuthError, connection teardown), ServerSession, ServerStream",
		"gortsplib.Client (request retry with credentials from the URL after a 401) in workloads A and B",
	}
	f.Simulated = []string{
		"TCP sockets, latency and segmentation incl. 1-byte delivery of the Authorization header (simnet)",
		"clock, timers, entropy (nonces) - fake clock and deterministic crypto/rand",
		"workload B: the challenging server (harness code over pkg/conn that calls auth.GenerateWWWAuthenticate / auth.Verify)",
		"workload C: the raw client with the harness's own Basic / Digest-MD5 / Digest-SHA-256 implementation (RFC 7617, RFC 2617, RFC 7616) and its own WWW-Authenticate parser",
	}
	f.Excluded = []string{
		"TLS, HTTP / WebSocket tunnelling, UDP transports (authentication is independent of the carrier; covered elsewhere)",
		"destructive network faults (the property is about decisions, not about surviving connection loss)",
		"Digest qop / cnonce / opaque / stale handling (not offered by the server side)",
	}
	f.Rule = "scenario = workload (A 30% | B 25% | C 45%) x ordered non-empty subset of {Basic, Digest-MD5, Digest-SHA-256} x user name (1..12 printable/unicode runes, no ':' '\"'; 12% with a backslash) x password (1..14 printable/unicode runes, 40% with ':') x stream URL (1..4 path segments incl. spaces, unicode, '@', sub-delims, raw percent escapes; 55% with a query; '@' followed by '%' only as stated in the assumptions) x 1..3 medias x play|record flow x latency x chunk mode 0..3; A: 15% with one wrong credential; B: seeded realm (0..16 runes) and nonce (hex, base64-like, printable); in a third of the runs the application reports authentication failures wrapped (fmt.Errorf with %w); C: a conversation DESCRIBE|ANNOUNCE, SETUP*, PLAY|RECORD that always starts without credentials, may repeat the challenge mid-flow, authorises each step with a seeded enabled scheme (header variants: algorithm token/quoted/absent, SETUP base-URL forms, abs_path form) and ends (88%) with one single-field perturbation (9 kinds: user, password, realm, nonce, method, algorithm, uri, response digest, scheme not enabled; x field-only / response-only / both x 4..8 concrete mutations incl. proper-prefix URIs and a nonce issued on another connection) at a seeded step. Non-trivial = at least one credential decision was checked (A: a request accepted after a 401 or a wrong credential refused; B: auth.Verify evaluated on a retried request; C: challenge checked and a valid or perturbed request judged); distinct = distinct canonical event log"
	f.Assumptions = []string{
		"realms and nonces never contain '\"' or '\\', user names never '\"' (the header grammar of pkg/headers has no quoted-pair escaping; the statement excludes '\"' for user names only; a backslash in a user name travels as it is)",
		"acceptance of the two documented SETUP base-URL forms (stream URL with / without trailing slash as digest uri) and of the RFC 2617 abs_path form is not asserted: they are sent as otherwise valid requests and either outcome is accepted (probes setup_base_url_form_*, uri_abs_path_form_*); they are never counted as URI perturbations",
		"'rejected' is asserted as status 401 followed by the server closing the connection (EOF at the client within the settle time plus 2 s of simulated time, and OnConnClose delivered)",
		"'keeps the connection' is asserted as: the next request on the same connection gets a response and no OnConnClose was delivered in between",
		"the challenge must offer exactly the enabled methods: Basic iff enabled, a Digest challenge with algorithm MD5 (or none) iff Digest-MD5 is enabled, with algorithm SHA-256 iff Digest-SHA-256 is enabled; parameter order and extra parameters are not constrained",
		"a user name perturbed to the empty string and requests with a syntactically broken Authorization header are not generated (the statement does not say whether they count as 'no credentials' or 'wrong credentials')",
		"status codes of accepted requests must be 200 in the scripted conversation (a well-formed play / record conversation); any other non-401 status is reported under its own class c10/flow as a harness or library defect unrelated to the decision itself",
		"stream URLs in which a '@' is followed by a '%' (base.ParseURL rewrites such URLs when they carry no credentials, so the server serves another path than the one requested) are generated only for a recording real client with a Digest method enabled (workloads A/B, 4% of those), where the only consequence is the authentication decision; everywhere else they would end in 404 / 'media not found' whatever the credentials and are not generated",
		"only methods that reach the application's handler are authorised (DESCRIBE, ANNOUNCE, SETUP, PLAY, RECORD); OPTIONS, TEARDOWN, GET_PARAMETER are answered by the library without consulting the application",
	}
}

var _ = sys.ErrString
