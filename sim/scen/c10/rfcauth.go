package c10

// The harness's own implementation of the client side of HTTP authentication,
// written from the RFCs and not from pkg/auth:
//
//	RFC 7617  Basic:  credentials = base64(user-id ":" password)
//	RFC 2617 / 7616 Digest without qop:
//	          response = H( H(user ":" realm ":" password) ":" nonce ":" H(method ":" digest-uri) )
//	          with H = MD5 (default when no algorithm is given) or SHA-256
//
// and a parser of WWW-Authenticate challenges (auth-scheme SP #auth-param).

import (
	"crypto/md5"
	"crypto/sha256"
	"encoding/base64"
	"encoding/hex"
	"fmt"
	"strings"
)

func hashHex(scheme int, s string) string {
	if scheme == mSHA256 {
		h := sha256.Sum256([]byte(s))
		return hex.EncodeToString(h[:])
	}
	h := md5.Sum([]byte(s))
	return hex.EncodeToString(h[:])
}

func basicCredentials(user, pass string) string {
	return "Basic " + base64.StdEncoding.EncodeToString([]byte(user+":"+pass))
}

func digestResponse(scheme int, user, realm, pass, nonce, method, uri string) string {
	ha1 := hashHex(scheme, user+":"+realm+":"+pass)
	ha2 := hashHex(scheme, method+":"+uri)
	return hashHex(scheme, ha1+":"+nonce+":"+ha2)
}

// digestFields is what goes into a Digest Authorization header.
type digestFields struct {
	User, Realm, Nonce, URI, Response string
	Alg                               int    // mMD5 | mSHA256
	AlgForm                           string // token | quoted | absent
}

func (d digestFields) header() string {
	s := fmt.Sprintf(`Digest username="%s", realm="%s", nonce="%s", uri="%s", response="%s"`, d.User, d.Realm, d.Nonce, d.URI, d.Response)
	name := "MD5"
	if d.Alg == mSHA256 {
		name = "SHA-256"
	}
	switch d.AlgForm {
	case "absent":
	case "token":
		s += ", algorithm=" + name
	default:
		s += `, algorithm="` + name + `"`
	}
	return s
}

// offer is one parsed challenge.
type offer struct {
	Scheme             int // mBasic | mMD5 | mSHA256, -1 = something else
	Raw                string
	Realm              string
	Nonce              string
	HasRealm, HasNonce bool
}

// parseChallenge parses one WWW-Authenticate header value.
func parseChallenge(v string) (offer, error) {
	o := offer{Scheme: -1, Raw: v}
	v = strings.TrimLeft(v, " ")
	i := strings.IndexByte(v, ' ')
	scheme, rest := v, ""
	if i >= 0 {
		scheme, rest = v[:i], v[i+1:]
	}
	params := map[string]string{}
	for {
		rest = strings.TrimLeft(rest, " ,")
		if rest == "" {
			break
		}
		eq := strings.IndexByte(rest, '=')
		if eq < 0 {
			return o, fmt.Errorf("parameter without '=' in %q", v)
		}
		key := strings.ToLower(strings.TrimSpace(rest[:eq]))
		rest = rest[eq+1:]
		var val string
		if strings.HasPrefix(rest, `"`) {
			var b strings.Builder
			j := 1
			closed := false
			for j < len(rest) {
				if rest[j] == '\\' && j+1 < len(rest) {
					b.WriteByte(rest[j+1])
					j += 2
					continue
				}
				if rest[j] == '"' {
					closed = true
					j++
					break
				}
				b.WriteByte(rest[j])
				j++
			}
			if !closed {
				return o, fmt.Errorf("unterminated quoted string in %q", v)
			}
			val, rest = b.String(), rest[j:]
		} else {
			j := strings.IndexByte(rest, ',')
			if j < 0 {
				j = len(rest)
			}
			val, rest = strings.TrimSpace(rest[:j]), rest[j:]
		}
		params[key] = val
	}
	o.Realm, o.HasRealm = params["realm"]
	o.Nonce, o.HasNonce = params["nonce"]
	switch strings.ToLower(scheme) {
	case "basic":
		o.Scheme = mBasic
	case "digest":
		alg, ok := params["algorithm"]
		switch {
		case !ok || strings.EqualFold(alg, "MD5"):
			o.Scheme = mMD5
		case strings.EqualFold(alg, "SHA-256"):
			o.Scheme = mSHA256
		}
	}
	return o, nil
}

// challenge is the set of offers of one 401 response.
type challenge struct {
	offers []offer
}

func (c *challenge) find(scheme int) *offer {
	for i := range c.offers {
		if c.offers[i].Scheme == scheme {
			return &c.offers[i]
		}
	}
	return nil
}

// anyRealmNonce returns a realm and a nonce to build a header for a scheme
// that was not offered.
func (c *challenge) anyRealmNonce() (string, string) {
	realm, nonce := "", "0123456789abcdef0123456789abcdef"
	for _, o := range c.offers {
		if o.HasRealm {
			realm = o.Realm
		}
	}
	for _, o := range c.offers {
		if o.HasNonce {
			nonce = o.Nonce
		}
	}
	return realm, nonce
}
