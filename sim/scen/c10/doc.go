// Package c10 holds the scenario family of property C10.
package c10
