package c10

import (
	"net/url"
	"strings"

	"verifsim/core"
	"verifsim/simnet"
)

var (
	lettersDigits = []rune("abcdefghijklmnopqrstuvwxyzABCDEFGHIJKLMNOPQRSTUVWXYZ0123456789")
	unicodeRunes  = []rune("éüßñøЖλΩ好日本🙂€")
	// user names: printable, without ':' '"' '\'
	userSpecials = []rune(" .-_@%/,=+!#$&'()*;<>?[]^`{|}~")
	// passwords: any printable
	passSpecials = []rune(" .-_@%/,=+!#$&'()*;<>?[]^`{|}~:\"\\")
	// realms / nonces: printable without '"' '\'
	realmSpecials = []rune(" .-_@%/,=+!#$&'()*;<>?[]^`{|}~:")
	// decoded path segment characters (escaped by net/url where needed)
	pathSpecials = []rune(" -_.~@:+,;=!$&'()*%[]")
)

func pickRune(r *core.Rand, specials []rune) rune {
	switch u := r.Float(); {
	case u < 0.6:
		return lettersDigits[r.Intn(len(lettersDigits))]
	case u < 0.9:
		return specials[r.Intn(len(specials))]
	default:
		return unicodeRunes[r.Intn(len(unicodeRunes))]
	}
}

func genString(r *core.Rand, lo, hi int, specials []rune) string {
	n := r.Range(lo, hi)
	var b strings.Builder
	plain := r.Bool(0.25) // a quarter of the strings are plain alphanumerics
	for i := 0; i < n; i++ {
		if plain {
			b.WriteRune(lettersDigits[r.Intn(len(lettersDigits))])
		} else {
			b.WriteRune(pickRune(r, specials))
		}
	}
	return b.String()
}

func genUser(r *core.Rand) string {
	if r.Bool(0.1) {
		return []string{"admin", "user", "a", "root@example.com", "Admin"}[r.Intn(5)]
	}
	return genString(r, 1, 12, userSpecials)
}

func genPass(r *core.Rand) string {
	p := genString(r, 1, 14, passSpecials)
	if r.Bool(0.35) && !strings.Contains(p, ":") {
		// passwords with one or more colons at a seeded position
		rs := []rune(p)
		k := r.Range(1, 2)
		for i := 0; i < k; i++ {
			pos := r.Intn(len(rs) + 1)
			rs = append(rs[:pos], append([]rune{':'}, rs[pos:]...)...)
		}
		p = string(rs)
	}
	return p
}

func genRealm(r *core.Rand) string {
	if r.Bool(0.05) {
		return ""
	}
	if r.Bool(0.15) {
		return []string{"ipcam", "IPCAM", "RTSP server", "Streaming Server", "realm"}[r.Intn(5)]
	}
	return genString(r, 1, 16, realmSpecials)
}

func genNonce(r *core.Rand) string {
	switch r.Intn(4) {
	case 0:
		const hex = "0123456789abcdef"
		n := r.Pick(8, 16, 32, 64)
		b := make([]byte, n)
		for i := range b {
			b[i] = hex[r.Intn(16)]
		}
		return string(b)
	case 1:
		const b64 = "ABCDEFGHIJKLMNOPQRSTUVWXYZabcdefghijklmnopqrstuvwxyz0123456789+/"
		n := r.Range(4, 40)
		b := make([]byte, n)
		for i := range b {
			b[i] = b64[r.Intn(64)]
		}
		return string(b) + []string{"", "=", "=="}[r.Intn(3)]
	case 2:
		return genString(r, 1, 3, realmSpecials)
	default:
		return genString(r, 1, 40, realmSpecials)
	}
}

// genURL returns a stream URL without credentials. canonical: only the
// encoding net/url itself produces (needed by record conversations, where the
// server rebuilds media URLs from the decoded path).
func genURL(r *core.Rand, canonical bool) string {
	if r.Bool(0.12) {
		return "rtsp://10.0.0.1:8554/stream"
	}
	nseg := r.Range(1, 4)
	var segs []string
	for i := 0; i < nseg; i++ {
		n := r.Range(1, 8)
		var b strings.Builder
		plain := r.Bool(0.5)
		for k := 0; k < n; k++ {
			if plain {
				b.WriteRune(lettersDigits[r.Intn(len(lettersDigits))])
			} else {
				b.WriteRune(pickRune(r, pathSpecials))
			}
		}
		s := b.String()
		if s == "." || s == ".." {
			s = "x" + s
		}
		segs = append(segs, s)
	}
	u := &url.URL{Scheme: "rtsp", Host: "10.0.0.1:8554", Path: "/" + strings.Join(segs, "/")}
	raw := u.String()
	if !canonical && r.Bool(0.15) {
		// a non-canonical but valid raw escape somewhere in the path
		esc := []string{"%41", "%7E", "%2F", "%7e", "%2d"}[r.Intn(5)]
		i := strings.LastIndex(raw, "/")
		pos := i + 1 + r.Intn(len(raw)-i)
		if esc == "%2F" && (pos == i+1 || pos == len(raw)) {
			// an encoded slash at the edge of a segment decodes to an empty segment /
			// a trailing slash, which the server's path conventions treat specially
			esc = "%41"
		}
		// never split an existing escape
		if !(pos >= 1 && raw[pos-1] == '%') && !(pos >= 2 && raw[pos-2] == '%') {
			raw = raw[:pos] + esc + raw[pos:]
		}
	}
	if r.Bool(0.55) {
		nq := r.Range(1, 3)
		var kv []string
		for i := 0; i < nq; i++ {
			k := genQueryToken(r, 1, 5)
			if r.Bool(0.85) {
				k += "=" + genQueryToken(r, 0, 8)
			}
			kv = append(kv, k)
		}
		raw += "?" + strings.Join(kv, "&")
	}
	return avoidParseURLRewrite(raw)
}

// avoidParseURLRewrite: base.ParseURL rewrites '%' into "%25" between the first
// '@' of a URL and the following '/' (a work-around for credentials that
// contain '%'); on URLs without credentials whose path or query contains '@'
// this makes parsing non-idempotent: the server then serves another path than
// the one requested (404 / "media not found"), whatever the credentials. That
// defect belongs to URL parsing, not to the authentication decision, and it
// would mask every C10 oracle behind a flow error, so such URLs are not
// generated: '@' is kept only when no '%' follows it.
func avoidParseURLRewrite(raw string) string {
	rest := strings.TrimPrefix(raw, "rtsp://")
	i := strings.IndexByte(rest, '@')
	if i >= 0 && strings.Contains(rest[i:], "%") {
		return "rtsp://" + strings.ReplaceAll(rest, "@", "a")
	}
	return raw
}

func genQueryToken(r *core.Rand, lo, hi int) string {
	n := r.Range(lo, hi)
	var b strings.Builder
	for i := 0; i < n; i++ {
		switch u := r.Float(); {
		case u < 0.7:
			b.WriteRune(lettersDigits[r.Intn(len(lettersDigits))])
		case u < 0.85:
			b.WriteString([]string{"-", "_", ".", "~", "+", ":", "@", ",", ";", "!", "*", "(", ")", "$", "'"}[r.Intn(15)])
		case u < 0.95:
			b.WriteString([]string{"%20", "%2F", "%3D", "%26", "%C3%A9", "%25"}[r.Intn(6)])
		default:
			if i > 0 && i < n-1 {
				b.WriteString("/")
			} else {
				b.WriteString("x")
			}
		}
	}
	return b.String()
}

func genMethods(r *core.Rand) []int {
	all := []int{mBasic, mMD5, mSHA256}
	for i := len(all) - 1; i > 0; i-- {
		j := r.Intn(i + 1)
		all[i], all[j] = all[j], all[i]
	}
	k := 1
	switch u := r.Float(); {
	case u < 0.35:
		k = 1
	case u < 0.7:
		k = 2
	default:
		k = 3
	}
	return all[:k]
}

func genNet(seed uint64, r *core.Rand) simnet.Config {
	nc := simnet.Config{Seed: seed ^ 0xc10c10c10}
	nc.LatMinUS = r.Pick(10, 100, 1000)
	nc.LatMaxUS = nc.LatMinUS + r.Pick(0, 50, 500)
	nc.ChunkMode = r.Pick(0, 1, 2, 3)
	nc.ChunkMaxLen = 2000
	// writes that wait together may travel as one byte run (pipelined requests, a response and
	// the frames behind it); hash-derived so that no other choice moves
	if x := core.HS(seed, "c10.coalesce", "", 0) % 100; x < 30 {
		nc.Coalesce = []float64{0.3, 0.7, 1}[x%3]
	}
	return nc
}

func gen(seed uint64, tier string) Scenario {
	r := core.NewRand(seed, "c10")
	sc := Scenario{Seed: seed}
	switch u := r.Float(); {
	case u < 0.30:
		sc.Kind = "A"
	case u < 0.55:
		sc.Kind = "B"
	default:
		sc.Kind = "C"
	}
	sc.Methods = genMethods(r)
	sc.User = genUser(r)
	sc.Pass = genPass(r)
	// a backslash in the user name (DOMAIN\user): within the quantifier ("without ':' or '"'");
	// hash-derived so that no other choice moves
	if x := core.HS(seed, "c10.backslash", "", 0); x%100 < 12 {
		rs := []rune(sc.User)
		pos := int((x >> 8) % uint64(len(rs)+1))
		sc.User = string(rs[:pos]) + "\\" + string(rs[pos:])
	}
	sc.Record = r.Bool(0.3)
	sc.URL = genURL(r, sc.Record)
	sc.Medias = r.Range(1, 3)
	sc.Net = genNet(seed, r)
	// URLs on which base.ParseURL is not idempotent ('@' followed by '%' in the
	// path or query, see avoidParseURLRewrite) are generated only where the
	// consequence is an authentication decision and nothing else: a recording
	// real client that authenticates with Digest (the digest uri it computes is
	// compared with the re-parsed request URL).
	_, hasDigest := pickEnabled(r, sc.Methods, true)
	if sc.Kind != "C" && sc.Record && hasDigest && r.Bool(0.04) {
		q := []string{"mail=a@b%20c", "u=x@y&t=%41", "@=%7E", "k=@%C3%A9"}[r.Intn(4)]
		if i := strings.Index(sc.URL, "?"); i >= 0 {
			sc.URL = sc.URL[:i]
		}
		sc.URL = strings.ReplaceAll(sc.URL, "@", "a") + "?" + q
	}
	// a blank password ("user:@host" or "user@host" in the URL); real client workloads
	if x := core.HS(seed, "c10.blankpass", "", 0); sc.Kind != "C" && x%100 < 5 {
		sc.Pass = ""
	}
	// a URL with an empty path, with or without a query (real client, play flow; hash-derived
	// so that no other choice moves)
	if x := core.HS(seed, "c10.emptypath", "", 0); sc.Kind != "C" && !sc.Record && x%100 < 7 {
		sc.URL = "rtsp://10.0.0.1:8554"
		if (x>>8)%2 == 0 {
			sc.URL += "?" + []string{"a=b", "x", "k=%41&z=1"}[(x>>16)%3]
		}
		sc.DescribeOnly = true
	}
	switch sc.Kind {
	case "A":
		if r.Bool(0.15) {
			sc.Wrong = []string{"user", "pass"}[r.Intn(2)]
			if sc.Pass == "" {
				sc.Wrong = "user"
			}
		}
	case "B":
		sc.Realm = genRealm(r)
		sc.Nonce = genNonce(r)
	default:
		sc.Steps = genSteps(r, &sc)
	}
	return sc
}

func pickEnabled(r *core.Rand, ms []int, digestOnly bool) (int, bool) {
	var c []int
	for _, m := range ms {
		if !digestOnly || m != mBasic {
			c = append(c, m)
		}
	}
	if len(c) == 0 {
		return 0, false
	}
	return c[r.Intn(len(c))], true
}

func genValid(r *core.Rand, sc *Scenario, method string, track int) Step {
	st := Step{Method: method, Track: track, Cred: "valid"}
	st.Scheme, _ = pickEnabled(r, sc.Methods, false)
	if st.Scheme != mBasic {
		st.AlgForm = []string{"token", "quoted", "quoted"}[r.Intn(3)]
		if st.Scheme == mMD5 && r.Bool(0.2) {
			st.AlgForm = "absent"
		}
		switch u := r.Float(); {
		case u < 0.06:
			st.URIForm = "abs_path"
		case method == "SETUP" && u < 0.18:
			st.URIForm = "base_slash"
		case method == "SETUP" && u < 0.30:
			st.URIForm = "base"
		}
	}
	return st
}

func genPerturb(r *core.Rand, sc *Scenario, method string, track int) Step {
	st := Step{Method: method, Track: track, Cred: "perturb", AlgForm: "quoted"}
	kinds := []string{"user", "pass", "realm", "nonce", "method", "algorithm", "uri", "uri", "response"}
	if len(sc.Methods) < 3 {
		kinds = append(kinds, "scheme", "scheme")
	}
	kind := kinds[r.Intn(len(kinds))]
	_, hasDigest := pickEnabled(r, sc.Methods, true)
	if !hasDigest && kind != "user" && kind != "pass" && kind != "scheme" {
		kind = []string{"user", "pass", "scheme"}[r.Intn(3)]
	}
	st.Perturb = kind
	switch kind {
	case "scheme":
		var dis []int
		for m := 0; m < 3; m++ {
			if !enabled(sc.Methods, m) {
				dis = append(dis, m)
			}
		}
		st.Scheme = dis[r.Intn(len(dis))]
		if st.Scheme == mMD5 && r.Bool(0.3) {
			st.AlgForm = "absent"
		}
	case "user", "pass":
		st.Scheme, _ = pickEnabled(r, sc.Methods, false)
	default:
		st.Scheme, _ = pickEnabled(r, sc.Methods, true)
	}
	if r.Bool(0.3) {
		st.AlgForm = "token"
	}
	st.Mode = []string{"field", "resp", "both"}[r.Intn(3)]
	st.Variant = r.Intn(8)
	return st
}

func genSteps(r *core.Rand, sc *Scenario) []Step {
	type fs struct {
		m string
		t int
	}
	var flow []fs
	if sc.Record {
		flow = append(flow, fs{"ANNOUNCE", 0})
	} else {
		flow = append(flow, fs{"DESCRIBE", 0})
	}
	for i := 0; i < sc.Medias; i++ {
		flow = append(flow, fs{"SETUP", i})
	}
	if sc.Record {
		flow = append(flow, fs{"RECORD", 0})
	} else {
		flow = append(flow, fs{"PLAY", 0})
	}
	perturbAt := -1
	if r.Bool(0.88) {
		perturbAt = r.Intn(len(flow))
	}
	var steps []Step
	// pre-emptive Basic: right Basic credentials in the very first request of the connection,
	// before any challenge (RFC 7617 allows it); hash-derived so that no other choice moves
	preempt := enabled(sc.Methods, mBasic) && core.HS(sc.Seed, "c10.preempt", "", 0)%100 < 12
	for i, f := range flow {
		if i == 0 && preempt {
			steps = append(steps, Step{Method: f.m, Track: f.t, Cred: "valid", Scheme: mBasic, Preempt: true})
			if i == perturbAt {
				perturbAt++
			}
			continue
		}
		if i == 0 || (i == 1 && preempt) || r.Bool(0.15) {
			st := Step{Method: f.m, Track: f.t, Cred: "none"}
			// hash-derived so that no other choice moves
			if x := core.HS(sc.Seed, "c10.useless", "", uint64(len(steps))); x%100 < 12 {
				st.Useless = []string{"bearer", "empty-basic", "empty-digest"}[(x>>8)%3]
			}
			steps = append(steps, st)
		}
		if i == perturbAt {
			steps = append(steps, genPerturb(r, sc, f.m, f.t))
			break
		}
		steps = append(steps, genValid(r, sc, f.m, f.t))
	}
	return steps
}
