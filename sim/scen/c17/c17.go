// Package c17 decides C17 (secure sessions: media encrypted and authenticated
// end to end, no downgrade) by whole-system simulation with wire taps and
// tampering (DESIGN 3.12).
package c17

import (
	"bufio"
	"bytes"
	"context"
	"crypto/tls"
	"encoding/binary"
	"fmt"
	"net"
	"strings"
	"sync"
	"testing"
	"time"

	"github.com/pion/rtcp"
	"github.com/pion/rtp"

	gortsplib "github.com/bluenviron/gortsplib/v5"
	"github.com/bluenviron/gortsplib/v5/pkg/base"
	"github.com/bluenviron/gortsplib/v5/pkg/conn"
	"github.com/bluenviron/gortsplib/v5/pkg/description"
	"github.com/bluenviron/gortsplib/v5/pkg/format"
	"github.com/bluenviron/gortsplib/v5/pkg/headers"

	"verifsim/core"
	"verifsim/peers"
	"verifsim/simnet"
	"verifsim/sys"
)

// Reader is one reading client.
type Reader struct {
	Transport string `json:"transport"` // udp | tcp
	StartUS   int    `json:"start_us"`
	PauseUS   int    `json:"pause_us,omitempty"` // pause after this long, then resume
}

// Scenario is one C17 run.
type Scenario struct {
	Seed    uint64        `json:"seed"`
	Kind    string        `json:"kind"` // media | downgrade
	Net     simnet.Config `json:"net"`
	Formats []int         `json:"formats"`
	Source  string        `json:"source"` // stream | publisher
	PubTr   string        `json:"pub_transport,omitempty"`
	// PubAVP: the TCP publisher announces the plain profile (RTP/AVP inside TLS): the session
	// then does not use the secure profile and the frame-level oracle does not apply to it.
	PubAVP   bool     `json:"pub_avp,omitempty"`
	Readers  []Reader `json:"readers"`
	Packets  int      `json:"packets"`
	IntUS    int      `json:"interval_us"`
	StartSeq uint16   `json:"start_seq"`
	// PerSession (source stream): the application writes every packet with ServerSession.WritePacketRTP
	// / WritePacketRTCP to each session that is playing, instead of through the ServerStream.
	PerSession bool `json:"per_session,omitempty"`
	// AVPReader: next to the secure readers a scripted reader sets media 0 up with the plain profile
	// over the TLS connection (RTP/AVP/TCP, allowed: the frames travel inside TLS). What the secure
	// readers get must not change; the server's own above-TLS writes are not scanned in such runs
	// (the frames for that reader are in clear there by design).
	AVPReader bool `json:"avp_reader,omitempty"`
	Case       int  `json:"case,omitempty"` // downgrade case
}

func gen(seed uint64, tier string) Scenario {
	r := core.NewRand(seed, "c17")
	sc := Scenario{Seed: seed, Kind: "media"}
	if r.Bool(0.12) {
		sc.Kind = "downgrade"
		sc.Case = r.Intn(3)
		sc.Net = simnet.Config{Seed: seed ^ 0x17, LatMinUS: 100, LatMaxUS: 200, ChunkMode: r.Pick(0, 1, 3), ChunkMaxLen: 256}
		return sc
	}
	nm := r.Range(1, 2)
	for i := 0; i < nm; i++ {
		sc.Formats = append(sc.Formats, r.Pick(1, 1, 2, 3))
	}
	sc.Source = "stream"
	if r.Bool(0.35) {
		sc.Source = "publisher"
		sc.PubTr = []string{"udp", "tcp"}[r.Intn(2)]
		sc.PubAVP = sc.PubTr == "tcp" && r.Bool(0.25)
	}
	sc.Packets = r.Range(30, 150)
	sc.IntUS = r.Pick(500, 1000, 2000, 5000)
	dur := sc.Packets * sc.IntUS
	nr := r.Range(1, 3)
	for i := 0; i < nr; i++ {
		rd := Reader{Transport: []string{"udp", "tcp"}[r.Intn(2)], StartUS: r.Intn(dur*2/3 + 1)}
		if r.Bool(0.3) {
			rd.PauseUS = r.Range(1000, dur/3+1000)
		}
		sc.Readers = append(sc.Readers, rd)
	}
	// sequence numbers start just below 65535 so that the roll-over counter advances
	// during the run and late joiners get a non-zero counter through MIKEY
	sc.StartSeq = uint16(65536 - r.Range(1, sc.Packets))
	if r.Bool(0.2) {
		sc.StartSeq = uint16(r.Intn(65536))
	}
	if x := core.HS(seed, "c17.autoreader", "", 0); x%100 < 12 {
		for i := range sc.Readers {
			if sc.Readers[i].Transport == "udp" && sc.Readers[i].PauseUS == 0 {
				sc.Readers[i].Transport = "auto"
				sc.Readers[i].StartUS = 0 // the fall-back must happen while the stream still runs
				break
			}
		}
	}
	if x := core.HS(seed, "c17.avpreader", "", 0); sc.Source == "stream" && x%100 < 20 {
		sc.AVPReader = true
	}
	// per-session writer (hash-derived so that no other choice moves); no wrap there: every
	// session keeps its own roll-over counter from the packets it is given
	if x := core.HS(seed, "c17.persession", "", 0); sc.Source == "stream" && x%100 < 15 {
		sc.PerSession = true
		sc.StartSeq = uint16(1000 + (x>>8)%20000)
	}
	// one reader over UDP-multicast (hash-derived so that no other choice moves); no sequence
	// number wrap in such runs, so that every datagram must decrypt (see the decode-error oracle)
	if x := core.HS(seed, "c17.mcast", "", 0); sc.Source == "stream" && !sc.PerSession && x%100 < 15 {
		for i := range sc.Readers {
			if sc.Readers[i].Transport == "udp" {
				sc.Readers[i].Transport = "mcast"
				sc.StartSeq = uint16(2000 + (x>>8)%30000)
				break
			}
		}
	}
	n := simnet.Config{Seed: seed ^ 0x17171717}
	n.LatMinUS = r.Pick(10, 100, 1000)
	n.LatMaxUS = n.LatMinUS + r.Pick(0, 50, 500)
	n.ChunkMode = r.Pick(0, 1, 3)
	n.ChunkMaxLen = 256
	if r.Bool(0.7) {
		n.UDPCorrupt = []float64{0.02, 0.1, 0.3}[r.Intn(3)]
	}
	if r.Bool(0.4) {
		n.UDPDrop = 0.03
		n.UDPDup = 0.02
		n.UDPReorder = 0.1
		n.UDPJitUS = sc.IntUS * 5
	}
	sc.Net = n
	return sc
}

func us(n int) time.Duration { return time.Duration(n) * time.Microsecond }

func buildDesc(formats []int) *description.Session {
	d := &description.Session{}
	pt := uint8(96)
	for _, nf := range formats {
		m := &description.Media{Type: description.MediaTypeVideo}
		for i := 0; i < nf; i++ {
			g := &format.Generic{PayloadTyp: pt, RTPMa: "private/90000"}
			g.Init() //nolint:errcheck
			m.Formats = append(m.Formats, g)
			pt++
		}
		d.Medias = append(d.Medias, m)
	}
	return d
}

type fkey struct {
	media int
	pt    uint8
}

// marker returns the 16 random marker bytes of a packet (derived from the seed).
func marker(seed uint64, media int, pt uint8, c int, rtcpKind bool) []byte {
	m := make([]byte, 16)
	k := uint64(0)
	if rtcpKind {
		k = 1
	}
	binary.BigEndian.PutUint64(m[0:], core.H(seed, "marker", uint64(media), uint64(pt), uint64(c), k))
	binary.BigEndian.PutUint64(m[8:], core.H(seed, "marker2", uint64(media), uint64(pt), uint64(c), k))
	return m
}

func run(t *testing.T, sc Scenario) *core.Result {
	if sc.Kind == "downgrade" {
		return runDowngrade(t, sc)
	}
	opts := sys.Options{Seed: sc.Seed, Net: sc.Net, MaxSteps: 400000, Horizon: 20 * time.Minute}
	var summary map[string]any
	res := sys.Run(t, opts, func(w *sys.World) {
		w.ProbeInit("roc_advanced_during_run", "late_joiner_after_wrap", "tampered_rejected", "packets_delivered", "udp_reader", "tcp_reader", "publisher_source",
			"rtcp_app_delivered", "multi_format_media", "plain_profile_reader_inside_tls", "plain_profile_reader_playing", "auto_protocol_fallback_reader", "auto_reader_got_packets_over_tcp", "multicast_reader", "decode_errors_checked", "wire_bytes_scanned", "srtp_wrap_before_first_packet_waived")
		srvNode := w.Net.Node("srv", "10.0.0.1")
		h := sys.NewHandler(w)
		srv := &gortsplib.Server{RTSPAddress: "10.0.0.1:8554", UDPRTPAddress: "10.0.0.1:8000", UDPRTCPAddress: "10.0.0.1:8001", Handler: h,
			TLSConfig: sys.ServerTLSConfig(), MulticastIPRange: "224.1.0.0/16", MulticastRTPPort: 8002, MulticastRTCPPort: 8003}
		h.Server = srv
		for _, rd := range sc.Readers {
			if rd.Transport == "mcast" {
				// sender reports of the multicast writers flow during the run
				srv.VerifSetPeriods(23*time.Millisecond, 10*time.Second, 1*time.Second)
				w.Probe("multicast_reader")
			}
		}

		// ---- wire taps: no marker may ever appear in clear ---------------------------
		var markers [][]byte
		var mmu sync.Mutex
		scanned := 0
		scan := func(where string, data []byte) {
			mmu.Lock()
			ms := markers
			scanned += len(data)
			mmu.Unlock()
			for _, m := range ms {
				if bytes.Contains(data, m) {
					w.Fail("c17/cleartext media", "payload marker bytes of a protected packet appear in clear %s (%d bytes)", where, len(data))
					return
				}
			}
		}
		w.Net.AddTap(func(ev simnet.TapEvent) {
			if ev.Kind == "udp.send" {
				scan("in a UDP datagram sent by "+ev.Node, ev.Data)
			}
			if ev.Kind == "tcp.write" {
				scan("on the TCP stream of "+ev.Node, ev.Data)
			}
		})
		aboveTLS := func(node, dir string, data []byte) {
			if node == "pub" && sc.PubAVP {
				return // plain profile inside TLS: not a secure-profile session
			}
			if sc.AVPReader && (node == "srv" || node == "avp") {
				return // the frames for the plain-profile reader are in clear above TLS by design
			}
			if dir == "write" {
				// RTSP messages and interleaved frames as written above TLS: SRTP must already protect the payload
				scan("in an interleaved frame written by "+node+" (above TLS)", data)
			}
		}
		sys.WireServer(srv, srvNode, aboveTLS)
		if err := srv.Start(); err != nil {
			w.Fail("c17/api-error server", "%v", err)
			return
		}
		for _, nf := range sc.Formats {
			if nf > 1 {
				w.Probe("multi_format_media")
			}
		}
		desc := buildDesc(sc.Formats)
		var stream *gortsplib.ServerStream
		streamReady := make(chan struct{})
		url := "rtsps://10.0.0.1:8554/stream"

		type wrec struct {
			payload []byte
			seq     uint16
			ts      uint32
			g       uint64
		}
		written := map[fkey][]*wrec{}
		fwdG := map[fkey]map[int]uint64{} // when the server-side stream was given packet c
		var wmu sync.Mutex
		fwdRetG := map[fkey]map[int]uint64{} // when that write call returned (0 = it never did)
		setRet := func(k fkey, c int) {
			wmu.Lock()
			if fwdRetG[k] == nil {
				fwdRetG[k] = map[int]uint64{}
			}
			fwdRetG[k][c] = w.Log.NextG()
			wmu.Unlock()
		}

		mkPkt := func(mi int, pt uint8, c int) *rtp.Packet {
			p := make([]byte, 0, 40)
			p = append(p, marker(sc.Seed, mi, pt, c, false)...)
			var hdr [6]byte
			hdr[0] = byte(mi)
			hdr[1] = pt
			binary.BigEndian.PutUint32(hdr[2:], uint32(c))
			p = append(p, hdr[:]...)
			return &rtp.Packet{Header: rtp.Header{Version: 2, PayloadType: pt, SequenceNumber: sc.StartSeq + uint16(c), Timestamp: uint32(c) * 3000, Marker: c%3 == 0}, Payload: p}
		}

		var pub *gortsplib.Client
		var pubMedias []*description.Media
		if sc.Source == "stream" {
			stream = &gortsplib.ServerStream{Server: srv, Desc: desc}
			if err := stream.Initialize(); err != nil {
				w.Fail("c17/api-error server", "%v", err)
				return
			}
			h.SetStream("/stream", stream)
			close(streamReady)
		} else {
			w.Probe("publisher_source")
			h.NoForward = true
			h.OnRTP = func(ss *gortsplib.ServerSession, m *description.Media, _ format.Format, pkt *rtp.Packet) {
				st := h.PubStream(ss)
				if st == nil {
					return
				}
				mi := -1
				for i, mm := range st.Desc.Medias {
					if mm == m {
						mi = i
					}
				}
				if len(pkt.Payload) >= 22 {
					c := int(binary.BigEndian.Uint32(pkt.Payload[18:]))
					k := fkey{mi, pkt.PayloadType}
					wmu.Lock()
					ok := c < len(written[k]) && bytes.Equal(written[k][c].payload, pkt.Payload)
					if fwdG[k] == nil {
						fwdG[k] = map[int]uint64{}
					}
					fwdG[k][c] = w.Log.NextG()
					wmu.Unlock()
					if !ok {
						w.Fail("c17/decrypt mismatch", "the server session decrypted a packet that differs from what the publisher encrypted (media %d pt %d counter %d)", mi, pkt.PayloadType, c)
						return
					}
				}
				st.WritePacketRTP(m, pkt) //nolint:errcheck
				if len(pkt.Payload) >= 22 {
					setRet(fkey{mi, pkt.PayloadType}, int(binary.BigEndian.Uint32(pkt.Payload[18:])))
				}
			}
			p := gortsplib.ProtocolTCP
			if sc.PubTr == "udp" {
				p = gortsplib.ProtocolUDP
			}
			pub = &gortsplib.Client{Scheme: "rtsps", Host: "10.0.0.1:8554", Protocol: &p, TLSConfig: sys.ClientTLSConfig()}
			sys.WireClient(pub, w.Net.Node("pub", "10.0.0.9"), w.Net, aboveTLS)
		}

		w.Go("writer", func() {
			if sc.Source == "publisher" {
				pd := buildDesc(sc.Formats)
				if sc.PubTr == "tcp" && !sc.PubAVP {
					for _, m := range pd.Medias {
						m.Profile = headers.TransportProfileSAVP
					}
				}
				if err := pub.StartRecording(url, pd); err != nil {
					w.Fail("c17/api-error publisher", "StartRecording (%s): %v", sc.PubTr, err)
					close(streamReady)
					return
				}
				pubMedias = pd.Medias
				close(streamReady)
			}
			time.Sleep(us(sc.IntUS))
			for c := 0; c < sc.Packets; c++ {
				for mi, nf := range sc.Formats {
					for fi := 0; fi < nf; fi++ {
						var medias []*description.Media
						if sc.Source == "stream" {
							medias = desc.Medias
						} else {
							medias = pubMedias
						}
						pt := medias[mi].Formats[fi].PayloadType()
						pkt := mkPkt(mi, pt, c)
						k := fkey{mi, pt}
						mmu.Lock()
						markers = append(markers, pkt.Payload[:16])
						mmu.Unlock()
						wmu.Lock()
						written[k] = append(written[k], &wrec{payload: pkt.Payload, seq: pkt.SequenceNumber, ts: pkt.Timestamp, g: w.Log.NextG()})
						if sc.Source == "stream" {
							if fwdG[k] == nil {
								fwdG[k] = map[int]uint64{}
							}
							fwdG[k][c] = w.Log.NextG()
						}
						wmu.Unlock()
						if sc.Source == "stream" && sc.PerSession {
							for _, ss := range playingSessions(h) {
								// (only medias the session has set up: writing to another one is the
								// caller's mistake and dereferences nil)
								for _, sm := range ss.Medias() {
									if sm == medias[mi] {
										ss.WritePacketRTP(medias[mi], pkt) //nolint:errcheck
									}
								}
							}
							setRet(k, c)
						} else if sc.Source == "stream" {
							stream.WritePacketRTP(medias[mi], pkt) //nolint:errcheck
							setRet(k, c)
						} else {
							pub.WritePacketRTP(medias[mi], pkt) //nolint:errcheck
						}
					}
				}
				// an RTCP APP packet with marker bytes on media 0, now and then
				if c%10 == 5 {
					mk := marker(sc.Seed, 0, 0, c, true)
					mmu.Lock()
					markers = append(markers, mk)
					mmu.Unlock()
					app := &rtcp.ApplicationDefined{SSRC: 0x1234, Name: "VRIF", Data: mk}
					if sc.Source == "stream" && sc.PerSession {
						for _, ss := range playingSessions(h) {
							for _, sm := range ss.Medias() {
								if sm == desc.Medias[0] {
									ss.WritePacketRTCP(desc.Medias[0], app) //nolint:errcheck
								}
							}
						}
					} else if sc.Source == "stream" {
						stream.WritePacketRTCP(desc.Medias[0], app) //nolint:errcheck
					} else {
						pub.WritePacketRTCP(pubMedias[0], app) //nolint:errcheck
					}
				}
				if sc.StartSeq+uint16(c) == 0xffff {
					w.Probe("roc_advanced_during_run")
				}
				time.Sleep(us(sc.IntUS) + time.Duration(core.H(sc.Seed, "wj", uint64(c))%977))
			}
		})

		type rstate struct {
			mu         sync.Mutex
			last       map[fkey]int
			got        map[fkey]map[int]bool
			n          int
			decodeErrs int
			firstErr   string
			setupG     uint64
			playG      []uint64
			pauseG     []uint64
			failed     bool
		}
		readers := make([]*rstate, len(sc.Readers))
		var names []string
		wrapCounter := (65536 - int(sc.StartSeq)) % 65536
		for i, spec := range sc.Readers {
			rs := &rstate{last: map[fkey]int{}, got: map[fkey]map[int]bool{}}
			readers[i] = rs
			name := fmt.Sprintf("reader%d", i)
			names = append(names, name)
			ip := fmt.Sprintf("10.0.0.%d", 20+i)
			if spec.Transport == "mcast" {
				ip = "127.0.0.1" // the client looks its local address up among the machine's interfaces
			}
			node := w.Net.Node(name, ip)
			if spec.Transport == "udp" {
				w.Probe("udp_reader")
			} else {
				w.Probe("tcp_reader")
			}
			w.Go(name, func() {
				<-streamReady
				if w.Failed() {
					return
				}
				time.Sleep(us(spec.StartUS))
				p := gortsplib.ProtocolTCP
				if spec.Transport == "udp" {
					p = gortsplib.ProtocolUDP
				}
				if spec.Transport == "mcast" {
					p = gortsplib.ProtocolUDPMulticast
				}
				c := &gortsplib.Client{Scheme: "rtsps", Host: "10.0.0.1:8554", Protocol: &p, TLSConfig: sys.ClientTLSConfig()}
				if spec.Transport == "auto" {
					// automatic protocol behind a firewall that drops every datagram: the client starts with
					// UDP, sees nothing, and falls back to TCP on its own - still with the secure profile
					c.Protocol = nil
					c.InitialUDPReadTimeout = time.Duration(sc.Packets*sc.IntUS/6)*time.Microsecond + 5*time.Millisecond + 211
					w.Net.BlackholeUDPTo(name)
					w.Probe("auto_protocol_fallback_reader")
				}
				sys.WireClient(c, node, w.Net, aboveTLS)
				c.OnPacketsLost = func(uint64) {}
				c.OnDecodeError = func(err error) {
					rs.mu.Lock()
					rs.decodeErrs++
					if rs.firstErr == "" {
						rs.firstErr = err.Error()
					}
					rs.mu.Unlock()
				}
				if err := c.Start(); err != nil {
					w.Fail("c17/api-error reader", "%v", err)
					return
				}
				defer c.Close()
				u, _ := base.ParseURL(url)
				d, _, err := c.Describe(u)
				if err != nil {
					if sc.Source == "publisher" {
						rs.failed = true
						return
					}
					w.Fail("c17/api-error reader", "Describe: %v", err)
					return
				}
				rs.setupG = w.Log.NextG()
				if err := c.SetupAll(d.BaseURL, d.Medias); err != nil {
					if sc.Source == "publisher" {
						rs.failed = true
						return
					}
					w.Fail("c17/api-error reader", "SetupAll: %v", err)
					return
				}
				c.OnPacketRTPAny(func(m *description.Media, f format.Format, pkt *rtp.Packet) {
					mi := -1
					for k, mm := range d.Medias {
						if mm == m {
							mi = k
						}
					}
					p := pkt.Payload
					if len(p) < 22 {
						w.Fail("c17/tampered delivered", "reader %d received a packet that was never written (%d bytes)", i, len(p))
						return
					}
					cnt := int(binary.BigEndian.Uint32(p[18:]))
					k := fkey{mi, pkt.PayloadType}
					wmu.Lock()
					var rec *wrec
					if int(p[16]) == mi && p[17] == pkt.PayloadType && f.PayloadType() == pkt.PayloadType && cnt >= 0 && cnt < len(written[k]) {
						rec = written[k][cnt]
					}
					wmu.Unlock()
					if rec == nil || !bytes.Equal(rec.payload, p) || rec.seq != pkt.SequenceNumber || rec.ts != pkt.Timestamp {
						w.Fail("c17/tampered delivered", "reader %d (%s): a packet that differs from every packet written reached the callback (media %d pt %d counter %d): altered in transit and not rejected, or decrypted wrongly", i, spec.Transport, mi, pkt.PayloadType, cnt)
						return
					}
					rs.mu.Lock()
					if l, ok := rs.last[k]; ok && l >= cnt {
						rs.mu.Unlock()
						w.Fail("c17/order packet", "reader %d received packet %d after %d (media %d pt %d)", i, cnt, l, mi, pkt.PayloadType)
						return
					}
					rs.last[k] = cnt
					if spec.Transport == "auto" && len(rs.last) == 1 && rs.n == 0 {
						w.Probe("auto_reader_got_packets_over_tcp")
					}
					if rs.got[k] == nil {
						rs.got[k] = map[int]bool{}
					}
					rs.got[k][cnt] = true
					rs.n++
					rs.mu.Unlock()
				})
				c.OnPacketRTCPAny(func(_ *description.Media, pkt rtcp.Packet) {
					if app, ok := pkt.(*rtcp.ApplicationDefined); ok && len(app.Data) == 16 {
						w.Probe("rtcp_app_delivered")
					}
				})
				play := func() bool {
					if _, err := c.Play(nil); err != nil {
						if sc.Source == "publisher" {
							rs.failed = true
							return false
						}
						w.Fail("c17/api-error reader", "Play: %v", err)
						return false
					}
					rs.mu.Lock()
					rs.playG = append(rs.playG, w.Log.NextG())
					rs.mu.Unlock()
					return true
				}
				if !play() {
					return
				}
				if spec.PauseUS > 0 {
					time.Sleep(us(spec.PauseUS))
					rs.mu.Lock()
					rs.pauseG = append(rs.pauseG, w.Log.NextG())
					rs.mu.Unlock()
					if _, err := c.Pause(); err != nil {
						rs.failed = true
						return
					}
					time.Sleep(us(spec.PauseUS / 2))
					if !play() {
						return
					}
				}
				w.WaitDrivers("writer")
				w.Settle(func() int { rs.mu.Lock(); defer rs.mu.Unlock(); return rs.n }, 4*us(sc.Net.LatMaxUS)+2*us(sc.Net.UDPJitUS)+100*time.Millisecond)
			})
		}

		if sc.AVPReader {
			w.Probe("plain_profile_reader_inside_tls")
			avpNode := w.Net.Node("avp", "10.0.0.40")
			names = append(names, "avp")
			w.Go("avp", func() {
				<-streamReady
				if w.Failed() {
					return
				}
				ctx, cancel := context.WithTimeout(context.Background(), 10*time.Second)
				nc, err := avpNode.DialContext(ctx, "tcp", "10.0.0.1:8554")
				cancel()
				if err != nil {
					return
				}
				tc := tls.Client(nc, sys.ClientTLSConfig())
				if err := tc.Handshake(); err != nil {
					nc.Close()
					return
				}
				rc := peers.NewRawConn(tc)
				defer rc.Close()
				u, _ := base.ParseURL("rtsps://10.0.0.1:8554/stream/trackID=0")
				rc.Send(&base.Request{Method: base.Setup, URL: u, Header: base.Header{"Transport": base.HeaderValue{"RTP/AVP/TCP;unicast;interleaved=0-1"}}}) //nolint:errcheck
				res, err := rc.ReadResponse(10 * time.Second)
				if err != nil || res.StatusCode != base.StatusOK {
					w.Log.Add("avp", "setup.refused", "%v", err)
					return
				}
				pu, _ := base.ParseURL("rtsps://10.0.0.1:8554/stream")
				sid := ""
				if v := res.Header["Session"]; len(v) > 0 {
					sid = strings.Split(v[0], ";")[0]
				}
				rc.Send(&base.Request{Method: base.Play, URL: pu, Header: base.Header{"Session": base.HeaderValue{sid}}}) //nolint:errcheck
				if res, err = rc.ReadResponse(10 * time.Second); err != nil || res.StatusCode != base.StatusOK {
					w.Log.Add("avp", "play.refused", "%v", err)
					return
				}
				w.Probe("plain_profile_reader_playing")
				// drain until the stream is over
				end := time.Now().Add(time.Duration(sc.Packets*sc.IntUS)*time.Microsecond + 500*time.Millisecond)
				for time.Now().Before(end) {
					tc.SetReadDeadline(end)
					if _, err := rc.C.Read(); err != nil {
						return
					}
				}
			})
		}

		w.Go("closer", func() {
			w.WaitDrivers(append([]string{"writer"}, names...)...)
			if pub != nil {
				time.Sleep(200 * time.Millisecond)
				pub.Close()
			}
			if stream != nil {
				stream.Close()
			}
			srv.Close()
		})

		w.AtEnd(func() {
			if w.Failed() {
				return
			}
			total := 0
			for i, rs := range readers {
				total += rs.n
				if rs.decodeErrs > 0 && sc.Net.UDPCorrupt > 0 {
					w.Probe("tampered_rejected")
				}
				// "each side decrypts exactly what the other encrypts": when nothing alters or duplicates
				// datagrams and the sequence number does not wrap during the run (roll-over counters
				// cannot disagree), every RTP and RTCP packet a reader receives must decrypt
				if sc.Net.UDPCorrupt == 0 && sc.Net.UDPDup == 0 && int(sc.StartSeq)+sc.Packets < 65536 && !rs.failed {
					w.Probe("decode_errors_checked")
					if rs.decodeErrs > 0 {
						w.Fail("c17/decrypt error", "reader %d (%s): %d packets could not be decoded although nothing altered or duplicated datagrams and no roll-over happened (first: %s)",
							i, sc.Readers[i].Transport, rs.decodeErrs, rs.firstErr)
						return
					}
				}
				if rs.failed || len(rs.playG) == 0 {
					continue
				}
				spec := sc.Readers[i]
				// each side decrypts exactly what the other encrypted: over TCP every packet handed to
				// the stream while the reader was playing arrives (C01 gap-freedom), keys, SSRC sets and
				// roll-over counters included
				if spec.Transport != "tcp" {
					continue
				}
				for k, gs := range fwdG {
					// SRTP limitation (see C01): wrap between the reader's SETUP and the first packet it sees
					sawPreWrap := false
					for c := range rs.got[k] {
						if c < wrapCounter {
							sawPreWrap = true
						}
					}
					if !sawPreWrap && wrapCounter > 0 {
						// the first packet at or after the wrap that the stream was given
						first, firstG := -1, uint64(0)
						for c, g := range gs {
							if c >= wrapCounter && (first < 0 || c < first) {
								first, firstG = c, g
							}
						}
						// the write may still have been in progress (held at a yield point inside the
						// stream) when this reader's SETUP built its MIKEY message
						if rg, ok := fwdRetG[k][first]; first >= 0 && (!ok || rg >= rs.setupG) {
							firstG = rs.setupG
						}
						if first >= 0 && firstG >= rs.setupG {
							w.Probe("srtp_wrap_before_first_packet_waived")
							continue
						}
						if first >= 0 {
							w.Probe("late_joiner_after_wrap")
						}
					}
					lastPlay := rs.playG[len(rs.playG)-1]
					for c, g := range gs {
						if g > lastPlay && !rs.got[k][c] {
							w.Fail("c17/decrypt missing", "reader %d (tcp): packet %d of media %d pt %d was handed to the stream after the reader's last PLAY completed and never reached its callback (decode errors at this reader: %d, first: %s; wrap at counter %d)",
								i, c, k.media, k.pt, rs.decodeErrs, rs.firstErr, wrapCounter)
							return
						}
					}
				}
			}
			if total > 0 {
				w.Probe("packets_delivered")
			}
			mmu.Lock()
			if scanned > 0 {
				w.Probe("wire_bytes_scanned")
			}
			mmu.Unlock()
			summary = map[string]any{"delivered": total, "source": sc.Source, "readers": len(sc.Readers), "corrupt_rate": sc.Net.UDPCorrupt}
		})
	})
	res.Nontrivial = res.Probes["packets_delivered"] > 0 && res.Probes["wire_bytes_scanned"] > 0
	res.Sample = summary
	return res
}

// playingSessions returns the sessions that are in the play state according to the handler's
// callback history (play adds, pause / session close remove), in the order of their PLAY.
func playingSessions(h *sys.Handler) []*gortsplib.ServerSession {
	var out []*gortsplib.ServerSession
	for _, cb := range h.Callbacks() {
		switch cb.Kind {
		case "play":
			found := false
			for _, s := range out {
				if s == cb.Session {
					found = true
				}
			}
			if !found && cb.Session != nil {
				out = append(out, cb.Session)
			}
		case "pause", "session.close":
			for i, s := range out {
				if s == cb.Session {
					out = append(out[:i], out[i+1:]...)
					break
				}
			}
		}
	}
	return out
}

// runDowngrade: the three refusals of the statement.
func runDowngrade(t *testing.T, sc Scenario) *core.Result {
	opts := sys.Options{Seed: sc.Seed, Net: sc.Net, MaxSteps: 100000, Horizon: 5 * time.Minute}
	res := sys.Run(t, opts, func(w *sys.World) {
		w.ProbeInit("downgrade_secure_profile_on_plain_refused", "downgrade_plain_udp_on_tls_refused", "downgrade_redirect_refused")
		srvNode := w.Net.Node("srv", "10.0.0.1")
		cliNode := w.Net.Node("cli", "10.0.0.20")
		desc := buildDesc([]int{1})
		dial := func() (net.Conn, error) {
			ctx, cancel := context.WithTimeout(context.Background(), 10*time.Second)
			defer cancel()
			return cliNode.DialContext(ctx, "tcp", "10.0.0.1:8554")
		}
		switch sc.Case {
		case 0, 1:
			h := sys.NewHandler(w)
			srv := &gortsplib.Server{RTSPAddress: "10.0.0.1:8554", UDPRTPAddress: "10.0.0.1:8000", UDPRTCPAddress: "10.0.0.1:8001", Handler: h,
				MulticastIPRange: "224.1.0.0/16", MulticastRTPPort: 8002, MulticastRTCPPort: 8003}
			if sc.Case == 1 {
				srv.TLSConfig = sys.ServerTLSConfig()
			}
			h.Server = srv
			sys.WireServer(srv, srvNode, nil)
			if err := srv.Start(); err != nil {
				w.Fail("c17/api-error server", "%v", err)
				return
			}
			stream := &gortsplib.ServerStream{Server: srv, Desc: desc}
			if err := stream.Initialize(); err != nil {
				w.Fail("c17/api-error server", "%v", err)
				return
			}
			h.SetStream("/stream", stream)
			w.Go("client", func() {
				defer func() { stream.Close(); srv.Close() }()
				nc, err := dial()
				if err != nil {
					w.Fail("c17/alive server", "%v", err)
					return
				}
				var c net.Conn = nc
				scheme := "rtsp"
				if sc.Case == 1 {
					tc := tls.Client(nc, sys.ClientTLSConfig())
					if err := tc.Handshake(); err != nil {
						w.Fail("c17/alive server", "TLS handshake: %v", err)
						return
					}
					c = tc
					scheme = "rtsps"
				}
				rc := peers.NewRawConn(c)
				defer rc.Close()
				u, _ := base.ParseURL(scheme + "://10.0.0.1:8554/stream/trackID=0")
				var tr string
				noKeys := false
				if sc.Case == 0 {
					// secure profile over plain RTSP (keys would travel in clear)
					tr = []string{"RTP/SAVP;unicast;client_port=35000-35001", "RTP/SAVP/TCP;unicast;interleaved=0-1"}[int(sc.Seed)%2]
				} else {
					// unencrypted UDP (unicast or multicast) over RTSPS
					tr = []string{"RTP/AVP;unicast;client_port=35000-35001", "RTP/AVP;multicast", "RTP/AVP/UDP;multicast"}[int(sc.Seed/2)%3]
					// ... or the secure profile without any key material (no KeyMgmt header): what the
					// peer then sends could neither be decrypted nor authenticated
					if core.HS(sc.Seed, "c17.nokeymgmt", "", 0)%3 == 0 {
						tr = []string{"RTP/SAVP;unicast;client_port=35000-35001", "RTP/SAVP/TCP;unicast;interleaved=0-1"}[int(sc.Seed/2)%2]
						noKeys = true
					}
				}
				hdr := base.Header{"Transport": base.HeaderValue{tr}}
				if sc.Case == 0 {
					// a fully valid key-management header, as a secure client would send it
					key := make([]byte, 30)
					for i := range key {
						key[i] = byte(core.H(sc.Seed, "key", uint64(i)))
					}
					km, err := gortsplib.VerifKeyMgmtHeader("rtsp://10.0.0.1:8554/stream/trackID=0", key, []uint32{0x11223344})
					if err != nil {
						w.Fail("c17/harness keymgmt", "%v", err)
						return
					}
					hdr["KeyMgmt"] = km
				}
				rc.Send(&base.Request{Method: base.Setup, URL: u, Header: hdr}) //nolint:errcheck
				resp, err := rc.ReadResponse(10 * time.Second)
				if err == nil && resp.StatusCode >= 200 && resp.StatusCode < 300 {
					if sc.Case == 0 {
						w.Fail("c17/downgrade accepted", "SETUP with the secure profile (%s) was accepted over plain RTSP: status %d", tr, resp.StatusCode)
					} else if noKeys {
						w.Fail("c17/downgrade accepted", "SETUP with the secure profile (%s) and no KeyMgmt header was accepted over RTSPS: status %d (media from this peer would be taken in clear)", tr, resp.StatusCode)
					} else {
						w.Fail("c17/downgrade accepted", "SETUP with unencrypted UDP (%s) was accepted over RTSPS: status %d", tr, resp.StatusCode)
					}
					return
				}
				if sc.Case == 0 {
					w.Probe("downgrade_secure_profile_on_plain_refused")
				} else {
					w.Probe("downgrade_plain_udp_on_tls_refused")
				}
			})
		case 2:
			// a scripted RTSPS server redirects to rtsp://: the client must refuse and open no plain connection
			ln, err := srvNode.Listen("tcp", "10.0.0.1:8554")
			if err != nil {
				w.Fail("c17/harness listen", "%v", err)
				return
			}
			plainLn, _ := srvNode.Listen("tcp", "10.0.0.1:8555")
			plainAccepted := 0
			var wg sync.WaitGroup
			wg.Add(2)
			go func() {
				defer wg.Done()
				for {
					nc, err := plainLn.Accept()
					if err != nil {
						return
					}
					plainAccepted++
					nc.Close()
				}
			}()
			go func() {
				defer wg.Done()
				for {
					nc, err := ln.Accept()
					if err != nil {
						return
					}
					wg.Add(1)
					go func() {
						defer wg.Done()
						tc := tls.Server(nc, sys.ServerTLSConfig())
						defer tc.Close()
						co := conn.NewConn(bufio.NewReader(tc), tc)
						for {
							tc.SetReadDeadline(time.Now().Add(time.Minute))
							req, err := co.ReadRequest()
							if err != nil {
								return
							}
							res := &base.Response{StatusCode: base.StatusOK, Header: base.Header{"CSeq": req.Header["CSeq"]}}
							if req.Method == base.Options {
								res.Header["Public"] = base.HeaderValue{"DESCRIBE, SETUP, PLAY"}
							} else {
								res.StatusCode = []base.StatusCode{301, 302}[int(sc.Seed)%2]
								// (schemes are case-insensitive: RTSP://, Rtsp:// are the same downgrade)
								res.Header["Location"] = base.HeaderValue{[]string{"rtsp", "rtsp", "RTSP", "Rtsp", "rTsP"}[core.HS(sc.Seed, "c17.redirect.scheme", "", 0)%5] + "://10.0.0.1:8555/stream"}
							}
							co.WriteResponse(res) //nolint:errcheck
						}
					}()
				}
			}()
			w.Go("client", func() {
				defer func() { ln.Close(); plainLn.Close(); wg.Wait() }()
				c := &gortsplib.Client{Scheme: "rtsps", Host: "10.0.0.1:8554", TLSConfig: sys.ClientTLSConfig()}
				sys.WireClient(c, cliNode, w.Net, nil)
				if err := c.Start(); err != nil {
					w.Fail("c17/api-error client", "%v", err)
					return
				}
				u, _ := base.ParseURL("rtsps://10.0.0.1:8554/stream")
				_, _, err := c.Describe(u)
				c.Close()
				time.Sleep(50 * time.Millisecond)
				if err == nil {
					w.Fail("c17/downgrade accepted", "Describe succeeded although the server redirected from rtsps to rtsp")
					return
				}
				if plainAccepted > 0 {
					w.Fail("c17/downgrade accepted", "the client opened a plain connection to follow a redirect from rtsps to rtsp (error returned: %v)", err)
					return
				}
				w.Probe("downgrade_redirect_refused")
			})
		}
	})
	res.Nontrivial = res.Probes["downgrade_secure_profile_on_plain_refused"]+res.Probes["downgrade_plain_udp_on_tls_refused"]+res.Probes["downgrade_redirect_refused"] > 0
	res.Sample = map[string]any{"kind": "downgrade", "case": sc.Case}
	return res
}

func shrink(sc Scenario) []Scenario {
	if sc.Kind == "downgrade" {
		return nil
	}
	var out []Scenario
	clone := func() Scenario {
		c := sc
		c.Formats = append([]int(nil), sc.Formats...)
		c.Readers = append([]Reader(nil), sc.Readers...)
		return c
	}
	for i := range sc.Readers {
		if len(sc.Readers) > 1 {
			c := clone()
			c.Readers = append(c.Readers[:i], c.Readers[i+1:]...)
			out = append(out, c)
		}
	}
	if len(sc.Formats) > 1 {
		c := clone()
		c.Formats = c.Formats[:1]
		out = append(out, c)
	}
	for i, nf := range sc.Formats {
		if nf > 1 {
			c := clone()
			c.Formats[i] = 1
			out = append(out, c)
		}
	}
	if sc.Packets > 8 {
		c := clone()
		c.Packets = sc.Packets / 2
		out = append(out, c)
	}
	if sc.Source == "publisher" {
		c := clone()
		c.Source, c.PubTr = "stream", ""
		out = append(out, c)
	}
	for i, r := range sc.Readers {
		if r.PauseUS != 0 {
			c := clone()
			c.Readers[i].PauseUS = 0
			out = append(out, c)
		}
		if r.StartUS != 0 {
			c := clone()
			c.Readers[i].StartUS = 0
			out = append(out, c)
		}
	}
	if sc.Net.UDPCorrupt != 0 {
		c := clone()
		c.Net.UDPCorrupt = 0
		out = append(out, c)
	}
	if sc.Net.UDPDrop != 0 {
		c := clone()
		c.Net.UDPDrop, c.Net.UDPDup, c.Net.UDPReorder = 0, 0, 0
		out = append(out, c)
	}
	if sc.Net.ChunkMode != 0 {
		c := clone()
		c.Net.ChunkMode = 0
		out = append(out, c)
	}
	return out
}

func init() {
	f := core.Register("C17", gen, run, shrink)
	f.Real = []string{"gortsplib.Server / ServerStream / ServerSession / Client with wrappedSRTPContext, pkg/mikey, pkg/headers (KeyMgmt), pion/srtp, crypto/tls"}
	f.Simulated = []string{"TCP/UDP sockets with bit/byte corruption of datagrams in transit (simnet udp.corrupt)", "clock, entropy (keys and salts come from the run's deterministic entropy source)", "scripted peers for the downgrade cases"}
	f.Excluded = []string{"UDP-multicast", "MKI / client-managed keys (C18 covers that path)", "tampering inside the TLS stream (TLS itself authenticates it)"}
	f.Rule = "media: RTSPS+SRTP stream of 1..2 medias x 1..3 formats (SSRC sets), server-side writer or recording client (UDP / TCP), 1..3 readers (UDP / TCP) joining late, pausing and resuming, sequence numbers starting just below 65535 so that the roll-over counter advances and late joiners receive a non-zero counter through MIKEY, RTP payloads and RTCP APP packets carrying 16 marker bytes, single-bit / single-byte corruption, loss, duplication and reordering of datagrams; downgrade: SETUP with a secure profile on a plain server, SETUP with unencrypted UDP on a TLS server, a real client redirected from rtsps to rtsp. Non-trivial = packets delivered and wire bytes scanned (media) / the refusal observed (downgrade); distinct = distinct canonical event log"
	f.Assumptions = []string{
		"'altered packets are rejected' is judged at the callbacks: every delivered packet must be byte-identical (payload, sequence number, timestamp) to a written one",
		"SRTP index estimation (RFC 3711) cannot recover when the sequence number wraps between a reader's SETUP (MIKEY roll-over counter) and the first packet it sees: such a reader is not judged for completeness",
	}
}
