// Package c17 holds the scenario family of property C17.
package c17
