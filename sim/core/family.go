package core

import (
	"encoding/json"
	"fmt"
	"sort"
	"testing"
)

// Violation is a property violation found by an oracle.
type Violation struct {
	// Class identifies the oracle and the kind of entity; replay and
	// minimisation must reproduce the same class.
	Class  string `json:"class"`
	Detail string `json:"detail"`
}

func (v *Violation) String() string { return v.Class + ": " + v.Detail }

// Viol builds a violation.
func Viol(class, format string, args ...any) *Violation {
	return &Violation{Class: class, Detail: fmt.Sprintf(format, args...)}
}

// Result is what one simulated run reports.
type Result struct {
	Violation    *Violation     `json:"violation,omitempty"`
	Nontrivial   bool           `json:"nontrivial"`
	Sig          uint64         `json:"sig"`
	Faults       map[string]int `json:"faults,omitempty"`
	Probes       map[string]int `json:"probes,omitempty"`
	YieldHits    map[string]int `json:"yield_hits,omitempty"`
	SimNS        int64          `json:"sim_ns"`
	Steps        int            `json:"steps"`
	Inconclusive int            `json:"inconclusive,omitempty"`
	// StepBudgetHit: the run stopped because the scheduler's step budget ran out.
	StepBudgetHit bool `json:"step_budget_hit,omitempty"`
	Sample        any  `json:"sample,omitempty"`
	// Tail of the canonical log (kept only for violations and samples).
	Tail []string `json:"tail,omitempty"`
	// Log is the complete canonical log (determinism self-test only).
	FullLog []string `json:"full_log,omitempty"`
}

// NewResult allocates a result with its maps.
func NewResult() *Result {
	return &Result{Faults: map[string]int{}, Probes: map[string]int{}, YieldHits: map[string]int{}}
}

// Family is one scenario family (type-erased).
type Family struct {
	ID     string
	Gen    func(seed uint64, tier string) any
	Decode func(raw json.RawMessage) (any, error)
	Run    func(t *testing.T, sc any) *Result
	Shrink func(sc any) []any
	// Components for the evidence file.
	Real, Simulated, Excluded []string
	Rule                      string
	Assumptions               []string
}

var families = map[string]*Family{}

// Register adds a typed family to the registry.
func Register[S any](id string,
	gen func(seed uint64, tier string) S,
	run func(t *testing.T, sc S) *Result,
	shrink func(sc S) []S,
) *Family {
	f := &Family{
		ID:  id,
		Gen: func(seed uint64, tier string) any { return gen(seed, tier) },
		Decode: func(raw json.RawMessage) (any, error) {
			var s S
			if err := json.Unmarshal(raw, &s); err != nil {
				return nil, err
			}
			return s, nil
		},
		Run: func(t *testing.T, sc any) *Result { return run(t, sc.(S)) },
		Shrink: func(sc any) []any {
			if shrink == nil {
				return nil
			}
			var out []any
			for _, c := range shrink(sc.(S)) {
				out = append(out, c)
			}
			return out
		},
	}
	families[id] = f
	return f
}

// Lookup returns a family by property id.
func Lookup(id string) *Family { return families[id] }

// FamilyIDs lists registered ids.
func FamilyIDs() []string {
	var ids []string
	for id := range families {
		ids = append(ids, id)
	}
	sort.Strings(ids)
	return ids
}
