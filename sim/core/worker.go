package core

import (
	"encoding/json"
	"fmt"
	"os"
	"runtime"
	"runtime/debug"
	"strconv"
	"strings"
	"sync/atomic"
	"testing"
	"time"
)

// Summary is what a batch worker writes when it ends.
type Summary struct {
	Property     string          `json:"property"`
	Worker       int             `json:"worker"`
	Runs         int             `json:"runs"`
	Nontrivial   int             `json:"nontrivial"`
	Sigs         []uint64        `json:"sigs"`
	Faults       map[string]int  `json:"faults"`
	Probes       map[string]int  `json:"probes"`
	YieldHits    map[string]int  `json:"yield_hits"`
	SimNS        int64           `json:"sim_ns"`
	SimS         float64         `json:"sim_s"` // sum in seconds (the ns sum can overflow over many long runs)
	Steps        int64           `json:"steps"`
	Inconclusive int             `json:"inconclusive"`
	Samples      []any           `json:"samples"`
	FirstSeed    uint64          `json:"first_seed"`
	LastSeed     uint64          `json:"last_seed"`
	WallS        float64         `json:"wall_s"`
	Violation    *FoundViolation `json:"violation,omitempty"`
	// Known holds the first occurrence of each known finding met (the batch goes on past them).
	Known []*FoundViolation `json:"known,omitempty"`
}

// FoundViolation is a violation with the scenario that produced it.
type FoundViolation struct {
	Property string          `json:"property"`
	Seed     uint64          `json:"seed"`
	Scenario json.RawMessage `json:"scenario"`
	Class    string          `json:"class"`
	Detail   string          `json:"detail"`
	Tail     []string        `json:"tail,omitempty"`
}

// ReplayFile is the on-disk replay format (DESIGN 2.10).
type ReplayFile struct {
	Property  string          `json:"property"`
	Seed      uint64          `json:"seed"`
	Scenario  json.RawMessage `json:"scenario"`
	Class     string          `json:"class"`
	Detail    string          `json:"detail"`
	Tail      []string        `json:"tail,omitempty"`
	Tree      string          `json:"tree,omitempty"`
	Minimised bool            `json:"minimised"`
}

// beat is bumped whenever a run starts or the scheduler makes progress the
// watchdog should see.
var beat atomic.Int64

// Beat signals liveness to the watchdog.
func Beat() { beat.Add(1) }

func envInt(k string, def int) int {
	if v := os.Getenv(k); v != "" {
		if n, err := strconv.Atoi(v); err == nil {
			return n
		}
	}
	return def
}

func envU64(k string, def uint64) uint64 {
	if v := os.Getenv(k); v != "" {
		if n, err := strconv.ParseUint(v, 10, 64); err == nil {
			return n
		}
	}
	return def
}

func writeJSON(path string, v any) {
	b, err := json.Marshal(v)
	if err != nil {
		fmt.Fprintln(os.Stderr, "worker: marshal:", err)
		os.Exit(2)
	}
	tmp := path + ".tmp"
	if err := os.WriteFile(tmp, b, 0o644); err != nil {
		fmt.Fprintln(os.Stderr, "worker: write:", err)
		os.Exit(2)
	}
	os.Rename(tmp, path)
}

func startWatchdog(limit time.Duration) {
	go func() {
		last := beat.Load()
		lastChange := time.Now()
		for {
			time.Sleep(250 * time.Millisecond)
			cur := beat.Load()
			if cur != last {
				last = cur
				lastChange = time.Now()
				continue
			}
			if time.Since(lastChange) > limit {
				fmt.Fprintf(os.Stderr, "WATCHDOG no progress for %v pending_events=%d\n", limit, Pending.Load())
				os.Stderr.WriteString(AllStacks())
				os.Exit(3)
			}
		}
	}()
}

// WorkerMain is the entry point called from TestWorker.
func WorkerMain(t *testing.T) {
	mode := os.Getenv("VSIM_MODE")
	if mode == "" {
		t.Skip("VSIM_MODE not set")
	}
	prop := os.Getenv("VSIM_PROP")
	fam := Lookup(prop)
	if fam == nil && mode != "list" {
		fmt.Fprintf(os.Stderr, "worker: unknown property %q (have %v)\n", prop, FamilyIDs())
		os.Exit(2)
	}
	out := os.Getenv("VSIM_OUT")
	debug.SetGCPercent(-1)
	startWatchdog(time.Duration(envInt("VSIM_WATCHDOG_S", 60)) * time.Second)

	switch mode {
	case "list":
		writeJSON(out, FamilyIDs())
	case "info":
		writeJSON(out, map[string]any{
			"real": fam.Real, "simulated": fam.Simulated, "excluded": fam.Excluded,
			"rule": fam.Rule, "assumptions": fam.Assumptions,
		})
	case "gen":
		seed := envU64("VSIM_SEED", 1)
		sc := fam.Gen(seed, os.Getenv("VSIM_TIER"))
		writeJSON(out, sc)
	case "replay":
		workerReplay(t, fam, out)
	case "shrink":
		workerShrink(fam, out)
	case "batch":
		workerBatch(t, fam, out)
	default:
		fmt.Fprintln(os.Stderr, "worker: unknown mode", mode)
		os.Exit(2)
	}
}

func loadScenario(fam *Family) (any, *ReplayFile) {
	b, err := os.ReadFile(os.Getenv("VSIM_SCEN"))
	if err != nil {
		fmt.Fprintln(os.Stderr, "worker: read scenario:", err)
		os.Exit(2)
	}
	var rf ReplayFile
	if err := json.Unmarshal(b, &rf); err != nil {
		fmt.Fprintln(os.Stderr, "worker: parse scenario:", err)
		os.Exit(2)
	}
	sc, err := fam.Decode(rf.Scenario)
	if err != nil {
		fmt.Fprintln(os.Stderr, "worker: decode scenario:", err)
		os.Exit(2)
	}
	return sc, &rf
}

func workerReplay(t *testing.T, fam *Family, out string) {
	sc, _ := loadScenario(fam)
	Beat()
	FullLog = os.Getenv("VSIM_FULLLOG") != ""
	res := fam.Run(t, sc)
	if res != nil && res.StepBudgetHit && StepScale == 1 {
		// out of steps, not out of simulated time: a tool budget. Believe in a livelock only if
		// eight times the budget is not enough either.
		StepScale = 8
		res = fam.Run(t, sc)
		StepScale = 1
	}
	writeJSON(out, res)
	if res.Violation != nil {
		os.Exit(10)
	}
	os.Exit(0)
}

// FullLog asks families to attach the complete canonical log to results.
var FullLog bool

func workerShrink(fam *Family, out string) {
	sc, _ := loadScenario(fam)
	cands := fam.Shrink(sc)
	raw := make([]json.RawMessage, 0, len(cands))
	for _, c := range cands {
		b, _ := json.Marshal(c)
		raw = append(raw, b)
	}
	writeJSON(out, raw)
	os.Exit(0)
}

func workerBatch(t *testing.T, fam *Family, out string) {
	tier := os.Getenv("VSIM_TIER")
	base := envU64("VSIM_SEED_BASE", 1)
	w := envInt("VSIM_WORKER", 0)
	nw := envInt("VSIM_NWORKERS", 1)
	budget := time.Duration(envInt("VSIM_BUDGET_S", 30)) * time.Second
	maxRuns := envInt("VSIM_MAXRUNS", 1<<30)
	inflight := os.Getenv("VSIM_INFLIGHT")
	start := time.Now()

	sum := &Summary{Property: fam.ID, Worker: w, Faults: map[string]int{}, Probes: map[string]int{}, YieldHits: map[string]int{}}
	sigs := map[uint64]struct{}{}
	// signatures of known findings (from /verif/known_findings.txt, passed by the parent):
	// a violation whose class starts with one of them is recorded once and the batch goes on
	var known []string
	for _, k := range strings.Split(os.Getenv("VSIM_KNOWN"), "|") {
		if k = strings.TrimSpace(k); k != "" {
			known = append(known, k)
		}
	}
	knownSeen := map[string]bool{}
	for k := 0; k < maxRuns; k++ {
		if time.Since(start) > budget {
			break
		}
		seed := base + uint64(w) + uint64(k)*uint64(nw)
		if k == 0 {
			sum.FirstSeed = seed
		}
		sum.LastSeed = seed
		sc := fam.Gen(seed, tier)
		scRaw, _ := json.Marshal(sc)
		if inflight != "" {
			writeJSON(inflight, &ReplayFile{Property: fam.ID, Seed: seed, Scenario: scRaw})
		}
		Beat()
		res := fam.Run(t, sc)
		if res != nil && res.StepBudgetHit && StepScale == 1 {
			// out of steps, not out of simulated time: a tool budget. Believe in a livelock only if
			// eight times the budget is not enough either.
			StepScale = 8
			res = fam.Run(t, sc)
			StepScale = 1
		}
		sum.Runs++
		for k, v := range res.Faults {
			sum.Faults[k] += v
		}
		for k, v := range res.Probes {
			sum.Probes[k] += v
		}
		for k, v := range res.YieldHits {
			sum.YieldHits[k] += v
		}
		sum.SimNS += res.SimNS
		sum.SimS += float64(res.SimNS) / 1e9
		sum.Steps += int64(res.Steps)
		sum.Inconclusive += res.Inconclusive
		if res.Nontrivial {
			if _, ok := sigs[res.Sig]; !ok {
				sigs[res.Sig] = struct{}{}
			}
		}
		if res.Sample != nil && len(sum.Samples) < 3 {
			sum.Samples = append(sum.Samples, map[string]any{"seed": seed, "scenario": json.RawMessage(scRaw), "summary": res.Sample})
		}
		if res.Violation != nil {
			isKnown := ""
			for _, k := range known {
				if strings.HasPrefix(res.Violation.Class, k) {
					isKnown = k
				}
			}
			if isKnown != "" {
				sum.Probes["known_finding_hits"]++
				if !knownSeen[isKnown] {
					knownSeen[isKnown] = true
					sum.Known = append(sum.Known, &FoundViolation{Property: fam.ID, Seed: seed, Scenario: scRaw,
						Class: res.Violation.Class, Detail: res.Violation.Detail, Tail: res.Tail})
				}
				continue
			}
			sum.Violation = &FoundViolation{
				Property: fam.ID, Seed: seed, Scenario: scRaw,
				Class: res.Violation.Class, Detail: res.Violation.Detail, Tail: res.Tail,
			}
			break
		}
		if k%64 == 63 {
			runtime.GC()
		}
	}
	sum.Nontrivial = len(sigs)
	for s := range sigs {
		sum.Sigs = append(sum.Sigs, s)
	}
	sum.WallS = time.Since(start).Seconds()
	writeJSON(out, sum)
	if inflight != "" {
		os.Remove(inflight)
	}
	if sum.Violation != nil {
		os.Exit(10)
	}
	os.Exit(0)
}
