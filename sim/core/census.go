package core

import (
	"runtime"
	"strconv"
	"strings"
)

// G describes one goroutine of a stack dump.
type G struct {
	ID        int
	State     string // text between [ and ]
	Durable   bool
	Bubble    bool
	Frames    []string // function names, innermost first
	CreatedBy string
	Creator   int
}

// Has reports whether some frame contains substr.
func (g *G) Has(substr string) bool {
	for _, f := range g.Frames {
		if strings.Contains(f, substr) {
			return true
		}
	}
	return strings.Contains(g.CreatedBy, substr)
}

// Top returns the innermost frame containing substr, or "".
func (g *G) Top(substr string) string {
	for _, f := range g.Frames {
		if strings.Contains(f, substr) {
			return f
		}
	}
	return ""
}

// AllStacks returns the text of runtime.Stack(all).
func AllStacks() string {
	buf := make([]byte, 1<<20)
	for {
		n := runtime.Stack(buf, true)
		if n < len(buf) {
			return string(buf[:n])
		}
		buf = make([]byte, 2*len(buf))
	}
}

// Census parses a full stack dump.
func Census() []G { return ParseStacks(AllStacks()) }

// ParseStacks parses the text produced by runtime.Stack(all).
func ParseStacks(dump string) []G {
	var out []G
	for _, blk := range strings.Split(dump, "\n\n") {
		lines := strings.Split(strings.TrimSpace(blk), "\n")
		if len(lines) == 0 || !strings.HasPrefix(lines[0], "goroutine ") {
			continue
		}
		var g G
		hdr := lines[0]
		rest := strings.TrimPrefix(hdr, "goroutine ")
		sp := strings.IndexByte(rest, ' ')
		if sp < 0 {
			continue
		}
		g.ID, _ = strconv.Atoi(rest[:sp])
		if i := strings.IndexByte(rest, '['); i >= 0 {
			if j := strings.LastIndexByte(rest, ']'); j > i {
				g.State = rest[i+1 : j]
			}
		}
		g.Durable = strings.Contains(g.State, "(durable)")
		g.Bubble = strings.Contains(g.State, "synctest bubble")
		for _, l := range lines[1:] {
			if strings.HasPrefix(l, "\t") {
				continue
			}
			if strings.HasPrefix(l, "created by ") {
				c := strings.TrimPrefix(l, "created by ")
				if i := strings.Index(c, " in goroutine "); i >= 0 {
					g.Creator, _ = strconv.Atoi(strings.TrimSpace(c[i+len(" in goroutine "):]))
					c = c[:i]
				}
				g.CreatedBy = c
				continue
			}
			fn := l
			if i := strings.LastIndexByte(fn, '('); i > 0 {
				fn = fn[:i]
			}
			g.Frames = append(g.Frames, fn)
		}
		out = append(out, g)
	}
	return out
}

// BubbleOthers returns the goroutines of the current bubble other than the
// caller, filtered by keep (nil = all).
func BubbleOthers(self int, keep func(*G) bool) []G {
	var out []G
	for _, g := range Census() {
		if !g.Bubble || g.ID == self {
			continue
		}
		// the bubble's own infrastructure: the goroutine that called
		// synctest.Test and the one waiting for the bubble's root function
		if len(g.Frames) > 0 && (strings.HasPrefix(g.Frames[0], "internal/synctest.") || strings.HasPrefix(g.Frames[0], "testing/synctest.")) {
			continue
		}
		if keep != nil && !keep(&g) {
			continue
		}
		out = append(out, g)
	}
	return out
}

// GoID returns the calling goroutine's id.
func GoID() int {
	var buf [64]byte
	n := runtime.Stack(buf[:], false)
	s := strings.TrimPrefix(string(buf[:n]), "goroutine ")
	if i := strings.IndexByte(s, ' '); i > 0 {
		id, _ := strconv.Atoi(s[:i])
		return id
	}
	return 0
}

// Describe renders goroutines compactly for violation details.
func Describe(gs []G) string {
	var b strings.Builder
	for _, g := range gs {
		b.WriteString("g")
		b.WriteString(strconv.Itoa(g.ID))
		b.WriteString(" [")
		b.WriteString(g.State)
		b.WriteString("] ")
		n := 0
		for _, f := range g.Frames {
			if n >= 4 {
				break
			}
			b.WriteString(f)
			b.WriteString(" < ")
			n++
		}
		b.WriteString("created by ")
		b.WriteString(g.CreatedBy)
		b.WriteString("; ")
	}
	return b.String()
}
