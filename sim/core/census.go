package core

import (
	"runtime"
	"strconv"
	"strings"
)

// G describes one goroutine of a stack dump.
type G struct {
	ID        int
	State     string // text between [ and ]
	Durable   bool
	Bubble    bool
	Frames    []string // function names, innermost first
	Args      []string // argument text of each frame (as printed by the runtime)
	CreatedBy string
	Creator   int
}

// Has reports whether some frame contains substr.
func (g *G) Has(substr string) bool {
	for _, f := range g.Frames {
		if strings.Contains(f, substr) {
			return true
		}
	}
	return strings.Contains(g.CreatedBy, substr)
}

// Top returns the innermost frame containing substr, or "".
func (g *G) Top(substr string) string {
	for _, f := range g.Frames {
		if strings.Contains(f, substr) {
			return f
		}
	}
	return ""
}

// AllStacks returns the text of runtime.Stack(all).
func AllStacks() string {
	buf := make([]byte, 1<<20)
	for {
		n := runtime.Stack(buf, true)
		if n < len(buf) {
			return string(buf[:n])
		}
		buf = make([]byte, 2*len(buf))
	}
}

// Census parses a full stack dump. When the caller runs inside a synctest bubble, goroutines of
// OTHER bubbles are left out: an earlier run of this process that was abandoned (it ran out of
// scheduler steps and its bubble could not end) leaves its goroutines behind, durably blocked;
// they are not part of this run.
func Census() []G {
	all := ParseStacks(AllStacks())
	self := GoID()
	own := ""
	for _, g := range all {
		if g.ID == self {
			own = bubbleTag(g.State)
		}
	}
	if own == "" {
		return all
	}
	out := all[:0]
	for _, g := range all {
		if g.Bubble && bubbleTag(g.State) != own {
			continue
		}
		out = append(out, g)
	}
	return out
}

// ParseStacks parses the text produced by runtime.Stack(all).
func ParseStacks(dump string) []G {
	var out []G
	for _, blk := range strings.Split(dump, "\n\n") {
		lines := strings.Split(strings.TrimSpace(blk), "\n")
		if len(lines) == 0 || !strings.HasPrefix(lines[0], "goroutine ") {
			continue
		}
		var g G
		hdr := lines[0]
		rest := strings.TrimPrefix(hdr, "goroutine ")
		sp := strings.IndexByte(rest, ' ')
		if sp < 0 {
			continue
		}
		g.ID, _ = strconv.Atoi(rest[:sp])
		if i := strings.IndexByte(rest, '['); i >= 0 {
			if j := strings.LastIndexByte(rest, ']'); j > i {
				g.State = rest[i+1 : j]
			}
		}
		g.Durable = strings.Contains(g.State, "(durable)")
		g.Bubble = strings.Contains(g.State, "synctest bubble")
		for _, l := range lines[1:] {
			if strings.HasPrefix(l, "\t") {
				continue
			}
			if strings.HasPrefix(l, "created by ") {
				c := strings.TrimPrefix(l, "created by ")
				if i := strings.Index(c, " in goroutine "); i >= 0 {
					g.Creator, _ = strconv.Atoi(strings.TrimSpace(c[i+len(" in goroutine "):]))
					c = c[:i]
				}
				g.CreatedBy = c
				continue
			}
			fn := l
			args := ""
			if i := strings.LastIndexByte(fn, '('); i > 0 {
				args = strings.TrimSuffix(fn[i+1:], ")")
				fn = fn[:i]
			}
			g.Frames = append(g.Frames, fn)
			g.Args = append(g.Args, args)
		}
		out = append(out, g)
	}
	return out
}

// BubbleOthers returns the goroutines of the current bubble other than the
// caller, filtered by keep (nil = all).
func BubbleOthers(self int, keep func(*G) bool) []G {
	var out []G
	all := Census()
	// the caller's own bubble: goroutines of an earlier bubble of this process that could not end
	// (a run that was abandoned when it ran out of scheduler steps) are not this run's business
	own := ""
	for _, g := range all {
		if g.ID == self {
			own = bubbleTag(g.State)
		}
	}
	for _, g := range all {
		if !g.Bubble || g.ID == self {
			continue
		}
		if own != "" && bubbleTag(g.State) != own {
			continue
		}
		// the bubble's own infrastructure: the goroutine that called
		// synctest.Test and the one waiting for the bubble's root function
		if len(g.Frames) > 0 && (strings.HasPrefix(g.Frames[0], "internal/synctest.") || strings.HasPrefix(g.Frames[0], "testing/synctest.")) {
			continue
		}
		// a goroutine whose function has returned and that is on its way out (seen "runnable" in
		// runtime.goexit1 once in ~10^6 censuses) is not left behind by anybody
		if len(g.Frames) > 0 && strings.HasPrefix(g.Frames[0], "runtime.goexit") {
			continue
		}
		if keep != nil && !keep(&g) {
			continue
		}
		out = append(out, g)
	}
	return out
}

// bubbleTag extracts "synctest bubble N" from a goroutine state.
func bubbleTag(state string) string {
	i := strings.Index(state, "synctest bubble")
	if i < 0 {
		return ""
	}
	t := state[i:]
	if j := strings.IndexAny(t, ",]"); j >= 0 {
		t = t[:j]
	}
	return strings.TrimSpace(t)
}

// GoID returns the calling goroutine's id.
func GoID() int {
	var buf [64]byte
	n := runtime.Stack(buf[:], false)
	s := strings.TrimPrefix(string(buf[:n]), "goroutine ")
	if i := strings.IndexByte(s, ' '); i > 0 {
		id, _ := strconv.Atoi(s[:i])
		return id
	}
	return 0
}

// Describe renders goroutines compactly for violation details.
func Describe(gs []G) string {
	var b strings.Builder
	for _, g := range gs {
		b.WriteString("g")
		b.WriteString(strconv.Itoa(g.ID))
		b.WriteString(" [")
		b.WriteString(g.State)
		b.WriteString("] ")
		n := 0
		for _, f := range g.Frames {
			if n >= 4 {
				break
			}
			b.WriteString(f)
			b.WriteString(" < ")
			n++
		}
		b.WriteString("created by ")
		b.WriteString(g.CreatedBy)
		b.WriteString("; ")
	}
	return b.String()
}

// Owners attributes goroutines to the library object that created them
// (transitively), across successive censuses of one run. Goroutine ids are
// never reused, so the map only grows. Attribution is best effort: a goroutine
// whose creator died before any census saw it stays unattributed, which can
// only make the per-object leak check miss something, never raise a false
// alarm (the end-of-run census is complete).
type Owners struct {
	byGID map[int]string
	// Classify returns the owner of a goroutine from its own frames ("" = unknown).
	Classify func(g *G) string
}

// NewOwners creates a tracker.
func NewOwners(classify func(g *G) string) *Owners {
	return &Owners{byGID: map[int]string{}, Classify: classify}
}

// Update takes a census and returns the goroutines of the bubble with their owners.
func (o *Owners) Update(self int) (gs []G, owner map[int]string) {
	gs = BubbleOthers(self, nil)
	for changed := true; changed; {
		changed = false
		for i := range gs {
			g := &gs[i]
			if _, ok := o.byGID[g.ID]; ok {
				continue
			}
			if own := o.Classify(g); own != "" {
				o.byGID[g.ID] = own
				changed = true
				continue
			}
			if own, ok := o.byGID[g.Creator]; ok && own != "" {
				o.byGID[g.ID] = own
				changed = true
			}
		}
	}
	return gs, o.byGID
}

// Owned returns the live goroutines attributed to owner.
func (o *Owners) Owned(self int, owner string) []G {
	gs, m := o.Update(self)
	var out []G
	for _, g := range gs {
		if m[g.ID] == owner {
			out = append(out, g)
		}
	}
	return out
}
