// Package core holds the simulator's substrate: hash-derived choices, the
// event log, the bubble runner, the scheduler S, the goroutine census and the
// worker side of the parent/worker protocol.
package core

import "time"

// Mix is the splitmix64 finaliser.
func Mix(x uint64) uint64 {
	x += 0x9e3779b97f4a7c15
	x = (x ^ (x >> 30)) * 0xbf58476d1ce4e5b9
	x = (x ^ (x >> 27)) * 0x94d049bb133111eb
	return x ^ (x >> 31)
}

func hashStr(h uint64, s string) uint64 {
	for i := 0; i < len(s); i++ {
		h = (h ^ uint64(s[i])) * 0x100000001b3
	}
	return Mix(h)
}

// H derives one choice from (seed, kind, ids...). There is no shared PRNG
// state: the value does not depend on who asks first (DESIGN 2.5).
func H(seed uint64, kind string, ids ...uint64) uint64 {
	h := hashStr(Mix(seed^0xcbf29ce484222325), kind)
	for _, id := range ids {
		h = Mix(h ^ Mix(id))
	}
	return h
}

// HS is H with a string entity id.
func HS(seed uint64, kind string, ent string, ids ...uint64) uint64 {
	h := hashStr(hashStr(Mix(seed^0xcbf29ce484222325), kind), ent)
	for _, id := range ids {
		h = Mix(h ^ Mix(id))
	}
	return h
}

// Unit maps a hash to [0,1).
func Unit(h uint64) float64 { return float64(h>>11) / float64(1<<53) }

// Rand is a small sequential PRNG used only by scenario generators (which run
// before the simulation starts) and never inside a run.
type Rand struct{ s uint64 }

// NewRand returns a generator PRNG for a seed and a stream label.
func NewRand(seed uint64, label string) *Rand {
	return &Rand{s: hashStr(Mix(seed), label)}
}

// U64 returns the next 64 random bits.
func (r *Rand) U64() uint64 {
	r.s += 0x9e3779b97f4a7c15
	return Mix(r.s)
}

// Intn returns a value in [0,n).
func (r *Rand) Intn(n int) int {
	if n <= 0 {
		return 0
	}
	return int(r.U64() % uint64(n))
}

// Range returns a value in [lo,hi].
func (r *Rand) Range(lo, hi int) int {
	if hi <= lo {
		return lo
	}
	return lo + r.Intn(hi-lo+1)
}

// Float returns a value in [0,1).
func (r *Rand) Float() float64 { return Unit(r.U64()) }

// Bool returns true with probability p.
func (r *Rand) Bool(p float64) bool { return r.Float() < p }

// Dur returns a duration in [lo,hi] with ns granularity.
func (r *Rand) Dur(lo, hi time.Duration) time.Duration {
	if hi <= lo {
		return lo
	}
	return lo + time.Duration(r.U64()%uint64(hi-lo+1))
}

// Pick returns one of the given ints.
func (r *Rand) Pick(v ...int) int { return v[r.Intn(len(v))] }

// Bytes fills a fresh slice with random bytes.
func (r *Rand) Bytes(n int) []byte {
	b := make([]byte, n)
	for i := 0; i < n; i += 8 {
		v := r.U64()
		for j := 0; j < 8 && i+j < n; j++ {
			b[i+j] = byte(v >> (8 * j))
		}
	}
	return b
}
