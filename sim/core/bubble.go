package core

import (
	"fmt"
	"runtime/debug"
	"testing"
	"testing/synctest"
)

// InBubble runs f inside one synctest bubble. A panic raised by f itself is
// returned as a value with its stack; the end-of-bubble deadlock panic
// ("blocked goroutines remain") is returned as deadlock != nil.
func InBubble(t *testing.T, f func()) (panicked any, stack string, deadlock any) {
	defer func() {
		if r := recover(); r != nil {
			deadlock = r
		}
	}()
	synctest.Test(t, func(*testing.T) {
		defer func() {
			if r := recover(); r != nil {
				panicked = r
				stack = string(debug.Stack())
			}
		}()
		f()
	})
	return
}

// PanicViolation converts a harness-visible panic into a violation.
func PanicViolation(p any, stack string) *Violation {
	return &Violation{Class: "panic", Detail: fmt.Sprintf("%v\n%s", p, stack)}
}
