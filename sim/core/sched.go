package core

import (
	"container/heap"
	"errors"
	"sort"
	"strings"
	"sync"
	"sync/atomic"
	"testing/synctest"
	"time"
)

// ev is one scheduled decision.
type ev struct {
	at   time.Time
	seq  uint64
	kind string
	run  func()
}

type evHeap []*ev

func (h evHeap) Len() int { return len(h) }
func (h evHeap) Less(i, j int) bool {
	if !h[i].at.Equal(h[j].at) {
		return h[i].at.Before(h[j].at)
	}
	return h[i].seq < h[j].seq
}
func (h evHeap) Swap(i, j int) { h[i], h[j] = h[j], h[i] }
func (h *evHeap) Push(x any)   { *h = append(*h, x.(*ev)) }
func (h *evHeap) Pop() any {
	o := *h
	n := len(o)
	x := o[n-1]
	*h = o[:n-1]
	return x
}

// ErrBudget is returned by Run when the step or simulated-time budget is hit.
var ErrBudget = errors.New("scheduler budget exhausted")

// ErrSteps is returned by Run when the step budget (a limit of the tool, not of the system
// under test) is hit before the simulated-time horizon.
var ErrSteps = errors.New("scheduler step budget exhausted")

// StepScale multiplies every step budget: the worker re-runs a scenario that ran out of steps
// with a larger budget before it believes in a livelock.
var StepScale = 1

// Pending is readable by the real-time watchdog (outside the bubble).
var Pending atomic.Int64

type parked struct {
	site string
	gid  int
	k    int
	ch   chan struct{}
}

// Sched is the scheduler goroutine S of DESIGN 2.4. It must be created and
// run inside the bubble.
type Sched struct {
	Seed     uint64
	MaxSteps int
	Horizon  time.Duration // simulated
	Steps    int
	Log      *Log

	start      time.Time
	hmu        sync.Mutex // protects h and seq: drivers may schedule events too
	h          evHeap
	seq        uint64
	wake       chan struct{}
	collectors []func()
	invariants []func() error

	// yield points
	ymu       sync.Mutex
	ownerGID  int
	yEnabled  map[string]YieldSpec
	yPrefix   []yPrefix
	yArrivals map[string]uint64
	yHits     map[string]int
	yNew      []*parked
	YieldHits map[string]int // per-site hit counters (reach probes)
	MaxHold   time.Duration
	holdTotal atomic.Int64 // sum of all hold times assigned so far (injected-delay budget)
}

// HoldTotal returns the sum of the yield hold times assigned so far.
func (s *Sched) HoldTotal() time.Duration { return time.Duration(s.holdTotal.Load()) }

// YieldSpec says how a yield site behaves in this run.
type YieldSpec struct {
	// Mode: 0 = hash-derived hold from the default distribution,
	// 1 = fixed hold Hold on hit number Hit (explicit fault entry), others 0.
	Mode int           `json:"mode,omitempty"`
	Hit  int           `json:"hit,omitempty"`
	Hold time.Duration `json:"hold,omitempty"`
	// Scale multiplies the default distribution (0 = 1).
	Scale int `json:"scale,omitempty"`
	// Hot marks a site hit once per packet: second-long holds ("stalled
	// thread") are then drawn with probability 0.4% instead of 7% so that most
	// runs make progress between stalls.
	Hot bool `json:"hot,omitempty"`
	// Prob (0 = always): the goroutine parks at a hit of the site with this probability only
	// (decided by H(seed, site, arrival index)); used for the automatic per-statement sites,
	// which are enabled by prefix ("auto:receiver:" = every statement of receiver.go).
	Prob float64 `json:"prob,omitempty"`
}

// NewSched creates the scheduler. Call inside the bubble.
func NewSched(seed uint64, log *Log) *Sched {
	return &Sched{
		Seed:      seed,
		MaxSteps:  200000,
		Horizon:   10 * time.Minute,
		Log:       log,
		start:     time.Now(),
		wake:      make(chan struct{}, 1),
		ownerGID:  GoID(),
		yEnabled:  map[string]YieldSpec{},
		yArrivals: map[string]uint64{},
		yHits:     map[string]int{},
		YieldHits: map[string]int{},
	}
}

// Now returns simulated time since the scheduler's creation.
func (s *Sched) Now() time.Duration { return time.Since(s.start) }

// Ping wakes S (non-blocking); called by any socket call or parked yield.
func (s *Sched) Ping() {
	select {
	case s.wake <- struct{}{}:
	default:
	}
}

// AddCollector registers a function S calls after every quiescence to turn
// new work (outbox entries, closes) into events.
func (s *Sched) AddCollector(f func()) { s.collectors = append(s.collectors, f) }

// AddInvariant registers a cheap invariant evaluated after every step.
func (s *Sched) AddInvariant(f func() error) { s.invariants = append(s.invariants, f) }

// At schedules f at absolute simulated time t (clamped to now).
func (s *Sched) At(t time.Time, kind string, f func()) {
	s.hmu.Lock()
	s.seq++
	heap.Push(&s.h, &ev{at: t, seq: s.seq, kind: kind, run: f})
	Pending.Store(int64(len(s.h)))
	s.hmu.Unlock()
	s.Ping()
}

// After schedules f after d.
func (s *Sched) After(d time.Duration, kind string, f func()) {
	if d < 0 {
		d = 0
	}
	s.At(time.Now().Add(d), kind, f)
}

// PendingEvents returns the number of scheduled events.
func (s *Sched) PendingEvents() int {
	s.hmu.Lock()
	defer s.hmu.Unlock()
	return len(s.h)
}

// Busy reports whether any decision is still pending: a scheduled event
// (delivery, resume of a parked goroutine, ...) or a freshly parked yield.
func (s *Sched) Busy() bool {
	s.hmu.Lock()
	n := len(s.h)
	s.hmu.Unlock()
	s.ymu.Lock()
	n += len(s.yNew)
	s.ymu.Unlock()
	return n > 0
}

// EnableYield enables a yield site for this run.
func (s *Sched) EnableYield(site string, spec YieldSpec) {
	if strings.HasSuffix(site, ":") {
		s.yPrefix = append(s.yPrefix, yPrefix{site, spec})
		return
	}
	s.yEnabled[site] = spec
}

type yPrefix struct {
	prefix string
	spec   YieldSpec
}

// autoGroup: "auto:receiver:Receiver.run:5" is counted as "auto:receiver".
func autoGroup(site string) string {
	if i := strings.Index(site[5:], ":"); i >= 0 {
		return site[:5+i]
	}
	return site
}

// Yield is installed as verifhook.Yield: it parks the calling library
// goroutine until S resumes it. A site not enabled for this run returns at
// once (but is counted).
func (s *Sched) Yield(site string) {
	auto := strings.HasPrefix(site, "auto:")
	s.ymu.Lock()
	if auto {
		s.YieldHits[autoGroup(site)]++
	} else {
		s.YieldHits[site]++
	}
	spec, ok := s.yEnabled[site]
	if !ok && auto {
		for _, p := range s.yPrefix {
			if strings.HasPrefix(site, p.prefix) {
				spec, ok = p.spec, true
				s.yEnabled[site] = spec // holdFor looks the site up by name
				break
			}
		}
	}
	if !ok {
		s.ymu.Unlock()
		return
	}
	if spec.Prob > 0 {
		n := s.yArrivals[site]
		s.yArrivals[site] = n + 1
		if Unit(HS(s.Seed, "yieldprob", site, n)) >= spec.Prob {
			s.ymu.Unlock()
			return
		}
		s.YieldHits[autoGroup(site)+" parked"]++
	}
	s.ymu.Unlock()
	if GoID() == s.ownerGID {
		// the scheduler's own goroutine (set-up code of a run calling into the library): nobody
		// could resume it
		return
	}
	// The per-site hit index is assigned at collection time, in goroutine-id
	// order, so that it does not depend on which of several goroutines woken by
	// the same decision (e.g. a fan-out over a map of readers) got here first.
	p := &parked{site: site, gid: GoID(), ch: make(chan struct{})}
	s.ymu.Lock()
	s.yNew = append(s.yNew, p)
	s.ymu.Unlock()
	s.Ping()
	<-p.ch
}

func (s *Sched) holdFor(site string, k int) time.Duration {
	spec := s.yEnabled[site]
	if spec.Mode == 1 {
		if k == spec.Hit {
			return spec.Hold
		}
		return 0
	}
	h := HS(s.Seed, "yield", site, uint64(k))
	u := Unit(h)
	scale := time.Duration(1)
	if spec.Scale > 0 {
		scale = time.Duration(spec.Scale)
	}
	var d time.Duration
	switch {
	case u < 0.35:
		d = 0
	case u < 0.70:
		d = time.Duration(1+Mix(h)%50000) * time.Nanosecond // up to 50us
	case u < 0.93 || (spec.Hot && u < 0.996):
		d = time.Duration(1+Mix(h)%20000) * time.Microsecond // up to 20ms
	default:
		d = time.Duration(1+Mix(h)%3000) * time.Millisecond // stalled thread, up to 3s
	}
	d *= scale
	if s.MaxHold > 0 && d > s.MaxHold {
		d = s.MaxHold
	}
	return d
}

func (s *Sched) collectYields() {
	s.ymu.Lock()
	nw := s.yNew
	s.yNew = nil
	s.ymu.Unlock()
	if len(nw) == 0 {
		return
	}
	sort.SliceStable(nw, func(i, j int) bool {
		if nw[i].site != nw[j].site {
			return nw[i].site < nw[j].site
		}
		return nw[i].gid < nw[j].gid
	})
	// Goroutines that arrive at one site within one scheduler step are indistinguishable for a
	// replay (goroutine ids are handed out per P in batches: their order is not the creation order
	// when GOMAXPROCS > 1): they all get the hit index - and therefore the hold - of the first.
	for i, p := range nw {
		p := p
		if i > 0 && nw[i-1].site == p.site {
			p.k = nw[i-1].k
		} else {
			p.k = s.yHits[p.site]
		}
		s.yHits[p.site]++
		d := s.holdFor(p.site, p.k)
		if spec := s.yEnabled[p.site]; spec.Mode == 1 && d == 0 && spec.Hit > p.k && spec.Hit < s.yHits[p.site] {
			d = spec.Hold
		}
		s.holdTotal.Add(int64(d))
		if s.Log != nil {
			s.Log.Add("yield:"+p.site, "park", "k=%d hold=%d", p.k, int64(d))
		}
		s.After(d, "resume:"+p.site, func() { close(p.ch) })
	}
}

// ReleaseAllYields resumes everything parked and disables all sites (used at
// teardown so that nothing stays parked).
func (s *Sched) ReleaseAllYields() {
	s.ymu.Lock()
	s.yEnabled = map[string]YieldSpec{}
	s.yPrefix = nil
	nw := s.yNew
	s.yNew = nil
	s.ymu.Unlock()
	for _, p := range nw {
		close(p.ch)
	}
}

// Run executes the loop of DESIGN 2.4 until done() holds and nothing is
// scheduled, or a budget is hit, or an invariant fails.
func (s *Sched) Run(done func() bool) error {
	deadline := s.start.Add(s.Horizon)
	for {
		synctest.Wait()
		for _, c := range s.collectors {
			c()
		}
		s.collectYields()
		for _, inv := range s.invariants {
			if err := inv(); err != nil {
				return err
			}
		}
		now := time.Now()
		s.hmu.Lock()
		n := len(s.h)
		Pending.Store(int64(n))
		var e *ev
		if n > 0 {
			e = s.h[0]
		}
		s.hmu.Unlock()
		if e == nil {
			if done() {
				return nil
			}
			if !now.Before(deadline) {
				return ErrBudget
			}
			t := time.NewTimer(deadline.Sub(now))
			select {
			case <-s.wake:
				t.Stop()
			case <-t.C:
			}
			continue
		}
		if s.Steps >= s.MaxSteps*StepScale && now.Before(deadline) {
			return ErrSteps
		}
		if s.Steps >= s.MaxSteps*StepScale || !now.Before(deadline) {
			return ErrBudget
		}
		if e.at.After(now) {
			t := time.NewTimer(e.at.Sub(now))
			select {
			case <-s.wake:
				t.Stop()
			case <-t.C:
			}
			continue
		}
		s.hmu.Lock()
		e = heap.Pop(&s.h).(*ev)
		s.hmu.Unlock()
		s.Steps++
		if s.Steps&1023 == 0 {
			Beat() // progress the real-time watchdog can see
		}
		e.run()
	}
}

// Drain applies all remaining events immediately (teardown helper).
func (s *Sched) Drain() {
	for {
		s.hmu.Lock()
		if len(s.h) == 0 {
			s.hmu.Unlock()
			break
		}
		e := heap.Pop(&s.h).(*ev)
		s.hmu.Unlock()
		e.run()
	}
	Pending.Store(0)
}
