package core

import (
	"fmt"
	"sort"
	"sync"
	"sync/atomic"
	"time"
)

// Event is one entry of the event log.
type Event struct {
	G    uint64 // process-wide sequence number: the order that really happened
	T    int64  // simulated ns since the start of the run
	Ent  string // entity (node, conn, session, driver ...)
	Idx  int    // per-entity index
	Kind string
	F    string
}

// Log is the per-run event log. Appending never blocks durably and never
// consumes a random choice or reads a real clock.
type Log struct {
	mu     sync.Mutex
	ev     []Event
	g      atomic.Uint64
	start  time.Time
	perEnt map[string]int
	Quiet  bool
}

// NewLog creates a log whose time origin is now (fake clock inside a bubble).
func NewLog() *Log {
	return &Log{start: time.Now(), perEnt: map[string]int{}}
}

// Start returns the time origin.
func (l *Log) Start() time.Time { return l.start }

// NextG returns a fresh global sequence number without logging.
func (l *Log) NextG() uint64 { return l.g.Add(1) }

// Add appends an event and returns its global sequence number.
func (l *Log) Add(ent, kind, format string, args ...any) uint64 {
	g := l.g.Add(1)
	if l.Quiet {
		return g
	}
	f := format
	if len(args) > 0 {
		f = fmt.Sprintf(format, args...)
	}
	t := int64(time.Since(l.start))
	l.mu.Lock()
	idx := l.perEnt[ent]
	l.perEnt[ent] = idx + 1
	l.ev = append(l.ev, Event{G: g, T: t, Ent: ent, Idx: idx, Kind: kind, F: f})
	l.mu.Unlock()
	return g
}

// Events returns a copy of the events in real (gseq) order.
func (l *Log) Events() []Event {
	l.mu.Lock()
	defer l.mu.Unlock()
	out := make([]Event, len(l.ev))
	copy(out, l.ev)
	return out
}

// Canonical returns the log ordered by (T, Ent, Idx): iteration order over
// independent entities at the same instant does not change it (DESIGN 2.8).
func (l *Log) Canonical() []string {
	ev := l.Events()
	sort.SliceStable(ev, func(i, j int) bool {
		if ev[i].T != ev[j].T {
			return ev[i].T < ev[j].T
		}
		if ev[i].Ent != ev[j].Ent {
			return ev[i].Ent < ev[j].Ent
		}
		return ev[i].Idx < ev[j].Idx
	})
	out := make([]string, len(ev))
	for i, e := range ev {
		out[i] = fmt.Sprintf("%d %s#%d %s %s", e.T, e.Ent, e.Idx, e.Kind, e.F)
	}
	return out
}

// Sig hashes the canonical log.
func (l *Log) Sig() uint64 {
	h := uint64(0x9e3779b97f4a7c15)
	for _, s := range l.Canonical() {
		h = hashStr(h, s)
	}
	return h
}

// Tail returns the last n canonical lines (for violation details / samples).
func (l *Log) Tail(n int) []string {
	c := l.Canonical()
	if len(c) > n {
		c = c[len(c)-n:]
	}
	return c
}
