// Package simnet is the simulated network of DESIGN 2.3: nodes, stream and
// datagram sockets, listeners, taps and fault kinds. Every delivery is a
// decision of the scheduler S; every choice is hash-derived from the seed and
// the (entity, per-entity index) of the operation it applies to.
//
// All sockets must be created and used inside the synctest bubble. Blocking
// always happens on bubble channels (durable), never on a mutex: the package
// mutex is held only for short, non-blocking critical sections.
package simnet

import (
	"context"
	"errors"
	"fmt"
	"io"
	"net"
	"os"
	"sort"
	"strconv"
	"sync"
	"syscall"
	"time"

	"verifsim/core"
)

// Config holds the fault rates and knobs of one run.
type Config struct {
	Seed uint64 `json:"seed"`

	LatMinUS int `json:"lat_min_us"` // one-way latency, microseconds
	LatMaxUS int `json:"lat_max_us"`

	// Chunking of stream writes: 0 = one segment per write, 1 = random
	// segments, 2 = 1-byte segments for writes up to ChunkMaxLen bytes (and
	// random segments above), 3 = mix chosen per write.
	ChunkMode   int `json:"chunk_mode"`
	ChunkMaxLen int `json:"chunk_max_len"`

	UDPDrop    float64 `json:"udp_drop"`
	UDPDup     float64 `json:"udp_dup"`
	UDPReorder float64 `json:"udp_reorder"` // probability of an extra delay
	UDPJitUS   int     `json:"udp_jit_us"`  // size of that extra delay
	UDPCorrupt float64 `json:"udp_corrupt"`
	// UDPBurst drops BurstLen consecutive datagrams with this probability.
	UDPBurst float64 `json:"udp_burst"`
	BurstLen int     `json:"burst_len"`

	// Window bounds the bytes in flight per direction on plain stream links
	// (0 = unbounded). Never enable under TLS / WebSocket (DESIGN 2.3).
	Window int `json:"window"`

	// UDPIPv6Form makes ReadFrom report IPv4 sources in 16-byte form.
	UDPIPv6Form bool `json:"udp_ipv6_form"`
	// Coalesce is the probability that a write is merged with the write before it when both are
	// waiting for delivery at the same instant (one byte run, then chunked as one write).
	Coalesce float64 `json:"tcp_coalesce,omitempty"`
}

// TapEvent is what a wire tap sees.
type TapEvent struct {
	Kind string // "tcp.write", "tcp.deliver", "udp.send", "udp.deliver"
	Node string
	Sock string
	From net.Addr
	To   net.Addr
	Data []byte
}

// Net is one simulated network.
type Net struct {
	Cfg   Config
	S     *core.Sched
	Log   *core.Log
	Stats map[string]int

	mu        sync.Mutex
	nodes     map[string]*Node // by name
	byIP      map[string]*Node
	hosts     map[string]net.IP
	listeners map[string]*Listener
	udp       map[string]*UDPSock
	conns     []*Conn
	udps      []*UDPSock
	dials     []*dial
	taps      []func(TapEvent)
	parts     map[string]time.Time // "a|b" -> until
	// FailListenPacket makes ListenPacket fail for these "ip:port" (udp.port_in_use).
	FailListenPacket map[string]bool
}

// New creates a network driven by scheduler s.
func New(cfg Config, s *core.Sched, log *core.Log) *Net {
	n := &Net{
		Cfg: cfg, S: s, Log: log, Stats: map[string]int{},
		nodes: map[string]*Node{}, byIP: map[string]*Node{}, hosts: map[string]net.IP{},
		listeners: map[string]*Listener{}, udp: map[string]*UDPSock{},
		parts: map[string]time.Time{}, FailListenPacket: map[string]bool{},
	}
	if n.Cfg.LatMaxUS < n.Cfg.LatMinUS {
		n.Cfg.LatMaxUS = n.Cfg.LatMinUS
	}
	s.AddCollector(n.collect)
	return n
}

// AddTap registers a wire tap. Taps are called without the package lock and
// must not block.
func (n *Net) AddTap(f func(TapEvent)) { n.taps = append(n.taps, f) }

func (n *Net) tap(ev TapEvent) {
	for _, f := range n.taps {
		f(ev)
	}
}

func (n *Net) stat(k string) { n.Stats[k]++ }

// Node is a host with one IP address.
type Node struct {
	net      *Net
	Name     string
	IP       net.IP
	nDial    int
	nUDP     int
	nMcast   int
	udpBlack bool // datagrams addressed to this node are dropped (udp.blackhole)
	nextPort int
	vanished bool
}

// Node creates (or returns) a node.
func (n *Net) Node(name, ip string) *Node {
	n.mu.Lock()
	defer n.mu.Unlock()
	if nd, ok := n.nodes[name]; ok {
		return nd
	}
	pip := net.ParseIP(ip)
	if v4 := pip.To4(); v4 != nil {
		pip = v4
	}
	nd := &Node{net: n, Name: name, IP: pip, nextPort: 40000}
	n.nodes[name] = nd
	n.byIP[pip.String()] = nd
	return nd
}

// AddHost adds a DNS entry.
func (n *Net) AddHost(name string, ip string) { n.hosts[name] = net.ParseIP(ip) }

// ResolveIPAddr is the DNS seam.
func (n *Net) ResolveIPAddr(_ string, address string) (*net.IPAddr, error) {
	if ip := net.ParseIP(address); ip != nil {
		return &net.IPAddr{IP: ip}, nil
	}
	if ip, ok := n.hosts[address]; ok {
		return &net.IPAddr{IP: ip}, nil
	}
	return nil, &net.DNSError{Err: "no such host", Name: address, IsNotFound: true}
}

func (n *Net) resolve(host string) (net.IP, error) {
	if host == "" || host == "0.0.0.0" || host == "::" {
		return nil, nil
	}
	if ip := net.ParseIP(host); ip != nil {
		if v4 := ip.To4(); v4 != nil {
			return v4, nil
		}
		return ip, nil
	}
	if ip, ok := n.hosts[host]; ok {
		if v4 := ip.To4(); v4 != nil {
			return v4, nil
		}
		return ip, nil
	}
	return nil, &net.DNSError{Err: "no such host", Name: host, IsNotFound: true}
}

// ---- errors -----------------------------------------------------------------

type timeoutError struct{}

func (timeoutError) Error() string   { return "i/o timeout" }
func (timeoutError) Timeout() bool   { return true }
func (timeoutError) Temporary() bool { return true }
func (timeoutError) Is(err error) bool {
	return err == os.ErrDeadlineExceeded || err == context.DeadlineExceeded
}

var errTimeout error = timeoutError{}

func opErr(op string, addr net.Addr, err error) error {
	return &net.OpError{Op: op, Net: "tcp", Addr: addr, Err: err}
}

// ---- latency / chunking choices ------------------------------------------------

func (n *Net) latency(kind, ent string, idx uint64) time.Duration {
	lo, hi := n.Cfg.LatMinUS, n.Cfg.LatMaxUS
	h := core.HS(n.Cfg.Seed, kind, ent, idx)
	us := lo
	if hi > lo {
		us = lo + int(h%uint64(hi-lo+1))
	}
	// ns granularity so that two wake-ups practically never coincide (DESIGN 2.2)
	return time.Duration(us)*time.Microsecond + time.Duration(core.Mix(h)%1000)
}

// segments partitions a write of length l.
func (n *Net) segments(ent string, idx uint64, l int) []int {
	if l == 0 {
		return nil
	}
	mode := n.Cfg.ChunkMode
	h := core.HS(n.Cfg.Seed, "chunk", ent, idx)
	if mode == 3 {
		mode = int(h % 3)
		h = core.Mix(h)
	}
	switch mode {
	case 0:
		return []int{l}
	case 2:
		if l <= n.Cfg.ChunkMaxLen {
			out := make([]int, l)
			for i := range out {
				out[i] = 1
			}
			n.stat("tcp.chunk1")
			return out
		}
		fallthrough
	default:
		var out []int
		rem := l
		k := uint64(0)
		for rem > 0 {
			hh := core.Mix(h + k)
			k++
			var sz int
			switch hh % 4 {
			case 0:
				sz = 1 + int((hh>>8)%4)
			case 1:
				sz = 1 + int((hh>>8)%64)
			default:
				sz = 1 + int((hh>>8)%uint64(rem))
			}
			if sz > rem {
				sz = rem
			}
			out = append(out, sz)
			rem -= sz
			if len(out) > 48 { // bound the number of steps per write
				out = append(out, rem)
				rem = 0
			}
		}
		if len(out) > 1 && out[len(out)-1] == 0 {
			out = out[:len(out)-1]
		}
		if len(out) > 1 {
			n.stat("tcp.chunkN")
		}
		return out
	}
}

// ---- stream sockets ----------------------------------------------------------

type outEntry struct {
	at   time.Time
	data []byte
	fin  bool
}

type heldSeg struct {
	data []byte
	fin  bool
}

// Conn is one endpoint of a simulated TCP connection.
type Conn struct {
	net    *Net
	ID     string
	node   *Node
	peer   *Conn
	local  *net.TCPAddr
	remote *net.TCPAddr

	out      []outEntry
	nOut     uint64
	inflight int
	lastDel  time.Time
	segSeq   int             // next segment number to assign (sender side)
	nextSeg  int             // next segment number to deliver to the peer
	held     map[int]heldSeg // segments that fired before their predecessors

	rbuf     []byte
	rEOF     bool
	rst      bool
	closed   bool
	finSent  bool
	rdl, wdl time.Time
	sig      chan struct{}

	stallUntil time.Time // deliveries to this endpoint are postponed until then
	// TruncateAfter > 0: the connection is reset after this many bytes have
	// been delivered to this endpoint (tcp.truncate_at_offset).
	TruncateAfter int
	delivered     int
	// FailWrite / FailRead: the next Write / Read returns this error once.
	FailWrite, FailRead error
	OpenedAt            time.Time
}

func (c *Conn) signal() {
	close(c.sig)
	c.sig = make(chan struct{})
}

// wait blocks (durably) until the endpoint's state changes or the deadline
// passes. Called without the lock.
func wait(sig chan struct{}, dl time.Time) {
	if dl.IsZero() {
		<-sig
		return
	}
	d := time.Until(dl)
	if d <= 0 {
		return
	}
	t := time.NewTimer(d)
	select {
	case <-sig:
		t.Stop()
	case <-t.C:
	}
}

// Read implements net.Conn.
func (c *Conn) Read(p []byte) (int, error) {
	n := c.net
	for {
		n.mu.Lock()
		if c.FailRead != nil {
			err := c.FailRead
			c.FailRead = nil
			n.stat("io.read_err")
			n.mu.Unlock()
			return 0, err
		}
		if c.closed {
			n.mu.Unlock()
			return 0, opErr("read", c.local, net.ErrClosed)
		}
		if len(c.rbuf) > 0 {
			k := copy(p, c.rbuf)
			c.rbuf = c.rbuf[k:]
			n.mu.Unlock()
			return k, nil
		}
		if c.rst {
			n.mu.Unlock()
			return 0, opErr("read", c.local, syscall.ECONNRESET)
		}
		if c.rEOF {
			n.mu.Unlock()
			return 0, io.EOF
		}
		if !c.rdl.IsZero() && !time.Now().Before(c.rdl) {
			n.mu.Unlock()
			return 0, opErr("read", c.local, errTimeout)
		}
		sig, dl := c.sig, c.rdl
		n.mu.Unlock()
		wait(sig, dl)
	}
}

// Write implements net.Conn.
func (c *Conn) Write(p []byte) (int, error) {
	n := c.net
	for {
		n.mu.Lock()
		if c.FailWrite != nil {
			err := c.FailWrite
			c.FailWrite = nil
			n.stat("io.write_err")
			n.mu.Unlock()
			return 0, err
		}
		if c.closed {
			n.mu.Unlock()
			return 0, opErr("write", c.local, net.ErrClosed)
		}
		if c.rst {
			n.mu.Unlock()
			return 0, opErr("write", c.local, syscall.EPIPE)
		}
		if !c.wdl.IsZero() && !time.Now().Before(c.wdl) {
			n.mu.Unlock()
			return 0, opErr("write", c.local, errTimeout)
		}
		if w := n.Cfg.Window; w > 0 && c.inflight > 0 && c.inflight+len(p) > w {
			n.stat("tcp.window_full")
			sig, dl := c.sig, c.wdl
			n.mu.Unlock()
			wait(sig, dl)
			continue
		}
		data := make([]byte, len(p))
		copy(data, p)
		c.out = append(c.out, outEntry{at: time.Now(), data: data})
		c.inflight += len(p)
		n.mu.Unlock()
		n.tap(TapEvent{Kind: "tcp.write", Node: c.node.Name, Sock: c.ID, From: c.local, To: c.remote, Data: data})
		n.S.Ping()
		return len(p), nil
	}
}

// Close implements net.Conn: graceful close (FIN after pending data).
func (c *Conn) Close() error {
	n := c.net
	n.mu.Lock()
	if c.closed {
		n.mu.Unlock()
		return opErr("close", c.local, net.ErrClosed)
	}
	c.closed = true
	c.out = append(c.out, outEntry{at: time.Now(), fin: true})
	c.signal()
	// A socket that is closed while it is not reading (stalled: the peer's data is still queued in
	// front of it) resets the connection, as TCP does for a close with unread data: the peer's
	// blocked or later writes fail instead of waiting for a window that will never open.
	stalled := time.Now().Before(c.stallUntil)
	peer := c.peer
	n.mu.Unlock()
	if stalled && peer != nil {
		at := time.Now().Add(n.latency("tcprst", c.ID, 0))
		n.S.At(at, "rst:"+c.ID, func() {
			n.mu.Lock()
			if !peer.rst && !peer.closed {
				peer.rst = true
				peer.inflight = 0
				n.stat("tcp.rst_close_while_stalled")
				peer.signal()
			}
			n.mu.Unlock()
		})
	}
	n.S.Ping()
	return nil
}

// LocalAddr implements net.Conn.
func (c *Conn) LocalAddr() net.Addr { return c.local }

// RemoteAddr implements net.Conn.
func (c *Conn) RemoteAddr() net.Addr { return c.remote }

// SetDeadline implements net.Conn.
func (c *Conn) SetDeadline(t time.Time) error {
	c.net.mu.Lock()
	c.rdl, c.wdl = t, t
	c.signal()
	c.net.mu.Unlock()
	return nil
}

// SetReadDeadline implements net.Conn.
func (c *Conn) SetReadDeadline(t time.Time) error {
	c.net.mu.Lock()
	c.rdl = t
	c.signal()
	c.net.mu.Unlock()
	return nil
}

// SetWriteDeadline implements net.Conn.
func (c *Conn) SetWriteDeadline(t time.Time) error {
	c.net.mu.Lock()
	c.wdl = t
	c.signal()
	c.net.mu.Unlock()
	return nil
}

// Node returns the name of the node owning this endpoint.
func (c *Conn) Node() string { return c.node.Name }

// Peer returns the other endpoint.
func (c *Conn) Peer() *Conn { return c.peer }

// IsClosed reports whether this endpoint was closed locally.
func (c *Conn) IsClosed() bool {
	c.net.mu.Lock()
	defer c.net.mu.Unlock()
	return c.closed
}

// Reset aborts the connection from this endpoint's side: the peer sees
// ECONNRESET after the latency, this side at once (tcp.rst). Called by S.
func (c *Conn) Reset() {
	n := c.net
	n.mu.Lock()
	n.stat("tcp.rst")
	c.rst = true
	c.out = nil
	c.signal()
	p := c.peer
	n.mu.Unlock()
	lat := n.latency("rstlat", c.ID, 0)
	n.S.After(lat, "rst:"+c.ID, func() {
		n.mu.Lock()
		if !p.closed {
			p.rst = true
			p.signal()
		}
		n.mu.Unlock()
	})
}

// Stall postpones deliveries to this endpoint for d (tcp.stall). Called by S.
func (c *Conn) Stall(d time.Duration) {
	c.net.mu.Lock()
	c.net.stat("tcp.stall")
	u := time.Now().Add(d)
	if u.After(c.stallUntil) {
		c.stallUntil = u
	}
	c.net.mu.Unlock()
}

// collectConn turns new outbox entries of c into delivery events. Called by S
// under quiescence, with the lock held.
func (n *Net) collectConn(c *Conn) {
	if len(c.out) == 0 {
		return
	}
	entries := c.out
	c.out = nil
	p := c.peer
	if n.Cfg.Coalesce > 0 && len(entries) > 1 {
		// tcp.coalesce: consecutive writes that are waiting together travel as one byte run (the
		// receiver sees them in one read unless the chunking splits them elsewhere)
		merged := entries[:0:0]
		for _, e := range entries {
			k := len(merged)
			if k > 0 && !e.fin && !merged[k-1].fin &&
				core.Unit(core.HS(n.Cfg.Seed, "coalesce", c.ID, c.nOut+uint64(k))) < n.Cfg.Coalesce {
				merged[k-1].data = append(append([]byte(nil), merged[k-1].data...), e.data...)
				merged[k-1].at = e.at
				n.stat("tcp.coalesce")
				continue
			}
			merged = append(merged, e)
		}
		entries = merged
	}
	for _, e := range entries {
		idx := c.nOut
		c.nOut++
		lat := n.latency("tcplat", c.ID, idx)
		if lat > 0 {
			n.Stats["tcp.delay"]++
		}
		t := e.at.Add(lat)
		if until, ok := n.partUntil(c.node.Name, p.node.Name); ok && t.Before(until) {
			t = until.Add(lat)
			n.stat("tcp.partition")
		}
		if t.Before(c.lastDel) {
			t = c.lastDel
		}
		if t.Before(p.stallUntil) {
			t = p.stallUntil
		}
		if e.fin {
			c.lastDel = t
			sn := c.segSeq
			c.segSeq++
			n.S.At(t, "fin:"+c.ID, func() { n.deliverSeg(c, p, sn, nil, true) })
			continue
		}
		segs := n.segments(c.ID, idx, len(e.data))
		off := 0
		for si, sz := range segs {
			seg := e.data[off : off+sz]
			off += sz
			// consecutive segments are spaced by a small hash-derived gap so that
			// the reader drains (quiescence) between two of them
			if si > 0 {
				t = t.Add(time.Duration(1 + core.HS(n.Cfg.Seed, "seggap", c.ID, idx, uint64(si))%2000))
			}
			sn := c.segSeq
			c.segSeq++
			n.S.At(t, "seg:"+c.ID, func() { n.deliverSeg(c, p, sn, seg, false) })
		}
		c.lastDel = t
	}
}

// deliverSeg applies one delivery decision. Segments of one direction are
// delivered strictly in sequence: one that fires early (after a stall moved
// its predecessor) is held until its turn.
func (n *Net) deliverSeg(src, dst *Conn, sn int, seg []byte, fin bool) {
	n.mu.Lock()
	if src.node.vanished || dst.node.vanished {
		n.mu.Unlock()
		return
	}
	if now := time.Now(); now.Before(dst.stallUntil) {
		until := dst.stallUntil
		n.mu.Unlock()
		n.S.At(until, "stalled:"+src.ID, func() { n.deliverSeg(src, dst, sn, seg, fin) })
		return
	}
	if sn != src.nextSeg {
		if src.held == nil {
			src.held = map[int]heldSeg{}
		}
		src.held[sn] = heldSeg{seg, fin}
		n.mu.Unlock()
		return
	}
	var taps [][]byte
	for {
		if d := n.applySeg(src, dst, seg, fin); d != nil {
			taps = append(taps, d)
		}
		src.nextSeg++
		h, ok := src.held[src.nextSeg]
		if !ok {
			break
		}
		delete(src.held, src.nextSeg)
		seg, fin = h.data, h.fin
	}
	n.mu.Unlock()
	if len(n.taps) > 0 {
		for _, d := range taps {
			n.tap(TapEvent{Kind: "tcp.deliver", Node: dst.node.Name, Sock: dst.ID, From: src.local, To: dst.local, Data: d})
		}
	}
}

// applySeg is called with the lock held; it returns the bytes delivered.
func (n *Net) applySeg(src, dst *Conn, seg []byte, fin bool) []byte {
	if fin {
		if !dst.rst {
			dst.rEOF = true
			dst.signal()
		}
		return nil
	}
	src.inflight -= len(seg)
	if src.inflight < 0 {
		src.inflight = 0
	}
	if src.rst || dst.rst {
		src.signal()
		return nil
	}
	if dst.closed {
		// data for a closed endpoint: the sender learns it through a reset
		src.rst = true
		n.stat("tcp.rst_on_closed_peer")
		src.signal()
		return nil
	}
	if dst.TruncateAfter > 0 && dst.delivered+len(seg) >= dst.TruncateAfter {
		keep := dst.TruncateAfter - dst.delivered
		if keep < 0 {
			keep = 0
		}
		dst.rbuf = append(dst.rbuf, seg[:keep]...)
		dst.delivered += keep
		dst.TruncateAfter = 0
		dst.rEOF = true
		src.rst = true
		n.stat("tcp.truncate_at_offset")
		dst.signal()
		src.signal()
		return seg[:keep]
	}
	dst.rbuf = append(dst.rbuf, seg...)
	dst.delivered += len(seg)
	dst.signal()
	src.signal()
	return seg
}

// ---- listener / dial ---------------------------------------------------------

// Listener is a simulated TCP listener.
type Listener struct {
	net    *Net
	node   *Node
	addr   *net.TCPAddr
	queue  []*Conn
	closed bool
	sig    chan struct{}
	// AcceptErr, when set, is returned once by Accept (accept.err).
	AcceptErr error
}

func (l *Listener) signal() {
	close(l.sig)
	l.sig = make(chan struct{})
}

// Accept implements net.Listener.
func (l *Listener) Accept() (net.Conn, error) {
	n := l.net
	for {
		n.mu.Lock()
		if l.closed {
			n.mu.Unlock()
			return nil, opErr("accept", l.addr, net.ErrClosed)
		}
		if l.AcceptErr != nil {
			err := l.AcceptErr
			l.AcceptErr = nil
			n.stat("accept.err")
			n.mu.Unlock()
			return nil, err
		}
		if len(l.queue) > 0 {
			c := l.queue[0]
			l.queue = l.queue[1:]
			n.mu.Unlock()
			return c, nil
		}
		sig := l.sig
		n.mu.Unlock()
		<-sig
	}
}

// Close implements net.Listener.
func (l *Listener) Close() error {
	n := l.net
	n.mu.Lock()
	if l.closed {
		n.mu.Unlock()
		return opErr("close", l.addr, net.ErrClosed)
	}
	l.closed = true
	delete(n.listeners, l.addr.String())
	// connections still in the accept queue are reset
	for _, c := range l.queue {
		c.closed = true
		c.peer.rst = true
		c.peer.signal()
	}
	l.queue = nil
	l.signal()
	n.mu.Unlock()
	return nil
}

// Addr implements net.Listener.
func (l *Listener) Addr() net.Addr { return l.addr }

// InjectAcceptErr makes the next Accept fail.
func (l *Listener) InjectAcceptErr(err error) {
	l.net.mu.Lock()
	l.AcceptErr = err
	l.signal()
	l.net.mu.Unlock()
}

func splitHostPort(address string) (string, int, error) {
	host, ps, err := net.SplitHostPort(address)
	if err != nil {
		return "", 0, err
	}
	port, err := strconv.Atoi(ps)
	if err != nil || port < 0 || port > 65535 {
		return "", 0, fmt.Errorf("invalid port %q", ps)
	}
	return host, port, nil
}

// Listen is the Server.Listen seam of a node.
func (nd *Node) Listen(network, address string) (net.Listener, error) {
	n := nd.net
	_, port, err := splitHostPort(address)
	if err != nil {
		return nil, err
	}
	n.mu.Lock()
	defer n.mu.Unlock()
	if port == 0 {
		nd.nextPort++
		port = nd.nextPort
	}
	addr := &net.TCPAddr{IP: nd.IP, Port: port}
	if _, ok := n.listeners[addr.String()]; ok {
		return nil, opErr("listen", addr, syscall.EADDRINUSE)
	}
	l := &Listener{net: n, node: nd, addr: addr, sig: make(chan struct{})}
	n.listeners[addr.String()] = l
	return l, nil
}

type dial struct {
	node   *Node
	idx    int
	target *net.TCPAddr
	done   chan struct{}
	conn   *Conn
	err    error
	cancel bool
	at     time.Time
}

// DialContext is the Client.DialContext seam of a node.
func (nd *Node) DialContext(ctx context.Context, network, address string) (net.Conn, error) {
	n := nd.net
	host, port, err := splitHostPort(address)
	if err != nil {
		return nil, err
	}
	ip, err := n.resolve(host)
	if err != nil {
		return nil, err
	}
	if ip == nil {
		ip = nd.IP
	}
	n.mu.Lock()
	d := &dial{node: nd, idx: nd.nDial, target: &net.TCPAddr{IP: ip, Port: port}, done: make(chan struct{}), at: time.Now()}
	nd.nDial++
	n.dials = append(n.dials, d)
	n.mu.Unlock()
	n.S.Ping()
	select {
	case <-d.done:
		if d.err != nil {
			return nil, d.err
		}
		return d.conn, nil
	case <-ctx.Done():
		n.mu.Lock()
		d.cancel = true
		c := d.conn
		n.mu.Unlock()
		if c != nil {
			c.Close()
		}
		n.mu.Lock()
		n.stat("dial.timeout")
		n.mu.Unlock()
		return nil, opErr("dial", d.target, ctx.Err())
	}
}

func (n *Net) collectDial(d *dial) {
	ent := d.node.Name + "#d" + strconv.Itoa(d.idx)
	lat := n.latency("syn", ent, 0)
	t := d.at.Add(lat)
	if until, ok := n.partUntilIP(d.node.Name, d.target.IP); ok && t.Before(until) {
		t = until.Add(lat)
		n.stat("tcp.partition")
	}
	n.S.At(t, "syn:"+ent, func() {
		n.mu.Lock()
		defer n.mu.Unlock()
		if d.cancel {
			return
		}
		l, ok := n.listeners[d.target.String()]
		if !ok || l.closed || l.node.vanished {
			d.err = opErr("dial", d.target, syscall.ECONNREFUSED)
			n.stat("dial.refuse")
			close(d.done)
			return
		}
		d.node.nextPort++
		cl := &net.TCPAddr{IP: d.node.IP, Port: d.node.nextPort}
		now := time.Now()
		c := &Conn{net: n, ID: ent, node: d.node, local: cl, remote: d.target, sig: make(chan struct{}), OpenedAt: now}
		s := &Conn{net: n, ID: ent + "/s", node: l.node, local: d.target, remote: cl, sig: make(chan struct{}), OpenedAt: now}
		c.peer, s.peer = s, c
		n.conns = append(n.conns, c, s)
		l.queue = append(l.queue, s)
		l.signal()
		d.conn = c
		close(d.done)
	})
}

// ---- datagram sockets -------------------------------------------------------

type dgram struct {
	data []byte
	from *net.UDPAddr
}

type outDgram struct {
	at   time.Time
	data []byte
	to   *net.UDPAddr
	from *net.UDPAddr
}

// UDPSock is a simulated UDP socket. It implements net.PacketConn plus the
// SyscallConn / SetReadBuffer methods the library's packetConn wants.
type UDPSock struct {
	net      *Net
	ID       string
	node     *Node
	addr     *net.UDPAddr
	q        []dgram
	out      []outDgram
	nOutTo   map[string]uint64 // per-destination datagram index
	group    bool              // bound to a multicast group address (addr.IP is the group)
	closed   bool
	rdl, wdl time.Time
	sig      chan struct{}
	burst    map[string]int
}

func (u *UDPSock) signal() {
	close(u.sig)
	u.sig = make(chan struct{})
}

// ListenPacket is the ListenPacket seam of a node.
func (nd *Node) ListenPacket(network, address string) (net.PacketConn, error) {
	n := nd.net
	host, port, err := splitHostPort(address)
	if err != nil {
		return nil, err
	}
	n.mu.Lock()
	defer n.mu.Unlock()
	if gip := net.ParseIP(host); gip != nil && gip.IsMulticast() && port != 0 {
		// membership of a multicast group: any number of sockets, on any nodes, may bind the
		// same group address (SO_REUSEADDR semantics); datagrams sent to it reach all of them
		addr := &net.UDPAddr{IP: gip.To4(), Port: port}
		nd.nMcast++
		u := &UDPSock{net: n, ID: nd.Name + ":m" + strconv.Itoa(port) + "#" + strconv.Itoa(nd.nMcast), node: nd, addr: addr, sig: make(chan struct{}),
			nOutTo: map[string]uint64{}, burst: map[string]int{}, group: true}
		n.udps = append(n.udps, u)
		n.stat("udp.mcast_join")
		return u, nil
	}
	if port == 0 {
		for {
			nd.nextPort++
			port = nd.nextPort
			if _, ok := n.udp[(&net.UDPAddr{IP: nd.IP, Port: port}).String()]; !ok {
				break
			}
		}
	}
	addr := &net.UDPAddr{IP: nd.IP, Port: port}
	key := addr.String()
	if n.FailListenPacket[key] {
		n.stat("udp.port_in_use")
		return nil, &net.OpError{Op: "listen", Net: "udp", Addr: addr, Err: syscall.EADDRINUSE}
	}
	if _, ok := n.udp[key]; ok {
		return nil, &net.OpError{Op: "listen", Net: "udp", Addr: addr, Err: syscall.EADDRINUSE}
	}
	u := &UDPSock{net: n, ID: nd.Name + ":u" + strconv.Itoa(port), node: nd, addr: addr, sig: make(chan struct{}),
		nOutTo: map[string]uint64{}, burst: map[string]int{}}
	nd.nUDP++
	n.udp[key] = u
	n.udps = append(n.udps, u)
	return u, nil
}

// ReadFrom implements net.PacketConn.
func (u *UDPSock) ReadFrom(p []byte) (int, net.Addr, error) {
	n := u.net
	for {
		n.mu.Lock()
		if u.closed {
			n.mu.Unlock()
			return 0, nil, &net.OpError{Op: "read", Net: "udp", Addr: u.addr, Err: net.ErrClosed}
		}
		if !u.rdl.IsZero() && !time.Now().Before(u.rdl) {
			n.mu.Unlock()
			return 0, nil, &net.OpError{Op: "read", Net: "udp", Addr: u.addr, Err: errTimeout}
		}
		if len(u.q) > 0 {
			d := u.q[0]
			u.q = u.q[1:]
			n.mu.Unlock()
			k := copy(p, d.data)
			return k, d.from, nil
		}
		sig, dl := u.sig, u.rdl
		n.mu.Unlock()
		wait(sig, dl)
	}
}

// WriteTo implements net.PacketConn.
func (u *UDPSock) WriteTo(p []byte, addr net.Addr) (int, error) {
	ua, ok := addr.(*net.UDPAddr)
	if !ok || ua == nil {
		return 0, &net.OpError{Op: "write", Net: "udp", Addr: u.addr, Err: errors.New("invalid address")}
	}
	if ua.Port == 0 {
		// sendto() to port 0 fails with EINVAL on Linux
		u.net.mu.Lock()
		u.net.stat("udp.write_port0_einval")
		u.net.mu.Unlock()
		return 0, &net.OpError{Op: "write", Net: "udp", Addr: ua, Err: syscall.EINVAL}
	}
	if u.group {
		return u.writeFrom(p, ua, &net.UDPAddr{IP: u.node.IP, Port: u.addr.Port})
	}
	return u.writeFrom(p, ua, u.addr)
}

// WriteFromTo sends a datagram with a forged source address (udp.spoof).
func (u *UDPSock) WriteFromTo(p []byte, from, to *net.UDPAddr) (int, error) {
	u.net.mu.Lock()
	u.net.stat("udp.spoof")
	u.net.mu.Unlock()
	return u.writeFrom(p, to, from)
}

func (u *UDPSock) writeFrom(p []byte, to, from *net.UDPAddr) (int, error) {
	n := u.net
	n.mu.Lock()
	if u.closed {
		n.mu.Unlock()
		return 0, &net.OpError{Op: "write", Net: "udp", Addr: u.addr, Err: net.ErrClosed}
	}
	data := make([]byte, len(p))
	copy(data, p)
	ip := to.IP
	if v4 := ip.To4(); v4 != nil {
		ip = v4
	}
	u.out = append(u.out, outDgram{at: time.Now(), data: data, to: &net.UDPAddr{IP: ip, Port: to.Port}, from: from})
	n.mu.Unlock()
	n.tap(TapEvent{Kind: "udp.send", Node: u.node.Name, Sock: u.ID, From: from, To: to, Data: data})
	n.S.Ping()
	return len(p), nil
}

// Close implements net.PacketConn.
func (u *UDPSock) Close() error {
	n := u.net
	n.mu.Lock()
	if u.closed {
		n.mu.Unlock()
		return &net.OpError{Op: "close", Net: "udp", Addr: u.addr, Err: net.ErrClosed}
	}
	u.closed = true
	if !u.group {
		delete(n.udp, u.addr.String())
	}
	u.signal()
	n.mu.Unlock()
	return nil
}

// LocalAddr implements net.PacketConn.
func (u *UDPSock) LocalAddr() net.Addr { return u.addr }

// SetDeadline implements net.PacketConn.
func (u *UDPSock) SetDeadline(t time.Time) error {
	u.net.mu.Lock()
	u.rdl, u.wdl = t, t
	u.signal()
	u.net.mu.Unlock()
	return nil
}

// SetReadDeadline implements net.PacketConn.
func (u *UDPSock) SetReadDeadline(t time.Time) error {
	u.net.mu.Lock()
	u.rdl = t
	u.signal()
	u.net.mu.Unlock()
	return nil
}

// SetWriteDeadline implements net.PacketConn.
func (u *UDPSock) SetWriteDeadline(t time.Time) error {
	u.net.mu.Lock()
	u.wdl = t
	u.net.mu.Unlock()
	return nil
}

// SyscallConn is a stub (the library only uses it to set socket options).
func (u *UDPSock) SyscallConn() (syscall.RawConn, error) {
	return nil, errors.New("simnet: no raw conn")
}

// SetReadBuffer is a stub.
func (u *UDPSock) SetReadBuffer(int) error { return nil }

func (n *Net) collectUDP(u *UDPSock) {
	if len(u.out) == 0 {
		return
	}
	out := u.out
	u.out = nil
	for _, d := range out {
		// Fate is keyed by (socket, destination, per-destination index): the
		// order in which independent goroutines (one per reader) share a server
		// socket then does not change anybody's fate.
		dst := d.to.String()
		idx := u.nOutTo[dst]
		u.nOutTo[dst] = idx + 1
		ent := u.ID + ">" + dst
		h := core.HS(n.Cfg.Seed, "udpfate", ent, idx)
		if u.burst[dst] > 0 {
			u.burst[dst]--
			n.stat("udp.burst_drop")
			continue
		}
		if n.Cfg.UDPBurst > 0 && core.Unit(core.Mix(h^1)) < n.Cfg.UDPBurst {
			u.burst[dst] = n.Cfg.BurstLen - 1
			n.stat("udp.burst_drop")
			continue
		}
		if n.Cfg.UDPDrop > 0 && core.Unit(h) < n.Cfg.UDPDrop {
			n.stat("udp.drop")
			continue
		}
		if until, ok := n.partUntilIP(u.node.Name, d.to.IP); ok && d.at.Before(until) {
			n.stat("udp.partition_drop")
			continue
		}
		lat := n.latency("udplat", ent, idx)
		if n.Cfg.UDPReorder > 0 && core.Unit(core.Mix(h^2)) < n.Cfg.UDPReorder {
			lat += time.Duration(1+core.Mix(h^3)%uint64(max(n.Cfg.UDPJitUS, 1))) * time.Microsecond
			n.stat("udp.reorder")
		}
		data := d.data
		if n.Cfg.UDPCorrupt > 0 && core.Unit(core.Mix(h^4)) < n.Cfg.UDPCorrupt && len(data) > 0 {
			data = append([]byte(nil), data...)
			pos := int(core.Mix(h^5) % uint64(len(data)))
			if core.Mix(h^6)%2 == 0 {
				data[pos] ^= 1 << (core.Mix(h^7) % 8)
			} else {
				data[pos] ^= byte(1 + core.Mix(h^7)%255)
			}
			n.stat("udp.corrupt")
		}
		dd := d
		n.S.At(d.at.Add(lat), "dgram:"+u.ID, func() { n.deliverDgram(u, dd.from, dd.to, data) })
		if n.Cfg.UDPDup > 0 && core.Unit(core.Mix(h^8)) < n.Cfg.UDPDup {
			n.stat("udp.dup")
			lat2 := lat + time.Duration(1+core.Mix(h^9)%uint64(max(n.Cfg.UDPJitUS, 1)))*time.Microsecond
			n.S.At(d.at.Add(lat2), "dgramdup:"+u.ID, func() { n.deliverDgram(u, dd.from, dd.to, data) })
		}
	}
}

func (n *Net) deliverDgram(src *UDPSock, from, to *net.UDPAddr, data []byte) {
	if to.IP.IsMulticast() {
		n.deliverGroup(src, from, to, data)
		return
	}
	n.mu.Lock()
	dst, ok := n.udp[to.String()]
	if ok && dst.node.udpBlack {
		n.stat("udp.blackhole")
		n.mu.Unlock()
		return
	}
	if !ok || dst.closed || dst.node.vanished {
		n.stat("udp.noport")
		n.mu.Unlock()
		return
	}
	f := &net.UDPAddr{IP: from.IP, Port: from.Port, Zone: from.Zone}
	if n.Cfg.UDPIPv6Form {
		f.IP = f.IP.To16()
	} else if v4 := f.IP.To4(); v4 != nil {
		f.IP = v4
	}
	dst.q = append(dst.q, dgram{data: data, from: f})
	dst.signal()
	n.mu.Unlock()
	if len(n.taps) > 0 {
		n.tap(TapEvent{Kind: "udp.deliver", Node: dst.node.Name, Sock: dst.ID, From: from, To: to, Data: data})
	}
}

// deliverGroup hands a datagram sent to a multicast group to every live member socket (the
// sender's own membership included: multicast loop-back), in creation order.
func (n *Net) deliverGroup(src *UDPSock, from, to *net.UDPAddr, data []byte) {
	n.mu.Lock()
	f := &net.UDPAddr{IP: from.IP, Port: from.Port, Zone: from.Zone}
	if v4 := f.IP.To4(); v4 != nil {
		f.IP = v4
	}
	var got []*UDPSock
	for _, u := range n.udps {
		if !u.group || u.closed || u.node.vanished || u.addr.Port != to.Port || !u.addr.IP.Equal(to.IP) {
			continue
		}
		if _, ok := n.partUntil(src.node.Name, u.node.Name); ok {
			n.stat("udp.partition_drop")
			continue
		}
		u.q = append(u.q, dgram{data: data, from: f})
		u.signal()
		got = append(got, u)
	}
	if len(got) == 0 {
		n.stat("udp.noport")
	} else {
		n.stat("udp.mcast_deliver")
	}
	n.mu.Unlock()
	if len(n.taps) > 0 {
		for _, u := range got {
			n.tap(TapEvent{Kind: "udp.deliver", Node: u.node.Name, Sock: u.ID, From: from, To: to, Data: data})
		}
	}
}

// ---- partitions, vanish ---------------------------------------------------------

func partKey(a, b string) string {
	if a > b {
		a, b = b, a
	}
	return a + "|" + b
}

// Partition stops all delivery between two nodes for d (tcp.partition).
func (n *Net) Partition(a, b string, d time.Duration) {
	n.mu.Lock()
	n.parts[partKey(a, b)] = time.Now().Add(d)
	n.mu.Unlock()
}

func (n *Net) partUntil(a, b string) (time.Time, bool) {
	u, ok := n.parts[partKey(a, b)]
	if !ok || !time.Now().Before(u) {
		return time.Time{}, false
	}
	return u, true
}

func (n *Net) partUntilIP(a string, ip net.IP) (time.Time, bool) {
	if nd, ok := n.byIP[ip.String()]; ok {
		return n.partUntil(a, nd.Name)
	}
	return time.Time{}, false
}

// BlackholeUDPTo drops every datagram addressed to a node (a firewall that lets the TCP control
// connection through and nothing else).
func (n *Net) BlackholeUDPTo(name string) {
	n.mu.Lock()
	defer n.mu.Unlock()
	if nd := n.nodes[name]; nd != nil {
		nd.udpBlack = true
	}
}

// Vanish makes a node disappear silently: its sockets stop sending and
// receiving, without FIN or RST (node.vanish).
func (n *Net) Vanish(name string) {
	n.mu.Lock()
	defer n.mu.Unlock()
	nd := n.nodes[name]
	if nd == nil {
		return
	}
	nd.vanished = true
	n.stat("node.vanish")
	for _, c := range n.conns {
		if c.node == nd {
			c.out = nil
		}
	}
}

// ---- collection and census -----------------------------------------------------

func (n *Net) collect() {
	n.mu.Lock()
	defer n.mu.Unlock()
	if len(n.dials) > 0 {
		ds := n.dials
		n.dials = nil
		sort.SliceStable(ds, func(i, j int) bool {
			if ds[i].node.Name != ds[j].node.Name {
				return ds[i].node.Name < ds[j].node.Name
			}
			return ds[i].idx < ds[j].idx
		})
		for _, d := range ds {
			if d.node.vanished {
				continue
			}
			n.collectDial(d)
		}
	}
	// canonical order: by socket id
	var cs []*Conn
	for _, c := range n.conns {
		if len(c.out) > 0 {
			cs = append(cs, c)
		}
	}
	sort.Slice(cs, func(i, j int) bool { return cs[i].ID < cs[j].ID })
	for _, c := range cs {
		if c.node.vanished {
			c.out = nil
			continue
		}
		n.collectConn(c)
	}
	var us []*UDPSock
	for _, u := range n.udps {
		if len(u.out) > 0 {
			us = append(us, u)
		}
	}
	sort.Slice(us, func(i, j int) bool { return us[i].ID < us[j].ID })
	for _, u := range us {
		if u.node.vanished {
			u.out = nil
			continue
		}
		n.collectUDP(u)
	}
	// forget sockets that are closed on both sides and drained
	if len(n.conns) > 64 {
		keep := n.conns[:0]
		for _, c := range n.conns {
			if c.closed && c.peer.closed && len(c.out) == 0 && len(c.peer.out) == 0 {
				continue
			}
			keep = append(keep, c)
		}
		n.conns = keep
	}
}

// OpenSockets lists what a node still has open: listeners, stream endpoints
// not closed locally, datagram sockets (socket census, DESIGN 2.8).
func (n *Net) OpenSockets(node string) []string {
	n.mu.Lock()
	defer n.mu.Unlock()
	var out []string
	for k, l := range n.listeners {
		if l.node.Name == node && !l.closed {
			out = append(out, "listener "+k)
		}
	}
	for _, c := range n.conns {
		if c.node.Name == node && !c.closed {
			out = append(out, "conn "+c.ID+" "+c.local.String()+"->"+c.remote.String())
		}
	}
	for _, u := range n.udps {
		if u.node.Name == node && !u.closed {
			out = append(out, "udp "+u.addr.String())
		}
	}
	sort.Strings(out)
	return out
}

// Conns returns the stream endpoints of a node (in creation order).
func (n *Net) Conns(node string) []*Conn {
	n.mu.Lock()
	defer n.mu.Unlock()
	var out []*Conn
	for _, c := range n.conns {
		if c.node.Name == node {
			out = append(out, c)
		}
	}
	return out
}

// UDPSockets returns the open datagram sockets of a node.
func (n *Net) UDPSockets(node string) []*UDPSock {
	n.mu.Lock()
	defer n.mu.Unlock()
	var out []*UDPSock
	for _, u := range n.udps {
		if u.node.Name == node && !u.closed {
			out = append(out, u)
		}
	}
	return out
}

// InFlight reports whether any stream data or FIN is still undelivered.
func (n *Net) InFlight() bool {
	n.mu.Lock()
	defer n.mu.Unlock()
	for _, c := range n.conns {
		if len(c.out) > 0 || (c.inflight > 0 && !c.rst && !c.peer.closed) {
			return true
		}
	}
	return false
}

// StatsCopy returns a copy of the fired-fault counters.
func (n *Net) StatsCopy() map[string]int {
	n.mu.Lock()
	defer n.mu.Unlock()
	out := map[string]int{}
	for k, v := range n.Stats {
		out[k] = v
	}
	return out
}
